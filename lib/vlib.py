"""Common machinery for the /verif checks (python3, stdlib only).

Every check is a python module checks/cXX.py exposing run(ctx).  The Ctx
object gives it: compilation of harnesses straight from /repo's working tree
(hooks on: -DUPIPE_VERIF), TLC runs (exhaustive / simulation / trace
validation), the verdict rule of DESIGN.md 2.2 (violations only from real-code
executions; known findings; tool errors are ERROR / exit 2) and the evidence
writer.
"""
import json, os, re, shutil, subprocess, sys, time, hashlib, glob

ROOT = os.path.dirname(os.path.dirname(os.path.abspath(__file__)))
REPO = os.environ.get("VERIF_REPO", "/repo")
SPEC = os.path.join(ROOT, "spec")
HARNESS = os.path.join(ROOT, "harness")
TLA_JAR = "/opt/veriftools/tla/tla2tools.jar"
TLA_CP = TLA_JAR + ":/opt/veriftools/tla/CommunityModules-deps.jar"

BASE_CFLAGS = ["-std=gnu99", "-O1", "-g", "-DHAVE_CONFIG_H", "-DUPIPE_VERIF",
               "-D_GNU_SOURCE", "-I" + REPO, "-I" + os.path.join(REPO, "include"),
               "-I" + HARNESS, "-Wno-unused-function", "-fno-strict-aliasing"]
if os.path.realpath(REPO) != "/repo":
    # a git worktree lacks the generated config.h files: fall back to /repo's
    BASE_CFLAGS += ["-idirafter", "/repo", "-idirafter", "/repo/include"]


class ToolError(Exception):
    pass


class TLCResult:
    def __init__(self, rc, out, wall):
        self.rc = rc
        self.out = out
        self.wall = wall
        self.generated = 0
        self.distinct = 0
        self.depth = 0
        m = None
        for m in re.finditer(r"(\d+) states generated, (\d+) distinct states found", out):
            pass
        if m:
            self.generated = int(m.group(1))
            self.distinct = int(m.group(2))
        m = re.search(r"The depth of the complete state graph search is (\d+)", out)
        if m:
            self.depth = int(m.group(1))
        self.violated = re.findall(r"Error: Invariant (\S+) is violated", out)
        self.violated += re.findall(r"Error: Action property (\S+) is violated", out)
        if "Temporal properties were violated" in out:
            self.violated.append("<temporal>")
        self.deadlock = "Deadlock reached" in out
        self.postcondition_failed = "Postcondition" in out and "violated" in out \
            or "POSTCONDITION" in out and "violated" in out
        self.ok = (rc == 0)
        # coverage: action name -> (taken, generated)   (lines "<Name line ...>: d:g")
        self.coverage = {}
        for mm in re.finditer(r"^<(\w+) line [^>]*>: (\d+):(\d+)", out, re.M):
            n = mm.group(1)
            a, b = int(mm.group(2)), int(mm.group(3))
            o = self.coverage.get(n, (0, 0))
            self.coverage[n] = (max(o[0], a), max(o[1], b))
        self.printed = re.findall(r'^<<"(\w+)", (.*)>>$', out, re.M)

    def last_value(self, var):
        """Text of the value of variable `var` in the last state printed in a
        counterexample (handles values wrapped over several lines)."""
        i = self.out.rfind("/\\ %s = " % var)
        if i < 0:
            return None
        j = self.out.find("\n/\\ ", i + 1)
        k = self.out.find("\n\n", i + 1)
        ends = [x for x in (j, k) if x >= 0]
        end = min(ends) if ends else len(self.out)
        return " ".join(self.out[i + len(var) + 6:end].split())

    def last_seq(self, var):
        v = self.last_value(var)
        if v is None:
            return None
        return [int(x) for x in re.findall(r"-?\d+", v)]

    def beh(self, tag="BEH"):
        """JSON payloads printed with PrintT(<<tag, ToJson(x)>>)."""
        res = []
        for t, payload in self.printed:
            if t != tag:
                continue
            payload = payload.strip()
            if payload.startswith('"') and payload.endswith('"'):
                # TLC prints the string with TLA+ escaping: \" and \\
                body = payload[1:-1].replace('\\"', '"').replace("\\\\", "\\")
                try:
                    res.append(json.loads(body))
                except Exception:
                    pass
        return res


class Ctx:
    def __init__(self, pid, tier, seed, level="model_checking"):
        self.pid = pid
        self.tier = tier
        self.seed = seed
        self.level = level
        self.t0 = time.time()
        # VERIF_BUILD_TAG: suffix of the build directory, so that several runs of the same check (mutation
        # lanes, a background thorough run) do not clobber each other
        self.build = os.path.join(ROOT, "build", pid + os.environ.get("VERIF_BUILD_TAG", ""))
        shutil.rmtree(self.build, ignore_errors=True)
        os.makedirs(self.build, exist_ok=True)
        os.makedirs(os.path.join(ROOT, "evidence"), exist_ok=True)
        os.makedirs(os.path.join(ROOT, "replays"), exist_ok=True)
        self.states = 0
        self.transitions = 0
        self.traces = 0
        self.evaluations = 0
        self.samples = []
        self.extra = {}
        self.assumptions = []
        self.trusted = []
        self.violations = []      # (key, what, replay_path)
        self.known_hits = []
        self.models = []
        self.exhaustive = None
        self.notes = []
        self.known = load_known()
        self.quick = (tier == "quick")

    # ------------------------------------------------------------------ build
    def cc(self, out, srcs, flags=(), libs=(), san=None, cxx=False, timeout=600):
        """Compile srcs (absolute, or relative to /verif/harness or /repo) to
        build/<pid>/<out>."""
        paths = []
        for s in srcs:
            if os.path.isabs(s):
                paths.append(s)
            elif os.path.exists(os.path.join(HARNESS, s)):
                paths.append(os.path.join(HARNESS, s))
            else:
                paths.append(os.path.join(REPO, s))
        cmd = ["gcc"] + BASE_CFLAGS + list(flags)
        if san == "asan":
            cmd += ["-fsanitize=address,undefined", "-fno-omit-frame-pointer",
                    "-fno-sanitize-recover=undefined"]
        elif san == "ubsan":
            cmd += ["-fsanitize=undefined", "-fno-sanitize-recover=undefined"]
        elif san == "tsan":
            cmd += ["-fsanitize=thread"]
        outp = os.path.join(self.build, out)
        cmd += paths + ["-o", outp] + list(libs)
        r = subprocess.run(cmd, capture_output=True, text=True, timeout=timeout)
        if r.returncode != 0:
            raise ToolError("compile failed: %s\n%s" % (" ".join(cmd), r.stderr[-4000:]))
        return outp

    def cc_objs(self, srcs, flags=(), san=None, tag="o"):
        """Compile many sources to objects in parallel; returns object paths."""
        procs = []
        objs = []
        d = os.path.join(self.build, tag)
        os.makedirs(d, exist_ok=True)
        for s in srcs:
            p = s if os.path.isabs(s) else (os.path.join(HARNESS, s) if os.path.exists(os.path.join(HARNESS, s)) else os.path.join(REPO, s))
            o = os.path.join(d, re.sub(r"[^A-Za-z0-9_]", "_", os.path.relpath(p, "/")) + ".o")
            cmd = ["gcc"] + BASE_CFLAGS + list(flags)
            if san == "asan":
                cmd += ["-fsanitize=address,undefined", "-fno-omit-frame-pointer", "-fno-sanitize-recover=undefined"]
            elif san == "ubsan":
                cmd += ["-fsanitize=undefined", "-fno-sanitize-recover=undefined"]
            elif san == "tsan":
                cmd += ["-fsanitize=thread"]
            cmd += ["-c", p, "-o", o]
            procs.append((subprocess.Popen(cmd, stdout=subprocess.PIPE, stderr=subprocess.PIPE, text=True), cmd))
            objs.append(o)
            if len(procs) >= 16:
                self._drain(procs)
        self._drain(procs)
        return objs

    def _drain(self, procs):
        while procs:
            p, cmd = procs.pop(0)
            _, err = p.communicate()
            if p.returncode != 0:
                raise ToolError("compile failed: %s\n%s" % (" ".join(cmd), err[-4000:]))

    def run(self, cmd, timeout=300, input=None, env=None, check=False, cwd=None):
        e = dict(os.environ)
        if env:
            e.update(env)
        try:
            r = subprocess.run(cmd, capture_output=True, text=True, timeout=timeout,
                               input=input, env=e, cwd=cwd, errors="replace")
        except subprocess.TimeoutExpired as ex:
            class R:
                pass
            r = R()
            r.returncode = 124
            r.stdout = (ex.stdout or b"").decode("utf8", "replace") if isinstance(ex.stdout, bytes) else (ex.stdout or "")
            r.stderr = "TIMEOUT"
        if check and r.returncode != 0:
            raise ToolError("command failed rc=%d: %s\n%s" % (r.returncode, cmd, (r.stderr or "")[-3000:]))
        return r

    # -------------------------------------------------------------------- TLC
    def tlc(self, module, cfg, workers=1, simulate=None, depth=None, env=None,
            timeout=900, coverage=False, heap="4g", deadlock=None, dfs_queue=False,
            count=True, name=None, extra=(), seed=None):
        """Run TLC on spec/<module>.tla with spec/<cfg>.  simulate = num of
        behaviours (per worker).  Returns TLCResult; raises ToolError on
        parse errors / crashes / timeouts (anything that is not OK or a
        property verdict)."""
        meta = os.path.join(self.build, "tlc_%s_%d" % (re.sub(r"\W", "_", name or cfg), int(time.time() * 1000) % 1000000))
        cmd = ["java", "-XX:+UseParallelGC", "-Xmx" + heap]
        if dfs_queue:
            cmd += ["-Dtlc2.tool.queue.IStateQueue=StateDeque"]
        cmd += ["-cp", TLA_CP, "tlc2.TLC", "-workers", str(workers), "-metadir", meta,
                "-config", os.path.join(SPEC, cfg)]
        if simulate is not None:
            cmd += ["-simulate", "num=%d" % simulate]
            cmd += ["-depth", str(depth or 100)]
            cmd += ["-seed", str(seed if seed is not None else self.seed)]
        if coverage:
            cmd += ["-coverage", "1"]
        if deadlock is False:
            cmd += ["-deadlock"]
        cmd += list(extra)
        cmd += [os.path.join(SPEC, module + ".tla")]
        t = time.time()
        r = self.run(cmd, timeout=timeout, env=env, cwd=SPEC)
        if r.returncode not in (0, 12, 13, 124) and "Parsing or semantic analysis failed" not in (r.stdout or ""):
            # TLC itself failed (a Java exception - out of memory on a loaded machine - or an evaluation error):
            # one more attempt tells the two apart; the first lines that name the error are kept for the report
            first = [ln for ln in (r.stdout or "").splitlines() if ln.startswith("Error:") or "Exception" in ln
                     or "OutOfMemory" in ln][:6]
            shutil.rmtree(meta, ignore_errors=True)
            time.sleep(5)
            r = self.run(cmd, timeout=timeout, env=env, cwd=SPEC)
            if r.returncode not in (0, 12, 13):
                r.stdout = "first attempt: " + " | ".join(first) + "\n" + (r.stdout or "")
            else:
                self.notes.append("a TLC run (%s/%s) failed once (%s) and succeeded when repeated" %
                                  (module, cfg, "; ".join(first)[:300] or "rc"))
        shutil.rmtree(meta, ignore_errors=True)
        for f in glob.glob(os.path.join(SPEC, "*_TTrace_*")) + glob.glob(os.path.join(SPEC, "*.dump")):
            try:
                os.remove(f)
            except OSError:
                pass
        res = TLCResult(r.returncode, r.stdout + "\n" + (r.stderr or ""), time.time() - t)
        if r.returncode == 124:
            raise ToolError("TLC timeout on %s/%s" % (module, cfg))
        if r.returncode not in (0, 12, 13) or "Parsing or semantic analysis failed" in res.out:
            raise ToolError("TLC error rc=%d on %s/%s:\n%s" % (r.returncode, module, cfg, res.out[-3000:]))
        if count and simulate is None:
            self.states += res.distinct
            self.transitions += res.generated
        self.models.append({"module": module, "cfg": cfg, "mode": "simulate" if simulate else "bfs",
                            "distinct": res.distinct, "generated": res.generated,
                            "depth": res.depth, "wall_s": round(res.wall, 1),
                            "violated": res.violated})
        return res

    def model_must_hold(self, res, what):
        """An exhaustive run of a model whose invariants are supposed to hold.
        A violated model invariant is not a verdict about the code: it is a
        model error (ERROR, exit 2) unless the check replays it on the code."""
        if res.violated or res.deadlock or res.rc != 0:
            raise ToolError("model %s: unexpected TLC result (violated=%s deadlock=%s rc=%d)\n%s"
                            % (what, res.violated, res.deadlock, res.rc, res.out[-2500:]))

    def require_coverage(self, res, actions):
        missing = [a for a in actions if res.coverage.get(a, (0, 0))[0] == 0]
        if missing:
            raise ToolError("vacuity: actions never taken: %s" % missing)

    def validate_trace(self, module, cfg, trace_path, nlines=None, timeout=600, heap="4g",
                       dfs_queue=True, name=None, workers=1):
        """Trace validation: module reads IOEnv.TRACE; cfg has POSTCONDITION
        Accepted (diameter reaches the end of the trace) and the property
        invariants.  Returns (accepted, res, failing_line)."""
        res = self.tlc(module, cfg, workers=workers, env={"TRACE": trace_path}, timeout=timeout,
                       heap=heap, deadlock=False, dfs_queue=dfs_queue, count=False,
                       name=name or ("trace_" + os.path.basename(trace_path)))
        line = None
        m = re.search(r'"TRACE_REJECTED_AT", (\d+)', res.out)
        if m:
            line = int(m.group(1))
        accepted = (res.rc == 0 and not res.violated and line is None
                    and "TRACE_ACCEPTED" in res.out)
        return accepted, res, line

    def validate_histories(self, module, cfg, hists, max_reject=8, timeout=900, heap="4g", tag="h"):
        """hists: list of executions, each a list of event dicts whose first
        event is the Reset line.  Returns the indices of rejected executions
        (an execution is rejected when the trace module cannot consume one of
        its lines or a property invariant is false in one of its states)."""
        rejected = []
        start = 0
        rnd = 0
        while start < len(hists):
            path = os.path.join(self.build, "%s_%d.ndjson" % (tag, rnd))
            rnd += 1
            with open(path, "w") as f:
                for h in hists[start:]:
                    for e in h:
                        f.write(json.dumps(e, separators=(",", ":")) + "\n")
            accepted, res, line = self.validate_trace(module, cfg, path, timeout=timeout, heap=heap)
            if accepted:
                self.traces += len(hists) - start
                break
            if line is None:
                if res.violated:
                    ls = re.findall(r"^/\\ l = (\d+)", res.out, re.M)
                    if not ls:
                        raise ToolError("trace validation: invariant violated but no position\n" + res.out[-2000:])
                    line = int(ls[-1]) - 1
                else:
                    raise ToolError("trace validation gave no verdict\n" + res.out[-2000:])
            # map line (1-based) to execution
            acc = 0
            k = None
            for i, h in enumerate(hists[start:]):
                if line <= acc + len(h):
                    k = i
                    break
                acc += len(h)
            if k is None:
                raise ToolError("trace validation: rejected line %d beyond trace" % line)
            rejected.append((start + k, line - acc, list(res.violated)))
            self.traces += k
            start = start + k + 1
            if len(rejected) >= max_reject:
                break
        return rejected

    def validate_histories_1pass(self, module, cfg, hists, timeout=1800, heap="6g", tag="h1"):
        """Single-pass variant for trace modules that record rejected
        executions instead of stopping (they print <<"TRACE_BAD", {<<hid, line>>..}>>;
        the Reset event of execution i gets "hid": i).  Returns
        [(index, line_in_execution, [])]."""
        path = os.path.join(self.build, "%s.ndjson" % tag)
        starts = []
        n = 1
        with open(path, "w") as f:
            for i, h in enumerate(hists):
                starts.append(n)
                for k, e in enumerate(h):
                    if k == 0:
                        e = dict(e)
                        e["hid"] = i
                    f.write(json.dumps(e, separators=(",", ":")) + "\n")
                n += len(h)
        accepted, res, line = self.validate_trace(module, cfg, path, timeout=timeout, heap=heap)
        if not accepted:
            raise ToolError("single-pass trace validation did not consume the trace (line %s)\n%s" % (line, res.out[-2000:]))
        m = re.search(r'"TRACE_BAD",\s*\{(.*?)\}\s*>>', res.out, re.S)
        if not m:
            raise ToolError("single-pass trace validation: no TRACE_BAD report\n" + res.out[-2000:])
        bad = [(int(a), int(b)) for a, b in re.findall(r"<<(\d+), (\d+)>>", m.group(1))]
        self.traces += len(hists)
        return sorted((i, ln - starts[i] + 1, []) for i, ln in bad)

    # ---------------------------------------------------------------- verdict
    def violation(self, key, what, replay_obj):
        """Report a violation observed on the real code (after the caller
        has reproduced it).  Known findings are matched by key."""
        for k in self.known:
            if k.get("property") == self.pid and k.get("status") == "known" and k.get("key") == key:
                if key not in [h[0] for h in self.known_hits]:
                    self.known_hits.append((key, k.get("what", what)))
                    print("KNOWN-FINDING: property=%s %s [key=%s]" % (self.pid, k.get("what", what), key))
                return False
        if key in [v[0] for v in self.violations]:
            return True
        h = hashlib.sha1(key.encode()).hexdigest()[:10]
        path = os.path.join(ROOT, "replays", "%s_%s.json" % (self.pid, h))
        with open(path, "w") as f:
            json.dump({"property": self.pid, "key": key, "what": what, "seed": self.seed,
                       "tier": self.tier, "replay": replay_obj}, f, indent=1, default=str)
        self.violations.append((key, what, path))
        return True

    def sample(self, obj, limit=6):
        if len(self.samples) < limit:
            self.samples.append(obj)

    # --------------------------------------------------------------- evidence
    def finish(self):
        wall = time.time() - self.t0
        cov = {
            "states": self.states,
            "transitions": self.transitions,
            "traces_validated_against_impl": self.traces,
            "samples": self.samples[:8] if self.samples else ["(no sample recorded)"],
            "evaluations": max(self.evaluations, self.traces),
            "models": self.models,
            "trusted_base": self.trusted,
            "known_findings_hit": [k for k, _ in self.known_hits],
        }
        if self.exhaustive is not None:
            cov["exhaustive"] = bool(self.exhaustive)
        cov.update(self.extra)
        ev = {
            "property_id": self.pid,
            "tier": self.tier,
            "seed": self.seed,
            "level": self.level,
            "coverage": cov,
            "assumptions": self.assumptions,
            "wall_s": round(wall, 2),
            "violations": len(self.violations),
        }
        if self.notes:
            ev["notes"] = self.notes
        evdir = os.path.join(ROOT, "evidence")
        if os.path.realpath(REPO) != "/repo":
            # a run against a scratch copy (mutation / seeded change) must not
            # overwrite the evidence of the real tree
            evdir = os.path.join("/tmp", "verif_alt_evidence")
            os.makedirs(evdir, exist_ok=True)
        with open(os.path.join(evdir, self.pid + ".json"), "w") as f:
            json.dump(ev, f, indent=1, default=str)
        if not os.environ.get("VERIF_KEEP_BUILD"):      # debugging aid: keep the binaries and traces
            shutil.rmtree(self.build, ignore_errors=True)
        for key, what, path in self.violations:
            print("VIOLATION property=%s replay=%s" % (self.pid, path))
            print("  what: %s" % what)
        if self.violations:
            return 1
        print("OK property=%s tier=%s states=%d traces=%d wall=%.1fs known=%d" %
              (self.pid, self.tier, self.states, self.traces, wall, len(self.known_hits)))
        return 0


def load_known():
    p = os.path.join(ROOT, "KNOWN_FINDINGS.json")
    if not os.path.exists(p):
        return []
    with open(p) as f:
        return json.load(f).get("findings", [])


def write_ndjson(path, events):
    with open(path, "w") as f:
        for e in events:
            f.write(json.dumps(e, separators=(",", ":")) + "\n")


class Rng:
    """xorshift64* seeded PRNG (independent of python's random for
    reproducibility across versions)."""
    def __init__(self, seed):
        self.s = (seed * 0x9E3779B97F4A7C15 + 0x1234567) & 0xFFFFFFFFFFFFFFFF or 1

    def next(self):
        x = self.s
        x ^= (x >> 12)
        x ^= (x << 25) & 0xFFFFFFFFFFFFFFFF
        x ^= (x >> 27)
        self.s = x
        return (x * 0x2545F4914F6CDD1D) & 0xFFFFFFFFFFFFFFFF

    def below(self, n):
        return self.next() % n

    def choice(self, seq):
        return seq[self.below(len(seq))]

    def chance(self, num, den):
        return self.below(den) < num
