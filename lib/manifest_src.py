"""Source of MANIFEST.json (bin/mkmanifest).  One entry per claimed property;
every other property must have a reason in NOT_APPLICABLE."""

HOOK_COMMITS = ["796cc2b", "7ed951f", "4e6e4b1", "3ccd8b4"]

NOTES = ("Model-based verification with explicit TLA+ specifications (spec/), TLC, and conformance "
         "harnesses (harness/) compiled from /repo's working tree. See DESIGN.md. Verdict rule: VIOLATION "
         "only for executions of the real code rejected by the abstract specification and reproduced from "
         "their replay file; tool errors exit 2 with ERROR.")

import json, os, glob
# properties whose check has been reviewed and is claimed
READY = ["C%02d" % i for i in range(1, 21)]
CHECKS = {}
for _f in sorted(glob.glob(os.path.join(os.path.dirname(os.path.dirname(os.path.abspath(__file__))), "manifest.d", "C*.json"))):
    if os.path.basename(_f)[:-5] in READY:
        CHECKS[os.path.basename(_f)[:-5]] = json.load(open(_f))

NOT_APPLICABLE = {
 "C01": "check not built yet (planned: Lifecycle.tla + replay_lifecycle); not claimed in this revision",
 "C02": "check not built yet (planned: BlockBuf.tla); not claimed in this revision",
 "C03": "check not built yet (planned: BlockBuf/BlockSeg.tla); not claimed in this revision",
 "C04": "check not built yet (planned: PipeLife.tla); not claimed in this revision",
 "C05": "check not built yet (planned: PipeFlow.tla); not claimed in this revision",
 "C06": "check not built yet (planned: QueuePipes.tla/Xfer.tla); not claimed in this revision",
 "C08": "check not built yet (planned: Uqueue.tla/Udeal.tla); not claimed in this revision",
 "C09": "check not built yet (planned: Urefcount.tla); not claimed in this revision",
 "C10": "check not built yet (planned: Udict.tla); not claimed in this revision",
 "C11": "check not built yet (planned: UrefClock.tla); not claimed in this revision",
 "C12": "check not built yet (planned: Requests.tla); not claimed in this revision",
 "C13": "check not built yet (planned: UpumpBlocker.tla); not claimed in this revision",
 "C14": "check not built yet (planned: Rechunk.tla); not claimed in this revision",
 "C15": "check not built yet (planned: TsPackets.tla); not claimed in this revision",
 "C16": "check not built yet (planned: PsiSections.tla); not claimed in this revision",
 "C17": "check not built yet (planned: Nal.tla); not claimed in this revision",
 "C18": "check not built yet (planned: Ubits.tla); not claimed in this revision",
 "C19": "check not built yet (planned: PicGeom.tla); not claimed in this revision",
 "C20": "check not built yet (planned: Options.tla); not claimed in this revision",
}
