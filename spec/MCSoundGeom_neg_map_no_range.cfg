\* negative configuration: the variant "map_no_range" of the model must be rejected by TLC
CONSTANTS
  Geos = {"neg"}
  GeoSet <- SndGeoSet
  Handles = {0}
  MaxOps = 4
  MaxResize = 2
  Variant = "map_no_range"
  Record = FALSE
SPECIFICATION Spec
VIEW View
INVARIANT WindowsInCanvas Inside InjectiveMap CanvasInjective GranularityP MapIsWindowCell AllocGranular WriteOnlySingle
PROPERTY CropPreserves StructuralOpsDontWrite
CHECK_DEADLOCK FALSE
