\* C03 exhaustive, quick: 2 blocks of 3 octets allocated, every structural call with every offset/size, 2 calls deep
SPECIFICATION MCSpec
CONSTANTS
  Handles = {0, 1, 2}
  Fill = 14
  Strict = TRUE
  KeepHist = FALSE
  Bug = "none"
  Pre = 2
  MaxLen = 5
  MaxWins = 5
  Depth = 2
  PatSet = "q"
  InitSet = "two"
  ObsLast = FALSE
  Rand = FALSE
  Letters = {0, 1}
  LastOps = {}
  LastSz = {}
  Dom = "all"
  Ops = {"alloc", "dup", "splice", "split", "copy", "merge", "append", "insert", "delete", "truncate", "resize", "prepend", "wmap", "poke", "free"}
INVARIANT TypeOK ByteString FreshSingle
PROPERTY Isolation WriteOnlySingle StructuralOpsDontWrite SharedNeverWritten ErrLeavesUnchanged
CONSTRAINT Bounded
VIEW view
CHECK_DEADLOCK FALSE
