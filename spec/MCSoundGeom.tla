----------------------------- MODULE MCSoundGeom -----------------------------
(* Model-checking wrapper for PicGeom.tla, sound buffers (ubuf_sound_mem):
   a sound buffer of N samples is a one-line picture of N pixels without
   margins; planar sound has one plane per channel, packed sound one plane
   whose sample size is channels x octets per sample.  The managers differ by
   sample size, number of planes, alignment and the address the allocator
   returns modulo the alignment. *)
EXTENDS PicGeom

Pl(h, v, m) == [hsub |-> h, vsub |-> v, mps |-> m]
Snd(n, ss, np) == [name |-> n, kind |-> "sound", mp |-> 1, planes |-> [p \in 1..np |-> Pl(1, 1, ss)]]
\* planar: u8, s16, s32/f32, f64 with 1..3 channel planes; packed: s16 stereo (4),
\* s24 mono (3), f32 stereo (8), s16 5.1 (12)
B_u8x3   == Snd("u8_planar3", 1, 3)
B_s16x2  == Snd("s16_planar2", 2, 2)
B_s32x1  == Snd("s32_planar1", 4, 1)
B_f64x2  == Snd("f64_planar2", 8, 2)
B_s16pk2 == Snd("s16_packed2", 4, 1)
B_s24pk1 == Snd("s24_packed1", 3, 1)
B_f32pk2 == Snd("f32_packed2", 8, 1)
B_s16pk6 == Snd("s16_packed6", 12, 1)
SndBases == {B_u8x3, B_s16x2, B_s32x1, B_f64x2, B_s16pk2, B_s24pk1, B_f32pk2, B_s16pk6}
ASSUME PrintT(<<"SCLASSES", Cardinality(SndBases)>>)

SetMax(S) == CHOOSE x \in S : \A y \in S : y <= x
SndReq(AN, kinds, fills, small) ==
  LET Nm == SetMax(AN)
  IN [allocs |-> {<<n, 1>> : n \in AN} \cup (IF small THEN {} ELSE {<<-1, 1>>}),
      maps |-> IF small THEN {Full, [ho |-> 1, vo |-> 0, hs |-> 1, vs |-> -1]}
               ELSE {[ho |-> o, vo |-> 0, hs |-> s, vs |-> -1] :
                       o \in ((-(Nm + 2))..(Nm + 2)) \cup {-2 * Nm - 1}, s \in {-1} \cup (1..(Nm + 2))},
      resizes |-> IF small THEN {[off |-> 1, size |-> -1], [off |-> 0, size |-> 1], [off |-> -1, size |-> 1]}
                  ELSE {[off |-> o, size |-> s] : o \in (-(Nm + 1))..(Nm + 2), s \in {-1} \cup (1..(Nm + 1))},
      pokes |-> IF small THEN {<<0, 0>>, <<1, 0>>} ELSE {<<0, 0>>, <<1, 0>>, <<-1, 0>>, <<Nm, 0>>},
      bpokes |-> IF small THEN {0, 1} ELSE {0, 1, 2},
      kinds |-> kinds, fills |-> fills]

Mk(b, al, bm, req) ==
  [hmpre |-> 0, hmapp |-> 0, vpre |-> 0, vapp |-> 0, align |-> al,
   aoff |-> 0, basemod |-> IF al = 0 THEN 0 ELSE bm, req |-> req] @@ b

GeoKinds == {"alloc", "resize", "map"}
CowKinds == {"alloc", "dup", "free", "resize", "map", "fill", "poke", "check", "view", "bread", "bpoke"}
\* <<align, base address modulo align>>
FewAligns == {<<0, 0>>, <<16, 8>>}
AllAligns == {<<0, 0>>, <<16, 0>>, <<16, 8>>, <<4, 1>>, <<64, 24>>}
SndSet(bases, aligns, AN) ==
  { Mk(b, a[1], a[2], SndReq(AN, GeoKinds, 0, FALSE)) : b \in bases, a \in aligns }

\* quick: every base, two alignments, sizes 1..3; thorough: all alignments, sizes 1..6
GS_quick(z) == SndSet({B_u8x3, B_s16x2, B_s24pk1, B_f32pk2, B_s16pk6}, FewAligns, {1, 2, 3})
GS_full(z) == SndSet(SndBases, {<<0, 0>>, <<16, 8>>, <<64, 24>>}, {1, 2, 3, 6})
GS_neg(z) == SndSet({B_s16x2}, {<<16, 8>>}, {1, 2, 3})

GS_cow_quick(z) == {Mk(B_s16x2, 16, 0, SndReq({3}, CowKinds, 2, TRUE))}
GS_cow_full(z) == {Mk(b, 16, 8, SndReq({3}, CowKinds, 2, TRUE)) : b \in {B_s16x2, B_f32pk2, B_u8x3}}

GS_drv(z) == {Mk(b, a[1], a[2], SndReq(1..6, CowKinds, 4, FALSE)) : b \in SndBases, a \in AllAligns}
\* tag -> geometry set (an operator with an argument: TLC evaluates only the set a cfg selects)
SndGeoSet(t) == CASE t = "quick" -> GS_quick(0) [] t = "cow_quick" -> GS_cow_quick(0) [] t = "cow_full" -> GS_cow_full(0) [] t = "drv" -> GS_drv(0) [] t = "full" -> GS_full(0) [] t = "neg" -> GS_neg(0)
=============================================================================
