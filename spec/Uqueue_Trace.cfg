SPECIFICATION TSpec
INVARIANT Occupancy Report
POSTCONDITION Accepted
CHECK_DEADLOCK FALSE
