\* thorough: every string over {0,1} up to 10 octets (two complete NAL unit headers) that does not begin with 00 00 01, every cutting; behaviours of at most 3 chunks are emitted
SPECIFICATION Spec
CONSTANTS
  Variant = "ok"
  Alphabet = {0, 1}
  MaxLen = 10
  NoLead3 = TRUE
  EmitMax = 3
INVARIANT Emit TypeOK ChunkInvariant Monotone NoTrap
VIEW View
CHECK_DEADLOCK FALSE
