------------------------------- MODULE NalBits -------------------------------
(***************************************************************************)
(* C17 - exp-Golomb and emulation-prevention decoding return the values a  *)
(* reference encoder wrote.                                                *)
(*                                                                         *)
(* ABSTRACT (NalOps.tla): UeCode / SeCode (reference encoder), UeDecode,   *)
(* Escape (reference encoder: inserts 03), Unescape, EncodeRbsp.           *)
(*   CodecInverse   UeDecode(UeCode(v)) = v at every position of the       *)
(*                  encoded fields; se likewise                            *)
(*   EscInverse     Unescape(Escape(s)) = s, Escape(s) has no start-code   *)
(*                  emulation                                              *)
(*                                                                         *)
(* DETAILED: transcription with machine-word semantics of                  *)
(*   upipe_h26xf_stream_get  (zero history, 03 skipped after two zeros)    *)
(*   ubuf_block_stream_fill_bits_inner / show_bits / skip_bits             *)
(*   upipe_h26xf_stream_ue / upipe_h26xf_stream_se                         *)
(* over the octets of `mem`.  An undefined shift or a failed assert raises *)
(* `ub`.                                                                   *)
(*   ReadOK     every value the detailed reader returns is the value the   *)
(*              reference encoder was given (mode G) / the octet of        *)
(*              Unescape(mem) (mode P)                                     *)
(*   OvSound    no overflow indication while the data (plus the 7 bits of  *)
(*              look-ahead of the first fill) are there                    *)
(*   NoUB                                                                  *)
(*                                                                         *)
(* Mode "G": `lead` one-bit fields (every alignment), one ue or se code of *)
(*           each class k = 0..31 (min / max / alternating value: all code *)
(*           lengths 1..63, values 0..2^32-2), a second code, stop bit;    *)
(*           the octets are Escape'd, so emulation prevention octets fall  *)
(*           inside the long codes.                                        *)
(* Mode "P": every string over Alphabet up to MaxLen (all placements of    *)
(*           03), read octet by octet through the bit reader.              *)
(* Variant "ok" | "neg_one0" (03 dropped after ONE zero) | "neg_noreset"   *)
(*         (zero history kept after a dropped 03) | "neg_ue32" (codes      *)
(*         longer than 24 bits fetched in one go) | "neg_se" (sign wrong)  *)
(***************************************************************************)
EXTENDS NalOps, Json

CONSTANTS Mode, Variant, Leads, Ks, K2s, Reps, Kinds, Alphabet, MaxLen

VARIABLES phase,      \* "read" | "done" | "ub"
          fields,     \* mode G: the fields given to the reference encoder
          mem,        \* the octets read by the detailed reader
          st,         \* detailed reader: [cb, ca, cp, z, ov, ub]
          ri,         \* fields / octets read so far
          pos,        \* abstract position (bits of Unescape(mem)) after the last read
          acc,        \* mode P: octets returned so far
          lastk, lastv, lastneg, lastov,  \* last value returned
          acts        \* ghost: names of the actions taken (vacuity guard: TLC's
                      \* -coverage does not terminate on these recursive operators)
vars == <<phase, fields, mem, st, ri, pos, acc, lastk, lastv, lastneg, lastov, acts>>

---------------------------------------------------------------------------
(* 32-bit machine words *)
ShOK(n) == n \in 0..31
Shl(x, n) == [i \in 1..32 |-> IF i + n <= 32 THEN x[i + n] ELSE 0]
Shr(x, n) == [i \in 1..32 |-> IF i - n >= 1 THEN x[i - n] ELSE 0]
Add32(x, y) == LET l == Lo16(x) + Lo16(y)
                   h == Hi16(x) + Hi16(y) + (l \div 65536)
               IN NBits(16, h % 65536) \o NBits(16, l % 65536)
ByteW(o) == Zeros(24) \o NBits(8, o)

Fresh == [cb |-> W0, ca |-> 0, cp |-> 0, z |-> 0, ov |-> FALSE, ub |-> FALSE]

\* (f->zeros & 6) == 6 after f->zeros <<= 1: the two previous octets were zero
EscCond(z1) == IF Variant = "neg_one0" THEN (z1 \div 2) % 2 = 1 ELSE (z1 \div 2) % 4 = 3

\* upipe_h26xf_stream_get (over ubuf_block_stream_get)
RECURSIVE GetOctet(_)
GetOctet(s) ==
  IF s.cp >= Len(mem) THEN [ok |-> FALSE, o |-> 0, s |-> s]
  ELSE LET o  == mem[s.cp + 1]
           z1 == (2 * s.z) % 256
       IN IF o = 0 THEN [ok |-> TRUE, o |-> 0, s |-> [s EXCEPT !.cp = @ + 1, !.z = z1 + 1]]
          ELSE IF o = 3 /\ EscCond(z1)
          THEN GetOctet([s EXCEPT !.cp = @ + 1, !.z = IF Variant = "neg_noreset" THEN s.z ELSE z1])
          ELSE [ok |-> TRUE, o |-> o, s |-> [s EXCEPT !.cp = @ + 1, !.z = z1]]

\* ubuf_block_stream_fill_bits_inner(s, upipe_h26xf_stream_get, nb)
RECURSIVE Fill(_, _)
Fill(s, nb) ==
  IF s.ub \/ s.ca >= nb THEN s
  ELSE LET g == GetOctet(s)
           o == IF g.ok THEN g.o ELSE 0
       IN IF g.s.ca > 24 THEN [g.s EXCEPT !.ub = TRUE]      \* shift by 24 - available; assert(available <= 32)
          ELSE Fill([g.s EXCEPT !.cb = Add32(@, Shl(ByteW(o), 24 - g.s.ca)),
                                !.ca = @ + 8, !.ov = @ \/ ~g.ok], nb)
Show(s, nb) == Shr(s.cb, 32 - nb)                            \* bits >> (32 - nb), nb in 1..32
Skip(s, nb) == IF nb > s.ca \/ ~ShOK(nb) THEN [s EXCEPT !.ub = TRUE]     \* assert(nb <= available)
               ELSE [s EXCEPT !.cb = Shl(@, nb), !.ca = @ - nb]

\* upipe_h26xf_stream_ue
RECURSIVE Loop1(_, _)
Loop1(s, i) == IF i >= 32 \/ s.ub THEN [s |-> s, i |-> i]
               ELSE LET s1 == Fill(s, 8) IN
                    IF s1.ub \/ Show(s1, 8) # W0 THEN [s |-> s1, i |-> i]
                    ELSE Loop1(Skip(s1, 8), i + 8)
RECURSIVE Loop2(_, _)
Loop2(s, i) == IF i >= 32 \/ s.ub \/ Show(s, 1) # W0 THEN [s |-> s, i |-> i]
               ELSE Loop2(Skip(s, 1), i + 1)
OneGo == IF Variant = "neg_ue32" THEN 32 ELSE 24
UeRes(s) ==
  LET a == Loop1(s, 1)
      b == Loop2(a.s, a.i)
      i == b.i
  IN IF b.s.ub THEN [s |-> b.s, v |-> W0]
     ELSE IF i <= OneGo
     THEN LET s1 == Fill(b.s, i) IN [s |-> Skip(s1, i), v |-> Dec(Show(s1, i))]
     ELSE LET s1 == Fill(b.s, 8)
              r1 == Show(s1, 8)
              s2 == Skip(s1, 8)
              j  == i - 8
              s3 == Fill(s2, j)
          IN [s |-> Skip(s3, j), v |-> Dec(Add32(Shl(r1, j), Show(s3, j)))]
\* upipe_h26xf_stream_se: (v & 1) ? (v + 1) / 2 : -(v / 2)
SeRes(s) == LET u == UeRes(s)
                odd == u.v[32] = 1
                m == IF odd THEN Shr1(Inc(u.v)) ELSE Shr1(u.v)
                neg == IF Variant = "neg_se" THEN (IF odd THEN 1 ELSE 0)
                       ELSE (IF odd \/ m = W0 THEN 0 ELSE 1)
            IN [s |-> u.s, neg |-> neg, m |-> m]
URes(s, w) == LET s1 == Fill(s, w) IN [s |-> Skip(s1, w), v |-> Show(s1, w)]

---------------------------------------------------------------------------
(* mode G: fields *)
Body(k, rep) == CASE rep = "min" -> Zeros(k)
                  [] rep = "max" -> Ones(k)
                  [] OTHER       -> [i \in 1..k |-> i % 2]
UeVal(k, rep) == Dec(ZeroExt(<<1>> \o Body(k, rep)))        \* v + 1 = 1 followed by k bits
UField(b) == [t |-> "u", w |-> 1, v |-> ZeroExt(<<b>>)]
CodeField(kind, k, rep) ==
  IF kind = "ue" THEN [t |-> "ue", v |-> UeVal(k, rep)]
  ELSE LET s == UeToSe(UeVal(k, rep)) IN [t |-> "se", neg |-> s.neg, m |-> s.m]
Plan(lead, kind, k, rep, k2) ==
  [i \in 1..lead |-> UField(i % 2)] \o <<CodeField(kind, k, rep)>> \o <<CodeField("ue", k2, "alt")>>

Stream == BytesBits(Unescape(mem))

InitG == /\ Mode = "G"
         /\ \E lead \in Leads, kind \in Kinds, k \in Ks, rep \in Reps, k2 \in K2s :
               /\ fields = Plan(lead, kind, k, rep, k2)
               /\ mem = EncodeRbsp(Plan(lead, kind, k, rep, k2))
         /\ acc = <<>>
Strings == UNION {[1..n -> Alphabet] : n \in 0..MaxLen}
InitP == /\ Mode = "P" /\ fields = <<>> /\ acc = <<>> /\ mem \in Strings
Init == /\ (InitG \/ InitP)
        /\ phase = "read" /\ st = Fresh /\ ri = 0 /\ pos = 0
        /\ lastk = "none" /\ lastv = W0 /\ lastneg = 0 /\ lastov = FALSE
        /\ acts = {}

Finish(s) == IF s.ub THEN "ub" ELSE "read"
ReadU == /\ acts' = acts \cup {"ReadU"} /\ Mode = "G" /\ phase = "read" /\ ri < Len(fields) /\ fields[ri + 1].t = "u"
         /\ LET r == URes(st, fields[ri + 1].w) IN
            /\ st' = r.s /\ lastv' = r.v /\ lastneg' = 0 /\ lastov' = r.s.ov /\ phase' = Finish(r.s)
            /\ pos' = pos + fields[ri + 1].w
         /\ lastk' = "u" /\ ri' = ri + 1 /\ UNCHANGED <<fields, mem, acc>>
ReadUe == /\ acts' = acts \cup {"ReadUe"} /\ Mode = "G" /\ phase = "read" /\ ri < Len(fields) /\ fields[ri + 1].t = "ue"
          /\ LET r == UeRes(st) IN
             /\ st' = r.s /\ lastv' = r.v /\ lastneg' = 0 /\ lastov' = r.s.ov /\ phase' = Finish(r.s)
             /\ pos' = pos + Len(FieldBits(fields[ri + 1]))
          /\ lastk' = "ue" /\ ri' = ri + 1 /\ UNCHANGED <<fields, mem, acc>>
ReadSe == /\ acts' = acts \cup {"ReadSe"} /\ Mode = "G" /\ phase = "read" /\ ri < Len(fields) /\ fields[ri + 1].t = "se"
          /\ LET r == SeRes(st) IN
             /\ st' = r.s /\ lastv' = r.m /\ lastneg' = r.neg /\ lastov' = r.s.ov /\ phase' = Finish(r.s)
             /\ pos' = pos + Len(FieldBits(fields[ri + 1]))
          /\ lastk' = "se" /\ ri' = ri + 1 /\ UNCHANGED <<fields, mem, acc>>
\* mode P: one octet through the bit reader
ReadByte == /\ acts' = acts \cup {"ReadByte"} /\ Mode = "P" /\ phase = "read" /\ ri < Len(Unescape(mem))
            /\ LET r == URes(st, 8) IN
               /\ st' = r.s /\ lastv' = r.v /\ lastov' = r.s.ov /\ phase' = Finish(r.s)
               /\ acc' = Append(acc, Lo16(r.v))
            /\ lastk' = "u" /\ lastneg' = 0 /\ ri' = ri + 1 /\ pos' = pos + 8
            /\ UNCHANGED <<fields, mem>>
\* past the end: the only outcome is the overflow indication
ReadPast == /\ acts' = acts \cup {"ReadPast"} /\ phase = "read"
            /\ IF Mode = "G" THEN ri = Len(fields) ELSE ri = Len(Unescape(mem))
            /\ LET q == URes(st, 24) IN          \* more than the stop bit and its padding
               /\ st' = q.s /\ lastov' = q.s.ov
            /\ phase' = "done" /\ lastk' = "past"
            /\ UNCHANGED <<fields, mem, ri, pos, acc, lastv, lastneg>>

\* VIEW: the ghost variable acts is a function of (fields, ri, phase)
View == <<phase, fields, mem, st, ri, pos, acc, lastk, lastv, lastneg, lastov>>

Next == ReadU \/ ReadUe \/ ReadSe \/ ReadByte \/ ReadPast
Spec == Init /\ [][Next]_vars

---------------------------------------------------------------------------
NoUB == phase # "ub" /\ ~st.ub
\* positions of the fields in the encoded bit string
RECURSIVE PosOf(_)
PosOf(i) == IF i = 1 THEN 0 ELSE PosOf(i - 1) + Len(FieldBits(fields[i - 1]))
CodecInverse ==
  (Mode = "G" /\ ri = 0) =>
     /\ \A i \in 1..Len(fields) :
          /\ fields[i].t = "ue" =>
                /\ UeDomain(fields[i].v)
                /\ UeDecode(FieldsBits(fields), PosOf(i)) =
                      [ok |-> TRUE, v |-> fields[i].v, len |-> Len(UeCode(fields[i].v))]
          /\ fields[i].t = "se" =>
                /\ SeDomain(fields[i].neg, fields[i].m)
                /\ LET d == UeDecode(FieldsBits(fields), PosOf(i)) IN
                   d.ok /\ UeToSe(d.v) = [neg |-> fields[i].neg, m |-> fields[i].m]
     \* what the octets hold is what the encoder was given
     /\ SubSeq(Stream, 1, Len(FieldsBits(fields))) = FieldsBits(fields)
     /\ NoEmulation(mem)
EscInverse == (Mode = "P" /\ ri = 0) => /\ Unescape(Escape(mem)) = mem
                                        /\ NoEmulation(Escape(mem))
                                        /\ Len(Unescape(mem)) <= Len(mem)
ReadOK ==
  /\ (Mode = "G" /\ ri > 0 /\ phase # "ub") =>
        LET f == fields[ri] IN
        CASE f.t = "u"  -> lastv = f.v
          [] f.t = "ue" -> lastv = f.v
          [] OTHER      -> lastv = f.m /\ lastneg = f.neg
  /\ (Mode = "P" /\ phase # "ub") => acc = SubSeq(Unescape(mem), 1, ri)
OvSound == /\ (lastk \in {"u", "ue", "se"} /\ lastov) => pos + 7 > Len(Stream)
           /\ (lastk = "past") => lastov
TypeOK == phase \in {"read", "done", "ub"} /\ st.ca \in 0..32

---------------------------------------------------------------------------
(* behaviours for the replayer *)
ReadPred(f) == CASE f.t = "u"  -> <<"u", f.w, 0, Hi16(f.v), Lo16(f.v)>>
                 [] f.t = "ue" -> <<"ue", 0, 0, Hi16(f.v), Lo16(f.v)>>
                 [] OTHER      -> <<"se", 0, f.neg, Hi16(f.m), Lo16(f.m)>>
Beh == [bytes |-> mem,
        reads |-> IF Mode = "G" THEN [i \in 1..Len(fields) |-> ReadPred(fields[i])]
                  ELSE [i \in 1..Len(Unescape(mem)) |-> <<"u", 8, 0, 0, Unescape(mem)[i]>>],
        acts |-> acts]
Emit == (phase = "done") => PrintT(<<"BEH", ToJson(Beh)>>)
=============================================================================
