\* NEGATIVE: only the anticipated size is tested: UnitSize must be violated
SPECIFICATION Spec
CONSTANTS
  ModeSet = {"agg"}
  AggMtuSet = {4}
  InSizeSet = {1}
  ChunkMtuSet = {3, 5}
  AlignSet = {1, 2, 3}
  PSizeSet = {3}
  NSyncSet = {2}
  CheckPSizeSet = {2, 3}
  LenAgg = 8
  LenChunk = 1
  LenSync = 1
  LenCheck = 1
  BufAgg = 4
  BufOther = 99
  MaxEmpty = 1
  MaxDisc = 0
  Twin = "free"
  EarlyB = FALSE
  Variant = "agg_nocheck"
VIEW View
INVARIANT Subsequence WholePackets Conservation UnitSize CutInvariance ReleaseTerminates AggSane NoOverrun UnitsAreSlices FlushHeadSync
CHECK_DEADLOCK FALSE
