\* thorough, emulation prevention: every string over {0,1,2,3,255} up to 6 octets; emits BEH lines
SPECIFICATION Spec
CONSTANTS
  Mode = "P"
  Variant = "ok"
  Leads = {0}
  Ks = {0}
  K2s = {0}
  Reps = {"min"}
  Kinds = {"ue"}
  Alphabet = {0, 1, 2, 3, 255}
  MaxLen = 6
INVARIANT Emit TypeOK NoUB CodecInverse EscInverse ReadOK OvSound
VIEW View
CHECK_DEADLOCK FALSE
