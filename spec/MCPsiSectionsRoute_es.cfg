\* splitter, emission (spec -> code): every behaviour with <= 2 additions/releases then one section
SPECIFICATION Spec
CONSTANTS
  Mode = "S"
  Variant = "ok"
  SecPal <- SecsTiny
  FilPal <- FilsTiny
  Ports = {1, 2, 3}
  MaxOps = 2
  MaxIn = 1
  Record = TRUE
INVARIANT DeliverIff Emit
CHECK_DEADLOCK FALSE
