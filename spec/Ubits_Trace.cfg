SPECIFICATION TSpec
INVARIANT WithinCap ReadBack OvfSound
POSTCONDITION Accepted
CHECK_DEADLOCK FALSE
