SPECIFICATION Spec
CONSTANTS
  NU = 2
  NB = 2
  Variant = "ok"
  MaxCmds = 5
  MinCmds = 0
  EmitBeh = FALSE
INVARIANTS RcIsHolders DestroyOnce NoUseAfterDestroy QuiescentClean Sane
VIEW View
POSTCONDITION Cov
CHECK_DEADLOCK FALSE
