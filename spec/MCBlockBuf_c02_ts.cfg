\* C02 exhaustive, thorough: strict grant rule, 3 handles, 4 calls deep
SPECIFICATION MCSpec
CONSTANTS
  Handles = {0, 1, 2}
  Fill = 14
  Strict = TRUE
  KeepHist = FALSE
  Bug = "none"
  Pre = 1
  MaxLen = 5
  MaxWins = 5
  Depth = 4
  PatSet = "q"
  InitSet = "one"
  ObsLast = FALSE
  Rand = FALSE
  Letters = {0, 1}
  LastOps = {}
  LastSz = {}
  Dom = "all"
  Ops = {"dup", "splice", "split", "merge", "append", "insert", "delete", "truncate", "resize", "prepend", "poke", "free"}
INVARIANT TypeOK ByteString FreshSingle
PROPERTY Isolation WriteOnlySingle StructuralOpsDontWrite SharedNeverWritten ErrLeavesUnchanged
CONSTRAINT Bounded
VIEW view
CHECK_DEADLOCK FALSE
