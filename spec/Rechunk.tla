------------------------------- MODULE Rechunk -------------------------------
(***************************************************************************)
(* C14 - Stream re-chunking pipes conserve bytes and ignore chunk          *)
(* boundaries.                                                             *)
(*                                                                         *)
(* ABSTRACT LAYER.  Per run r of a pipe: in (inStream: every octet offered *)
(* to the pipe, concatenated), acc (the accepted part of it), marks (the   *)
(* stream offsets at which a buffer flagged as a discontinuity started),   *)
(* units (the units output so far; outStream = Flat(units)), dom (ts_check *)
(* only: all buffers so far were made of whole sync-led packets).  The     *)
(* sentences of the property are the invariants Subsequence, Conservation, *)
(* UnitSize + WholePackets, CutInvariance and ReleaseTerminates, written   *)
(* below with the operators of RechunkOps.tla (which also judge the        *)
(* recorded executions of the real code in Rechunk_Trace.tla).             *)
(*                                                                         *)
(* CutInvariance is stated over TWIN RUNS in one behaviour: run 1 receives *)
(* a stream chosen octet by octet by TLC under an arbitrary cutting        *)
(* (buffers of 0..MaxBuf octets, optional discontinuity flags) and is      *)
(* released at any point; run 2 then receives the same stream under        *)
(* another cutting (Twin = "free": any; Twin = "canon": a single buffer    *)
(* per discontinuity-free section; by transitivity equality with the       *)
(* canonical cutting implies pairwise equality).  With EarlyB run 2 may be *)
(* released before it has received everything: then the precondition       *)
(* "same total input" is false and nothing is claimed.                     *)
(*                                                                         *)
(* DETAILED LAYER.  Transcription of the C code, one TLA+ action per loop  *)
(* iteration (pc values):                                                  *)
(*   agg    upipe_agg_input / upipe_agg_free (straight-line code)          *)
(*   chunk  upipe_chunk_stream_input loop "cin", upipe_chunk_stream_flush  *)
(*          loop "cfl" (run by upipe_chunk_stream_free)                    *)
(*          [the flush loop is transcribed as it SHOULD be: a remainder    *)
(*          shorter than the alignment is discarded; the loop found in the *)
(*          repository is variant chunk_s4]                                *)
(*   sync   upipe_ts_sync_input: "scan" (uref_block_scan) / "chk" (the     *)
(*          loop over the next sync words) / "cons" (sync_lost + consume)  *)
(*          / "ext" (sync_acquired + extract + output); upipe_ts_sync_flush *)
(*          "sfl" (on a discontinuity, then "app" appends the buffer; on   *)
(*          release)                                                       *)
(*   check  upipe_ts_check_input split loop "kloop"                        *)
(* upos (ghost) is the stream offset of every unit, for the replay.        *)
(* steps counts the loop iterations of the current call, bound is fixed at *)
(* its entry: an overrun is a non-terminating call.                        *)
(*                                                                         *)
(* Variant selects deliberately broken transcriptions (negative            *)
(* configurations, every one must be rejected by TLC):                     *)
(*   chunk_s4       flush loop as found in the repository: no exit when    *)
(*                  the remainder is shorter than the alignment            *)
(*   sync_nolook    once acquired, a packet is output without waiting for  *)
(*                  the following sync words (output depends on cutting)   *)
(*   sync_noconsume the octets before the sync word are not consumed       *)
(*   agg_nocheck    only the anticipated size is tested before appending   *)
(*   agg_norelflush release forgets the pending aggregate                  *)
(*   check_nosync   the sync octet is not tested                           *)
(***************************************************************************)
EXTENDS RechunkOps, TLC, Json

CONSTANTS ModeSet,     \* subset of {"agg", "chunk", "sync", "check"}: the pipes of this run of TLC
          AggMtuSet,   \* agg: MTU settings TLC chooses from
          InSizeSet,   \* agg: block size announced by the flow definition (0: none)
          ChunkMtuSet, AlignSet,   \* chunk: mtu, align (< mtu, as the setter enforces)
          PSizeSet, NSyncSet,      \* sync: packet size, number of sync words (>= 2, as the
                                   \* setter enforces)
          CheckPSizeSet,           \* check: packet size
          LenAgg, LenChunk, LenSync, LenCheck,   \* longest total stream, per mode
          BufAgg, BufOther,   \* longest buffer of run 1 (agg; the other modes)
          MaxEmpty,    \* empty buffers per run
          MaxDisc,     \* discontinuities per run (sync)
          Twin,        \* second run of the parsers: "none" | "free" | "canon"
          EarlyB,      \* run 2 may be released early
          Variant      \* "ok" or a broken variant

VARIABLES conf,        \* the pipe and its settings in this behaviour (both runs), chosen initially
          run,         \* [1..2 -> record]  abstract and detailed state of each run
          call,        \* the call being executed (for the history)
          hist         \* finished calls with the units each produced
vars == <<conf, run, call, hist>>
View == <<conf, run, call.op>>       \* hides the history (never read back)

Mode == conf.mode
Mtu == conf.mtu
Align == conf.align
PSize == conf.psize
NSync == conf.nsync
InSize == conf.insize
ConfsOf(mode) ==
    CASE mode = "agg"   -> {[mode |-> mode, mtu |-> m, align |-> 1, psize |-> 1, nsync |-> 2, insize |-> i] :
                              m \in AggMtuSet, i \in InSizeSet}
      [] mode = "chunk" -> {c \in {[mode |-> mode, mtu |-> m, align |-> a, psize |-> 1, nsync |-> 2, insize |-> 0] :
                                     m \in ChunkMtuSet, a \in AlignSet} : c.align < c.mtu}
      [] mode = "sync"  -> {[mode |-> mode, mtu |-> 1, align |-> 1, psize |-> p, nsync |-> n, insize |-> 0] :
                              p \in PSizeSet, n \in NSyncSet}
      [] mode = "check" -> {[mode |-> mode, mtu |-> 1, align |-> 1, psize |-> p, nsync |-> 2, insize |-> 0] :
                              p \in CheckPSizeSet}
Confs == UNION {ConfsOf(m) : m \in ModeSet}
MaxLen == CASE Mode = "agg" -> LenAgg [] Mode = "chunk" -> LenChunk
            [] Mode = "sync" -> LenSync [] OTHER -> LenCheck
MaxBuf == IF Mode = "agg" THEN BufAgg ELSE BufOther
TwinOf == IF Mode \in {"sync", "check"} THEN Twin ELSE "none"   \* only the parsers run twice

Runs == {1, 2}
CSize == (Mtu \div Align) * Align          \* chunk_stream: aligned block size
Last(s) == s[Len(s)]
SeqMin(a, b) == IF a <= b THEN a ELSE b

Run0(active) ==
    [in |-> <<>>, acc |-> <<>>, marks |-> <<>>, units |-> <<>>, upos |-> <<>>, dom |-> TRUE,
     pend |-> <<>>, aggsz |-> 0, acq |-> FALSE,
     pc |-> IF active THEN "idle" ELSE "done",
     off |-> 0, k |-> 0, pos |-> 0, okret |-> FALSE, stash |-> <<>>, after |-> "ret",
     steps |-> 0, bound |-> 0, nempty |-> 0]

NoCall == [r |-> 0, op |-> "none", b |-> <<>>, d |-> FALSE, u0 |-> 0]

Init == /\ conf \in Confs
        /\ run = [r \in Runs |-> Run0(r = 1 \/ TwinOf # "none")]
        /\ call = NoCall
        /\ hist = <<>>

Set(r, rec) == run' = [run EXCEPT ![r] = rec] /\ UNCHANGED conf
Quiet == \A q \in Runs : run[q].pc \in {"idle", "done"}
Complete2 == run[2].in = run[1].in /\ run[2].marks = run[1].marks

----------------------------------------------------------------------------
(* what the environment may offer                                          *)

\* run 1: any content
Contents(n, len) ==
    IF Mode \in {"agg", "chunk"} THEN {[i \in 1..len |-> n + i]}      \* distinct octets
    ELSE [1..len -> {SYNC, 0}]

Offers1 ==
    LET n == Len(run[1].in)
        lens == {l \in 0..SeqMin(MaxBuf, MaxLen - n) : l > 0 \/ run[1].nempty < MaxEmpty}
        discs == IF Mode = "sync" /\ Len(run[1].marks) < MaxDisc
                    /\ (run[1].marks = <<>> \/ Last(run[1].marks) # n)
                 THEN BOOLEAN ELSE {FALSE}
    IN  {<<b, d>> : b \in UNION {Contents(n, l) : l \in lens}, d \in discs}

\* run 2: the same stream, the same marks, another cutting
Offers2 ==
    LET o == Len(run[2].in)
        M1 == {run[1].marks[i] : i \in 1..Len(run[1].marks)}
        M2 == {run[2].marks[i] : i \in 1..Len(run[2].marks)}
        need == o \in M1 /\ o \notin M2
        ahead == {m \in M1 : m > o}
        room == SeqMin(SeqMin(IF TwinOf = "canon" THEN MaxLen ELSE MaxBuf, Len(run[1].in) - o),
                       IF ahead = {} THEN MaxLen ELSE Min(ahead) - o)
        lens == IF TwinOf = "canon"
                THEN (IF room > 0 \/ need THEN {room} ELSE {})
                ELSE {l \in 0..room : l > 0 \/ need \/ run[2].nempty < MaxEmpty}
    IN  {<<SubSeq(run[1].in, o + 1, o + l), need>> : l \in lens}

----------------------------------------------------------------------------
(* upipe_agg_input, straight-line                                          *)
AggIn(s, buf) ==
    LET size == Len(buf) IN
    IF size = 0 \/ size > Mtu THEN s                          \* "invalid size": dropped
    ELSE LET flush1 == Variant # "agg_nocheck" /\ s.aggsz + size > Mtu
             p1   == IF flush1 THEN <<>> ELSE s.pend
             u1   == IF flush1 THEN <<s.pend>> ELSE <<>>
             sz1  == IF p1 = <<>> THEN size ELSE s.aggsz + size
             p2   == p1 \o buf
             nxt  == IF InSize # 0 THEN InSize ELSE size       \* anticipated next size
             flush2 == sz1 + nxt > Mtu
         IN  [s EXCEPT !.units = @ \o u1 \o (IF flush2 THEN <<p2>> ELSE <<>>),
                       !.pend  = IF flush2 THEN <<>> ELSE p2,
                       !.aggsz = IF flush2 THEN 0 ELSE sz1]

----------------------------------------------------------------------------
(* calls                                                                   *)
InputStart(r, buf, d) ==
    /\ run[r].pc = "idle" /\ Quiet
    /\ r = 2 => run[1].pc = "done"
    /\ LET s0 == run[r]
           s1 == [s0 EXCEPT
                    !.in = @ \o buf,
                    !.acc = IF Mode = "agg" /\ ~AggAccepts(buf, Mtu) THEN @ ELSE @ \o buf,
                    !.marks = IF d THEN Append(@, Len(s0.in)) ELSE @,
                    !.dom = @ /\ (Mode = "check" => AlignedBuf(buf, PSize)),
                    !.nempty = IF buf = <<>> THEN @ + 1 ELSE @,
                    !.steps = 0,
                    !.bound = Len(s0.pend) + Len(buf) + 1]
       IN  CASE Mode = "agg"   -> Set(r, [AggIn(s1, buf) EXCEPT !.pc = "ret"])
             [] Mode = "chunk" -> Set(r, [s1 EXCEPT !.pend = @ \o buf, !.pc = "cin"])
             [] Mode = "check" -> Set(r, [s1 EXCEPT !.pend = buf, !.pc = "kloop"])
             [] Mode = "sync"  ->
                  IF d THEN Set(r, [s1 EXCEPT !.stash = buf, !.after = "app", !.pc = "sfl"])
                       ELSE Set(r, [s1 EXCEPT !.pend = @ \o buf, !.off = 0, !.pc = "scan"])
    /\ call' = [r |-> r, op |-> "in", b |-> buf, d |-> d, u0 |-> Len(run[r].units)]
    /\ UNCHANGED hist

ReleaseStart(r) ==
    /\ run[r].pc = "idle" /\ Quiet
    /\ r = 2 => run[1].pc = "done" /\ (EarlyB \/ Complete2)
    /\ LET s1 == [run[r] EXCEPT !.steps = 0, !.bound = Len(run[r].pend) + 1]
       IN  CASE Mode = "agg"   ->                        \* upipe_agg_free
                  Set(r, [s1 EXCEPT !.units = IF s1.pend # <<>> /\ Variant # "agg_norelflush"
                                              THEN Append(@, s1.pend) ELSE @,
                                    !.pend = <<>>, !.aggsz = 0, !.pc = "ret"])
             [] Mode = "chunk" -> Set(r, [s1 EXCEPT !.pc = "cfl"])
             [] Mode = "check" -> Set(r, [s1 EXCEPT !.pc = "ret"])
             [] Mode = "sync"  -> Set(r, [s1 EXCEPT !.after = "ret", !.pc = "sfl"])
    /\ call' = [r |-> r, op |-> "rel", b |-> <<>>, d |-> FALSE, u0 |-> Len(run[r].units)]
    /\ UNCHANGED hist

Return(r) ==
    /\ run[r].pc = "ret"
    /\ hist' = Append(hist, [r |-> r, op |-> call.op, b |-> call.b, d |-> call.d,
                             u |-> SubSeq(run[r].units, call.u0 + 1, Len(run[r].units)),
                             p |-> IF Mode = "agg" THEN <<>>
                                   ELSE SubSeq(run[r].upos, call.u0 + 1, Len(run[r].upos))])
    /\ Set(r, [run[r] EXCEPT !.pc = IF call.op = "rel" THEN "done" ELSE "idle"])
    /\ call' = NoCall

\* chunk, sync, check: the pending octets are the end of the stream received so
\* far (but for a stashed buffer), which gives the stream offset of a unit
EmitUnit(s, n) == [s EXCEPT !.units = Append(@, Take(s.pend, n)),
                            !.upos = Append(@, Len(s.in) - Len(s.pend) - Len(s.stash)),
                            !.pend = Drop(s.pend, n),
                            !.steps = @ + 1]

----------------------------------------------------------------------------
(* upipe_chunk_stream (one action per branch of each loop)                 *)
ChunkInEmit(r) ==                     \* while (remaining >= size) output(extract(size))
    /\ run[r].pc = "cin" /\ Len(run[r].pend) >= CSize
    /\ Set(r, EmitUnit(run[r], CSize))
    /\ UNCHANGED <<call, hist>>
ChunkInExit(r) ==
    /\ run[r].pc = "cin" /\ Len(run[r].pend) < CSize
    /\ Set(r, [run[r] EXCEPT !.pc = "ret"])
    /\ UNCHANGED <<call, hist>>

\* upipe_chunk_stream_flush, run by upipe_chunk_stream_free
FlushSize(r) == LET rem == Len(run[r].pend)
                IN  IF rem >= CSize THEN CSize ELSE (rem \div Align) * Align
ChunkFlushEmit(r) ==
    /\ run[r].pc = "cfl" /\ Len(run[r].pend) > 0
    /\ FlushSize(r) > 0 \/ Variant = "chunk_s4"     \* S4: size 0 is extracted and output, for ever
    /\ Set(r, EmitUnit(run[r], FlushSize(r)))
    /\ UNCHANGED <<call, hist>>
ChunkFlushTail(r) ==                  \* a remainder shorter than the alignment is discarded
    /\ run[r].pc = "cfl" /\ Len(run[r].pend) > 0
    /\ FlushSize(r) = 0 /\ Variant # "chunk_s4"
    /\ Set(r, [run[r] EXCEPT !.pend = <<>>, !.pc = "ret"])
    /\ UNCHANGED <<call, hist>>
ChunkFlushExit(r) ==
    /\ run[r].pc = "cfl" /\ Len(run[r].pend) = 0
    /\ Set(r, [run[r] EXCEPT !.pc = "ret"])
    /\ UNCHANGED <<call, hist>>

----------------------------------------------------------------------------
(* upipe_ts_sync                                                           *)
SyncWords(r) == {j \in (run[r].off + 1)..Len(run[r].pend) : run[r].pend[j] = SYNC}

SyncScanNone(r) ==                    \* uref_block_scan fails: *offset_p = size, return false
    /\ run[r].pc = "scan" /\ SyncWords(r) = {}
    /\ Set(r, [run[r] EXCEPT !.off = Len(run[r].pend), !.okret = FALSE, !.pc = "cons"])
    /\ UNCHANGED <<call, hist>>
SyncScanFound(r) ==                   \* first octet at *offset_p is a sync word
    /\ run[r].pc = "scan" /\ SyncWords(r) # {}
    /\ LET j == Min(SyncWords(r)) - 1 IN
       Set(r, [run[r] EXCEPT !.off = j, !.k = NSync - 1, !.pos = j + PSize, !.pc = "chk"])
    /\ UNCHANGED <<call, hist>>

\* the loop over the next ts_sync - 1 sync words
SyncChkAll(r) ==                      \* all tested: return true
    /\ run[r].pc = "chk" /\ run[r].k = 0
    /\ Set(r, [run[r] EXCEPT !.okret = TRUE, !.pc = "cons"])
    /\ UNCHANGED <<call, hist>>
SyncChkShort(r) ==                    \* "not enough sync words could be tested": return false
    /\ run[r].pc = "chk" /\ run[r].k > 0 /\ run[r].pos >= Len(run[r].pend)
    /\ LET s == run[r] IN
       Set(r, [s EXCEPT !.okret = (Variant = "sync_nolook" /\ s.acq /\ Len(s.pend) - s.off >= PSize),
                        !.pc = "cons"])
    /\ UNCHANGED <<call, hist>>
SyncChkMismatch(r) ==                 \* *offset_p += 1 and scan again
    /\ run[r].pc = "chk" /\ run[r].k > 0 /\ run[r].pos < Len(run[r].pend)
    /\ run[r].pend[run[r].pos + 1] # SYNC
    /\ Set(r, [run[r] EXCEPT !.off = @ + 1, !.pc = "scan"])
    /\ UNCHANGED <<call, hist>>
SyncChkNext(r) ==
    /\ run[r].pc = "chk" /\ run[r].k > 0 /\ run[r].pos < Len(run[r].pend)
    /\ run[r].pend[run[r].pos + 1] = SYNC
    /\ Set(r, [run[r] EXCEPT !.k = @ - 1, !.pos = @ + PSize])
    /\ UNCHANGED <<call, hist>>

\* if (offset) { sync_lost; consume(offset); }  if (!ret) break;
SyncConsume(r, lost) ==
    /\ run[r].pc = "cons" /\ lost = (run[r].off > 0)
    /\ LET s == run[r]
           eat == IF Variant = "sync_noconsume" /\ s.okret THEN 0 ELSE s.off
       IN  Set(r, [s EXCEPT !.pend = Drop(@, eat),
                            !.acq = IF lost THEN FALSE ELSE @,
                            !.off = 0,
                            !.pc = IF s.okret THEN "ext" ELSE "ret"])
    /\ UNCHANGED <<call, hist>>
SyncConsLost(r) == SyncConsume(r, TRUE)
SyncConsKeep(r) == SyncConsume(r, FALSE)

SyncExt(r) ==                         \* sync_acquired; extract(output_size); output
    /\ run[r].pc = "ext"
    /\ Set(r, [EmitUnit(run[r], PSize) EXCEPT !.acq = TRUE, !.off = 0, !.pc = "scan"])
    /\ UNCHANGED <<call, hist>>

\* upipe_ts_sync_flush (discontinuity, release)
FlushGoes(r) == run[r].acq /\ Len(run[r].pend) >= PSize /\ run[r].pend[1] = SYNC
SyncFlushEmit(r) ==
    /\ run[r].pc = "sfl" /\ FlushGoes(r)
    /\ Set(r, EmitUnit(run[r], PSize))
    /\ UNCHANGED <<call, hist>>
SyncFlushDrop(r) ==                   \* the rest is discarded
    /\ run[r].pc = "sfl" /\ ~FlushGoes(r)
    /\ Set(r, [run[r] EXCEPT !.pend = <<>>, !.pc = run[r].after])
    /\ UNCHANGED <<call, hist>>

SyncAppend(r) ==                      \* after the flush caused by a discontinuity
    /\ run[r].pc = "app"
    /\ Set(r, [run[r] EXCEPT !.pend = run[r].stash, !.stash = <<>>, !.off = 0, !.pc = "scan"])
    /\ UNCHANGED <<call, hist>>

----------------------------------------------------------------------------
(* upipe_ts_check                                                          *)
Good(r) == Variant = "check_nosync" \/ run[r].pend[1] = SYNC
CheckSplitEmit(r) ==                  \* while (size > output_size): split, check, output
    /\ run[r].pc = "kloop" /\ Len(run[r].pend) > PSize /\ Good(r)
    /\ Set(r, EmitUnit(run[r], PSize))
    /\ UNCHANGED <<call, hist>>
CheckSplitBad(r) ==                   \* invalid sync: the rest of the buffer is dropped
    /\ run[r].pc = "kloop" /\ Len(run[r].pend) > PSize /\ ~Good(r)
    /\ Set(r, [run[r] EXCEPT !.pend = <<>>, !.pc = "ret"])
    /\ UNCHANGED <<call, hist>>
CheckLastEmit(r) ==                   \* if (size == output_size) check, output
    /\ run[r].pc = "kloop" /\ Len(run[r].pend) = PSize /\ Good(r)
    /\ Set(r, [EmitUnit(run[r], PSize) EXCEPT !.pc = "ret"])
    /\ UNCHANGED <<call, hist>>
CheckLastBad(r) ==
    /\ run[r].pc = "kloop" /\ Len(run[r].pend) = PSize /\ ~Good(r)
    /\ Set(r, [run[r] EXCEPT !.pend = <<>>, !.pc = "ret"])
    /\ UNCHANGED <<call, hist>>
CheckRunt(r) ==                       \* fewer octets than a packet: nothing is output
    /\ run[r].pc = "kloop" /\ Len(run[r].pend) < PSize
    /\ Set(r, [run[r] EXCEPT !.pend = <<>>, !.pc = "ret"])
    /\ UNCHANGED <<call, hist>>

----------------------------------------------------------------------------
Input1 == \E o \in Offers1 : InputStart(1, o[1], o[2])
Input2 == \E o \in Offers2 : InputStart(2, o[1], o[2])

Next == \/ Input1 \/ Input2
        \/ \E r \in Runs :
             \/ ReleaseStart(r) \/ Return(r)
             \/ ChunkInEmit(r) \/ ChunkInExit(r)
             \/ ChunkFlushEmit(r) \/ ChunkFlushTail(r) \/ ChunkFlushExit(r)
             \/ SyncScanNone(r) \/ SyncScanFound(r)
             \/ SyncChkAll(r) \/ SyncChkShort(r) \/ SyncChkMismatch(r) \/ SyncChkNext(r)
             \/ SyncConsLost(r) \/ SyncConsKeep(r) \/ SyncExt(r)
             \/ SyncFlushEmit(r) \/ SyncFlushDrop(r) \/ SyncAppend(r)
             \/ CheckSplitEmit(r) \/ CheckSplitBad(r) \/ CheckLastEmit(r) \/ CheckLastBad(r)
             \/ CheckRunt(r)
Spec == Init /\ [][Next]_vars

Done == \A r \in Runs : run[r].pc = "done"

----------------------------------------------------------------------------
(* THE PROPERTY                                                            *)
(* Every call of run r ends in a state with pc = "ret" (Return is the only *)
(* way out of a call); during a call `in` is constant and `units` only     *)
(* grows, so a unit that breaks one of the sentences below is still there  *)
(* when the call returns: the (expensive) sentences are evaluated in those *)
(* states only.                                                            *)
AtReturn(r) == run[r].pc = "ret"

\* only input octets, in order, without overlap
Subsequence == \A r \in Runs : AtReturn(r) => IsSubsequence(run[r].in, run[r].units)
\* TS modes: the units are whole packets, i.e. successive slices of the stream
WholePackets == Mode \in {"sync", "check"} =>
                  \A r \in Runs : AtReturn(r) => IsSelection(run[r].in, run[r].units)

\* agg, chunk: every accepted octet is output exactly once (documented tail)
Conservation ==
    Mode \in {"agg", "chunk"} =>
      \A r \in Runs : AtReturn(r) =>
        IF call.op = "rel"
        THEN ConservedAtEnd(run[r].acc, run[r].units, IF Mode = "agg" THEN 1 ELSE Align)
        ELSE ConservedSoFar(run[r].acc, run[r].units)

\* every unit respects the configured size; TS units are whole sync-led packets
UnitSize == \A r \in Runs : AtReturn(r) =>
              \A i \in 1..Len(run[r].units) : UnitOK(Mode, Mtu, Align, PSize, run[r].units[i])

\* the parsers: same total stream, two cuttings, same units
CutInvariance ==
    (Mode \in {"sync", "check"} /\ Twin # "none") =>
      CutInvariant(Mode, run[1].in, run[1].marks, run[1].units, run[1].pc = "done", run[1].dom,
                         run[2].in, run[2].marks, run[2].units, run[2].pc = "done", run[2].dom)

\* the same claim WITHOUT the precondition on the total input: must fail when
\* run 2 may stop early (negative configuration sync_earlyB)
CutInvarianceNoPre ==
    (run[1].pc = "done" /\ run[2].pc = "done") => run[1].units = run[2].units

\* a call (input, flush on discontinuity, release) performs a bounded number of
\* iterations: at most one per pending octet
ReleaseTerminates == \A r \in Runs : run[r].steps <= run[r].bound

\* sanity of the transcription (not part of the property)
UnitsAreSlices == Mode # "agg" =>
    \A r \in Runs : /\ Len(run[r].upos) = Len(run[r].units)
                    /\ \A i \in 1..Len(run[r].units) :
                          run[r].units[i] = SubSeq(run[r].in, run[r].upos[i] + 1,
                                                   run[r].upos[i] + Len(run[r].units[i]))
AggSane == Mode = "agg" => \A r \in Runs : (run[r].pend = <<>>) <=> (run[r].aggsz = 0)
NoOverrun == \A r \in Runs : run[r].pc = "ext" => Len(run[r].pend) >= PSize
\* while acquired, the pending octets start with a sync word: in upipe_ts_sync_flush the
\* test "!offset" after the scan never fails (removing it is an equivalent mutant)
FlushHeadSync == Mode = "sync" =>
    \A r \in Runs : (run[r].pc = "sfl" /\ run[r].acq /\ run[r].pend # <<>>) => run[r].pend[1] = SYNC

----------------------------------------------------------------------------
(* spec -> code: one JSON line per finished behaviour                      *)
EmitBeh == Done => PrintT(<<"BEH", ToJson(
              [mode |-> Mode, mtu |-> Mtu, align |-> Align, psize |-> PSize, nsync |-> NSync,
               insize |-> InSize, calls |-> hist])>>)
=============================================================================
