\* NEGATIVE: scan context not carried from buffer to buffer
SPECIFICATION Spec
CONSTANTS
  Variant = "neg_ctx"
  Alphabet = {0, 1, 2}
  MaxLen = 6
  NoLead3 = TRUE
INVARIANT EmitCex TypeOK ChunkInvariant Monotone NoTrap
VIEW View
CHECK_DEADLOCK FALSE
