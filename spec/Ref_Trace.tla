----------------------------- MODULE Ref_Trace -----------------------------
(***************************************************************************)
(* C09 - abstract reference-count specification and validation of traces   *)
(* recorded from the real urefcount / ubuf_mem_shared under the            *)
(* deterministic scheduler (harness/sched_refcount.c).                     *)
(*                                                                         *)
(* Events, in real-time order:                                             *)
(*   Reset(n)      new object; threads 0..n-1 hold one reference each      *)
(*   Use(t)        t takes a reference (logged at the call)                *)
(*   Release(t)    t gives one back     (logged at the call)               *)
(*   Destroy(t)    the destructor / the return of the area to its          *)
(*                 allocator runs (logged inside the call-back)            *)
(*   End           all threads finished                                    *)
(* Property: the destructor runs exactly once, after the final release,    *)
(* never while a reference is outstanding.                                 *)
(***************************************************************************)
EXTENDS Naturals, Sequences, FiniteSets, TLC, Json, IOUtils

Tr == ndJsonDeserialize(IOEnv.TRACE)
Threads == 0..7
VARIABLES l, held, destroyed
vars == <<l, held, destroyed>>

Total == LET RECURSIVE S(_) S(n) == IF n < 0 THEN 0 ELSE held[n] + S(n - 1) IN S(7)

IsEv(e) == l <= Len(Tr) /\ Tr[l].e = e /\ l' = l + 1

TReset == /\ IsEv("Reset")
          /\ held' = [t \in Threads |-> IF t < Tr[l].n THEN 1 ELSE 0]
          /\ destroyed' = 0
\* a reference can only be taken while one is held (ownership rule of the client)
TUse == /\ IsEv("Use") /\ held[Tr[l].t] >= 1 /\ destroyed = 0
        /\ held' = [held EXCEPT ![Tr[l].t] = @ + 1] /\ UNCHANGED destroyed
TRelease == /\ IsEv("Release") /\ held[Tr[l].t] >= 1 /\ destroyed = 0
            /\ held' = [held EXCEPT ![Tr[l].t] = @ - 1] /\ UNCHANGED destroyed
\* the destructor: only once, only when nothing is outstanding
TDestroy == /\ IsEv("Destroy") /\ destroyed = 0 /\ Total = 0
            /\ destroyed' = 1 /\ UNCHANGED held
\* at the end everything was released, so the destructor must have run
TEnd == /\ IsEv("End") /\ (Total = 0 => destroyed = 1)
        /\ UNCHANGED <<held, destroyed>>

TInit == l = 1 /\ held = [t \in Threads |-> 0] /\ destroyed = 0
TNext == TReset \/ TUse \/ TRelease \/ TDestroy \/ TEnd
TSpec == TInit /\ [][TNext]_vars

AtMostOnce == destroyed <= 1
Accepted == LET d == TLCGet("stats").diameter IN
            IF d - 1 = Len(Tr) THEN PrintT(<<"TRACE_ACCEPTED", Len(Tr)>>)
                               ELSE PrintT(<<"TRACE_REJECTED_AT", d>>)
=============================================================================
