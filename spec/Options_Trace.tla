--------------------------- MODULE Options_Trace ---------------------------
(***************************************************************************)
(* C20 - validation of executions recorded from the real pipes             *)
(* (harness/pipe_driver.c + harness/pd_ext_c20.c) against the abstract     *)
(* layer of Options.  One TLC state per trace line; the values are the     *)
(* strings the harness printed.  Every execution is a twin run (see        *)
(* Options.tla): the check runs script A (everything), script B (A without *)
(* its getter calls) and script C (B without the setter calls that run A   *)
(* saw rejected) on three pipes allocated the same way and merges, command *)
(* by command, what each run answered and emitted:                         *)
(*                                                                         *)
(*  {"e":"Reset","hid":i,"pipe":p,"opt":o}                                 *)
(*  {"e":"Set","v":value,"ret":a,"retb":b,"retc":c,"oa":[..],"ob":[..],"oc":[..]} *)
(*  {"e":"Get","ret":code,"res":value,"oa":[..]}                           *)
(*  {"e":"In","k":k,"oa":[..],"ob":[..],"oc":[..]}      k-th input           *)
(*  {"e":"End","oa":[..],"ob":[..],"oc":[..]}           release of the pipes  *)
(*                                                                         *)
(* (retc = 0 and oc = [] when run C did not get the call).  A line is      *)
(* always consumable: the abstract schemas take the observed results as    *)
(* they come; the verdict is given by the invariants GetReturnsLast,       *)
(* GetterNeutral, RejectNeutral and SameAnswers evaluated in every state.  *)
(*                                                                         *)
(* Two ways of running it:                                                 *)
(*  Options_Trace.cfg          the four invariants as INVARIANTs: TLC      *)
(*                             stops at the first state that breaks one    *)
(*                             (used to confirm / replay one execution)    *)
(*  MCOptions_trace_multi.cfg  no INVARIANT: the whole file is consumed,   *)
(*                             every (execution, line, invariant) that     *)
(*                             fails is collected in `bad` and the rest of *)
(*                             that execution is skipped (single pass      *)
(*                             over many thousand executions)              *)
(***************************************************************************)
EXTENDS Options, IOUtils

Tr == ndJsonDeserialize(IOEnv.TRACE)

VARIABLES l, skip, cur, bad
tvars == <<vars, l, skip, cur, bad>>

Ev == Tr[l]
O3 == [A |-> Ev.oa, B |-> Ev.ob, C |-> Ev.oc]

Apply ==
  CASE Ev.e = "Set" -> ASet(Ev.v, Ev.ret, Ev.retb, Ev.retc, O3)
    [] Ev.e = "Get" -> AGet(Ev.ret, Ev.res, Ev.oa)
    [] Ev.e = "In"  -> AIn("in", Ev.k, O3)
    [] Ev.e = "End" -> AIn("end", 0, O3)

Names == {"GetReturnsLast", "GetterNeutral", "RejectNeutral", "SameAnswers"}
Holds(nm) == CASE nm = "GetReturnsLast" -> GetReturnsLast
               [] nm = "GetterNeutral"  -> GetterNeutral
               [] nm = "RejectNeutral"  -> RejectNeutral
               [] nm = "SameAnswers"    -> SameAnswers
Violated == {nm \in Names : ~Holds(nm)}

TStep ==
  /\ l <= Len(Tr) /\ l' = l + 1
  /\ UNCHANGED <<pipe, n, nin, hist>>
  /\ IF Ev.e = "Reset"
     THEN /\ last' = Unknown /\ out' = NoOut /\ cmd' = C0
          /\ skip' = FALSE /\ cur' = Ev.hid /\ bad' = bad
     ELSE IF skip THEN UNCHANGED <<last, out, cmd, skip, cur, bad>>
     ELSE /\ Apply
          /\ cur' = cur
          /\ LET v == Violated' IN
             /\ skip' = (v # {})
             /\ bad' = bad \cup {<<cur, l, nm>> : nm \in v}

TInit == l = 1 /\ AInit /\ pipe = <<>> /\ n = 0 /\ nin = 0 /\ hist = <<>>
         /\ skip = FALSE /\ cur = 0 /\ bad = {}
TSpec == TInit /\ [][TStep]_tvars

Accepted == LET d == TLCGet("stats").diameter IN
            IF d - 1 = Len(Tr) THEN PrintT(<<"TRACE_ACCEPTED", Len(Tr)>>)
                               ELSE PrintT(<<"TRACE_REJECTED_AT", d>>)
\* single pass: the rejected executions
Report == (l = Len(Tr) + 1) => PrintT(<<"TRACE_BAD", bad>>)
=============================================================================
