\* C13 negative configuration: deliberately broken variant allocfail_stops, TLC must reject it
SPECIFICATION Spec
CONSTANTS
  Blockers = {1, 2, 3}
  Kinds = {"idler", "fd", "timer", "oneshot"}
  Variant = "allocfail_stops"
  EmitEdges = FALSE
INVARIANT TypeOK ActiveIff ExpiredOnlyOneShot FreedIsFinal FreeNotifiesAll
INVARIANT NoCallbackWhenInactive PollFiresWhenActive GetStatusReturns
CHECK_DEADLOCK FALSE
