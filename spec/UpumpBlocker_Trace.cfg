SPECIFICATION TSpec
CONSTANTS
  Blockers = {1, 2, 3}
  Kinds = {"idler", "fd", "timer", "oneshot"}
  Variant = "ok"
  EmitEdges = FALSE
INVARIANT ActiveIff ExpiredOnlyOneShot FreedIsFinal FreeNotifiesAll
INVARIANT NoCallbackWhenInactive PollFiresWhenActive GetStatusReturns
POSTCONDITION Accepted
CHECK_DEADLOCK FALSE
