--------------------------- MODULE PsiSectionsBase ---------------------------
(***************************************************************************)
(* C16 - PSI sections: definitions shared by the model (PsiSections.tla,   *)
(* PsiSectionsRoute.tla) and by the trace-validation module                *)
(* (PsiSections_Trace.tla).  No variables, no constants.                   *)
(*                                                                         *)
(* A SECTION (ISO/IEC 13818-1 2.4.4) is a 3-octet header                   *)
(*     table_id | syntax(1) private(1) reserved(2) length[11..8] | length[7..0] *)
(* followed by `length` octets; length <= 4093, table_id /= 0xff, a section *)
(* with the long syntax holds at least its extended header and CRC (length  *)
(* >= 9).  A section is described by a record d                            *)
(*     [k, len, tid, syn, ff, bad]                                         *)
(* k >= 1 its index in the stream, len its TOTAL size (3 + length), tid     *)
(* its table_id, syn its syntax bit, ff = 1: the body is made of 0xff,      *)
(* bad = 0, or the value (4094 / 4095) its length field was corrupted to.   *)
(* ByteAt(d, i) is octet i of the section: the octets are a function of the *)
(* description, so an octet string of any size is represented by a short    *)
(* list of RUNS [d, a, b] = octets a..b-1 of section d (d.k = 0: b - a      *)
(* copies of the literal octet d.tid).  harness/replay_psi.c has the same   *)
(* ByteAt in C; the check cross-checks the two on every small behaviour.    *)
(***************************************************************************)
EXTENDS Naturals, Sequences, FiniteSets

HDR   == 3         \* PSI_HEADER_SIZE
MAXSL == 4093      \* PSI_PRIVATE_MAX_SIZE: largest section_length

Min(x, y) == IF x < y THEN x ELSE y
B2I(b) == IF b THEN 1 ELSE 0

NoSec == [k |-> 0, len |-> 0, tid |-> 0, syn |-> 0, ff |-> 0, bad |-> 0]
Lit(v) == [k |-> 0, len |-> 0, tid |-> v, syn |-> 0, ff |-> 0, bad |-> 0]
Desc(k, tid, sh) == [k |-> k, len |-> sh.len, tid |-> tid, syn |-> sh.syn, ff |-> sh.ff, bad |-> sh.bad]

HdrLen(d) == IF d.bad > 0 THEN d.bad ELSE d.len - HDR
ByteAt(d, i) ==
    IF d.k = 0 THEN d.tid
    ELSE IF i = 0 THEN d.tid
    ELSE IF i = 1 THEN 128 * d.syn + 48 + (HdrLen(d) \div 256)
    ELSE IF i = 2 THEN HdrLen(d) % 256
    ELSE IF d.ff = 1 THEN 255
    ELSE (d.tid * 7 + i * 13 + (i \div 251)) % 256

\* what a header says (psi_get_length, psi_validate of the standard)
LenField(b1, b2) == (b1 % 16) * 256 + b2
ValidHdr(b1, b2) == /\ ~(b1 >= 128 /\ LenField(b1, b2) < 9)
                    /\ LenField(b1, b2) <= MAXSL
Corrupt(d) == ~ValidHdr(ByteAt(d, 1), ByteAt(d, 2))

WFDesc(d) == /\ d.k >= 1 /\ d.len \in HDR..(HDR + MAXSL) /\ d.tid \in 0..254
             /\ d.syn \in {0, 1} /\ d.ff \in {0, 1} /\ d.bad \in {0, 4094, 4095}

(***************************************************************************)
(* Octet strings as run lists.                                             *)
(***************************************************************************)
R(d, a, b) == [d |-> d, a |-> a, b |-> b]
RunLen(r) == r.b - r.a

RECURSIVE RLen(_)
RLen(rl) == IF rl = <<>> THEN 0 ELSE RunLen(Head(rl)) + RLen(Tail(rl))

RECURSIVE RByte(_, _)            \* octet i (from 0) of rl; i < RLen(rl)
RByte(rl, i) == LET h == Head(rl) IN
    IF i < RunLen(h) THEN ByteAt(h.d, h.a + i) ELSE RByte(Tail(rl), i - RunLen(h))

RECURSIVE RDrop(_, _)            \* rl without its first n octets
RDrop(rl, n) ==
    IF n = 0 \/ rl = <<>> THEN rl
    ELSE LET h == Head(rl) IN
         IF n >= RunLen(h) THEN RDrop(Tail(rl), n - RunLen(h))
         ELSE <<[h EXCEPT !.a = h.a + n]>> \o Tail(rl)

RECURSIVE RTake(_, _)            \* the first n octets of rl
RTake(rl, n) ==
    IF n = 0 \/ rl = <<>> THEN <<>>
    ELSE LET h == Head(rl) IN
         IF n >= RunLen(h) THEN <<h>> \o RTake(Tail(rl), n - RunLen(h))
         ELSE <<[h EXCEPT !.b = h.a + n]>>

\* concatenation; two pieces of one section that follow each other are joined
RCat(x, y) ==
    IF x = <<>> THEN y ELSE IF y = <<>> THEN x
    ELSE LET lx == x[Len(x)]
             hy == y[1]
         IN IF lx.d.k > 0 /\ lx.d = hy.d /\ lx.b = hy.a
            THEN SubSeq(x, 1, Len(x) - 1) \o <<[lx EXCEPT !.b = hy.b]>> \o Tail(y)
            ELSE x \o y

Expand(rl) == [i \in 1..RLen(rl) |-> RByte(rl, i - 1)]

\* index of the section of which rl is the complete, intact serialisation; 0: none
Ident(rl) == IF Len(rl) = 1 /\ rl[1].d.k > 0 /\ rl[1].a = 0 /\ rl[1].b = rl[1].d.len
             THEN rl[1].d.k ELSE 0

(***************************************************************************)
(* TS payloads carrying sections.  A payload is                            *)
(*   [start, disc, ptr, runs, stuff]                                       *)
(* start: payload_unit_start_indicator; then the first octet is the        *)
(* pointer_field ptr.  runs: the pieces of sections it carries, stuff: the *)
(* number of 0xff octets after them.  disc: the payload follows a gap (the *)
(* demultiplexer flags the first payload after a continuity error).        *)
(***************************************************************************)
Bytes(p) == (IF p.start THEN <<R(Lit(p.ptr), 0, 1)>> ELSE <<>>)
            \o p.runs
            \o (IF p.stuff > 0 THEN <<R(Lit(255), 0, p.stuff)>> ELSE <<>>)
PSize(p) == B2I(p.start) + RLen(p.runs) + p.stuff

IsStart(runs) == \E i \in 1..Len(runs) : runs[i].a = 0
RECURSIVE PtrOf(_)               \* octets before the first section that starts in runs
PtrOf(runs) == IF runs = <<>> \/ Head(runs).a = 0 THEN 0
               ELSE RunLen(Head(runs)) + PtrOf(Tail(runs))
RECURSIVE FromFirstStart(_)
FromFirstStart(runs) == IF runs = <<>> \/ Head(runs).a = 0 THEN runs
                        ELSE FromFirstStart(Tail(runs))

(***************************************************************************)
(* The rules of a WELL-FORMED cutting (2.4.4.1, 2.4.4.2), stated on one    *)
(* payload given the position of the stream before it: `done` sections     *)
(* entirely sent, `off` octets of the next one sent.                       *)
(*  - the payload carries at least one octet of a section, the pieces      *)
(*    follow each other without hole or overlap, in the order of the       *)
(*    stream;                                                              *)
(*  - unit start <=> the first octet of some section is in the payload;    *)
(*    a unit-start payload begins with the pointer field, whose value is   *)
(*    the number of octets before the first section that starts in it (so  *)
(*    a section start needs a unit-start payload with room for the pointer *)
(*    field AND the first octet of the section);                           *)
(*  - stuffing (0xff) only after the last octet of a section, up to the    *)
(*    end of the payload; table_id 0xff is forbidden;                      *)
(*  - the payload fits the capacity.                                       *)
(***************************************************************************)
WellFormedPay(p, done, off, maxpay) ==
    LET n == Len(p.runs) IN
    /\ n >= 1
    /\ \A i \in 1..n : LET r == p.runs[i] IN
          /\ WFDesc(r.d) /\ r.a < r.b /\ r.b <= r.d.len
          /\ r.d.k = done + i
          /\ r.a = (IF i = 1 THEN off ELSE 0)
          /\ i < n => r.b = r.d.len
    /\ p.start = IsStart(p.runs)
    /\ p.start => /\ p.ptr = PtrOf(p.runs)
                  /\ p.ptr <= 255
    /\ ~p.start => p.ptr = 0
    /\ p.stuff > 0 => p.runs[n].b = p.runs[n].d.len
    /\ PSize(p) <= maxpay

(***************************************************************************)
(* The property, at the level of sections.  After each delivered payload:  *)
(* which sections MUST have been output.  The reference keeps two facts:   *)
(* sync (all octets since some section start have been received in a row)  *)
(* and cur (the section being received from its first octet, 0: none).     *)
(*  - a payload flagged disc loses sync before anything else;              *)
(*  - out of sync, a payload without unit start is ignored; one with unit  *)
(*    start resynchronises AT the section its pointer field designates;    *)
(*  - a corrupt header (detected when its third octet is there) loses sync *)
(*    and what follows in that payload;                                    *)
(*  - in sync, a section whose last octet arrives must be output.          *)
(* Everything else MAY be lost (the statement bounds the loss, it does not *)
(* forbid a cleverer merger); nothing but intact valid sections, in order, *)
(* each at most once, may ever be output.                                  *)
(***************************************************************************)
RECURSIVE AbsRuns(_, _, _)
AbsRuns(rs, cur, must) ==
    IF rs = <<>> THEN [sync |-> TRUE, cur |-> cur, must |-> must]
    ELSE LET r == Head(rs)
             c == IF r.a = 0 THEN r.d.k ELSE cur
         IN IF c # r.d.k
            THEN [sync |-> FALSE, cur |-> 0, must |-> must]
            ELSE IF Corrupt(r.d) /\ r.a <= 2 /\ 2 < r.b
            THEN [sync |-> FALSE, cur |-> 0, must |-> must]
            ELSE IF r.b = r.d.len /\ ~Corrupt(r.d)
            THEN AbsRuns(Tail(rs), 0, Append(must, r.d.k))
            ELSE AbsRuns(Tail(rs), c, must)

AbsPay(p, sync, cur) ==
    LET s0 == sync /\ ~p.disc
        c0 == IF p.disc THEN 0 ELSE cur
    IN IF s0 /\ (p.start \/ c0 # 0) THEN AbsRuns(p.runs, c0, <<>>)
       ELSE IF p.start THEN AbsRuns(FromFirstStart(p.runs), 0, <<>>)
       ELSE [sync |-> FALSE, cur |-> 0, must |-> <<>>]

(***************************************************************************)
(* Section filters of the splitter: n octets of filter and of mask.        *)
(*   "yes"  the section has n leading octets and (s[i] & mask[i]) =        *)
(*          filter[i] for each of them                                     *)
(*   "no"   it has n leading octets and one of them differs under the mask *)
(*   "any"  the statement is silent: the section is shorter than the       *)
(*          filter, or the filter has bits outside its mask                *)
(***************************************************************************)
RECURSIVE BitAnd(_, _)
BitAnd(x, y) == IF x = 0 \/ y = 0 THEN 0
                ELSE (x % 2) * (y % 2) + 2 * BitAnd(x \div 2, y \div 2)

NormalFilter(f) == \A i \in 1..f.n : BitAnd(f.fb[i], f.mb[i]) = f.fb[i]
MatchClass(d, f) ==
    IF d.len < f.n \/ ~NormalFilter(f) THEN "any"
    ELSE IF \A i \in 1..f.n : BitAnd(ByteAt(d, i - 1), f.mb[i]) = f.fb[i] THEN "yes"
    ELSE "no"
=============================================================================
