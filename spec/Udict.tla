------------------------------- MODULE Udict -------------------------------
(***************************************************************************)
(* C10 - attribute dictionaries behave as typed key-value maps.            *)
(*                                                                         *)
(* Abstract specification of the udict / uref_attr API                     *)
(* (include/upipe/udict.h, uref_attr.h; implementation                     *)
(* lib/upipe/udict_inline.c).                                              *)
(*                                                                         *)
(* dict[d] is a PARTIAL function: its DOMAIN is the set of attributes      *)
(* present in dictionary d.  A key is a record [n |-> name, t |-> type]:   *)
(*   - a named attribute is (name, base type), base type one of the ten    *)
(*     udict types;                                                        *)
(*   - a shorthand attribute is (NoName, shorthand type), exactly as the   *)
(*     public accessors address it (name = NULL).  A shorthand and the     *)
(*     named attribute carrying the shorthand's textual name (e.g.         *)
(*     ("f.def", string) and (NoName, FLOW_DEF)) are DIFFERENT keys, as    *)
(*     in the code.                                                        *)
(* Values are opaque tokens (strings); the harness materialises them       *)
(* (harness/replay_udict.c: "o<len>.<seed>", "s<len>.<seed>", "u<dec>",    *)
(* ...) and prints the token of whatever the real getter returned, so      *)
(* token equality is value equality.  64-bit values never reach TLC as     *)
(* integers.                                                               *)
(*                                                                         *)
(* Every action records the call and ITS RESULT in `last`; the model       *)
(* checker wrapper (MCUdict) appends `last` to a history, the trace        *)
(* module (Udict_Trace) compares it with the logged result.                *)
(*                                                                         *)
(* Outside the claim (never generated): values that do not fit the 16-bit  *)
(* TLV length (namelen + 1 + size > 65535: the code asserts), INT64_MIN,   *)
(* types outside enum udict_type, copy of an attribute from a dictionary   *)
(* onto itself (the statement is silent; uref_attr_copy_* deletes first).  *)
(***************************************************************************)
EXTENDS Naturals, Sequences, FiniteSets, TLC

CONSTANTS Dicts,          \* handles (slots) a dictionary can be bound to
          Bug,            \* "none", or the name of a deliberately broken variant (negative configs)
          PrefixOf(_, _)  \* PrefixOf(a, b): name a is a strict prefix of name b (used by a negative variant only)

VARIABLES dict,   \* dict[d]: partial function key -> value token (empty when d is not live)
          live,   \* set of allocated handles
          last    \* the last call and its result

uvars == <<dict, live, last>>

NoName == "-"
Absent == "absent"

BaseTypes == {"opaque", "string", "void", "bool", "small_unsigned", "small_int",
              "unsigned", "int", "rational", "float"}

\* shorthand types and their base type (enum udict_type / uref_*.h accessors)
ShBase == [
  FLOW_RANDOM |-> "void", FLOW_ERROR |-> "void", FLOW_DEF |-> "string",
  FLOW_ID |-> "unsigned", FLOW_RAWDEF |-> "string", FLOW_LANGUAGES |-> "small_unsigned",
  EVENT_EVENTS |-> "unsigned",
  CLOCK_DURATION |-> "unsigned", CLOCK_RATE |-> "rational", CLOCK_LATENCY |-> "unsigned",
  CLOCK_WRAP |-> "unsigned",
  BLOCK_END |-> "void",
  PIC_NUM |-> "unsigned", PIC_KEY |-> "void", PIC_HSIZE |-> "unsigned", PIC_VSIZE |-> "unsigned",
  PIC_HSIZE_VISIBLE |-> "unsigned", PIC_VSIZE_VISIBLE |-> "unsigned",
  PIC_VIDEO_FORMAT |-> "string", PIC_FULL_RANGE |-> "void", PIC_COLOUR_PRIMARIES |-> "string",
  PIC_TRANSFER_CHARACTERISTICS |-> "string", PIC_MATRIX_COEFFICIENTS |-> "string",
  PIC_HPOSITION |-> "unsigned", PIC_VPOSITION |-> "unsigned", PIC_LPADDING |-> "unsigned",
  PIC_RPADDING |-> "unsigned", PIC_TPADDING |-> "unsigned", PIC_BPADDING |-> "unsigned",
  PIC_SAR |-> "rational", PIC_OVERSCAN |-> "bool", PIC_PROGRESSIVE |-> "void",
  PIC_TF |-> "void", PIC_BF |-> "void", PIC_TFF |-> "void", PIC_AFD |-> "small_unsigned",
  PIC_CEA_708 |-> "opaque", PIC_BAR_DATA |-> "opaque" ]

ShTypes == DOMAIN ShBase
BaseOf(t) == IF t \in BaseTypes THEN t ELSE ShBase[t]

\* a well-formed key: named + base type, or NoName + shorthand type
WellFormedKey(k) == \/ k.n # NoName /\ k.t \in BaseTypes
                    \/ k.n = NoName /\ k.t \in ShTypes

-----------------------------------------------------------------------------
\* partial-function algebra (all results built by the same constructor so
\* that equality of dictionaries is equality of TLC values)
EmptyF == [x \in {} |-> Absent]
Has(f, k) == k \in DOMAIN f
Lookup(f, k) == IF Has(f, k) THEN f[k] ELSE Absent
Put(f, k, v) == [x \in DOMAIN f \cup {k} |-> IF x = k THEN v ELSE f[x]]
Del(f, ks) == [x \in DOMAIN f \ ks |-> f[x]]
Override(f, g) == [x \in DOMAIN f \cup DOMAIN g |-> IF x \in DOMAIN g THEN g[x] ELSE f[x]]

Init == /\ dict = [d \in Dicts |-> EmptyF]
        /\ live = {}
        /\ last = [op |-> "init", d |-> 0, res |-> "ok"]

-----------------------------------------------------------------------------
\* udict_alloc / uref_alloc (a uref without udict is an empty dictionary)
Alloc(d) == /\ d \in Dicts \ live
            /\ live' = live \cup {d}
            /\ dict' = [dict EXCEPT ![d] = EmptyF]
            /\ last' = [op |-> "alloc", d |-> d, res |-> "ok"]

\* udict_set_<type> / uref_attr_set_<type>: creates or replaces
Set(d, k, v) == /\ d \in live
                /\ dict' = [dict EXCEPT ![d] = Put(@, k, v)]
                /\ UNCHANGED live
                /\ last' = [op |-> "set", d |-> d, k |-> k, v |-> v, res |-> "ok"]

\* a setter that REFUSES its argument (udict_set_opaque_from_hex / uref_attr_set_opaque_from_hex given a
\* string that stops being hexadecimal): an error is answered and nothing is stored, replaced or removed
SetRefused(d, k) == /\ d \in live
                    /\ UNCHANGED <<dict, live>>
                    /\ last' = [op |-> "setbad", d |-> d, k |-> k, res |-> "invalid"]

\* set_string(d, get_string(d, k2), k) / set_opaque likewise: the source
\* pointer aliases the dictionary's own storage.  Absent source: the getter
\* fails and nothing is stored.
SetAlias(d, k, k2) ==
    /\ d \in live
    /\ dict' = [dict EXCEPT ![d] = IF Has(@, k2) THEN Put(@, k, @[k2]) ELSE @]
    /\ UNCHANGED live
    /\ last' = [op |-> "seta", d |-> d, k |-> k, k2 |-> k2,
                res |-> IF Has(dict[d], k2) THEN "ok" ELSE Absent]

\* udict_get_<type>: the value, or an error when the attribute is absent
Get(d, k) == /\ d \in live
             /\ UNCHANGED <<dict, live>>
             /\ last' = [op |-> "get", d |-> d, k |-> k, res |-> Lookup(dict[d], k)]

\* udict_delete: UBASE_ERR_INVALID ("absent") when there is nothing to delete
DelSet(f, k) == {k} \cup (IF Bug = "prefix_delete"
                          THEN {x \in DOMAIN f : x.t = k.t /\ PrefixOf(k.n, x.n)}
                          ELSE {})
Delete(d, k) == /\ d \in live
                /\ dict' = [dict EXCEPT ![d] = IF Has(@, k) THEN Del(@, DelSet(@, k)) ELSE @]
                /\ UNCHANGED live
                /\ last' = [op |-> "del", d |-> d, k |-> k,
                            res |-> IF Has(dict[d], k) THEN "ok" ELSE Absent]

\* udict_dup / uref_dup into a fresh handle
Dup(d, e) == /\ d \in live /\ e \in Dicts \ live
             /\ live' = live \cup {e}
             /\ dict' = [dict EXCEPT ![e] = dict[d]]
             /\ last' = [op |-> "dup", d |-> e, s |-> d, res |-> "ok"]

\* udict_import / uref_attr_import: every attribute of s is stored into d
\* (replacing); attributes of d that s does not have are kept
Import(d, s) ==
    /\ d \in live /\ s \in live
    /\ dict' = [dict EXCEPT ![d] = IF Bug = "import_keeps" THEN Override(dict[s], @)
                                                           ELSE Override(@, dict[s])]
    /\ UNCHANGED live
    /\ last' = [op |-> "import", d |-> d, s |-> s, res |-> "ok"]

\* uref_attr_copy_<type>(d, s, type, name): d's attribute becomes s's
\* (deleted if s has none); always succeeds.  d # s (see header).
Copy(d, s, k) ==
    /\ d \in live /\ s \in live /\ d # s
    /\ dict' = [dict EXCEPT ![d] = IF Has(dict[s], k) THEN Put(@, k, dict[s][k]) ELSE Del(@, {k})]
    /\ UNCHANGED live
    /\ last' = [op |-> "copy", d |-> d, s |-> s, k |-> k, res |-> "ok"]

\* udict_cmp: 0 iff identical ("nz": the code returns 1 or -1, the sign is unspecified)
CmpRes(d, e) == IF Bug = "cmp_subset"
                THEN (IF \A k \in DOMAIN dict[d] : Has(dict[e], k) /\ dict[e][k] = dict[d][k] THEN "0" ELSE "nz")
                ELSE (IF dict[d] = dict[e] THEN "0" ELSE "nz")
Cmp(d, e) == /\ d \in live /\ e \in live
             /\ UNCHANGED <<dict, live>>
             /\ last' = [op |-> "cmp", d |-> d, s |-> e, res |-> CmpRes(d, e)]

\* udict_iterate from UDICT_TYPE_END until UDICT_TYPE_END: the SET of keys
\* visited; the implementation must visit each exactly once, in any order
Iterate(d) == /\ d \in live
              /\ UNCHANGED <<dict, live>>
              /\ last' = [op |-> "iter", d |-> d, res |-> DOMAIN dict[d]]

\* udict_free / uref_free
Free(d) == /\ d \in live
           /\ live' = live \ {d}
           /\ dict' = [dict EXCEPT ![d] = EmptyF]
           /\ last' = [op |-> "free", d |-> d, res |-> "ok"]

-----------------------------------------------------------------------------
\* Properties.  The ones about results are ACTION properties ([][..]_v) so
\* that TLC evaluates them on every transition, also under a VIEW that hides
\* `last`.
TypeOK == /\ live \subseteq Dicts
          /\ \A d \in Dicts : /\ (d \notin live => dict[d] = EmptyF)
                              /\ \A k \in DOMAIN dict[d] : WellFormedKey(k) /\ dict[d][k] # Absent

\* the handle whose dictionary the last call was allowed to change
Target(c) == c.d

\* a duplicate is independent of its original: an action on d changes no other dictionary
DupIndependent ==
    [][last'.op # "reset" =>   \* (Reset: a new execution in a trace file)
         \A x \in Dicts : x # Target(last') => dict'[x] = dict[x]]_uvars

\* looking up returns the value last stored under the key (by construction
\* here; MCUdict checks it against an independent write-log formulation)
GetReturnsLastSet ==
    [][/\ last'.op = "set"  => Lookup(dict'[last'.d], last'.k) = last'.v
       /\ last'.op = "get"  => /\ last'.res = Lookup(dict[last'.d], last'.k)
                               /\ dict' = dict
       /\ last'.op = "del"  => /\ ~Has(dict'[last'.d], last'.k)
                               /\ (last'.res = "ok") <=> Has(dict[last'.d], last'.k)
                               /\ \A x \in DOMAIN dict[last'.d] : x # last'.k => Lookup(dict'[last'.d], x) = dict[last'.d][x]
       /\ last'.op = "dup"  => dict'[last'.d] = dict[last'.s]
       /\ last'.op = "import" => \A x \in DOMAIN dict[last'.d] \cup DOMAIN dict[last'.s] :
                                    Lookup(dict'[last'.d], x) = IF Has(dict[last'.s], x) THEN dict[last'.s][x]
                                                                ELSE dict[last'.d][x]
       /\ last'.op = "copy" => Lookup(dict'[last'.d], last'.k) = Lookup(dict[last'.s], last'.k)
      ]_uvars

\* comparison reports equality exactly when both hold the same attributes with the same values
CmpIffEqual ==
    [][last'.op = "cmp" => ((last'.res = "0") <=> (dict[last'.d] = dict[last'.s]))]_uvars

\* iteration visits each present attribute exactly once (the result is the
\* set of present keys; Udict_Trace checks the logged SEQUENCE against it:
\* same elements, no repetition)
IterateExactlyOnce ==
    [][last'.op = "iter" => last'.res = DOMAIN dict[last'.d]]_uvars

VisitsExactlyOnce(seq, keyset) == /\ Len(seq) = Cardinality(keyset)
                                  /\ {seq[i] : i \in 1..Len(seq)} = keyset
=============================================================================
