\* C20 exhaustive (thorough tier): scripts of <= 8 commands, <= 4 inputs
SPECIFICATION Spec
CONSTANTS
  Acc = {1, 2, 3}
  Rej = {4, 5}
  Default = 0
  Garbage = 99
  Unknown = 98
  MaxLen = 8
  MaxIn = 4
  Variant = "ok"
  EmitBeh = FALSE
INVARIANT TypeOK GetReturnsLast GetterNeutral RejectNeutral SameAnswers
PROPERTY GetStutters RejectKeeps AcceptStores
VIEW View
CHECK_DEADLOCK FALSE
