\* quick, exp-Golomb: alignments 0/3/7, ue and se of every class k = 0..31 (code lengths 1..63) x {min, max, alternating}, followed by a second code; emits BEH lines
SPECIFICATION Spec
CONSTANTS
  Mode = "G"
  Variant = "ok"
  Leads = {0, 3, 7}
  Ks = {0, 1, 2, 3, 4, 5, 6, 7, 8, 9, 10, 11, 12, 13, 14, 15, 16, 17, 18, 19, 20, 21, 22, 23, 24, 25, 26, 27, 28, 29, 30, 31}
  K2s = {0, 9}
  Reps = {"min", "max", "alt"}
  Kinds = {"ue", "se"}
  Alphabet = {0}
  MaxLen = 0
INVARIANT Emit TypeOK NoUB CodecInverse EscInverse ReadOK OvSound
VIEW View
CHECK_DEADLOCK FALSE
