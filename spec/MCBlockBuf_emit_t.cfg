\* emission, thorough: one block; any structural call; any call (observers included) - every offset and size
SPECIFICATION MCSpec
CONSTANTS
  Handles = {0, 1}
  Fill = 14
  Strict = TRUE
  KeepHist = TRUE
  Bug = "none"
  Pre = 2
  MaxLen = 8
  MaxWins = 6
  Depth = 2
  PatSet = "c02"
  InitSet = "one"
  ObsLast = TRUE
  Rand = FALSE
  Letters = {0, 1}
  LastOps = {}
  LastSz = {}
  Dom = "all"
  Ops = {"alloc", "dup", "splice", "split", "copy", "merge", "append", "insert", "delete", "truncate", "resize", "prepend", "wmap", "poke", "free", "size", "read", "rd1", "peek", "extract", "iovec", "slin", "scan", "find", "compare", "equal", "match"}
INVARIANT Emit
CONSTRAINT Bounded
CHECK_DEADLOCK FALSE
