------------------------------ MODULE BinInput ------------------------------
(***************************************************************************)
(* C12 - a bin pipe whose FIRST INNER pipe changes while requests are       *)
(* registered on it (include/upipe/upipe_helper_bin_input.h:                *)
(* store_bin_input / register_bin_request / unregister_bin_request /        *)
(* alloc_bin_proxy / free_bin_proxy).  What upipe_autof, upipe_ffmt,        *)
(* upipe_fdec, upipe_blksrc ... do when they drop their inner pipeline      *)
(* (store_bin_input(NULL)) and spawn another one.                           *)
(*                                                                          *)
(* The bin keeps one proxy per request registered on it (list).  The        *)
(* current first inner holds the registrations (at[i]).  The application    *)
(* may keep references of its own on the inner pipes (held): a pipe the     *)
(* bin drops dies only when nobody else holds it.  An inner pipe either     *)
(* holds a registration until told to answer (hold) or answers while the    *)
(* registration is made (answer).  Without first inner a registration is    *)
(* thrown to the bin's probe (event pr), which may answer it.               *)
(*                                                                          *)
(* The statement, on this configuration: the still-registered requests are  *)
(* withdrawn from the old first inner and re-issued to the new one          *)
(* (Placement); an answer of a pipe that is no longer the first inner, or   *)
(* for a request that was unregistered, never reaches the requester         *)
(* (NoStaleAnswer is an action property: cb only for requests of the list); *)
(* no inner pipe dies with registrations left (NoDeadWithRegs).             *)
(***************************************************************************)
EXTENDS Naturals, FiniteSets, TLC
CONSTANTS Reqs, Inners, AnsChoices, ProbeChoices, Variant, MaxSteps
None == "none"
VARIABLES list, first, at, held, dead, obs, steps,
          Answering, ProbeAnswers    \* the environment of the execution: chosen at the start, never changed
vars == <<list, first, at, held, dead, obs, steps, Answering, ProbeAnswers>>

TypeOK ==
  /\ list \subseteq Reqs /\ first \in Inners \cup {None}
  /\ at \in [Inners -> SUBSET Reqs] /\ held \subseteq Inners /\ dead \subseteq Inners
  /\ steps \in 0..MaxSteps

Init ==
  /\ list = {} /\ first = None /\ at = [i \in Inners |-> {}]
  /\ held = Inners /\ dead = {} /\ obs = {} /\ steps = 0
  /\ Answering \in AnsChoices /\ ProbeAnswers \in ProbeChoices

\* events of registering the set S of requests at inner i
RegEvs(i, S) == {<<"sreg", i, r>> : r \in S} \cup (IF i \in Answering THEN {<<"cb", i, r>> : r \in S} ELSE {})

Reg(r) ==
  /\ r \notin list
  /\ list' = list \cup {r}
  /\ IF first # None
     THEN at' = [at EXCEPT ![first] = @ \cup {r}] /\ obs' = RegEvs(first, {r})
     ELSE at' = at /\ obs' = {<<"pr", None, r>>} \cup (IF ProbeAnswers THEN {<<"cb", None, r>>} ELSE {})
  /\ UNCHANGED <<first, held, dead>>

Unreg(r) ==
  /\ r \in list
  /\ list' = list \ {r}
  /\ IF first # None /\ r \in at[first]
     THEN at' = [at EXCEPT ![first] = @ \ {r}] /\ obs' = {<<"sunreg", first, r>>}
     ELSE at' = at /\ obs' = {}
  /\ UNCHANGED <<first, held, dead>>

\* the bin stores x as its first inner (x = None: it only drops the old one)
Store(x) ==
  /\ x # first /\ x \notin dead
  /\ x # None => x \in held        \* the application hands over a pipe it holds
  /\ LET old == first
         wd == IF old = None \/ (Variant = "store_null_keeps" /\ x = None) THEN {} ELSE at[old]
         dies == old # None /\ old \notin held
         at1 == IF old = None THEN at ELSE [at EXCEPT ![old] = @ \ wd]
         reissue == IF x = None \/ Variant = "no_reissue" THEN {} ELSE list
     IN /\ first' = x
        /\ dead' = IF dies THEN dead \cup {old} ELSE dead
        /\ at' = IF x = None THEN at1 ELSE [at1 EXCEPT ![x] = @ \cup reissue]
        /\ obs' = {<<"sunreg", old, r>> : r \in wd}
                  \cup (IF dies THEN {<<"freed", old, Cardinality(at1[old])>>} ELSE {})
                  \cup (IF x = None THEN {} ELSE RegEvs(x, reissue))
  /\ UNCHANGED <<list, held>>

\* inner pipe i is told to answer the registration of r it holds (nothing happens if it holds none)
Provide(i, r) ==
  /\ i \notin dead
  /\ obs' = IF r \in at[i] THEN {<<"cb", i, r>>} ELSE {}
  /\ UNCHANGED <<list, first, at, held, dead>>

\* the application drops its own reference on inner pipe i
Drop(i) ==
  /\ i \in held
  /\ held' = held \ {i}
  /\ IF i # first
     THEN dead' = dead \cup {i} /\ obs' = {<<"freed", i, Cardinality(at[i])>>}
     ELSE dead' = dead /\ obs' = {}
  /\ UNCHANGED <<list, first, at>>

Tick == steps < MaxSteps /\ steps' = steps + 1 /\ UNCHANGED <<Answering, ProbeAnswers>>
ActReg == Tick /\ \E r \in Reqs : Reg(r)
ActUnreg == Tick /\ \E r \in Reqs : Unreg(r)
ActStore == Tick /\ \E x \in Inners \cup {None} : Store(x)
ActProvide == Tick /\ \E i \in Inners, r \in Reqs : Provide(i, r)
ActDrop == Tick /\ \E i \in Inners : Drop(i)
Next == ActReg \/ ActUnreg \/ ActStore \/ ActProvide \/ ActDrop
Spec == Init /\ [][Next]_vars

\* ---- the statement
Placement == \A i \in Inners : at[i] = IF i = first THEN list ELSE {}
NoDeadWithRegs == \A e \in obs : e[1] = "freed" => e[3] = 0
\* a call-back is invoked only for a request that is registered (before and after the step), and only by
\* the pipe that is the first inner after the step (or by the probe when there is none)
NoStaleAnswer == [][\A e \in obs' : e[1] = "cb" => (e[3] \in list' /\ e[2] = first')]_vars
=============================================================================
