\* mode E (plan, capacity 0..ceil(bits/8)+1, write, clean, read back with both readers), exhaustive <= 2 fields, no VIEW; emits one BEH line per behaviour
SPECIFICATION Spec
CONSTANTS
  Mode = "E"
  Variant = "ok"
  Widths = {1, 7, 8, 9, 24, 31, 32}
  Kinds = {"ones", "alt", "zero"}
  MaxFields = 2
  MaxCap = 0
  MaxSize = 0
  MaxSeg = 3
  Pats = {"tex"}
  NearCap = FALSE
INVARIANT TypeOK NoUB InBounds RefInv OvSound CleanOK Untouched ReadOK ReaderRefInv Inverse Emit
CHECK_DEADLOCK FALSE
