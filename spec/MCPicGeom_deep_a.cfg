\* exhaustive geometry evaluation (quick): planar 4:2:0, alloc / resize chains / every mapping request
CONSTANTS
  Geos = {"deep_a"}
  GeoSet <- PicGeoSet
  Handles = {0}
  MaxOps = 4
  MaxResize = 2
  Variant = "none"
  Record = FALSE
SPECIFICATION Spec
VIEW View
INVARIANT WindowsInCanvas Inside InjectiveMap CanvasInjective GranularityP MapIsWindowCell AllocGranular WriteOnlySingle
PROPERTY CropPreserves StructuralOpsDontWrite
CHECK_DEADLOCK FALSE
