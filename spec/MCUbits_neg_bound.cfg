\* NEGATIVE: bound test of ubits_put off by one: TLC must reject (InBounds)
SPECIFICATION Spec
CONSTANTS
  Mode = "W"
  Variant = "neg_bound"
  Widths = {1, 7, 8, 9, 24, 31, 32}
  Kinds = {"ones", "alt", "zero"}
  MaxFields = 2
  MaxCap = 9
  MaxSize = 0
  MaxSeg = 1
  Pats = {"tex"}
  NearCap = FALSE
VIEW ViewW
INVARIANT TypeOK NoUB InBounds RefInv OvSound CleanOK Untouched
CHECK_DEADLOCK FALSE
