------------------------------ MODULE Requests ------------------------------
(***************************************************************************)
(* C12 - requests travel downstream, answers travel back, surviving        *)
(* re-plumbing.                                                            *)
(*                                                                         *)
(* A scenario (variable cfg, chosen in Init, never changed) is a small     *)
(* topologically ordered set of pipes:                                     *)
(*   "fwd"    a pipe with an output and a request list, i.e. a user of     *)
(*            upipe_helper_output.h (idem, setattr, skip, delay, dup ...); *)
(*            icpt[n] = request types it does not forward but throws to    *)
(*            its probe (upipe_helper_ubuf_mgr's control, genaux, tblk;    *)
(*            upipe_null intercepts every type); nothrow[n]: a bin         *)
(*            (upipe_helper_bin_input.h: an unanswered request is not      *)
(*            thrown again at the bin itself); a bin's inner pipe is a     *)
(*            node of its own whose probe is the bin's (pnode/pname) and   *)
(*            whose output is what set_output on the bin changes (outvia)  *)
(*   "sink"   a recording sink: mode hold (keeps the request, answers when *)
(*            told to), throw (throws provide_request at its probe),       *)
(*            refuse (returns UBASE_ERR_UNHANDLED)                         *)
(*   "qsink" / "qsrc"   upipe_queue_sink / upipe_queue_source: the two     *)
(*            ends of a thread queue, modelled as two FIFO channels of     *)
(*            out-of-band messages (chD downstream, chU upstream) that     *)
(*            move only when the loop of thread A / B runs once            *)
(* prov[n]  = request types the recording probe of n answers,              *)
(* fprov[n] = types answered by a real provider probe placed in front of   *)
(*            it (uprobe_uref_mgr, uprobe_ubuf_mem, uprobe_uclock).        *)
(* Requests: cfg.reqs; owner[r] = "-" for a request the application        *)
(* registers with upipe_register_request, or the pipe that holds it as its *)
(* OWN request through upipe_helper_uref_mgr / ubuf_mgr / uclock /         *)
(* flow_format (command require).                                          *)
(*                                                                         *)
(* State: out[n], lst[n] (request list of n: entries [r, d, g] = original  *)
(* request, number of proxies between it and this entry, queue generation  *)
(* or 0), sreg[s] (entries registered at sink s and not unregistered),     *)
(* reg[r] (where r is registered by its requester, "-" = nowhere), hnd     *)
(* (application holds a reference), alive; qlist (requests the queue sink  *)
(* holds), chD, chU, ngen.  Outputs of the LAST command: cmd, evs (what a  *)
(* harness can observe, in order), ret.                                    *)
(*                                                                         *)
(* The operators RegAt / UnregAt / RegOut / DoSetOut / Kill transcribe     *)
(* upipe_helper_output.h (register_output_request, alloc/free_output_proxy,*)
(* set_output, clean_output), upipe_helper_bin_input.h and the request     *)
(* part of upipe_queue_sink.c / upipe_queue_source.c.  The property is     *)
(* stated separately and declaratively (PathInv, NoCallbackAfterUnregister,*)
(* Reaches*, NoSinkFreedWithRegs) and checked by TLC against them.         *)
(***************************************************************************)
EXTENDS Naturals, Integers, Sequences, FiniteSets, TLC, Json

CONSTANTS Scenarios,   \* set of scenario records
          Variant,     \* "ok", a deliberately broken variant (negative cfgs), or "binfall" (see RegAt)
          EmitEdges,   \* TRUE: print every transition (EDGE lines) for the replay
          Idle,        \* TRUE: running a loop with nothing pending is a (no-op) command
          MaxGen, MaxChan, MaxPath

VARIABLES cfg, out, lst, sreg, reg, hnd, alive, qlist, chD, chU, ngen,
          lost, zomb,     \* requests whose register / unregister message the full downstream channel refused
          cmd, evs, ret, pre, path

core == <<cfg, out, lst, sreg, reg, hnd, alive, qlist, chD, chU, ngen, lost, zomb>>
vars == <<cfg, out, lst, sreg, reg, hnd, alive, qlist, chD, chU, ngen, lost, zomb, cmd, evs, ret, pre, path>>

NONE == "-"
UNH == 5      \* UBASE_ERR_UNHANDLED
INV == 6      \* UBASE_ERR_INVALID
BUSY == 8     \* UBASE_ERR_BUSY
\* length of the out-of-band queues of upipe_queue_source.c (OOB_QUEUES); a scenario may carry a smaller one
\* (field qcap) for the exhaustive runs
QCap == IF "qcap" \in DOMAIN cfg THEN cfg.qcap ELSE 255

Types == {"uref_mgr", "flow_format", "ubuf_mgr", "uclock", "sink_latency"}
\* what the provider hands over: recording probe / sink, real probe
PVal == [uref_mgr |-> "g", uclock |-> "g", ubuf_mgr |-> "g", flow_format |-> "block.A.", sink_latency |-> "1000"]
FVal == [uref_mgr |-> "g", uclock |-> "g", ubuf_mgr |-> "other", flow_format |-> "block.A.", sink_latency |-> "0"]

Range(s) == {s[i] : i \in DOMAIN s}
Min(S) == CHOOSE x \in S : \A y \in S : x <= y
RemoveAt(s, i) == SubSeq(s, 1, i - 1) \o SubSeq(s, i + 1, Len(s))

Nodes == Range(cfg.nodes)
Reqs == Range(cfg.reqs)
Pos(n) == CHOOSE i \in DOMAIN cfg.nodes : cfg.nodes[i] = n
K(n) == cfg.kind[n]
T(r) == cfg.rtype[r]
Fwd == {n \in Nodes : K(n) \in {"fwd", "qsrc"}}
Sinks == {n \in Nodes : K(n) = "sink"}
QSrc == CHOOSE n \in Nodes : K(n) = "qsrc"
HasQueue == \E n \in Nodes : K(n) = "qsrc"

\* index of the entry for request r with d proxies in a list, 0 if none
IndexOf(s, r, d) == LET I == {i \in DOMAIN s : s[i].r = r /\ s[i].d = d}
                    IN IF I = {} THEN 0 ELSE Min(I)
IndexR(s, r) == LET I == {i \in DOMAIN s : s[i].r = r} IN IF I = {} THEN 0 ELSE Min(I)

\* ---- the state as a record (threaded through the propagation) ----------
Cur == [out |-> out, lst |-> lst, sreg |-> sreg, reg |-> reg, hnd |-> hnd, alive |-> alive,
        qlist |-> qlist, chD |-> chD, chU |-> chU, ngen |-> ngen, lost |-> lost, zomb |-> zomb, evs |-> <<>>,
        \* entries <<pipe, request, proxies, generation>> whose `registered` flag is down although the pipe
        \* has an output: only while STRUCTURE##_set_output re-issues them one by one (transient)
        unr |-> {}]
Key(n, e) == <<n, e.r, e.d, e.g>>
HasRereq(p) == "rereq" \in DOMAIN cfg /\ cfg.rereq[p]

Ev(S, e) == [S EXCEPT !.evs = Append(@, e)]

\* the provider invokes the call-back of entry e: in the thread of the
\* requester it runs through the proxies to the original request; an entry
\* that came through the queue source sends an out-of-band message upstream
RECURSIVE Answer(_, _, _), Rereq(_, _), RegOut(_, _, _), UnregAt(_, _, _), UnregOutIdx(_, _, _)
\* a one-shot request of the application: its call-back unregisters it (from inside the provider's call when
\* the answer is given at once); the event <<"ucb", r>> marks the moment
OneShot(r) == "oneshot" \in DOMAIN cfg /\ r \in cfg.oneshot /\ cfg.owner[r] = NONE
UnregInCb(S, r) ==
  IF ~OneShot(r) \/ S.reg[r] = NONE THEN S
  ELSE LET R == UnregAt(Ev(S, <<"ucb", r>>), S.reg[r], [r |-> r, d |-> 0, g |-> 0])
       IN [R.s EXCEPT !.reg[r] = NONE]
Answer(S, e, val) ==
  IF e.g = 0
  THEN LET S1 == Ev(S, <<"cb", e.r, T(e.r), val>>)
           p == cfg.owner[e.r]
       IN IF p # NONE /\ HasRereq(p) THEN Rereq(S1, p) ELSE UnregInCb(S1, e.r)
  ELSE [S EXCEPT !.chU = Append(@, [r |-> e.r, g |-> e.g, val |-> val])]

\* what the check call-back of many pipes does (a flow format answer makes the pipe require its buffer
\* manager again, ...): pipe p re-requires those of its own requests that are not registered on its output
\* at this moment - they leave the list (nothing to withdraw) and are registered again, at its tail
Rereq(S, p) ==
  LET I == {i \in DOMAIN S.lst[p] : cfg.owner[S.lst[p][i].r] = p /\ Key(p, S.lst[p][i]) \in S.unr}
  IN IF I = {} THEN S
     ELSE LET i == Min(I)
              e == S.lst[p][i]
              S1 == [S EXCEPT !.lst[p] = RemoveAt(@, i), !.unr = @ \ {Key(p, e)}]
          IN Rereq(RegOut(S1, p, e).s, p)

\* upipe_throw_provide_request(n, e)
ThrowAt(S, n, e) ==
  LET pn == cfg.pnode[n]
      t == T(e.r)
  IN IF t \in cfg.fprov[pn] THEN [s |-> Answer(S, e, FVal[t]), e |-> 0]
     ELSE LET S1 == Ev(S, <<"pr", cfg.pname[n], e.r, e.d>>)
          IN IF t \in cfg.prov[pn]
             THEN [s |-> Answer(Ev(S1, <<"prov", cfg.pname[n], e.r, e.d>>), e, PVal[t]), e |-> 0]
             ELSE [s |-> S1, e |-> UNH]

RECURSIVE RegAt(_, _, _), Reissue(_, _, _),
          FoldReg(_, _, _), FoldUnreg(_, _, _), Kill(_, _), MaybeKill(_, _)

\* STRUCTURE##_register_output_request(n, e): e is n's own entry
RegOut(S, n, e) ==
  LET S1 == [S EXCEPT !.lst[n] = Append(@, e), !.unr = @ \ {Key(n, e)}]
      o == S1.out[n]
  IN IF o # NONE
     THEN LET R == RegAt(S1, o, e)
          IN IF R.e # UNH \/ cfg.nothrow[n] THEN R ELSE ThrowAt(R.s, n, e)
     ELSE ThrowAt(S1, n, e)

\* upipe_register_request(n, e): e is the CALLER's entry
RegAt(S, n, e) ==
  CASE K(n) = "sink" ->
         LET S1 == Ev([S EXCEPT !.sreg[n] = Append(@, e)], <<"sreg", n, e.r, e.d>>)
         IN CASE cfg.mode[n] = "hold" -> [s |-> S1, e |-> 0]
              [] cfg.mode[n] = "throw" -> ThrowAt(S1, n, e)
              [] OTHER -> [s |-> S1, e |-> UNH]
    [] K(n) = "qsink" ->
         \* upipe_qsink_register_request: the proxy joins the list, the REGISTER message is pushed; if the
         \* out-of-band queue is full the proxy is dropped again and the caller gets UBASE_ERR_BUSY: nothing
         \* of the request exists beyond this point (the statement does not speak of a full queue: only
         \* "never a call-back after unregister" is still required of such a request)
         IF Len(S.chD) >= QCap
         THEN [s |-> [S EXCEPT !.lost = @ \cup {e.r}], e |-> BUSY]
         ELSE LET g == S.ngen + 1
                  q == [r |-> e.r, d |-> e.d + 1, g |-> g]
              IN [s |-> [S EXCEPT !.ngen = g, !.qlist = Append(@, q),
                                   !.chD = Append(@, [op |-> "reg", q |-> q])],
                  e |-> 0]
    [] OTHER ->
         IF T(e.r) \in cfg.icpt[n] THEN ThrowAt(S, n, e)
         ELSE LET R == RegOut(S, n, [e EXCEPT !.d = @ + 1])
              IN \* "binfall": what the control functions of the repository's bin
                 \* pipes do when the bin-input helper returns UNHANDLED (nobody
                 \* answered): the command goes on to the bin-output helper,
                 \* which hands it to the last inner pipe - a second registration
                 IF Variant = "binfall" /\ cfg.nothrow[n] /\ R.e = UNH /\ S.out[n] # NONE
                 THEN RegAt(R.s, cfg.outvia[n], e)
                 ELSE R

\* STRUCTURE##_unregister_output_request for entry i of lst[n]
UnregOutIdx(S, n, i) ==
  LET e1 == S.lst[n][i]
      S1 == [S EXCEPT !.lst[n] = RemoveAt(@, i)]
      o == S1.out[n]
  IN IF o # NONE
     THEN LET R == UnregAt(S1, o, e1) IN [s |-> R.s, e |-> IF R.e = UNH THEN 0 ELSE R.e]
     ELSE [s |-> S1, e |-> 0]

\* upipe_unregister_request(n, e): e is the CALLER's entry
UnregAt(S, n, e) ==
  CASE K(n) = "sink" ->
         LET i == IndexOf(S.sreg[n], e.r, e.d)
             S1 == IF i = 0 THEN S ELSE [S EXCEPT !.sreg[n] = RemoveAt(@, i)]
         IN [s |-> Ev(S1, <<"sunreg", n, e.r, e.d>>), e |-> 0]
    [] K(n) = "qsink" ->
         \* upipe_qsink_unregister_request: the proxy leaves the list FIRST (from then on an answer that
         \* comes back is ignored), then the UNREGISTER message is pushed; if the queue is full the message
         \* is lost and the registration downstream of the queue source stays (until that pipe dies)
         LET i == IndexOf(S.qlist, e.r, e.d + 1)
         IN IF i = 0 THEN [s |-> [S EXCEPT !.lost = @ \ {e.r}], e |-> INV]
            ELSE IF Len(S.chD) >= QCap
            THEN [s |-> [S EXCEPT !.qlist = IF Variant = "unreg_full_keeps" THEN @ ELSE RemoveAt(@, i),
                                  !.zomb = @ \cup {e.r}],
                  e |-> BUSY]
            ELSE [s |-> [S EXCEPT !.qlist = RemoveAt(@, i),
                                  !.chD = Append(@, [op |-> "unreg", q |-> S.qlist[i]])],
                  e |-> 0]
    [] OTHER ->
         IF T(e.r) \in cfg.icpt[n] THEN [s |-> S, e |-> 0]
         ELSE LET i == IF Variant = "unreg_first_proxy" THEN (IF S.lst[n] = <<>> THEN 0 ELSE 1)
                       ELSE IndexOf(S.lst[n], e.r, e.d + 1)
              IN IF i = 0 THEN [s |-> S, e |-> INV]
                 ELSE [s |-> UnregOutIdx(S, n, i).s, e |-> 0]

FoldUnreg(S, o, es) == IF es = <<>> THEN S ELSE FoldUnreg(UnregAt(S, o, Head(es)).s, o, Tail(es))
FoldReg(S, o, es) == IF es = <<>> THEN S ELSE FoldReg(RegAt(S, o, Head(es)).s, o, Tail(es))

\* references on n: the application's, one per pipe whose output it is, the
\* queue sink's on its queue source
Refs(S, n) ==
  (IF S.hnd[n] THEN 1 ELSE 0)
  + Cardinality({m \in Fwd : S.alive[m] /\ S.out[m] = n})
  + (IF K(n) = "qsrc" /\ \E k \in Nodes : K(k) = "qsink" /\ S.alive[k] THEN 1 ELSE 0)

MaybeKill(S, n) ==
  IF n = NONE THEN S
  ELSE IF ~S.alive[n] \/ Refs(S, n) > 0 THEN S ELSE Kill(S, n)

\* the last reference is gone: clean_output unregisters what is left in the
\* list (own requests) and releases the output
Kill(S, n) ==
  CASE K(n) = "sink" ->
         Ev([S EXCEPT !.alive[n] = FALSE],
            <<"freed", n, IF cfg.mode[n] = "hold" THEN Len(S.sreg[n]) ELSE 0>>)
    [] K(n) = "fwd" ->
         LET o == S.out[n]
             S1 == IF o # NONE /\ Variant # "death_keeps_regs" THEN FoldUnreg(S, o, S.lst[n]) ELSE S
             S2 == [S1 EXCEPT !.lst[n] = <<>>, !.alive[n] = FALSE, !.out[n] = NONE,
                              !.reg = [r \in DOMAIN @ |-> IF cfg.owner[r] = n THEN NONE ELSE @[r]]]
         IN MaybeKill(S2, o)
    [] OTHER -> S      \* the queue pipes are never released in the model

\* STRUCTURE##_set_output(m, q)
DoSetOut(S, m, q) ==
  LET old == S.out[m]
      S1 == IF old # NONE /\ Variant # "setout_keeps_old" THEN FoldUnreg(S, old, S.lst[m]) ELSE S
      S2 == [S1 EXCEPT !.out[m] = q]
      S3 == MaybeKill(S2, old)
  IN IF q # NONE /\ Variant # "setout_no_reissue"
     THEN IF Variant = "setout_one_pass"
          \* (negative variant) one pass over the list as it was: what an answer re-registered at the tail
          \* meanwhile is registered a second time
          THEN [FoldReg([S3 EXCEPT !.unr = {Key(m, S3.lst[m][i]) : i \in DOMAIN S3.lst[m]}], q, S3.lst[m])
                  EXCEPT !.unr = {}]
          ELSE [Reissue([S3 EXCEPT !.unr = {Key(m, S3.lst[m][i]) : i \in DOMAIN S3.lst[m]}], m, q) EXCEPT !.unr = {}]
     ELSE S3

\* the retry loop of set_output: as long as an entry of the list is not registered, register the first such
\* one (the list may change under the loop: an answer given at once can make the pipe require again)
Reissue(S, m, q) ==
  LET I == {i \in DOMAIN S.lst[m] : Key(m, S.lst[m][i]) \in S.unr}
  IN IF I = {} THEN S
     ELSE LET e == S.lst[m][Min(I)]
          IN Reissue(RegAt([S EXCEPT !.unr = @ \ {Key(m, e)}], q, e).s, m, q)

\* ---- transitions --------------------------------------------------------
C(op, a, b) == [op |-> op, a |-> a, b |-> b]

\* the plumbing state, printed compactly (entries as <<r, d, g>>)
Cpt(s) == [i \in DOMAIN s |-> <<s[i].r, s[i].d, s[i].g>>]
CoreRec == [id |-> cfg.id, o |-> out, l |-> [n \in DOMAIN lst |-> Cpt(lst[n])],
            s |-> [n \in DOMAIN sreg |-> Cpt(sreg[n])], r |-> reg,
            h |-> {n \in Nodes : hnd[n]}, a |-> {n \in Nodes : alive[n]},
            q |-> Cpt(qlist), g |-> ngen, L |-> lost, Z |-> zomb,
            D |-> [i \in DOMAIN chD |-> <<chD[i].op, chD[i].q.r, chD[i].q.d, chD[i].q.g>>],
            U |-> [i \in DOMAIN chU |-> <<chU[i].r, chU[i].g, chU[i].val>>]]

Emit == EmitEdges =>
          PrintT(<<"EDGE", ToJson([from |-> CoreRec, cmd |-> cmd', evs |-> evs', ret |-> ret',
                                   to |-> CoreRec'])>>)

Apply(S, c, rv) ==
  /\ out' = S.out /\ lst' = S.lst /\ sreg' = S.sreg /\ reg' = S.reg /\ hnd' = S.hnd
  /\ alive' = S.alive /\ qlist' = S.qlist /\ chD' = S.chD /\ chU' = S.chU /\ ngen' = S.ngen
  /\ lost' = S.lost /\ zomb' = S.zomb
  /\ evs' = S.evs /\ cmd' = c /\ ret' = rv
  /\ pre' = [chU |-> chU, qlist |-> qlist]
  /\ path' = IF MaxPath > 0 THEN Append(path, [c |-> c, evs |-> S.evs, ret |-> rv]) ELSE path
  /\ UNCHANGED cfg
  /\ Emit

E0(r) == [r |-> r, d |-> 0, g |-> 0]

\* the application registers request r on pipe p
Reg(p, r) ==
  /\ p \in cfg.entry /\ hnd[p] /\ alive[p]
  /\ cfg.owner[r] = NONE /\ reg[r] = NONE
  /\ LET R == RegAt([Cur EXCEPT !.reg[r] = p], p, E0(r))
     IN Apply(R.s, C("reg", p, r), R.e)

Unreg(r) ==
  /\ cfg.owner[r] = NONE /\ reg[r] # NONE /\ hnd[reg[r]]
  /\ LET p == reg[r]
         R == UnregAt(Cur, p, E0(r))
     IN Apply([R.s EXCEPT !.reg[r] = NONE], C("unreg", p, r), R.e)

\* pipe owner[r] calls the helper's require_xxx(): drops the previous
\* registration of its own request, if any, and registers it (again)
Require(r) ==
  /\ cfg.owner[r] # NONE /\ hnd[cfg.owner[r]] /\ alive[cfg.owner[r]]
  /\ LET p == cfg.owner[r]
         S1 == IF reg[r] # NONE THEN UnregOutIdx(Cur, p, IndexOf(lst[p], r, 0)).s ELSE Cur
         R == RegOut([S1 EXCEPT !.reg[r] = p], p, E0(r))
     IN Apply(R.s, C("require", p, r), 0)

SetOut(p, q) ==
  /\ p \in Nodes /\ cfg.canout[p] /\ hnd[p] /\ alive[p]
  /\ q \in Nodes \cup {NONE}
  /\ q # NONE => /\ cfg.canin[q] /\ hnd[q] /\ alive[q] /\ Pos(q) > Pos(cfg.outvia[p])
                  /\ cfg.side[q] = cfg.side[cfg.outvia[p]]     \* pipes of one thread
  /\ Apply(DoSetOut(Cur, cfg.outvia[p], q), C("out", p, q), 0)

\* sink s answers the request r it holds
Provide(s, r) ==
  /\ s \in Sinks /\ alive[s] /\ cfg.mode[s] = "hold"
  /\ IndexR(sreg[s], r) # 0
  /\ LET e == sreg[s][IndexR(sreg[s], r)]
     IN Apply(Answer(Ev(Cur, <<"prov", s, e.r, e.d>>), e, PVal[T(r)]), C("provide", s, r), 0)

\* the application drops its reference on x
Rel(x) ==
  /\ x \in Nodes /\ cfg.canrel[x] /\ hnd[x]
  /\ \A r \in Reqs : cfg.owner[r] = NONE => reg[r] # x
  /\ Apply(MaybeKill([Cur EXCEPT !.hnd[x] = FALSE], x), C("rel", x, NONE), 0)

\* the application attaches the queue sink to the event loop manager of its thread AGAIN
\* (upipe_attach_upump_mgr after requests were registered): nothing the statement talks about changes -
\* in particular the answers still in flight must reach their requesters afterwards
Attach(p) ==
  /\ p \in Nodes /\ K(p) = "qsink" /\ hnd[p] /\ alive[p]
  /\ Apply(Cur, C("attach", p, NONE), 0)

\* one iteration of the event loop of the queue source's thread: the
\* out-of-band pump pops ONE downstream message
RunB ==
  /\ HasQueue
  /\ chD # <<>> \/ Idle
  /\ IF chD = <<>> THEN Apply(Cur, C("loop", "B", NONE), 0)
     ELSE LET m == Head(chD)
              S1 == [Cur EXCEPT !.chD = Tail(@)]
          IN IF m.op = "reg"
             THEN Apply(RegOut(S1, QSrc, m.q).s, C("loop", "B", NONE), 0)
             ELSE LET i == IndexOf(S1.lst[QSrc], m.q.r, m.q.d)
                  IN Apply(IF i = 0 THEN S1 ELSE UnregOutIdx(S1, QSrc, i).s, C("loop", "B", NONE), 0)

\* one iteration of the loop of the queue sink's thread: pops ONE answer; it
\* is delivered iff the request is still in the sink's list
RunA ==
  /\ HasQueue
  /\ chU # <<>> \/ Idle
  /\ IF chU = <<>> THEN Apply(Cur, C("loop", "A", NONE), 0)
     ELSE LET m == Head(chU)
              S1 == [Cur EXCEPT !.chU = Tail(@)]
              current == \E i \in DOMAIN qlist : qlist[i].r = m.r /\ qlist[i].g = m.g
          IN Apply(IF current \/ Variant = "oob_no_check"
                   THEN UnregInCb(Ev(S1, <<"cb", m.r, T(m.r), m.val>>), m.r) ELSE S1,
                   C("loop", "A", NONE), 0)

\* the initial values for scenario c
Start(c) ==
  [out |-> [n \in {x \in Range(c.nodes) : c.kind[x] \in {"fwd", "qsrc"}} |-> c.out0[n]],
   lst |-> [n \in {x \in Range(c.nodes) : c.kind[x] \in {"fwd", "qsrc"}} |-> <<>>],
   sreg |-> [n \in {x \in Range(c.nodes) : c.kind[x] = "sink"} |-> <<>>],
   reg |-> [r \in Range(c.reqs) |-> NONE],
   hnd |-> [n \in Range(c.nodes) |-> c.hnd0[n]],
   alive |-> [n \in Range(c.nodes) |-> TRUE]]

InitWith(c) ==
  /\ cfg = c
  /\ out = Start(c).out /\ lst = Start(c).lst /\ sreg = Start(c).sreg
  /\ reg = Start(c).reg /\ hnd = Start(c).hnd /\ alive = Start(c).alive
  /\ qlist = <<>> /\ chD = <<>> /\ chU = <<>> /\ ngen = 0 /\ lost = {} /\ zomb = {}
  /\ cmd = C("new", NONE, NONE) /\ evs = <<>> /\ ret = 0
  /\ pre = [chU |-> <<>>, qlist |-> <<>>]
  /\ path = <<>>
  /\ (EmitEdges => PrintT(<<"SCN", ToJson(c)>>))

Init == \E c \in Scenarios : InitWith(c)

ActReg == \E p \in Nodes, r \in Reqs : Reg(p, r)
ActUnreg == \E r \in Reqs : Unreg(r)
ActRequire == \E r \in Reqs : Require(r)
ActSetOut == \E p \in Nodes, q \in Nodes \cup {NONE} : SetOut(p, q)
ActProvide == \E s \in Nodes, r \in Reqs : Provide(s, r)
ActRel == \E x \in Nodes : Rel(x)
ActAttach == \E p \in Nodes : Attach(p)

Next == ActReg \/ ActUnreg \/ ActRequire \/ ActSetOut \/ ActProvide \/ ActRel \/ ActAttach \/ RunA \/ RunB

Spec == Init /\ [][Next]_vars

Bound == ngen <= MaxGen /\ Len(chD) <= MaxChan /\ Len(chU) <= MaxChan /\ Len(path) <= MaxPath

\* ---- the property ---------------------------------------------------------
\* a downstream message about r is still under way
PendingD(r) == \E i \in DOMAIN chD : chD[i].q.r = r

RECURSIVE Holders(_, _, _)
\* the nodes that must hold an entry for r when it arrives at (inc) / is the
\* own request of (~inc) node n: down the outputs until a sink, a pipe that
\* intercepts the type, or the end of the chain; across the queue once the
\* out-of-band messages have been delivered
Holders(n, r, inc) ==
  CASE K(n) = "sink" -> {n}
    [] K(n) = "qsink" -> {n, QSrc} \cup (IF out[QSrc] = NONE THEN {}
                                         ELSE Holders(out[QSrc], r, TRUE))
    [] OTHER -> IF inc /\ T(r) \in cfg.icpt[n] THEN {}
                ELSE {n} \cup (IF out[n] = NONE THEN {} ELSE Holders(out[n], r, TRUE))

Expected(r) == IF reg[r] = NONE THEN {} ELSE Holders(reg[r], r, cfg.owner[r] = NONE)

Has(n, r) ==
  CASE K(n) = "sink" -> \E i \in DOMAIN sreg[n] : sreg[n][i].r = r
    [] K(n) = "qsink" -> \E i \in DOMAIN qlist : qlist[i].r = r
    [] OTHER -> \E i \in DOMAIN lst[n] : lst[n][i].r = r

\* Forwarded down the chain / Replumb / registered downstream of the queue
\* source when quiescent: in every state, request r has an entry exactly at
\* the nodes on the path from where it is registered (nowhere if it is
\* unregistered); for the nodes beyond the queue this is required once no
\* message about r is under way.  A dead node holds nothing.
\* A request whose message a FULL out-of-band queue refused is outside the sentence from the queue sink on
\* (lost registration) or beyond the queue (lost unregistration: the entry downstream stays behind).
PathInv ==
  \A r \in Reqs : \A n \in Nodes :
    \/ cfg.side[n] = "B" /\ (PendingD(r) \/ r \in zomb \/ r \in lost)
    \/ K(n) = "qsink" /\ r \in lost
    \/ (Has(n, r) <=> n \in Expected(r))

\* (an unregistration lost by a full queue leaves its entry behind beyond the queue: a later registration of
\* the same request - another generation - may then stand next to it)
OneEntry ==
  \A r \in Reqs : \A n \in Fwd :
    LET I == {i \in DOMAIN lst[n] : lst[n][i].r = r}
    IN \/ Cardinality(I) <= 1
       \/ r \in zomb /\ cfg.side[n] = "B" /\ \A i, j \in I : i # j => lst[n][i].g # lst[n][j].g

TypeOK ==
  /\ \A n \in Fwd : out[n] \in Nodes \cup {NONE} /\ (out[n] # NONE => alive[out[n]])
  /\ \A r \in Reqs : reg[r] \in Nodes \cup {NONE}
  /\ \A r \in Reqs : reg[r] # NONE => alive[reg[r]]
  /\ ret \in {0, UNH, INV, BUSY}

\* -- properties of the last command (outputs) --
CbOf(r) == Cardinality({i \in DOMAIN evs : evs[i][1] = "cb" /\ evs[i][2] = r})

\* (a call-back of a one-shot request is followed, within the same command, by its own unregistration)
NoCallbackAfterUnregister ==
  \A i \in DOMAIN evs : evs[i][1] = "cb" =>
     /\ \/ reg[evs[i][2]] # NONE
        \/ \E j \in DOMAIN evs : j > i /\ evs[j] = <<"ucb", evs[i][2]>>
     /\ ~\E j \in DOMAIN evs : j < i /\ evs[j] = <<"ucb", evs[i][2]>>

NoSinkFreedWithRegs ==
  \A i \in DOMAIN evs : evs[i][1] = "freed" => evs[i][3] = 0

\* an answer given by a sink reaches the requester at once in its thread, or
\* becomes one upstream message
ReachesProvide ==
  (cmd.op = "provide" /\ ~OneShot(cmd.b)) =>
    LET e == sreg[cmd.a][IndexR(sreg[cmd.a], cmd.b)]
    IN IF e.g = 0 THEN CbOf(cmd.b) = 1 /\ chU = pre.chU
       ELSE CbOf(cmd.b) = 0 /\ Len(chU) = Len(pre.chU) + 1

\* an answer that crossed the queue is delivered iff the request is still registered
ReachesRunA ==
  (cmd.op = "loop" /\ cmd.a = "A" /\ pre.chU # <<>>) =>
    LET m == Head(pre.chU)
    IN CbOf(m.r) = (IF \E i \in DOMAIN pre.qlist : pre.qlist[i].r = m.r /\ pre.qlist[i].g = m.g
                    THEN 1 ELSE 0)

RECURSIVE Askers(_, _, _)
\* the nodes whose probe is asked (provide_request) when r is registered and
\* nobody downstream keeps it
Askers(n, r, inc) ==
  CASE K(n) = "sink" -> IF cfg.mode[n] = "throw" THEN {n} ELSE {}
    [] K(n) = "qsink" -> {}
    [] OTHER -> IF inc /\ T(r) \in cfg.icpt[n] THEN {n}
                ELSE IF out[n] = NONE THEN {n}
                ELSE (IF cfg.nothrow[n] THEN {} ELSE {n}) \cup Askers(out[n], r, TRUE)

\* registering where a probe on the way provides: answered on the spot, once
ReachesProbe ==
  (cmd.op \in {"reg", "require"} /\ Variant # "binfall" /\ ~OneShot(cmd.b)) =>
    LET r == cmd.b
        H == Expected(r)
        crosses == \E n \in H : K(n) = "qsink"
        kept == \E n \in H : K(n) = "sink" /\ cfg.mode[n] = "hold"
        A == Askers(reg[r], r, cfg.owner[r] = NONE)
        willing == \E n \in A : T(r) \in cfg.prov[cfg.pnode[n]] \cup cfg.fprov[cfg.pnode[n]]
    IN CbOf(r) = (IF ~crosses /\ ~kept /\ willing THEN 1 ELSE 0)

StepOK == /\ NoCallbackAfterUnregister /\ NoSinkFreedWithRegs
          /\ ReachesProvide /\ ReachesRunA /\ ReachesProbe

\* the same as action properties (with a VIEW on the plumbing, TLC evaluates
\* state invariants once per plumbing state but action properties on every
\* transition)
StepNoCallbackAfterUnregister == [][NoCallbackAfterUnregister']_vars
StepNoSinkFreedWithRegs == [][NoSinkFreedWithRegs']_vars
StepReachesProvide == [][ReachesProvide']_vars
StepReachesRunA == [][ReachesRunA']_vars
StepReachesProbe == [][ReachesProbe']_vars

\* counterexample as a command list (used with MaxPath > 0)
CexNoCallbackAfterUnregister ==
  NoCallbackAfterUnregister \/ (PrintT(<<"CEX", ToJson([id |-> cfg.id, path |-> path])>>) /\ FALSE)
=============================================================================
