\* NEGATIVE: a flagged discontinuity does not flush: TLC must reject
SPECIFICATION Spec
CONSTANTS
  Variant = "neg_nodisc"
  Palette <- PalTiny
  MaxSecs = 2
  MaxRuns = 2
  MaxPay = 24
  AllCuts = TRUE
  Stuffs = {0, 1}
  Damage = {"drop"}
  MidStart = FALSE
  Record = TRUE
  Small = TRUE
INVARIANT EmitBad WellFormed NoGarbage NoLoss Exact
CHECK_DEADLOCK FALSE
