--------------------------- MODULE PipeLife_Trace ---------------------------
(***************************************************************************)
(* C04 - validation of ordered logs recorded from the real pipes           *)
(* (harness/pipe_driver.c + harness/pd_ext_c04.c: commands, probe events   *)
(* log messages included, sink-side occurrences) against the abstract      *)
(* monitor PipeLifeMon.                                                    *)
(*                                                                         *)
(* One TLC state per trace line; a line is one COMMAND of the script with   *)
(* everything it caused, in order:                                         *)
(*   {"e":"Step","evs":[<event>, ...]}                                     *)
(* where every <event> is an event record of PipeLifeMon (see there; only  *)
(* the fields that the event kind uses are present; a run of consecutive   *)
(* log messages of one pipe is written once).  Executions are separated by *)
(*   {"e":"Reset","hid":<index>}                                           *)
(* The whole file is always consumed (single pass): the first event of an  *)
(* execution after which a property name enters mon.bad is recorded as     *)
(* <<hid, line, index of the event in the line, property>> and the rest of *)
(* that execution is skipped.                                              *)
(***************************************************************************)
EXTENDS PipeLifeMon, TLC, Json, IOUtils

Tr == ndJsonDeserialize(IOEnv.TRACE)

VARIABLES l, mon, skip, cur, bad
tvars == <<l, mon, skip, cur, bad>>

PropOrder == <<"ReadyFirst", "DeadOnce", "DeadLast", "NoDataWhileRejected", "FlowDefBeforeData">>
First(S) == PropOrder[CHOOSE i \in 1..Len(PropOrder) :
                        /\ PropOrder[i] \in S
                        /\ \A j \in 1..(i - 1) : PropOrder[j] \notin S]

\* feeds the events of one line to the monitor, stops at the first flag
RECURSIVE MonScan(_, _, _)
MonScan(m, evs, i) ==
  IF i > Len(evs) THEN [m |-> m, at |-> 0]
  ELSE LET m1 == MonStep(m, evs[i]) IN
       IF m1.bad # {} THEN [m |-> m1, at |-> i] ELSE MonScan(m1, evs, i + 1)

TStep ==
  /\ l <= Len(Tr) /\ l' = l + 1
  /\ LET ev == Tr[l] IN
     IF ev.e = "Reset"
     THEN mon' = MonInit /\ skip' = FALSE /\ cur' = ev.hid /\ bad' = bad
     ELSE IF skip THEN UNCHANGED <<mon, skip, cur, bad>>
     ELSE LET r == MonScan(mon, ev.evs, 1) IN
          IF r.at = 0
          THEN mon' = r.m /\ UNCHANGED <<skip, cur, bad>>
          ELSE /\ skip' = TRUE /\ mon' = r.m /\ cur' = cur
               /\ bad' = bad \cup {<<cur, l, r.at, First(r.m.bad)>>}

TInit == l = 1 /\ mon = MonInit /\ skip = FALSE /\ cur = 0 /\ bad = {}
TSpec == TInit /\ [][TStep]_tvars

\* the whole file is always consumed; rejected executions are listed in bad
Report == (l = Len(Tr) + 1) => PrintT(<<"TRACE_BAD", bad>>)
Accepted == LET d == TLCGet("stats").diameter IN
            IF d - 1 = Len(Tr) THEN PrintT(<<"TRACE_ACCEPTED", Len(Tr)>>)
                               ELSE PrintT(<<"TRACE_REJECTED_AT", d>>)
=============================================================================
