SPECIFICATION Spec
CONSTANTS
 Setups <- S_dup
 Acts <- A_dup
 Bufs <- B_one
 MaxSteps = 4
 MaxIn = 2
 Variant = "ok"
 CheckEpi = TRUE
INVARIANT ExactlyOnce
INVARIANT InOrder
INVARIANT ContentOK
INVARIANT DupAll
INVARIANT NoLeak
INVARIANT EpilogueClean
INVARIANT DrainedOK
PROPERTY FlushFrees
VIEW view
CHECK_DEADLOCK FALSE
