SPECIFICATION Spec
CONSTANTS
  L = 3
  Prog <- P_Aifir
  FreeLen = 10
  Variant = "code"
INVARIANT InOrderOnce FlowDefFirst HoldNotDrop SourceEndLast Emit
CHECK_DEADLOCK FALSE
