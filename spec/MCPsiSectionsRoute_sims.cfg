\* splitter, -simulate: <= 7 additions/releases, 5 sections
SPECIFICATION Spec
CONSTANTS
  Mode = "S"
  Variant = "ok"
  SecPal <- SecsS
  FilPal <- FilsS
  Ports = {1, 2, 3}
  MaxOps = 7
  MaxIn = 5
  Record = TRUE
INVARIANT DeliverIff Emit
CHECK_DEADLOCK FALSE
