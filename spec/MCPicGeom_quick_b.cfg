\* exhaustive geometry evaluation (quick_b): one handle, alloc / resize chains / every mapping request
CONSTANTS
  Geos <- GS_quick_b
  Handles = {0}
  MaxOps = 4
  MaxResize = 2
  Variant = "none"
  Record = FALSE
SPECIFICATION Spec
VIEW View
INVARIANT WindowsInCanvas Inside InjectiveMap CanvasInjective GranularityP MapIsWindowCell AllocGranular WriteOnlySingle
PROPERTY CropPreserves StructuralOpsDontWrite
CHECK_DEADLOCK FALSE
