\* NEGATIVE: the pointer field is used to jump even while acquired (the tail of the section in progress is lost): TLC must reject
SPECIFICATION Spec
CONSTANTS
  Variant = "neg_ptralways"
  Palette <- PalTiny
  MaxSecs = 2
  MaxRuns = 2
  MaxPay = 24
  AllCuts = TRUE
  Stuffs = {0, 1}
  Damage = {}
  MidStart = FALSE
  Record = TRUE
  Small = TRUE
INVARIANT EmitBad WellFormed NoGarbage NoLoss Exact
CHECK_DEADLOCK FALSE
