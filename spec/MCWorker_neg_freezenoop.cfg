SPECIFICATION Spec
CONSTANTS
  Flavour = "sink"
  IL = 1
  OL = 1
  Mx = TRUE
  Prog <- P_AiizctBir
  SrcProg <- S_none
  Variant = "freezenoop"
  FreeLen = 0
  Eager = FALSE
  FreeToks <- T_in
INVARIANT InOrderOnce FlowDefFirst EndLast Confinement HoldNotDrop FreedOnce
VIEW view
CHECK_DEADLOCK FALSE
