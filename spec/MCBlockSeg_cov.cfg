\* vacuity guard: every call is enabled from the initial states - the one-call behaviours are printed and the check counts the calls (TLC's -coverage runs out of memory on this module)
SPECIFICATION MCSpec
CONSTANTS
  Handles = {0, 1, 2}
  Fill = 14
  Strict = TRUE
  KeepHist = TRUE
  Bug = "none"
  Pre = 2
  MaxLen = 8
  MaxWins = 5
  Depth = 1
  Pats = "a"
  InitSet = "two"
  ObsLast = FALSE
  Rand = FALSE
  Dom = "all"
  Ops = {"dup", "splice", "split", "append", "insert", "delete", "truncate", "resize", "prepend", "free", "copy", "merge", "poke", "alloc", "size", "rd1", "slin", "extract", "scan"}
INVARIANT Emit TypeOK SegTypeOK ByteString FreshSingle TotalOK CacheSound EndSound
PROPERTY NoBad Isolation ErrLeavesUnchanged StructuralOpsDontWrite
CONSTRAINT Bounded
CHECK_DEADLOCK FALSE
