\* negative configuration: write mappings granted while shared must be rejected
CONSTANTS
  Geos <- GS_cow_quick
  Handles = {0, 1}
  MaxOps = 5
  MaxResize = 2
  Variant = "cow_off"
  Record = FALSE
SPECIFICATION Spec
VIEW View
INVARIANT WindowsInCanvas Inside InjectiveMap CanvasInjective GranularityP MapIsWindowCell AllocGranular WriteOnlySingle DupSees
PROPERTY CropPreserves Isolation StructuralOpsDontWrite
CHECK_DEADLOCK FALSE
