\* negative configuration: write mappings granted while shared must be rejected
CONSTANTS
  Geos = {"cow_quick"}
  GeoSet <- PicGeoSet
  Handles = {0, 1}
  MaxOps = 4
  MaxResize = 1
  Variant = "cow_off"
  Record = FALSE
SPECIFICATION Spec
VIEW View
INVARIANT WindowsInCanvas Inside InjectiveMap CanvasInjective GranularityP MapIsWindowCell AllocGranular WriteOnlySingle DupSees
PROPERTY CropPreserves StructuralOpsDontWrite Isolation
CHECK_DEADLOCK FALSE
