SPECIFICATION Spec
CONSTANTS
  Aborters = {}
  NT = 2
  Rounds = 1
  Variant = "nonotify"
INVARIANT Mutex NoLostHandOver

VIEW view
CHECK_DEADLOCK FALSE
