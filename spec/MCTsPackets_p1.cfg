SPECIFICATION Spec
CONSTANTS
  Mode = "P"
  Variant = "ok"
  MaxPkts = 0
  Pays = {}
  AfKinds = {}
  Deltas = {1}
  FirstCcs = {0}
  MaxAus = 1
  AuSizes = {0, 1, 3}
  TsKs = {"none", "pts", "both"}
  Stamps = {4}
  Gaps = {3}
  FlagKinds = {"-"}
  Pads = {FALSE}
  Cuts = {2, 5, 30}
  HdrPads = {0, 2}
  MayLose = TRUE
  Scale = 3
  Mod = 4
  MaxDelay = 6
INVARIANT RoundTrip InOrder

CHECK_DEADLOCK FALSE
