\* simulation centred on sharing: structural calls and pokes only
SPECIFICATION MCSpec
CONSTANTS
  Handles = {0, 1, 2, 3}
  Fill = 14
  Strict = TRUE
  KeepHist = TRUE
  Bug = "none"
  Pre = 2
  MaxLen = 12
  MaxWins = 8
  Depth = 10
  PatSet = "sim"
  InitSet = "two"
  ObsLast = FALSE
  Rand = TRUE
  Letters = {0, 1, 2}
  Ops = {"dup", "splice", "split", "merge", "append", "insert", "delete", "truncate", "resize", "prepend", "poke", "free", "alloc", "copy", "wmap"}
INVARIANT Emit
CONSTRAINT Bounded
CHECK_DEADLOCK FALSE
