\* simulation centred on sharing: the calls of C02 with arguments inside the block, pokes
SPECIFICATION MCSpec
CONSTANTS
  Handles = {0, 1, 2, 3}
  Fill = 14
  Strict = TRUE
  KeepHist = TRUE
  Bug = "none"
  Pre = 2
  MaxLen = 12
  MaxWins = 8
  Depth = 10
  PatSet = "sim"
  InitSet = "two"
  ObsLast = FALSE
  Rand = TRUE
  Letters = {0, 1, 2}
  LastOps = {}
  LastSz = {}
  Dom = "in"
  Ops = {"dup", "splice", "split", "merge", "append", "insert", "delete", "truncate", "resize", "poke", "free", "alloc", "copy", "wmap"}
INVARIANT Emit
CONSTRAINT Bounded
CHECK_DEADLOCK FALSE
