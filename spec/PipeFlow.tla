------------------------------ MODULE PipeFlow ------------------------------
(***************************************************************************)
(* C05 - in-thread pipes neither lose, duplicate nor reorder buffers.      *)
(*                                                                         *)
(* A network of pipes (names p0..p4, upstream pipes have smaller numbers)  *)
(* and recording sinks (s0..s2) driven by commands - the very commands of  *)
(* harness/pipe_driver.c + pd_ext_c05.c.  Do(S, c) is the effect of one    *)
(* command: the new state, the buffers delivered to each sink (formatted   *)
(* as the sink prints them), the number of buffer instances still alive.   *)
(*                                                                         *)
(* Two layers in ONE interpreter (S.m selects):                            *)
(*  - detailed (m.det): the holders follow the algorithm of the code        *)
(*    (upipe_buffer: max_size + idler pump + blockers; upipe_disblo;       *)
(*    upipe_tblk waiting for its ubuf manager; upipe_time_limit with clock  *)
(*    and timer; self references; reference counting decides who dies);    *)
(*  - abstract (~m.det): a holder is a FIFO that may release ANY prefix    *)
(*    during ANY command (m.n), a discarding holder may drop or keep the   *)
(*    arriving buffers (m.d, m.k), the dying nodes are given (m.dead): used by *)
(*    PipeFlow_Trace to judge recorded executions: only order, content,    *)
(*    routing and conservation are constrained, not the moment.            *)
(* The sentences of the property are the invariants at the end, over the   *)
(* ghost history S.g (per pipe: ids received, forwarded, freed).           *)
(***************************************************************************)
EXTENDS PipeFlowData, FiniteSets, Json

CONSTANTS Setups,     \* set of command sequences, each building a network
          Acts,       \* set of command templates the environment may issue afterwards
          Bufs,       \* buffer templates for "in"
          MaxSteps, MaxIn,
          Variant,    \* "ok", or the name of a deliberately broken variant
          CheckEpi    \* evaluate the epilogue (drain + release everything) in every state
VARIABLES st, steps, nin, hist

PN == <<"p0", "p1", "p2", "p3", "p4">>
SN == <<"s0", "s1", "s2">>
PipeNames == {PN[i] : i \in 1..Len(PN)}
SinkNames == {SN[i] : i \in 1..Len(SN)}

Sync == {"idem", "setflowdef", "setattr", "puref", "skip", "htons", "delay", "match_attr",
         "setrap", "noclock", "nodemux"}
Holders == {"tblk", "buffer", "disblo", "time_limit"}
ClockBase == 1000

NoPipe == [ex |-> FALSE, k |-> "-", h |-> FALSE, par |-> "-", sq |-> 0, fd |-> "-", out |-> "-", os |-> 0,
           a |-> -1, b |-> -1, tg |-> "none", ini |-> FALSE,
           q |-> <<>>, nb |-> 0, pm |-> 0, pb |-> {}, tm |-> -1, um |-> FALSE, pf |-> "-", uc |-> FALSE,
           rn |-> "-"]     \* rn: name of the brand new sink the probe will connect at the next refusal
NoSink == [ex |-> FALSE, h |-> FALSE, acc |-> TRUE, fd |-> "-", blk |-> FALSE, hq |-> 0, rq |-> <<>>]
DetMode == [det |-> TRUE, n |-> TLCEval([p \in PipeNames |-> 0]), d |-> {}, k |-> {}, dead |-> {}]
NoGhost == [in |-> TLCEval([p \in PipeNames |-> <<>>]), out |-> TLCEval([p \in PipeNames |-> <<>>]), fr |-> TLCEval([p \in PipeNames |-> <<>>]),
            dup |-> <<>>, ok |-> TRUE]
Empty == [p |-> TLCEval([x \in PipeNames |-> NoPipe]), s |-> TLCEval([x \in SinkNames |-> NoSink]), now |-> 0, seq |-> 0,
          used |-> {}, dl |-> <<>>, dead |-> {}, ret |-> "-", bad |-> FALSE, oob |-> FALSE, ok |-> TRUE,
          m |-> DetMode, g |-> NoGhost]

\* ---- small helpers ------------------------------------------------------------
IsBuf(it) == it[1] = "b"
RECURSIVE NumBufs(_)
NumBufs(q) == IF q = <<>> THEN 0 ELSE (IF IsBuf(Head(q)) THEN 1 ELSE 0) + NumBufs(Tail(q))
HasBuf(q) == NumBufs(q) > 0
RECURSIVE SumTo(_, _)
SumTo(q, n) == IF n = 0 THEN 0 ELSE Len(q[n][2].pl) + SumTo(q, n - 1)      \* octets of the n first items
Clock(S) == ClockBase + S.now
Up(S, n) == Cardinality({x \in PipeNames : S.p[x].ex /\ S.p[x].out = n})
Subs(S, n) == {x \in PipeNames : S.p[x].ex /\ S.p[x].par = n}
RECURSIVE SortBySq(_, _)
SortBySq(S, X) == IF X = {} THEN <<>>
                  ELSE LET x == CHOOSE y \in X : \A z \in X : S.p[y].sq <= S.p[z].sq
                       IN <<x>> \o SortBySq(S, X \ {x})
SetP(S, p, f, v) == [S EXCEPT !.p[p][f] = v]
\* a holder that keeps a buffer blocks the pump that produced it (upipe_helper_input block_input),
\* and releases it when it holds nothing any more (unblock_input)
AddBlk(S, src, n) == IF src = "-" THEN S ELSE [S EXCEPT !.p[src].pb = @ \cup {n}]
Unblk(S, n) == [S EXCEPT !.p = TLCEval([x \in PipeNames |-> [S.p[x] EXCEPT !.pb = @ \ {n}]])]
GIn(S, p, id) == [S EXCEPT !.g.in[p] = Append(@, id)]
GOut(S, p, id) == [S EXCEPT !.g.out[p] = Append(@, id)]
Free(S, p, b) == [S EXCEPT !.g.fr[p] = Append(@, b.id)]
Live(S) == LET RECURSIVE Sum(_)
               Sum(i) == IF i = 0 THEN 0 ELSE NumBufs(S.p[PN[i]].q) + Sum(i - 1)
               RECURSIVE SumS(_)
               SumS(i) == IF i = 0 THEN 0 ELSE S.s[SN[i]].hq + SumS(i - 1)
           IN Sum(Len(PN)) + SumS(Len(SN))
RECURSIVE ReqSink(_, _)
ReqSink(S, p) == LET t == S.p[p].out IN
                 IF t \in SinkNames THEN t
                 ELSE IF t \in PipeNames /\ S.p[t].ex /\ S.p[t].k \notin {"null", "tblk"} THEN ReqSink(S, t) ELSE "-"
StuckReq(S, p) == ReqSink(S, p) = "-"
\* buffers that can never leave: those of a upipe_buffer behind a head larger than max_size, and those of
\* every holder upstream of it (its pump stays blocked by the stuck holder)
StuckHead(S, p) == LET P == S.p[p] IN
    \* (nb = 0: nothing has been accepted yet, so no pump exists; raising max_size afterwards does not look at
    \* what is held - only the next input would)
    \/ P.ex /\ P.k = "buffer" /\ P.q # <<>> /\ IsBuf(Head(P.q)) /\ (Len(Head(P.q)[2].pl) > P.a \/ P.nb = 0)
    \* a upipe_tblk whose buffer manager request reaches no sink (no output, or a downstream upipe_tblk
    \* keeps it for its probe) is never answered in this environment
    \/ P.ex /\ P.k = "tblk" /\ P.q # <<>> /\ ~P.um /\ StuckReq(S, p)
    \* a upipe_tblk that was given a buffer before any flow definition (outside the rules: the flow definition
    \* comes first) keeps it, and everything queued behind it, for good
    \/ P.ex /\ P.k = "tblk" /\ P.q # <<>> /\ IsBuf(Head(P.q)) /\ ~P.um /\ P.fd = "-" /\ P.pf = "-"
RECURSIVE StuckSet(_, _)
StuckSet(S, X) == LET Y == X \cup {p \in PipeNames : S.p[p].ex /\ (S.p[p].out \in X
                                        \/ \E x \in X : S.p[x].ex /\ S.p[x].par = p)}
                  IN IF Y = X THEN X ELSE StuckSet(S, Y)
Stuck(S) == LET X == StuckSet(S, {p \in PipeNames : StuckHead(S, p)})
                RECURSIVE Sum(_)
                Sum(i) == IF i = 0 THEN 0
                          ELSE (IF PN[i] \in X THEN NumBufs(S.p[PN[i]].q) ELSE 0) + Sum(i - 1)
            IN Sum(Len(PN))
\* the sink at which a request of pipe p ends up ("-" if none): requests travel down the output helpers of
\* every kind of pipe, except that upipe_tblk (and upipe_null, which has no output) keeps the buffer manager
\* requests that reach it for its own probe
RECURSIVE EndSinkT(_, _, _)
EndSinkT(S, p, ty) == LET t == S.p[p].out IN
                      IF t \in SinkNames THEN t
                      ELSE IF t \in PipeNames /\ S.p[t].ex /\ S.p[t].k # "null"
                              /\ ~(ty = "ubuf" /\ S.p[t].k = "tblk")
                           THEN EndSinkT(S, t, ty) ELSE "-"
EndSink(S, p) == EndSinkT(S, p, IF S.p[p].k = "tblk" THEN "ubuf" ELSE "uclock")
\* upipe_buffer: number of leading items that fit in max_size
RECURSIVE Extend(_, _, _)
Extend(q, nb, max) == IF nb < Len(q) /\ SumTo(q, nb + 1) <= max THEN Extend(q, nb + 1, max) ELSE nb
\* upipe_time_limit: may the buffer be output now
Elig(S, P, b) == b.sys[1] = "-" \/ ~P.uc \/ Clock(S) + P.a >= b.sys[2]
Timeout(S, P, b) == b.sys[2] - Clock(S) - P.a

\* upipe_helper_output re-plumbing: when an output changes, every request that was travelling through it is
\* withdrawn from where it waited and registered again along the new path (a request that reaches no sink
\* waits at the probe, which does not answer); those that did not move keep their place
PendingReq(S, p) == S.p[p].ex /\ ( (S.p[p].k = "tblk" /\ S.p[p].pf # "-" /\ ~S.p[p].um)
                                  \/ (S.p[p].k = "time_limit" /\ ~S.p[p].uc
                                      /\ \E x \in SinkNames : \E i \in 1..Len(S.s[x].rq) : S.s[x].rq[i] = p) )
Reroute(S) ==
    LET Moved(x) == LET RECURSIVE G(_)
                        G(i) == IF i > Len(PN) THEN <<>>
                                ELSE (IF PendingReq(S, PN[i]) /\ EndSink(S, PN[i]) = x
                                         /\ ~\E j \in 1..Len(S.s[x].rq) : S.s[x].rq[j] = PN[i]
                                      THEN <<PN[i]>> ELSE <<>>) \o G(i + 1)
                    IN G(1)
    IN [S EXCEPT !.s = TLCEval([x \in SinkNames |->
            [S.s[x] EXCEPT !.rq = SelectSeq(@, LAMBDA y : S.p[y].ex /\ EndSink(S, y) = x) \o Moved(x)]]),
                 \* a clock request that now ends at a pipe without output is answered by that pipe's probe
                 !.p = TLCEval([x \in PipeNames |->
                        IF PendingReq(S, x) /\ S.p[x].k = "time_limit" /\ EndSink(S, x) \notin SinkNames
                        THEN [S.p[x] EXCEPT !.uc = TRUE] ELSE S.p[x]])]

\* every control command makes upipe_disblo allocate its pump and upipe_time_limit ask for a clock:
\* the request is answered at once by the probe when the pipe has no output, else it waits at the sink
Ctl(S, p) ==
    LET P == S.p[p] IN
    IF P.k = "disblo" THEN SetP(S, p, "pm", IF P.pm = 0 THEN 1 ELSE P.pm)
    ELSE IF P.k = "time_limit" /\ ~P.uc
    THEN IF P.out = "-" THEN SetP(S, p, "uc", TRUE)
         ELSE LET t == EndSink(S, p) IN
              IF t \in SinkNames
              THEN [S EXCEPT !.s[t].rq = Append(SelectSeq(@, LAMBDA y : y # p), p)]
              \* the chain ends at a pipe without output (or at upipe_null): that pipe's probe answers at once
              ELSE SetP(S, p, "uc", TRUE)
    ELSE S

\* the probe of p is armed (renew), its output is a sink that only p feeds and that the application still holds
Renewable(S, p) == LET P == S.p[p] IN
    /\ P.rn # "-" /\ P.rn \notin S.used /\ P.out \in SinkNames
    /\ S.s[P.out].ex /\ S.s[P.out].h /\ Up(S, P.out) = 1

\* ---- the data path --------------------------------------------------------------
RECURSIVE Push(_, _, _, _), Out(_, _, _, _), SetFdOn(_, _, _), TblkDrain(_, _), TlDrain(_, _)

\* set_flow_def(f) on node n; S.ok tells whether it was accepted
SetFdOn(S, n, f) ==
    IF n \in SinkNames
    THEN IF S.s[n].acc THEN [S EXCEPT !.s[n].fd = f, !.ok = TRUE] ELSE [S EXCEPT !.ok = FALSE]
    ELSE LET P == S.p[n]
             S0 == [S EXCEPT !.ok = TRUE] IN
         CASE P.k = "null" -> S0
           [] P.k = "dupo" -> [S EXCEPT !.ok = FALSE]
           [] P.k = "dup" ->
                LET ch == P.fd # f
                    S1 == [S0 EXCEPT !.p[n].fd = f, !.p[n].os = IF ch THEN 0 ELSE @]
                IN [S1 EXCEPT !.p = TLCEval([x \in PipeNames |->
                        IF S1.p[x].ex /\ S1.p[x].par = n
                        THEN [S1.p[x] EXCEPT !.fd = f, !.os = IF S1.p[x].fd # f THEN 0 ELSE @]
                        ELSE S1.p[x]])]
           [] P.k = "tblk" ->
                IF P.q # <<>> THEN [S0 EXCEPT !.p[n].q = Append(@, <<"m", f>>)]
                ELSE IF S.m.det THEN TblkDrain([S0 EXCEPT !.p[n].q = <<<<"m", f>>>>], n)
                ELSE [S0 EXCEPT !.p[n].fd = f, !.p[n].os = IF P.fd # f THEN 0 ELSE @]
           [] OTHER ->
                LET S1 == Ctl(S0, n)
                IN IF P.fd # f THEN [S1 EXCEPT !.p[n].fd = f, !.p[n].os = 0] ELSE S1

\* upipe_helper_output: pipe p emits b (src = pipe whose pump generated it, "-" none)
Out(S, p, b, src) ==
    LET P == S.p[p] IN
    IF P.fd = "-" \/ P.out = "-" \/ P.os = 2 THEN Free(S, p, b)
    ELSE IF P.os = 1 THEN Push(GOut(S, p, b.id), P.out, b, src)
    ELSE LET S1 == SetFdOn(S, P.out, P.fd) IN
         IF S1.ok THEN Push(GOut(SetP(S1, p, "os", 1), p, b.id), P.out, b, src)
         \* refused: need_output.  The probe may answer by dropping the refused sink for good (the output is
         \* disconnected, the application's handle released) and connecting a brand new one: the helper then
         \* negotiates with the new output, once, and the buffer in hand goes there
         ELSE IF Renewable(S1, p)
         THEN LET t == P.out
                  n == P.rn
                  S2 == Reroute([S1 EXCEPT !.s[t].h = FALSE,
                                           !.s[n] = [NoSink EXCEPT !.ex = TRUE, !.h = TRUE], !.used = @ \cup {n},
                                           !.p[p].out = n, !.p[p].os = 0, !.p[p].rn = "-"])
                  S3 == SetFdOn(S2, n, P.fd)
              IN IF S3.ok THEN Push(GOut(SetP(S3, p, "os", 1), p, b.id), n, b, src)
                 ELSE Free(SetP(S3, p, "os", 2), p, b)
         ELSE Free(SetP(S1, p, "os", 2), p, b)

\* upipe_tblk (detailed): consume the head of the queue while possible
TblkDrain(S, p) ==
    LET P == S.p[p] IN
    IF P.q = <<>> THEN S
    ELSE LET it == Head(P.q) IN
         IF ~IsBuf(it)
         THEN \* a flow definition: forget the previous one, ask for a ubuf manager
              LET t == EndSink(S, p)
                  S1 == [S EXCEPT !.p[p].q = Tail(@), !.p[p].um = FALSE, !.p[p].fd = "-", !.p[p].os = 0,
                                  !.p[p].pf = it[2]]
                  S2 == [S1 EXCEPT !.s = TLCEval([x \in SinkNames |->
                            LET r == SelectSeq(S1.s[x].rq, LAMBDA y : y # p)
                            IN [S1.s[x] EXCEPT !.rq = IF x = t THEN Append(r, p) ELSE r]])]
              IN TblkDrain(S2, p)
         ELSE IF P.um THEN TblkDrain(Out([S EXCEPT !.p[p].q = Tail(@)], p, it[2], "-"), p)
         ELSE IF Variant = "lifo" THEN [S EXCEPT !.p[p].q = Tail(@) \o <<Head(@)>>]
         ELSE S

\* upipe_time_limit (detailed): output the held buffers that are due, re-arm the timer
TlDrain(S, p) ==
    LET P == S.p[p] IN
    IF P.q = <<>> THEN S
    ELSE LET b == Head(P.q)[2] IN
         IF Elig(S, P, b) THEN TlDrain(Out([S EXCEPT !.p[p].q = Tail(@)], p, b, "-"), p)
         ELSE SetP(IF Variant = "lifo" THEN [S EXCEPT !.p[p].q = Tail(@) \o <<Head(@)>>] ELSE S,
                   p, "tm", S.now + Timeout(S, P, b))

Push(S, n, b, src) ==
    IF n \in SinkNames
    THEN LET s == S.s[n]
             S1 == [S EXCEPT !.dl = Append(@, Fmt(n, b, s.fd, s.blk))] IN
         IF s.blk THEN [S1 EXCEPT !.s[n].hq = @ + 1,
                                  !.p = IF src = "-" THEN @ ELSE [@ EXCEPT ![src].pb = @ \cup {n}]]
         ELSE S1
    ELSE LET P == S.p[n]
             S0 == GIn(S, n, b.id) IN
         CASE P.k \in Sync ->
                LET r == KindFn(P.k, P, b)
                    S1 == [S0 EXCEPT !.oob = @ \/ ~InDomain(P.k, P, b),
                                     !.p[n].ini = TRUE,
                                     !.g.ok = @ /\ (r.fw => r.b.id = b.id)]
                IN IF r.fw THEN Out(S1, n, r.b, src) ELSE Free(S1, n, b)
           [] P.k = "null" -> Free(S0, n, b)
           [] P.k = "dup" ->
                LET all == SortBySq(S0, Subs(S0, n))
                    subs == IF Variant = "duplast" /\ P.out = "-" /\ all # <<>>
                            THEN SubSeq(all, 1, Len(all) - 1) ELSE all
                    RECURSIVE Each(_, _)
                    Each(T, i) == IF i > Len(subs) THEN T
                                  ELSE Each(Out(GIn(T, subs[i], b.id), subs[i], b, src), i + 1)
                    S1 == Each([S0 EXCEPT !.g.dup = Append(@, <<b.id, Subs(S0, n)>>)], 1)
                IN IF P.out # "-" THEN Out(S1, n, b, src) ELSE Free(S1, n, b)
           [] P.k = "tblk" ->
                IF ~S.m.det THEN [S0 EXCEPT !.p[n].q = Append(@, <<"b", b>>)]
                ELSE IF P.q = <<>> /\ P.um THEN Out(S0, n, b, src)
                ELSE AddBlk(TblkDrain([S0 EXCEPT !.p[n].q = Append(@, <<"b", b>>)], n), src, n)
           [] P.k = "time_limit" ->
                IF ~S.m.det THEN [S0 EXCEPT !.p[n].q = Append(@, <<"b", b>>)]
                ELSE IF P.q # <<>> THEN AddBlk([S0 EXCEPT !.p[n].q = Append(@, <<"b", b>>)], src, n)
                ELSE IF Elig(S0, P, b) THEN Out(S0, n, b, src)
                ELSE AddBlk([S0 EXCEPT !.p[n].q = <<<<"b", b>>>>, !.p[n].tm = S.now + Timeout(S0, P, b)], src, n)
           [] P.k = "buffer" ->
                LET q1 == Append(P.q, <<"b", b>>)
                    nb1 == IF S.m.det THEN Extend(q1, P.nb, P.a) ELSE P.nb
                    S1 == [S0 EXCEPT !.p[n].q = q1, !.p[n].nb = nb1,
                                     !.p[n].pm = IF nb1 > 0 /\ @ = 0 THEN 2 ELSE @]
                IN IF S.m.det /\ nb1 < Len(q1) THEN AddBlk(S1, src, n) ELSE S1
           [] P.k = "disblo" ->
                \* (abstract layer: the arrivals of one command are all dropped (m.d), all kept (m.k) or follow the rule)
                IF (S.m.det /\ Len(P.q) >= P.a)
                   \/ (~S.m.det /\ (n \in S.m.d \/ (n \notin S.m.k /\ Len(P.q) >= P.a))) THEN Free(S0, n, b)
                ELSE [S0 EXCEPT !.p[n].q = Append(@, <<"b", b>>), !.p[n].pm = IF @ >= 1 THEN 2 ELSE @]
           [] OTHER -> [S0 EXCEPT !.bad = TRUE]

\* ---- death ----------------------------------------------------------------------
SelfRef(S, n) == S.p[n].k \in {"tblk", "time_limit"} /\ HasBuf(S.p[n].q)
ExtRefs(S, n) ==
    IF n \in SinkNames THEN (IF S.s[n].h THEN 1 ELSE 0) + Up(S, n)
    ELSE IF S.p[n].k = "dup" THEN (IF S.p[n].h \/ Up(S, n) > 0 THEN 1 ELSE 0) + Cardinality(Subs(S, n))
    ELSE (IF S.p[n].h THEN 1 ELSE 0) + Up(S, n)
Refs(S, n) == ExtRefs(S, n) + (IF n \in PipeNames /\ SelfRef(S, n) THEN 1 ELSE 0)
Exists(S, n) == IF n \in SinkNames THEN S.s[n].ex ELSE IF n \in PipeNames THEN S.p[n].ex ELSE FALSE
HasHandle(S, n) == IF n \in SinkNames THEN S.s[n].ex /\ S.s[n].h ELSE IF n \in PipeNames THEN S.p[n].ex /\ S.p[n].h ELSE FALSE
\* which option belongs to which kind (others are refused by the pipe: no effect)
OptKind(name) == CASE name = "offset" -> "skip" [] name = "delay" -> "delay" [] name = "max_size" -> "buffer"
                   [] name = "max_length" -> "disblo" [] name = "limit" -> "time_limit" [] name = "rap" -> "setrap"
                   [] name = "match" -> "match_attr" [] name = "drop" -> "puref" [] name = "dict" -> "setattr"
                   [] OTHER -> "?"
RECURSIVE FreeAll(_, _, _)
FreeAll(S, p, q) == IF q = <<>> THEN S
                    ELSE FreeAll(IF IsBuf(Head(q)) THEN Free(S, p, Head(q)[2]) ELSE S, p, Tail(q))
Kill(S, n) ==
    IF n \in SinkNames
    THEN [S EXCEPT !.s[n] = NoSink, !.dead = @ \cup {n},
                   !.p = TLCEval([x \in PipeNames |-> [S.p[x] EXCEPT !.pb = @ \ {n}]])]
    ELSE LET S1 == IF Variant = "dropheld" THEN S ELSE FreeAll(S, n, S.p[n].q) IN
         [Unblk(S1, n) EXCEPT !.p[n] = NoPipe, !.dead = @ \cup {n},
                    !.s = TLCEval([x \in SinkNames |-> [S1.s[x] EXCEPT !.rq = SelectSeq(@, LAMBDA y : y # n)]])]
Nodes == PipeNames \cup SinkNames
RECURSIVE Reap(_)
Reap(S) == LET X == {n \in Nodes : Exists(S, n) /\ Refs(S, n) = 0} IN
           IF X = {} THEN S ELSE Reap(Kill(S, CHOOSE n \in X : TRUE))
\* abstract layer: exactly the nodes D die, none of them may be referenced from outside
RECURSIVE KillHinted(_, _)
KillHinted(S, D) == LET X == {n \in D : Exists(S, n) /\ ExtRefs(S, n) = 0} IN
                    IF X = {} THEN [S EXCEPT !.bad = @ \/ (\E n \in D : Exists(S, n))]
                    ELSE KillHinted(Kill(S, CHOOSE n \in X : TRUE), D)

\* ---- abstract layer: a holder releases a prefix of its queue ----------------------
RECURSIVE ReleaseN(_, _, _)
ReleaseN(S, p, n) ==
    IF n = 0 THEN S
    ELSE LET P == S.p[p] IN
         IF ~HasBuf(P.q) THEN [S EXCEPT !.bad = TRUE]
         ELSE LET it == Head(P.q) IN
              IF IsBuf(it) /\ P.k = "tblk" /\ P.fd = "-" /\ P.pf # "-"
              THEN ReleaseN([S EXCEPT !.p[p].fd = P.pf, !.p[p].os = 0, !.p[p].um = TRUE], p, n)
              ELSE IF IsBuf(it) THEN ReleaseN(Out([S EXCEPT !.p[p].q = Tail(@)], p, it[2], "-"), p, n - 1)
              ELSE ReleaseN([S EXCEPT !.p[p].q = Tail(@), !.p[p].fd = it[2],
                                      !.p[p].os = IF P.fd # it[2] THEN 0 ELSE @], p, n)
RECURSIVE AbsSettle(_, _)
AbsSettle(S, i) == IF i > Len(PN) THEN S
                   ELSE LET p == PN[i] IN
                        AbsSettle(IF S.p[p].ex /\ S.p[p].k \in Holders THEN ReleaseN(S, p, S.m.n[p]) ELSE S, i + 1)

\* ---- timers (detailed) -----------------------------------------------------------
RECURSIVE AdvLoop(_, _)
AdvLoop(S, until) ==
    LET X == {p \in PipeNames : S.p[p].ex /\ S.p[p].tm >= 0 /\ S.p[p].tm <= until} IN
    IF X = {} THEN [S EXCEPT !.now = until]
    ELSE LET p == CHOOSE y \in X : \A z \in X : S.p[y].tm < S.p[z].tm
                                          \/ (S.p[y].tm = S.p[z].tm /\ S.p[y].sq <= S.p[z].sq)
             S1 == [S EXCEPT !.now = IF S.p[p].tm > @ THEN S.p[p].tm ELSE @, !.p[p].tm = -1]
             S2 == TlDrain(S1, p)
         IN AdvLoop(IF S2.p[p].q = <<>> THEN Unblk(S2, p) ELSE S2, until)

\* ---- commands ----------------------------------------------------------------------
DefaultA(k) == CASE k \in {"skip", "delay", "buffer"} -> 0 [] k = "disblo" -> 1 [] OTHER -> -1
RECURSIVE DispAll(_, _)
DispAll(S, p) == IF S.p[p].q = <<>> THEN S
                 ELSE DispAll(Out([S EXCEPT !.p[p].q = Tail(@)], p, Head(S.p[p].q)[2], p), p)
RECURSIVE ProvAll(_, _)
ProvAll(S, ps) ==
    IF ps = <<>> THEN S
    ELSE LET p == Head(ps)
             P == S.p[p] IN
         IF P.ex /\ P.k = "time_limit" THEN ProvAll(SetP(S, p, "uc", TRUE), Tail(ps))
         ELSE IF ~P.ex \/ P.um THEN ProvAll(S, Tail(ps))
         ELSE LET S2 == TblkDrain([S EXCEPT !.p[p].um = TRUE, !.p[p].fd = P.pf, !.p[p].os = 0], p)
              IN ProvAll(IF S2.p[p].q = <<>> THEN Unblk(S2, p) ELSE S2, Tail(ps))

Effect(S, c) ==
    CASE c.op = "new" ->
            [S EXCEPT !.p[c.p] = [NoPipe EXCEPT !.ex = TRUE, !.k = c.k, !.h = TRUE, !.sq = S.seq + 1,
                                                !.a = DefaultA(c.k)],
                      !.seq = @ + 1, !.used = @ \cup {c.p}]
      [] c.op = "sink" -> [S EXCEPT !.s[c.s] = [NoSink EXCEPT !.ex = TRUE, !.h = TRUE], !.used = @ \cup {c.s}]
      [] c.op = "sub" ->
            [S EXCEPT !.p[c.p] = [NoPipe EXCEPT !.ex = TRUE, !.k = "dupo", !.h = TRUE, !.par = c.par,
                                                !.sq = S.seq + 1, !.fd = S.p[c.par].fd],
                      !.seq = @ + 1, !.used = @ \cup {c.p}]
      [] c.op = "setfd" -> SetFdOn(S, c.p, c.f)
      [] c.op = "out" ->
            IF S.p[c.p].k = "null" THEN S
            ELSE Ctl(Reroute([S EXCEPT !.p[c.p].out = IF c.t = "null" THEN "-" ELSE c.t, !.p[c.p].os = 0]), c.p)
      [] c.op = "in" -> Push(S, c.p, c.b, "-")
      [] c.op = "opt" ->
            LET S1 == Ctl(S, c.p) IN
            (CASE c.name = "dict" /\ S.p[c.p].k = "setflowdef" ->
                    \* upipe_setflowdef merges the dictionary into its OUTPUT flow definition: a different
                    \* dictionary is a new flow definition, to be negotiated again before the next buffer
                    [S1 EXCEPT !.p[c.p].tg = c.v, !.p[c.p].os = IF c.v # S.p[c.p].tg THEN 0 ELSE @]
               [] OptKind(c.name) # S.p[c.p].k -> S1
               [] c.name = "match" -> [S1 EXCEPT !.p[c.p].a = c.v, !.p[c.p].b = c.w]
               [] c.name = "drop" -> SetP(S1, c.p, "b", c.v)
               [] c.name = "dict" -> SetP(S1, c.p, "tg", c.v)
               [] OTHER -> SetP(S1, c.p, "a", c.v))
      [] c.op = "block" -> [S EXCEPT !.s[c.s].blk = TRUE]
      [] c.op = "unblock" ->
            [S EXCEPT !.s[c.s].blk = FALSE, !.s[c.s].hq = 0,
                      !.p = TLCEval([x \in PipeNames |-> [S.p[x] EXCEPT !.pb = @ \ {c.s}]])]
      [] c.op = "policy" -> [S EXCEPT !.s[c.s].acc = (c.v = "accept")]
      [] c.op = "renew" -> SetP(S, c.p, "rn", c.s)
      [] c.op = "disp" ->
            LET P == S.p[c.p] IN
            IF ~S.m.det THEN S
            ELSE IF ~(P.ex /\ P.k \in {"buffer", "disblo"} /\ P.pm = 2 /\ P.pb = {}) THEN [S EXCEPT !.ret = "-1"]
            ELSE IF P.k = "buffer"
            THEN IF P.nb = 0 THEN [S EXCEPT !.ret = "0"]
                 ELSE LET S1 == Out([S EXCEPT !.ret = "0", !.p[c.p].q = Tail(@), !.p[c.p].nb = @ - 1],
                                    c.p, Head(P.q)[2], c.p)
                          nb2 == Extend(S1.p[c.p].q, S1.p[c.p].nb, P.a)
                          S2 == SetP(S1, c.p, "nb", nb2)
                      IN IF nb2 = Len(S1.p[c.p].q) THEN Unblk(S2, c.p) ELSE S2
            ELSE SetP(DispAll([S EXCEPT !.ret = "0"], c.p), c.p, "pm", 1)
      [] c.op = "adv" -> IF S.m.det THEN AdvLoop(S, S.now + c.t) ELSE [S EXCEPT !.now = @ + c.t]
      \* the sink answers the clock requests first, then the others in registration order (re-plumbing moves
      \* registrations around: the order among requests of different kinds is fixed by the harness instead)
      [] c.op = "provall" -> IF S.m.det
                             THEN ProvAll(S, SelectSeq(S.s[c.s].rq, LAMBDA y : S.p[y].k = "time_limit")
                                             \o SelectSeq(S.s[c.s].rq, LAMBDA y : S.p[y].k # "time_limit"))
                             ELSE S
      [] c.op = "flush" ->
            IF S.p[c.p].k = "time_limit"
            THEN [Unblk(IF Variant = "noflush" THEN S ELSE FreeAll(S, c.p, S.p[c.p].q), c.p) EXCEPT !.p[c.p].q = <<>>, !.p[c.p].tm = -1]
            ELSE S
      [] c.op = "rel" -> IF c.n \in SinkNames THEN [S EXCEPT !.s[c.n].h = FALSE] ELSE [S EXCEPT !.p[c.n].h = FALSE]
      [] c.op = "drained" -> S          \* observation point after the drain rounds of the epilogue
      [] OTHER -> [S EXCEPT !.bad = TRUE]

\* one command: mode m, effect, releases of the abstract layer, deaths
Do(S, c, m) ==
    LET S0 == [S EXCEPT !.dl = <<>>, !.dead = {}, !.ret = "-", !.m = m]
        S1 == Effect(S0, c)
    IN IF m.det THEN Reap(S1) ELSE KillHinted(AbsSettle(S1, 1), m.dead)

\* may the environment issue c (object exists, handle held)
CanDo(S, c) ==
    CASE c.op = "new" -> c.p \notin S.used
      [] c.op = "sink" -> c.s \notin S.used
      [] c.op = "sub" -> c.p \notin S.used /\ S.p[c.par].ex /\ S.p[c.par].h /\ S.p[c.par].k = "dup"
      [] c.op \in {"setfd", "flush"} -> S.p[c.p].ex /\ S.p[c.p].h /\ S.p[c.p].k # "dupo"
      [] c.op = "out" -> S.p[c.p].ex /\ S.p[c.p].h /\ S.p[c.p].k # "null" /\ (c.t = "null" \/ HasHandle(S, c.t))
                         /\ (S.p[c.p].k = "tblk" => S.p[c.p].q = <<>>)
      [] c.op = "in" -> S.p[c.p].ex /\ S.p[c.p].h /\ S.p[c.p].k # "dupo"
      [] c.op = "opt" -> S.p[c.p].ex /\ S.p[c.p].h
      [] c.op \in {"block", "unblock", "policy", "provall"} -> S.s[c.s].ex
      [] c.op = "renew" -> S.p[c.p].ex /\ S.p[c.p].h /\ S.p[c.p].k \notin {"null", "dup"} /\ c.s \notin S.used
      [] c.op = "disp" -> c.p \in S.used
      [] c.op \in {"adv", "drained"} -> TRUE
      [] c.op = "rel" -> Exists(S, c.n) /\ (IF c.n \in SinkNames THEN S.s[c.n].h ELSE S.p[c.n].h)
      [] OTHER -> FALSE

PerSink(dl) == TLCEval([s \in SinkNames |-> SelectSeq(dl, LAMBDA e : e.s = s)])
Res(S) == [dl |-> PerSink(S.dl), live |-> Live(S), ret |-> S.ret, dead |-> S.dead]

\* ---- the model ------------------------------------------------------------------------

vars == <<st, steps, nin, hist>>
view == <<st, steps, nin>>

Step(S, c) == Do(S, c, DetMode)

RECURSIVE RunSeq(_, _, _)
RunSeq(S, cs, h) == IF cs = <<>> THEN <<S, h>>
                    ELSE LET S1 == Step(S, Head(cs))
                             r == Res(S1)
                         IN \* (the test forces the evaluation of this step before the next one)
                            IF r.live >= 0 THEN RunSeq(S1, Tail(cs), Append(h, [c |-> Head(cs), r |-> r]))
                            ELSE <<S1, h>>

Init == \E su \in Setups : LET r == RunSeq(Empty, su, <<>>) IN
        /\ st = r[1] /\ hist = r[2] /\ steps = 0 /\ nin = 0

Concrete(a) == IF a.op = "in" THEN {[op |-> "in", p |-> a.p, b |-> MkBuf(nin + 1, t), seg |-> t.seg] : t \in Bufs}
               ELSE {a}
Next == /\ steps < MaxSteps
        /\ \E a \in Acts : \E c \in Concrete(a) :
              /\ (a.op = "in" => nin < MaxIn)
              /\ CanDo(st, c)
              /\ LET S1 == Step(st, c) IN
                 /\ ~S1.oob /\ ~S1.bad
                 /\ st' = S1
                 /\ hist' = Append(hist, [c |-> c, r |-> Res(S1)])
              /\ nin' = IF a.op = "in" THEN nin + 1 ELSE nin
              /\ steps' = steps + 1
Spec == Init /\ [][Next]_vars

\* the epilogue: unblock, answer, let time pass, run the pumps, release everything
SeqOf(f, names) == LET RECURSIVE G(_)
                       G(i) == IF i > Len(names) THEN <<>> ELSE f[names[i]] \o G(i + 1)
                   IN G(1)
NumMarks(S) == LET RECURSIVE Sum(_)
                   Sum(i) == IF i = 0 THEN 0 ELSE Len(S.p[PN[i]].q) - NumBufs(S.p[PN[i]].q) + Sum(i - 1)
               IN Sum(Len(PN))
EpiRound(S) ==
    \* (every sink answers, whatever the model believes about who is still waiting: the real pipes decide)
    SeqOf([s \in SinkNames |-> IF S.s[s].ex
                               THEN [i \in 1..(2 + NumMarks(S)) |-> [op |-> "provall", s |-> s]] ELSE <<>>], SN)
    \o <<[op |-> "adv", t |-> 100000]>>
    \o SeqOf([p \in PipeNames |-> IF S.p[p].ex /\ S.p[p].k \in {"buffer", "disblo"}
                                  THEN [i \in 1..(MaxIn + 1) |-> [op |-> "disp", p |-> p]] ELSE <<>>], PN)
EpiDrain(S) ==
    SeqOf([s \in SinkNames |-> IF S.s[s].ex THEN <<[op |-> "unblock", s |-> s]>> ELSE <<>>], SN)
    \o EpiRound(S) \o EpiRound(S) \o <<[op |-> "drained"]>>
EpiRelease(S) ==
    SeqOf([p \in PipeNames |-> IF S.p[p].ex /\ S.p[p].h THEN <<[op |-> "rel", n |-> p]>> ELSE <<>>], PN)
    \o SeqOf([s \in SinkNames |-> IF S.s[s].ex /\ S.s[s].h THEN <<[op |-> "rel", n |-> s]>> ELSE <<>>], SN)
Drained == RunSeq(st, EpiDrain(st), hist)
Final == LET d == Drained IN RunSeq(d[1], EpiRelease(st), d[2])

\* ---- the sentences of the property --------------------------------------------------------
G == st.g
Ran(s) == {s[i] : i \in 1..Len(s)}
NoRep(s) == \A i, j \in 1..Len(s) : i # j => s[i] # s[j]
RECURSIVE Minus(_, _)
Minus(s, X) == IF s = <<>> THEN <<>> ELSE (IF Head(s) \in X THEN <<>> ELSE <<Head(s)>>) \o Minus(Tail(s), X)
RECURSIVE QIds(_)
QIds(q) == IF q = <<>> THEN <<>> ELSE (IF IsBuf(Head(q)) THEN <<Head(q)[2].id>> ELSE <<>>) \o QIds(Tail(q))
Held(S, p) == IF S.p[p].ex THEN QIds(S.p[p].q) ELSE <<>>

\* a buffer handed to a pipe is, exactly once, forwarded, kept for later or freed
ExactlyOnceIn(S) == \A p \in PipeNames : S.p[p].k # "dup" =>
    /\ NoRep(S.g.in[p]) /\ NoRep(S.g.out[p] \o Held(S, p) \o S.g.fr[p])
    /\ Ran(S.g.in[p]) = Ran(S.g.out[p]) \cup Ran(Held(S, p)) \cup Ran(S.g.fr[p])
ExactlyOnce == ExactlyOnceIn(st)
\* ... in input order, what was held first (one-to-one pipes hold nothing)
InOrderIn(S) == \A p \in PipeNames : S.p[p].k # "dup" =>
    /\ S.g.out[p] \o Held(S, p) = Minus(S.g.in[p], Ran(S.g.fr[p]))
    /\ (S.p[p].k \in Sync \cup {"dupo", "null"} => Held(S, p) = <<>>)
InOrder == InOrderIn(st)
\* one-to-one pipes change only what they are documented to change (identity kept)
ContentOK == G.ok
\* a duplicating split delivers every input to every output it has at that time, in order
DupAllIn(S) == \A x \in PipeNames :
    (\E k \in 1..Len(S.g.dup) : x \in S.g.dup[k][2]) =>
        S.g.in[x] = LET RECURSIVE F(_)
                        F(k) == IF k > Len(S.g.dup) THEN <<>>
                                ELSE (IF x \in S.g.dup[k][2] THEN <<S.g.dup[k][1]>> ELSE <<>>) \o F(k + 1)
                    IN F(1)
DupAll == DupAllIn(st)
\* whatever is still held is freed on flush or when the pipe is finally destroyed
NoLeakIn(S) == \A p \in PipeNames : ~S.p[p].ex => Held(S, p) = <<>>
NoLeak == NoLeakIn(st)
\* the detailed layer never leaves a holder stuck: after the epilogue nothing is alive
\* once everything is unblocked, answered and dispatched only what can never leave is still held
DrainedOK == CheckEpi => LET d == Drained[1] IN Live(d) <= Stuck(d)
EpilogueClean == CheckEpi => LET f == Final[1] IN
                    /\ Live(f) = 0 /\ ExactlyOnceIn(f) /\ InOrderIn(f) /\ DupAllIn(f) /\ NoLeakIn(f)
                    /\ \A p \in PipeNames : ~f.p[p].ex
FlushFrees == [][\A p \in PipeNames :
                   (hist' # hist /\ hist'[Len(hist')].c.op = "flush" /\ hist'[Len(hist')].c.p = p
                    /\ st.p[p].k = "time_limit")
                   => (Held(st', p) = <<>> /\ Ran(Held(st, p)) \subseteq Ran(st'.g.fr[p]))]_vars

Done == steps = MaxSteps
Emit == Done => PrintT(<<"BEH", ToJson(Final[2])>>)
Bound == steps <= MaxSteps
=============================================================================
