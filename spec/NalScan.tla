------------------------------- MODULE NalScan -------------------------------
(***************************************************************************)
(* C17 (stage 2) - the NAL boundaries the H.264 framer finds do not depend *)
(* on how the input is split into buffers.                                 *)
(*                                                                         *)
(* ABSTRACT.  Starts(s): the offsets of the NAL units of an Annex B octet  *)
(* string: every start code 00 00 01 that is followed by an octet (the NAL *)
(* header), with the zero octet before it if there is one.                 *)
(*                                                                         *)
(* DETAILED.  Transcription of                                             *)
(*   upipe_framers_mpeg_scan   (lib/upipe-framers/upipe_framers_common.c)  *)
(*   upipe_h264f_find and the offset bookkeeping of                        *)
(*   upipe_h264f_work_annexb   (lib/upipe-framers/upipe_h264_framer.c)     *)
(* over a stream that arrives in chunks (every chunk is one segment of the *)
(* block the framer scans; after a hit the scan resumes inside the         *)
(* segment): the 32-bit scan context carried from buffer to buffer, the    *)
(* 3-octet prologue of the scan, its skipping loop, the octet before the   *)
(* start code fetched from the buffer (p[-5]) or from the block            *)
(* (uref_block_extract at au_size - 5).  TLC chooses the chunk sizes       *)
(* lazily: all cuttings.                                                   *)
(*   ChunkInvariant   at the end of the stream the offsets found are       *)
(*                    Starts(s) whatever the cutting                       *)
(*   Monotone         offsets are found in increasing order                *)
(*                                                                         *)
(* Variant "ok" | "neg_prologue" (context tested once in the prologue) | "neg_ctx" (scan  *)
(*   context not carried over) | "neg_prev" (octet before the start code   *)
(*   always taken from the current buffer)                                 *)
(* NoLead3: TRUE = streams that begin with the 3-octet start code 00 00 01 *)
(*   are left out (a conforming stream begins with 00 00 00 01); FALSE =   *)
(*   any string - then the extraction at a negative offset (au_size - 5 <  *)
(*   0 counts from the END of the block in ubuf_block_extract) is reached. *)
(***************************************************************************)
EXTENDS Naturals, Integers, Sequences, FiniteSets, TLC, Json

CONSTANTS Variant, Alphabet, MaxLen, NoLead3

VARIABLES s,        \* the whole stream
          fed,      \* octets given to the framer so far (end of the last chunk)
          au,       \* au_size: octets scanned so far
          ctx,      \* scan_context: the last four octets seen
          found,    \* offsets of the NAL units found
          cuts,     \* history: the chunk ends chosen
          calls,    \* history: <<context, buffer, octets consumed, new context>> of every scan
          phase,    \* "run" | "done" | "trap"
          acts      \* ghost: names of the actions taken (vacuity guard)
vars == <<s, fed, au, ctx, found, cuts, calls, phase, acts>>

---------------------------------------------------------------------------
(* abstract *)
RECURSIVE ScanStarts(_, _)
ScanStarts(bs, p) ==
  IF p + 3 > Len(bs) THEN <<>>                      \* 00 00 01 and one more octet
  ELSE IF bs[p] = 0 /\ bs[p + 1] = 0 /\ bs[p + 2] = 1
       THEN <<(IF p > 1 /\ bs[p - 1] = 0 THEN p - 2 ELSE p - 1)>> \o ScanStarts(bs, p + 3)
       ELSE ScanStarts(bs, p + 1)
Starts(bs) == ScanStarts(bs, 1)

---------------------------------------------------------------------------
(* upipe_framers_mpeg_scan over buf (1-based sequence), context c (4 octets);
   returns the number p of octets consumed and the new context *)
Prologue == 3
RECURSIVE Pro(_, _, _, _)
Pro(buf, c, p, i) ==        \* the for loop: i octets still to do
  IF i = 0 THEN [p |-> p, c |-> c, ret |-> FALSE]
  ELSE LET hit == /\ c[2] = 0 /\ c[3] = 0 /\ c[4] = 1      \* tmp == 0x100
                  /\ (Variant = "neg_prologue" => i = Prologue)
           c1  == <<c[2], c[3], c[4], buf[p + 1]>>
       IN IF hit \/ p + 1 = Len(buf) THEN [p |-> p + 1, c |-> c1, ret |-> TRUE]
          ELSE Pro(buf, c1, p + 1, i - 1)
RECURSIVE Skip(_, _)
Skip(buf, p) ==             \* the while loop; buf[p] is p[-1]
  IF p >= Len(buf) THEN p
  ELSE IF buf[p] > 1 THEN Skip(buf, p + 3)
  ELSE IF buf[p - 1] # 0 THEN Skip(buf, p + 2)
  ELSE IF buf[p - 2] # 0 \/ buf[p] # 1 THEN Skip(buf, p + 1)
  ELSE p + 1
Scan(buf, c) ==
  LET a == Pro(buf, c, 0, Prologue) IN
  IF a.ret THEN [p |-> a.p, c |-> a.c]
  ELSE LET q == Skip(buf, a.p)
           p == IF q > Len(buf) THEN Len(buf) ELSE q
       IN [p |-> p, c |-> <<buf[p - 3], buf[p - 2], buf[p - 1], buf[p]>>]

---------------------------------------------------------------------------
Strings == UNION {[1..n -> Alphabet] : n \in 1..MaxLen}
Lead3(x) == Len(x) >= 3 /\ x[1] = 0 /\ x[2] = 0 /\ x[3] = 1
Init == /\ s \in Strings /\ (NoLead3 => ~Lead3(s))
        /\ fed = 0 /\ au = 0 /\ ctx = <<255, 255, 255, 255>> /\ found = <<>> /\ cuts = <<>>
        /\ phase = "run" /\ acts = {} /\ calls = <<>>

\* a new input buffer arrives (upipe_h264f_append_uref_stream)
Chunk(n) == /\ phase = "run" /\ au = fed /\ fed < Len(s) /\ n \in 1..(Len(s) - fed)
            /\ fed' = fed + n /\ cuts' = Append(cuts, fed + n)
            /\ acts' = acts \cup {"Chunk"}
            /\ UNCHANGED <<s, au, ctx, found, calls, phase>>

\* end of the segment that holds offset au
SegEnd == LET later == {i \in 1..Len(cuts) : cuts[i] > au} IN
          cuts[CHOOSE i \in later : \A j \in later : i <= j]
\* uref_block_extract(next_uref, au_size - 5, 1, &prev): a negative offset
\* counts from the end of the block
PrevFromBlock(a) == IF a - 5 >= 0 THEN s[a - 5 + 1]
                    ELSE IF fed + (a - 5) >= 0 THEN s[fed + (a - 5) + 1]
                    ELSE 255
\* one turn of the loop of upipe_h264f_find (+ the bookkeeping of work_annexb on a hit)
Turn ==
  LET buf == SubSeq(s, au + 1, SegEnd)
      r   == Scan(buf, IF Variant = "neg_ctx" THEN <<255, 255, 255, 255>> ELSE ctx)
      hit == r.c[1] = 0 /\ r.c[2] = 0 /\ r.c[3] = 1        \* (ctx & 0xffffff00) == 0x100
      a1  == au + r.p
      prev == IF r.p > 5 \/ (Variant = "neg_prev" /\ r.p = 5) THEN buf[r.p - 4]        \* p[-5]
              ELSE IF Variant = "neg_prev" THEN 255
              ELSE PrevFromBlock(a1)
      ssz == IF prev = 0 THEN 5 ELSE 4
  IN [hit |-> hit, au |-> IF hit THEN a1 ELSE SegEnd, c |-> r.c, off |-> a1 - ssz,
      call |-> <<ctx, buf, r.p, r.c>>]
FindHit == /\ phase = "run" /\ au < fed /\ Turn.hit
           /\ IF Turn.off < 0 THEN phase' = "trap" /\ found' = found      \* au_size -= start_size wraps
              ELSE phase' = phase /\ found' = Append(found, Turn.off)
           /\ au' = Turn.au /\ ctx' = Turn.c /\ acts' = acts \cup {"FindHit"}
           /\ calls' = Append(calls, Turn.call)
           /\ UNCHANGED <<s, fed, cuts>>
FindMiss == /\ phase = "run" /\ au < fed /\ ~Turn.hit
            /\ au' = Turn.au /\ ctx' = Turn.c /\ acts' = acts \cup {"FindMiss"}
            /\ calls' = Append(calls, Turn.call)
            /\ UNCHANGED <<s, fed, found, cuts, phase>>
Finish == /\ phase = "run" /\ au = fed /\ fed = Len(s)
          /\ phase' = "done" /\ acts' = acts \cup {"Finish"}
          /\ UNCHANGED <<s, fed, au, ctx, found, cuts, calls>>

Next == (\E n \in 1..MaxLen : Chunk(n)) \/ FindHit \/ FindMiss \/ Finish
Spec == Init /\ [][Next]_vars
\* the ghost variables acts and calls are functions of the rest (the path is in cuts)
View == <<s, fed, au, ctx, found, cuts, phase>>

---------------------------------------------------------------------------
ChunkInvariant == phase = "done" => found = Starts(s)
Monotone == \A i \in 1..(Len(found) - 1) : found[i] < found[i + 1]
NoTrap == phase # "trap"
TypeOK == phase \in {"run", "done", "trap"} /\ au <= fed /\ fed <= Len(s)

Beh == [stream |-> s, cuts |-> cuts, starts |-> found, calls |-> calls, acts |-> acts]
Emit == (phase = "done") => PrintT(<<"BEH", ToJson(Beh)>>)
EmitCex == (phase = "trap" \/ (phase = "done" /\ found # Starts(s))) => PrintT(<<"CEX", ToJson(Beh)>>)
=============================================================================
