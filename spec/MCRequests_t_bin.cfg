\* C12 bin pipe scenario G (upipe_ts_align)
SPECIFICATION Spec
CONSTANTS
  Scenarios <- ScnBin
  Variant = "ok"
  EmitEdges = TRUE
  Idle = FALSE
  MaxGen = 2
  MaxChan = 2
  MaxPath = 0
CONSTRAINT Bound
VIEW ViewCore
INVARIANT TypeOK PathInv OneEntry
PROPERTY StepNoCallbackAfterUnregister StepNoSinkFreedWithRegs StepReachesProvide StepReachesRunA StepReachesProbe
CHECK_DEADLOCK FALSE
