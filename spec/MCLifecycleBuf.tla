---------------------------- MODULE MCLifecycleBuf ----------------------------
(***************************************************************************)
(* C01 - detailed layer and driver for the single-owner structures: urefs, *)
(* block buffers (ubuf), dictionaries (udict) and the memory areas         *)
(* (umem) that several ubufs may share (ubuf_block_mem.c, uref.h).         *)
(* The application-level operations are transcribed as events of the       *)
(* abstract object table of Lifecycle.tla:                                 *)
(*   ualloc   uref_block_alloc + one attribute: uref, ubuf, its area,      *)
(*            udict, the dictionary's buffer                               *)
(*   udup     uref_dup: new uref, copy of the dictionary, new ubuf that    *)
(*            SHARES the area (ubuf_mem_shared_use)                        *)
(*   udetach / uattach   uref_detach_ubuf / uref_attach_ubuf (frees the    *)
(*            ubuf it replaces)                                            *)
(*   bdup / bfree        ubuf_dup / ubuf_free on a detached ubuf           *)
(*   ufree    uref_free: ubuf, udict, uref                                 *)
(*   uin      upipe_input into a sink: the uref belongs to the pipe,       *)
(*            which frees it                                               *)
(* An area is freed when the last ubuf that shares it is freed: arc[a] is  *)
(* the transcribed counter (ubuf_mem_shared), AreaRc states that it equals *)
(* the number of live ubufs pointing to the area.  hist records what the   *)
(* specification predicts after every call: the numbers of live urefs,     *)
(* ubufs, udicts and umem buffers.                                         *)
(* Variant: "attachleak" (uref_attach_ubuf forgets the replaced ubuf),     *)
(*          "dupnoshare" (ubuf_dup forgets to take the area reference),    *)
(*          "freetwice"  (uref_free frees the dictionary twice).           *)
(***************************************************************************)
EXTENDS Naturals, Integers, Sequences, FiniteSets, TLC, Json

CONSTANTS NU, NB, Variant, MaxCmds, MinCmds, EmitBeh
VARIABLES S, hist, ncmd, done
vars == <<S, hist, ncmd, done>>

INSTANCE Lifecycle

CovNames == <<"ualloc", "udup", "ufree", "udetach", "uattach", "bdup", "bfree", "uin", "finish",
              "areafree", "areakept", "replace">>
Mark(name) == LET i == CHOOSE j \in 1..Len(CovNames) : CovNames[j] = name
              IN TLCSet(i, TLCGet(i) + 1)
Cov == PrintT(<<"COV", [i \in 1..Len(CovNames) |-> <<CovNames[i], TLCGet(i)>>]>>)

\* object ids: fresh numbers, never reused
Id(prefix, n) == n
Ev(s, ev) == LET w == Why(s.T, ev) IN
             IF w = "ok" THEN [s EXCEPT !.T = Step(s.T, ev)]
                         ELSE [s EXCEPT !.viol = @ \cup {w}]
New(s, k) == \* allocate a fresh object of kind k; returns <<state, id>>
  LET id == Id(k, s.next)
  IN <<Ev([s EXCEPT !.next = @ + 1], [e |-> "Alloc", o |-> id, k |-> k]), id>>
Del(s, id) == Ev(s, [e |-> "Free", o |-> id])

\* ubuf_block_mem_free: the area goes with its last ubuf
FreeBuf(s, b) ==
  LET a == s.area[b]
      s1 == Del(s, b)
      s2 == [s1 EXCEPT !.arc[a] = @ - 1]
  IN IF s2.arc[a] = 0 /\ Mark("areafree") THEN Del(s2, a)
     ELSE IF Mark("areakept") THEN s2 ELSE s2
\* ubuf_block_mem_dup
DupBuf(s, b) ==
  LET p == New(s, "ubuf")
      nb == p[2]
      a == s.area[b]
      s1 == [p[1] EXCEPT !.area = (nb :> a) @@ @]
  IN <<IF Variant = "dupnoshare" THEN s1 ELSE [s1 EXCEPT !.arc[a] = @ + 1], nb>>
\* a dictionary and its buffer
NewDict(s) == LET p == New(s, "udict") q == New(p[1], "mem")
              IN <<[q[1] EXCEPT !.dmem = (p[2] :> q[2]) @@ @], p[2]>>
FreeDict(s, d) == Del(Del(s, s.dmem[d]), d)

FreeUref(s, i) ==   \* uref_free(slot i): ubuf, udict, uref
  LET r == s.uref[i]
      s1 == IF r.buf # 0 THEN FreeBuf(s, r.buf) ELSE s
      s2 == IF r.dict # 0 THEN FreeDict(s1, r.dict) ELSE s1
      s3 == IF r.dict # 0 /\ Variant = "freetwice" THEN Del(s2, r.dict) ELSE s2
  IN [Del(s3, r.id) EXCEPT !.uref[i] = [id |-> 0, buf |-> 0, dict |-> 0]]

Live(s, i) == s.uref[i].id # 0
Give(s, id) == Ev(s, [e |-> "Give", o |-> id])
Take(s, id) == Ev(s, [e |-> "Take", o |-> id])

CUAlloc(s, i) ==
  LET u == New(s, "uref")
      b == New(u[1], "ubuf")
      a == New(b[1], "mem")
      s1 == [a[1] EXCEPT !.area = (b[2] :> a[2]) @@ @, !.arc = (a[2] :> 1) @@ @]
      d == NewDict(s1)
  IN Take([d[1] EXCEPT !.uref[i] = [id |-> u[2], buf |-> b[2], dict |-> d[2]]], u[2])
CUDup(s, i, j) ==
  LET r == s.uref[i]
      u == New(s, "uref")
      d == IF r.dict # 0 THEN NewDict(u[1]) ELSE <<u[1], 0>>
      b == IF r.buf # 0 THEN DupBuf(d[1], r.buf) ELSE <<d[1], 0>>
  IN Take([b[1] EXCEPT !.uref[j] = [id |-> u[2], buf |-> b[2], dict |-> d[2]]], u[2])
CUFree(s, i) == FreeUref(Give(s, s.uref[i].id), i)
CUIn(s, i) == FreeUref(Give(s, s.uref[i].id), i)          \* the sink frees what it is given
CUDetach(s, i, k) ==
  LET b == s.uref[i].buf
  IN Take([s EXCEPT !.uref[i].buf = 0, !.abuf[k] = b], b)
CUAttach(s, i, k) ==
  LET b == s.abuf[k]
      old == s.uref[i].buf
      s1 == Give(s, b)
      s2 == IF old # 0 /\ Variant # "attachleak" /\ Mark("replace") THEN FreeBuf(s1, old) ELSE s1
  IN [s2 EXCEPT !.uref[i].buf = b, !.abuf[k] = 0]
CBDup(s, k, l) ==
  LET p == DupBuf(s, s.abuf[k])
  IN Take([p[1] EXCEPT !.abuf[l] = p[2]], p[2])
CBFree(s, k) == [FreeBuf(Give(s, s.abuf[k]), s.abuf[k]) EXCEPT !.abuf[k] = 0]

RECURSIVE FreeAllU(_, _), FreeAllB(_, _)
FreeAllU(s, i) == IF i > NU THEN s ELSE FreeAllU(IF Live(s, i) THEN CUFree(s, i) ELSE s, i + 1)
FreeAllB(s, k) == IF k > NB THEN s ELSE FreeAllB(IF s.abuf[k] # 0 THEN CBFree(s, k) ELSE s, k + 1)
CFinish(s) == FreeAllB(FreeAllU(s, 1), 1)

Count(s, k) == Cardinality({o \in DOMAIN s.T : s.T[o].k = k /\ s.T[o].st = "live"})
Rec(c, a, b, s) == [c |-> c, a |-> a, b |-> b, nuref |-> Count(s, "uref"), nubuf |-> Count(s, "ubuf"),
                    nudict |-> Count(s, "udict"), nmem |-> Count(s, "mem")]
Do(c, a, b, s2) ==
  /\ Mark(c)
  /\ S' = s2
  /\ hist' = IF EmitBeh THEN Append(hist, Rec(c, a, b, s2)) ELSE hist
  /\ ncmd' = ncmd + 1
  /\ done' = (c = "finish")
Budget == ~done /\ (MaxCmds = 0 \/ ncmd < MaxCmds)
NLive == Cardinality({i \in 1..NU : Live(S, i)})

UAlloc(i) == Budget /\ ~Live(S, i) /\ Do("ualloc", i, 0, CUAlloc(S, i))
UDup(i, j) == Budget /\ Live(S, i) /\ ~Live(S, j) /\ Do("udup", i, j, CUDup(S, i, j))
UFree(i) == Budget /\ Live(S, i) /\ Do("ufree", i, 0, CUFree(S, i))
UIn(i) == Budget /\ Live(S, i) /\ S.uref[i].buf # 0 /\ Do("uin", i, 0, CUIn(S, i))
UDetach(i, k) == Budget /\ Live(S, i) /\ S.uref[i].buf # 0 /\ S.abuf[k] = 0 /\ Do("udetach", i, k, CUDetach(S, i, k))
UAttach(i, k) == Budget /\ Live(S, i) /\ S.abuf[k] # 0 /\ Do("uattach", i, k, CUAttach(S, i, k))
BDup(k, l) == Budget /\ S.abuf[k] # 0 /\ S.abuf[l] = 0 /\ Do("bdup", k, l, CBDup(S, k, l))
BFree(k) == Budget /\ S.abuf[k] # 0 /\ Do("bfree", k, 0, CBFree(S, k))
Finish == ~done /\ (ncmd >= MinCmds \/ ~Budget) /\ Do("finish", 0, 0, CFinish(S))

Init0 == [T |-> <<>>, next |-> 1, viol |-> {},
          uref |-> [i \in 1..NU |-> [id |-> 0, buf |-> 0, dict |-> 0]],
          abuf |-> [k \in 1..NB |-> 0], area |-> <<>>, arc |-> <<>>, dmem |-> <<>>]
Init == /\ S = Init0 /\ hist = <<>> /\ ncmd = 0 /\ done = FALSE
        /\ \A i \in 1..Len(CovNames) : TLCSet(i, 0)
Next == \/ \E i \in 1..NU : UAlloc(i) \/ UFree(i) \/ UIn(i)
        \/ \E i, j \in 1..NU : UDup(i, j)
        \/ \E i \in 1..NU, k \in 1..NB : UDetach(i, k) \/ UAttach(i, k)
        \/ \E k, l \in 1..NB : BDup(k, l)
        \/ \E k \in 1..NB : BFree(k)
        \/ Finish
Spec == Init /\ [][Next]_vars

(* ------------------------------------------------------------- properties *)
LiveBufs == {b \in DOMAIN S.area : Has(S.T, b) /\ S.T[b].st = "live"}
\* the counter of an area is the number of live ubufs that share it; it is live iff shared
RcIsHolders ==
  /\ "RcIsHolders" \notin S.viol
  /\ \A a \in DOMAIN S.arc :
       /\ S.arc[a] = Cardinality({b \in LiveBufs : S.area[b] = a})
       /\ (S.T[a].st = "live") <=> (S.arc[a] > 0)
DestroyOnce == "DestroyOnce" \notin S.viol
NoUseAfterDestroy ==
  /\ "NoUseAfterDestroy" \notin S.viol
  /\ NoHolderOfDead(S.T)
  /\ \A i \in 1..NU : Live(S, i) =>
       /\ S.T[S.uref[i].id].st = "live"
       /\ (S.uref[i].buf # 0 => S.T[S.uref[i].buf].st = "live" /\ S.T[S.area[S.uref[i].buf]].st = "live")
       /\ (S.uref[i].dict # 0 => S.T[S.uref[i].dict].st = "live")
  /\ \A k \in 1..NB : S.abuf[k] # 0 => S.T[S.abuf[k]].st = "live" /\ S.T[S.area[S.abuf[k]]].st = "live"
QuiescentClean == done => \A o \in DOMAIN S.T : S.T[o].st = "dead"
Sane == TypeOK(S.T)
Emit == (done /\ EmitBeh) => PrintT(<<"BEH", ToJson(hist)>>)
\* ids are fresh numbers: two states that differ only by a renaming are different
\* for TLC; the bound on the program length keeps the graph finite
View == <<S, done>>
=============================================================================
