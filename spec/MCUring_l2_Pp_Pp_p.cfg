SPECIFICATION Spec
CONSTANTS
  N = 2
  Kind = "lifo"
  Prog <- P_Pp_Pp_p
  HeadCmp = "tagindex"
INVARIANT NoErr StructureOK TypeOK
VIEW view
CHECK_DEADLOCK FALSE
