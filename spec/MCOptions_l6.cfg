\* C20 exhaustive: every script of <= 6 commands over 3 accepted + 2 rejected values, getter, <= 3 inputs; logs hidden behind their equalities (VIEW)
SPECIFICATION Spec
CONSTANTS
  Acc = {1, 2, 3}
  Rej = {4, 5}
  Default = 0
  Garbage = 99
  Unknown = 98
  MaxLen = 6
  MaxIn = 3
  Variant = "ok"
  EmitBeh = FALSE
INVARIANT TypeOK GetReturnsLast GetterNeutral RejectNeutral SameAnswers
PROPERTY GetStutters RejectKeeps AcceptStores
VIEW View
CHECK_DEADLOCK FALSE
