SPECIFICATION TSpec
INVARIANT Report RcIsHolders NoUseAfterDestroy
POSTCONDITION Accepted
CHECK_DEADLOCK FALSE
