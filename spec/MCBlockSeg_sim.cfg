\* simulation of the detailed model: exact predictions (segmentation included)
SPECIFICATION MCSpec
CONSTANTS
  Handles = {0, 1, 2, 3}
  Fill = 14
  Strict = TRUE
  KeepHist = TRUE
  Bug = "none"
  Pre = 2
  MaxLen = 12
  MaxWins = 8
  Depth = 12
  Pats = "c"
  InitSet = "one"
  ObsLast = FALSE
  Rand = TRUE
  Dom = "all"
  Ops = {"dup", "splice", "split", "append", "insert", "delete", "truncate", "resize", "prepend", "free", "copy", "merge", "poke", "alloc", "size", "rd1", "slin", "extract", "scan"}
INVARIANT Emit
CONSTRAINT Bounded
CHECK_DEADLOCK FALSE
