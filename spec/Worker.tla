------------------------------- MODULE Worker -------------------------------
(***************************************************************************)
(* C06, worker pipes - detailed model of lib/upipe-modules/upipe_worker.c  *)
(* at the granularity of one call on the worker pipe or one pump call-back *)
(*                                                                         *)
(*   application thread A            |          worker thread W            *)
(*   handle -> in_qsink =(inQ,inOob)=> in_qsrc -> remote -> out_qsink      *)
(*   sink s <- out_qsrc <=(outQ,outOob)=======================/            *)
(*   commands (set-up, release, detach) A =(xq)=> transfer manager on W    *)
(*   events of the remote pipe / DEAD of a transferred pipe W =(evq)=> A   *)
(*                                                                         *)
(* Flavour "lin" has both queues, "sink" only the input one, "src" only    *)
(* the output one (the remote pipe is then a source driven by an idler).   *)
(* The queue sinks are as in QueuePipes.tla (flow definition, sent flag,   *)
(* spool, stall); the queue sources keep the flow definition and tell      *)
(* their output when it CHANGES, just before the next buffer; a stalled    *)
(* output queue sink blocks the pump that fed it (input queue source /     *)
(* idler of the source).  The release of the worker pipe is the cascade    *)
(* of the implementation: the input queue sink ends the input queue        *)
(* (SOURCE_END then, with the last reference, REF_END), the transferred    *)
(* pipes are released by commands executed on W, the remote pipe dies when *)
(* the input queue source (its last user) dies, its death releases the     *)
(* output queue sink which ends the output queue, DEAD messages free the   *)
(* transfer pipes on A, the worker pipe dies last and detaches the manager.*)
(* Freeze: A takes the mutex of W's loop; W runs no call-back meanwhile;   *)
(* a control command the bin does not know is executed by A on the remote  *)
(* pipe under (automatic) freeze.                                          *)
(*                                                                         *)
(* Tokens of Prog (thread A): "A" "B" set_flow_def, "i" input, "o" "O"     *)
(* set_output(sink 0/1), "z" freeze, "t" thaw, "c" control, "r" release.   *)
(* Loop steps: W: x (manager pump) q e (input queue source: data, oob)     *)
(* K (watcher of the output queue sink) s (idler of the source);           *)
(* A: k (watcher of the input queue sink) p P (output queue source: data,  *)
(* oob) v V (event pumps of the two transfer pipes).                       *)
(* Variant: "code" | "dropfull" (a full queue drops) | "freezenoop" (W     *)
(* keeps running while frozen) | "earlyfree" (the remote pipe is freed as  *)
(* soon as it is released) | "nomutexleak" (without mutex a control        *)
(* command leaks a manager reference: the defect found in                  *)
(* upipe_xfer_mgr_freeze)                                                  *)
(***************************************************************************)
EXTENDS Naturals, Integers, Sequences, FiniteSets, TLC, Json

CONSTANTS Flavour, IL, OL, Mx, Prog, SrcProg, Variant,
          FreeLen       \* > 0: Prog is ANY sequence of at most FreeLen tokens of FreeToks
CONSTANT FreeToks
CONSTANT Eager          \* TRUE: the application makes its next call only when both event loops have nothing to do
VARIABLES ip, hFd, hSent, spA, inQ, inOob, sinkAState, relA,
          xq, mgrFreed, mgrLeak, frozen,
          inAtt, qFd, qNeed, qRefs, qDead, blockedQ,
          rFd, rRefs, rFreed, srcIp, srcOn, srcBlocked, srcId,
          wFd, wSent, spW, outQ, outOob, sinkWState,
          oFd, oNeed, curSink, oRefs, oDead,
          evq, evq2, x1Dead, x2Dead, hDead,
          nextId, sent, rIn, rOut, out, entries, obs, hist
aVars == <<ip, hFd, hSent, spA, inQ, inOob, sinkAState, relA>>
mVars == <<xq, mgrFreed, mgrLeak, frozen>>
wVars == <<inAtt, qFd, qNeed, qRefs, qDead, blockedQ, rFd, rRefs, rFreed, srcIp, srcOn, srcBlocked, srcId,
           wFd, wSent, spW, outQ, outOob, sinkWState>>
oVars == <<oFd, oNeed, curSink, oRefs, oDead, evq, evq2, x1Dead, x2Dead, hDead>>
gVars == <<nextId, sent, rIn, rOut, out, entries>>
vars == <<aVars, mVars, wVars, oVars, gVars, obs, hist>>
view == <<aVars, mVars, wVars, oVars, gVars>>

None == "none"
HasIn == Flavour # "src"
HasOut == Flavour # "sink"

Init ==
  /\ ip = 1 /\ hFd = None /\ hSent = FALSE /\ spA = <<>> /\ inQ = <<>> /\ inOob = <<>>
  /\ sinkAState = (IF HasIn THEN "alive" ELSE "dead") /\ relA = FALSE
  /\ xq = <<"setup">> /\ mgrFreed = FALSE /\ mgrLeak = 0 /\ frozen = FALSE
  /\ inAtt = FALSE /\ qFd = None /\ qNeed = FALSE /\ qRefs = (IF HasIn THEN {"sink", "xfer"} ELSE {}) /\ qDead = ~HasIn
  /\ blockedQ = FALSE /\ rFd = None /\ rRefs = (IF HasIn THEN {"xfer", "qsrc"} ELSE {"xfer"}) /\ rFreed = FALSE
  /\ srcIp = 1 /\ srcOn = FALSE /\ srcBlocked = FALSE /\ srcId = 1
  /\ wFd = None /\ wSent = FALSE /\ spW = <<>> /\ outQ = <<>> /\ outOob = <<>>
  /\ sinkWState = (IF HasOut THEN "alive" ELSE "dead")
  /\ oFd = None /\ oNeed = FALSE /\ curSink = -1 /\ oRefs = (IF HasOut THEN {"handle", "sink"} ELSE {}) /\ oDead = ~HasOut
  /\ evq = <<>> /\ evq2 = <<>> /\ x1Dead = FALSE /\ x2Dead = ~HasIn /\ hDead = FALSE
  /\ nextId = 1 /\ sent = <<>> /\ rIn = <<>> /\ rOut = <<>> /\ out = <<>> /\ entries = <<>>
  /\ obs = <<>> /\ hist = <<>>

\* ---- a queue sink: spool if something is already held, else push, else stall
Put(sp, qq, L, x) == IF sp # <<>> THEN <<Append(sp, x), qq>>
                     ELSE IF Len(qq) < L THEN <<sp, Append(qq, x)>>
                     ELSE IF Variant = "dropfull" THEN <<sp, qq>>
                     ELSE <<Append(sp, x), qq>>
RECURSIVE Drain(_, _, _)
Drain(sp, qq, L) == IF sp = <<>> \/ Len(qq) >= L THEN <<sp, qq>> ELSE Drain(Tail(sp), Append(qq, Head(sp)), L)

\* ---- the W side as a record (what a delivery into the remote pipe may change)
WS == [qFd |-> qFd, qNeed |-> qNeed, rFd |-> rFd, wFd |-> wFd, wSent |-> wSent, spW |-> spW, outQ |-> outQ,
       outOob |-> outOob, sinkWState |-> sinkWState, oRefs |-> oRefs,
       evq |-> evq, evq2 |-> evq2, rRefs |-> rRefs, rFreed |-> rFreed,
       rIn |-> rIn, rOut |-> rOut, entries |-> entries, obs |-> obs]
SetWS(S) == /\ qFd' = S.qFd /\ qNeed' = S.qNeed /\ rFd' = S.rFd /\ wFd' = S.wFd /\ wSent' = S.wSent /\ spW' = S.spW
            /\ outQ' = S.outQ /\ outOob' = S.outOob /\ sinkWState' = S.sinkWState /\ oRefs' = S.oRefs
            /\ evq' = S.evq /\ evq2' = S.evq2 /\ rRefs' = S.rRefs /\ rFreed' = S.rFreed
            /\ rIn' = S.rIn /\ rOut' = S.rOut /\ entries' = S.entries /\ obs' = S.obs
Ent(S, k, th) == [S EXCEPT !.entries = Append(@, <<k, th, frozen>>)]
\* the output queue sink receives buffer id from the remote pipe
SinkW(S, id) ==
  LET withFd == ~S.wSent /\ S.wFd # None
      s1 == IF withFd THEN Put(S.spW, S.outQ, OL, <<"fd", S.wFd>>) ELSE <<S.spW, S.outQ>>
      s2 == Put(s1[1], s1[2], OL, <<"buf", id, S.wFd>>)
  IN [S EXCEPT !.spW = s2[1], !.outQ = s2[2], !.wSent = (@ \/ withFd), !.rOut = Append(@, <<id, S.wFd>>)]
EvOf(id) == IF id % 2 = 1 THEN "acq" ELSE "lost"
RemoteFd(S, f) == LET S1 == Ent([S EXCEPT !.obs = Append(@, "RFd:" \o f \o ":1"), !.rFd = f], "flowdef", "W")
                  IN IF HasOut THEN [S1 EXCEPT !.wFd = f, !.wSent = FALSE] ELSE S1
RemoteIn(S, id, f) ==
  LET S1 == Ent([S EXCEPT !.obs = Append(@, "RIn:" \o ToString(id) \o ":1"),
                          !.rIn = Append(@, <<id, f, S.rFd>>), !.evq = Append(@, EvOf(id))], "input", "W")
  IN IF HasOut THEN SinkW(S1, id) ELSE S1
\* the input queue source takes one item of its queue
InItem(S, x) ==
  IF x[1] = "fd" THEN (IF x[2] = S.qFd THEN S ELSE [S EXCEPT !.qFd = x[2], !.qNeed = TRUE])
  ELSE LET S1 == IF S.qNeed THEN RemoteFd(S, S.qFd) ELSE S
       IN RemoteIn([S1 EXCEPT !.qNeed = FALSE], x[2], x[3])
RECURSIVE InAll(_, _)
InAll(S, qq) == IF qq = <<>> THEN S ELSE InAll(InItem(S, Head(qq)), Tail(qq))
\* the output queue sink dies: SOURCE_END, then REF_END if it held the last reference of the queue
SinkWFree(S) == LET refs == S.oRefs \ {"sink"}
                IN [S EXCEPT !.sinkWState = "dead", !.oRefs = refs,
                             !.outOob = IF refs = {} THEN @ \o <<"end", "ref">> ELSE Append(@, "end")]
\* the remote pipe dies (on W): it releases its output, its death frees the transfer pipe (DEAD message)
RemoteFree(S) ==
  LET S1 == Ent([S EXCEPT !.obs = Append(@, "RFree:1"), !.rFreed = TRUE, !.evq = Append(@, "dead")], "free", "W")
  IN IF ~HasOut THEN S1
     ELSE IF S1.spW = <<>> THEN SinkWFree(S1) ELSE [S1 EXCEPT !.sinkWState = "zombie"]
RelRemote(S, who) == LET refs == S.rRefs \ {who}
                         S1 == [S EXCEPT !.rRefs = refs]
                     IN IF (refs = {} \/ Variant = "earlyfree") /\ ~S.rFreed THEN RemoteFree(S1) ELSE S1

\* ---- the A side record (what the death of the worker pipe depends on)
H(tok) == hist' = Append(hist, tok)
\* the worker pipe dies on A when the application released it and every inner pipe of A's side is dead
HandleDies(sa, x1, x2, od) == relA /\ ~hDead /\ sa = "dead" /\ x1 /\ x2 /\ od
\* the input queue sink dies: SOURCE_END, then REF_END if it held the last reference of the queue
SinkAFree(oob, refs) == IF refs \ {"sink"} = {} THEN oob \o <<"end", "ref">> ELSE Append(oob, "end")

\* ---- thread A: the program ---------------------------------------------------
Tok == IF FreeLen > 0 THEN FreeToks ELSE {Prog[ip]}
\* discipline of the application: the output is set before anything else happens (a queue source
\* without output drops what it receives: not a property of the worker pipe)
OutputSet == HasOut => curSink # -1
\* something is ready in one of the two event loops (same guards as the loop actions below)
LoopsBusy ==
  \/ (HasIn /\ spA # <<>> /\ Len(inQ) < IL /\ sinkAState # "dead")
  \/ (HasOut /\ ~oDead /\ (outQ # <<>> \/ outOob # <<>>))
  \/ (~x1Dead /\ evq # <<>>) \/ (HasIn /\ ~x2Dead /\ evq2 # <<>>)
  \/ ((~frozen \/ Variant = "freezenoop") /\ OutputSet
      /\ (\/ (~mgrFreed /\ xq # <<>>)
          \/ (HasIn /\ inAtt /\ ~qDead /\ ((~blockedQ /\ inQ # <<>>) \/ inOob # <<>>))
          \/ (HasOut /\ spW # <<>> /\ Len(outQ) < OL /\ sinkWState # "dead")
          \/ (Flavour = "src" /\ srcOn /\ ~srcBlocked /\ ~rFreed /\ srcIp <= Len(SrcProg) + 1)))
CanStep0 == ~relA /\ ip <= (IF FreeLen > 0 THEN FreeLen ELSE Len(Prog)) /\ (Eager => ~LoopsBusy)
CanStep == CanStep0 /\ OutputSet
SetFd == /\ CanStep /\ HasIn
         /\ \E f \in {"A", "B"} \cap Tok : hFd' = f /\ H(f)
         /\ hSent' = FALSE /\ ip' = ip + 1
         /\ UNCHANGED <<spA, inQ, inOob, sinkAState, relA, mVars, wVars, oVars, gVars, obs>>
Input == /\ CanStep /\ HasIn /\ "i" \in Tok /\ hFd # None
         /\ LET withFd == ~hSent
                s1 == IF withFd THEN Put(spA, inQ, IL, <<"fd", hFd>>) ELSE <<spA, inQ>>
                s2 == Put(s1[1], s1[2], IL, <<"buf", nextId, hFd>>)
            IN spA' = s2[1] /\ inQ' = s2[2] /\ hSent' = TRUE
         /\ sent' = Append(sent, <<nextId, hFd>>) /\ nextId' = nextId + 1 /\ ip' = ip + 1 /\ H("i")
         /\ UNCHANGED <<hFd, inOob, sinkAState, relA, mVars, wVars, oVars, rIn, rOut, out, entries, obs>>
SetOut == /\ CanStep0 /\ HasOut
          /\ \E s \in {0, 1} : (IF s = 0 THEN "o" ELSE "O") \in Tok /\ curSink' = s /\ H(IF s = 0 THEN "o" ELSE "O")
          /\ oNeed' = TRUE /\ ip' = ip + 1
          /\ UNCHANGED <<hFd, hSent, spA, inQ, inOob, sinkAState, relA, mVars, wVars, oFd, oRefs, oDead, evq, evq2, x1Dead, x2Dead, hDead, gVars, obs>>
Freeze == /\ CanStep /\ "z" \in Tok /\ ~frozen /\ Mx
          /\ frozen' = TRUE /\ ip' = ip + 1 /\ H("z")
          /\ UNCHANGED <<hFd, hSent, spA, inQ, inOob, sinkAState, relA, xq, mgrFreed, mgrLeak, wVars, oVars, gVars, obs>>
Thaw == /\ CanStep /\ "t" \in Tok /\ frozen
        /\ frozen' = FALSE /\ ip' = ip + 1 /\ H("t")
        /\ UNCHANGED <<hFd, hSent, spA, inQ, inOob, sinkAState, relA, xq, mgrFreed, mgrLeak, wVars, oVars, gVars, obs>>
\* executed on the remote pipe by A, under freeze (taken for the duration of the call if need be)
Ctl == /\ CanStep /\ "c" \in Tok /\ ~rFreed
       /\ IF Mx THEN /\ obs' = Append(obs, "RCtl:0") /\ entries' = Append(entries, <<"control", "A", TRUE>>)
                     /\ UNCHANGED mgrLeak
          ELSE /\ UNCHANGED <<obs, entries>>
               /\ mgrLeak' = IF Variant = "nomutexleak" THEN mgrLeak + 1 ELSE mgrLeak
       /\ ip' = ip + 1 /\ H("c")
       /\ UNCHANGED <<hFd, hSent, spA, inQ, inOob, sinkAState, relA, xq, mgrFreed, frozen, wVars, oVars, nextId, sent, rIn, rOut, out>>
Release ==
  /\ CanStep /\ "r" \in Tok /\ ~frozen
  /\ relA' = TRUE /\ ip' = ip + 1 /\ H("r")
  /\ LET freeNow == HasIn /\ spA = <<>>
         qr == IF freeNow THEN qRefs \ {"sink"} ELSE qRefs
         orf == oRefs \ {"handle"}
     IN /\ sinkAState' = IF ~HasIn THEN "dead" ELSE IF freeNow THEN "dead" ELSE "zombie"
        /\ inOob' = IF freeNow THEN SinkAFree(inOob, qRefs) ELSE inOob
        /\ qRefs' = qr
        /\ oRefs' = orf
        /\ outOob' = IF HasOut /\ orf = {} THEN Append(outOob, "ref") ELSE outOob
        /\ xq' = xq \o (IF HasIn THEN <<"rel_r", "rel_q">> ELSE <<"rel_r">>)
  /\ UNCHANGED <<hFd, hSent, spA, inQ, mgrFreed, mgrLeak, frozen, inAtt, qFd, qNeed, qDead, blockedQ, rFd, rRefs, rFreed,
                 srcIp, srcOn, srcBlocked, srcId, wFd, wSent, spW, outQ, sinkWState,
                 oFd, oNeed, curSink, oDead, evq, evq2, x1Dead, x2Dead, hDead, gVars, obs>>

\* ---- thread A: its event loop ---------------------------------------------------
\* bookkeeping shared by the call-backs of A that may let the worker pipe die
ADeath(sa, x1, x2, od, o1) ==
  IF HandleDies(sa, x1, x2, od)
  THEN /\ hDead' = TRUE /\ obs' = Append(o1, "Dead:handle")
       /\ xq' = IF mgrLeak = 0 THEN Append(xq, "detach") ELSE xq
  ELSE /\ hDead' = hDead /\ obs' = o1 /\ xq' = xq
WatcherA ==
  /\ HasIn /\ spA # <<>> /\ Len(inQ) < IL /\ sinkAState # "dead"
  /\ LET d == Drain(spA, inQ, IL)
         dies == d[1] = <<>> /\ sinkAState = "zombie"
     IN /\ spA' = d[1] /\ inQ' = d[2]
        /\ sinkAState' = IF dies THEN "dead" ELSE sinkAState
        /\ inOob' = IF dies THEN SinkAFree(inOob, qRefs) ELSE inOob
        /\ qRefs' = IF dies THEN qRefs \ {"sink"} ELSE qRefs
        /\ ADeath(IF dies THEN "dead" ELSE sinkAState, x1Dead, x2Dead, oDead, obs)
  /\ H("k")
  /\ UNCHANGED <<ip, hFd, hSent, relA, mgrFreed, mgrLeak, frozen, inAtt, qFd, qNeed, qDead, blockedQ, rFd, rRefs, rFreed,
                 srcIp, srcOn, srcBlocked, srcId, wFd, wSent, spW, outQ, outOob, sinkWState,
                 oFd, oNeed, curSink, oRefs, oDead, evq, evq2, x1Dead, x2Dead, gVars>>
\* the output queue source takes one item: record <<oFd, oNeed, out, obs>>
OutItem(T, x) ==
  IF x[1] = "fd" THEN (IF x[2] = T[1] THEN T ELSE <<x[2], TRUE, T[3], T[4]>>)
  ELSE IF curSink = -1 THEN T
  ELSE LET o1 == IF T[2] THEN Append(T[4], "OFd:" \o T[1] \o ":" \o ToString(curSink)) ELSE T[4]
       IN <<T[1], FALSE, Append(T[3], <<x[2], x[3], T[1], curSink>>), Append(o1, "Out:" \o ToString(x[2]) \o ":" \o ToString(curSink))>>
RECURSIVE OutAll(_, _)
OutAll(T, qq) == IF qq = <<>> THEN T ELSE OutAll(OutItem(T, Head(qq)), Tail(qq))
PumpOut ==
  /\ HasOut /\ ~oDead /\ outQ # <<>>
  /\ LET T == OutItem(<<oFd, oNeed, out, obs>>, Head(outQ))
     IN oFd' = T[1] /\ oNeed' = T[2] /\ out' = T[3] /\ obs' = T[4]
  /\ outQ' = Tail(outQ) /\ H("p")
  /\ UNCHANGED <<aVars, mVars, inAtt, qFd, qNeed, qRefs, qDead, blockedQ, rFd, rRefs, rFreed, srcIp, srcOn, srcBlocked, srcId,
                 wFd, wSent, spW, outOob, sinkWState, curSink, oRefs, oDead, evq, evq2, x1Dead, x2Dead, hDead,
                 nextId, sent, rIn, rOut, entries>>
OobOut ==
  /\ HasOut /\ ~oDead /\ outOob # <<>>
  /\ LET T == OutAll(<<oFd, oNeed, out, obs>>, outQ)
         dies == Head(outOob) = "ref"
     IN /\ oFd' = T[1] /\ oNeed' = T[2] /\ out' = T[3]
        /\ oDead' = dies
        /\ ADeath(sinkAState, x1Dead, x2Dead, dies, T[4])
  /\ outQ' = <<>> /\ outOob' = Tail(outOob) /\ H("P")
  /\ UNCHANGED <<aVars, mgrFreed, mgrLeak, frozen, inAtt, qFd, qNeed, qRefs, qDead, blockedQ, rFd, rRefs, rFreed,
                 srcIp, srcOn, srcBlocked, srcId, wFd, wSent, spW, sinkWState, curSink, oRefs, evq, evq2, x1Dead, x2Dead,
                 nextId, sent, rIn, rOut, entries>>
RECURSIVE Fwd(_, _)
Fwd(o, q) == IF q = <<>> THEN o ELSE Fwd(IF Head(q) = "dead" THEN o ELSE Append(o, "Fwd:" \o Head(q)), Tail(q))
Events1 ==
  /\ ~x1Dead /\ evq # <<>>
  /\ LET dies == \E k \in 1..Len(evq) : evq[k] = "dead"
     IN x1Dead' = dies /\ ADeath(sinkAState, dies, x2Dead, oDead, Fwd(obs, evq))
  /\ evq' = <<>> /\ H("v")
  /\ UNCHANGED <<aVars, mgrFreed, mgrLeak, frozen, wVars, oFd, oNeed, curSink, oRefs, oDead, evq2, x2Dead, gVars>>
Events2 ==
  /\ HasIn /\ ~x2Dead /\ evq2 # <<>>
  /\ x2Dead' = TRUE /\ ADeath(sinkAState, x1Dead, TRUE, oDead, obs)
  /\ evq2' = <<>> /\ H("V")
  /\ UNCHANGED <<aVars, mgrFreed, mgrLeak, frozen, wVars, oFd, oNeed, curSink, oRefs, oDead, evq, x1Dead, gVars>>

\* ---- thread W: its event loop (stopped while A holds the mutex) ----------------
WRuns == (~frozen \/ Variant = "freezenoop") /\ OutputSet
\* the transfer manager's pump executes every queued command
RECURSIVE Cmds(_, _)
Cmds(S, q) ==
  IF q = <<>> THEN S
  ELSE LET c == Head(q)
           S1 == CASE c = "rel_r" -> RelRemote(S, "xfer")
                   [] c = "rel_q" -> [S EXCEPT !.qRefsX = TRUE]
                   [] c = "detach" -> [S EXCEPT !.obs = Append(@, "MgrFree"), !.detached = TRUE]
                   [] OTHER -> S
       IN Cmds(S1, Tail(q))
Manager ==
  /\ WRuns /\ ~mgrFreed /\ xq # <<>>
  /\ LET S0 == WS @@ [qRefsX |-> FALSE, detached |-> FALSE]
         S == Cmds(S0, xq)
         qr == IF S.qRefsX THEN qRefs \ {"xfer"} ELSE qRefs
     IN /\ SetWS(S)
        /\ mgrFreed' = S.detached
        /\ qRefs' = qr
        \* the transfer pipe dropped the last reference of the input queue source: REF_END
        /\ inOob' = IF S.qRefsX /\ qr = {} THEN Append(inOob, "ref") ELSE inOob
  /\ inAtt' = TRUE /\ srcOn' = (srcOn \/ Flavour = "src")
  /\ xq' = <<>> /\ H("x")
  /\ UNCHANGED <<ip, hFd, hSent, spA, inQ, sinkAState, relA, mgrLeak, frozen, qDead, blockedQ, srcIp, srcBlocked, srcId,
                 oFd, oNeed, curSink, oDead, x1Dead, x2Dead, hDead, nextId, sent, out>>
PumpIn ==
  /\ WRuns /\ HasIn /\ inAtt /\ ~qDead /\ ~blockedQ /\ inQ # <<>>
  /\ LET S == InItem(WS, Head(inQ))
     IN SetWS(S) /\ blockedQ' = IF Head(inQ)[1] = "buf" /\ HasOut THEN S.spW # <<>> ELSE blockedQ
  /\ inQ' = Tail(inQ) /\ H("q")
  /\ UNCHANGED <<ip, hFd, hSent, spA, inOob, sinkAState, relA, mVars, inAtt, qRefs, qDead, srcIp, srcOn, srcBlocked, srcId,
                 oFd, oNeed, curSink, oDead, x1Dead, x2Dead, hDead, nextId, sent, out>>
OobIn ==
  /\ WRuns /\ HasIn /\ inAtt /\ ~qDead /\ inOob # <<>>
  /\ LET S1 == InAll(WS, inQ)
         dies == Head(inOob) = "ref"
         \* the dying queue source releases its output (the remote pipe), then its death frees its transfer pipe
         S2 == IF dies THEN [RelRemote(S1, "qsrc") EXCEPT !.evq2 = Append(@, "dead")] ELSE S1
     IN SetWS(S2) /\ qDead' = dies
  /\ inQ' = <<>> /\ inOob' = Tail(inOob) /\ H("e")
  /\ UNCHANGED <<ip, hFd, hSent, spA, sinkAState, relA, mVars, inAtt, qRefs, blockedQ, srcIp, srcOn, srcBlocked, srcId,
                 oFd, oNeed, curSink, oDead, x1Dead, x2Dead, hDead, nextId, sent, out>>
WatcherW ==
  /\ WRuns /\ HasOut /\ spW # <<>> /\ Len(outQ) < OL /\ sinkWState # "dead"
  /\ LET d == Drain(spW, outQ, OL)
         dies == d[1] = <<>> /\ sinkWState = "zombie"
         S == IF dies THEN SinkWFree([WS EXCEPT !.spW = d[1], !.outQ = d[2]]) ELSE [WS EXCEPT !.spW = d[1], !.outQ = d[2]]
     IN /\ SetWS(S)
        \* the pumps blocked by the sink restart only once nothing is held any more
        /\ blockedQ' = IF d[1] = <<>> THEN FALSE ELSE blockedQ
        /\ srcBlocked' = IF d[1] = <<>> THEN FALSE ELSE srcBlocked
  /\ H("K")
  /\ UNCHANGED <<aVars, mVars, inAtt, qRefs, qDead, srcIp, srcOn, srcId,
                 oFd, oNeed, curSink, oDead, x1Dead, x2Dead, hDead, nextId, sent, out>>
\* the remote source: one token of SrcProg per idler call-back, then source_end
Idler ==
  /\ WRuns /\ Flavour = "src" /\ srcOn /\ ~srcBlocked /\ ~rFreed /\ srcIp <= Len(SrcProg) + 1
  /\ LET c == IF srcIp <= Len(SrcProg) THEN SrcProg[srcIp] ELSE "end"
         S0 == Ent(WS, "idler", "W")
         S == CASE c \in {"A", "B"} -> [S0 EXCEPT !.wFd = c, !.wSent = FALSE]
                [] c = "i" -> SinkW([S0 EXCEPT !.evq = Append(@, EvOf(srcId))], srcId)
                [] OTHER -> [S0 EXCEPT !.evq = Append(@, "end")]
     IN /\ SetWS(S)
        /\ srcBlocked' = IF c = "i" THEN S.spW # <<>> ELSE srcBlocked
        /\ srcId' = IF c = "i" THEN srcId + 1 ELSE srcId
  /\ srcIp' = srcIp + 1 /\ H("s")
  /\ UNCHANGED <<aVars, mVars, inAtt, qRefs, qDead, blockedQ, srcOn,
                 oFd, oNeed, curSink, oDead, x1Dead, x2Dead, hDead, nextId, sent, out>>

Next == SetOut \/ SetFd \/ Input \/ Freeze \/ Thaw \/ Ctl \/ Release
        \/ WatcherA \/ PumpOut \/ OobOut \/ Events1 \/ Events2
        \/ Manager \/ PumpIn \/ OobIn \/ WatcherW \/ Idler
Spec == Init /\ [][Next]_vars

\* ---- the sentences of the statement ----------------------------------------------
IsPrefix(a, b) == Len(a) <= Len(b) /\ \A k \in 1..Len(a) : a[k] = b[k]
Ids(s) == [k \in 1..Len(s) |-> s[k][1]]
\* exactly once and in order, on both legs
InOrderOnce == IsPrefix(Ids(rIn), Ids(sent)) /\ IsPrefix(Ids(out), Ids(rOut))
\* every buffer reaches the remote pipe / the output under the flow definition it was sent with
FlowDefFirst == /\ \A k \in 1..Len(rIn) : rIn[k][2] = rIn[k][3]
                /\ \A k \in 1..Len(out) : out[k][2] = out[k][3] /\ out[k][2] = rOut[k][2]
\* the end is signalled after the last buffer: the remote pipe is freed after the last buffer reached
\* it, the worker pipe dies after the last buffer reached the output
EndLast == /\ (rFreed /\ HasIn) => Len(rIn) = Len(sent)
           /\ (hDead /\ HasOut /\ curSink # -1) => Len(out) = Len(rOut)
\* the remote pipe is entered on W while W's loop is not frozen, or on A under freeze
Confinement == \A k \in 1..Len(entries) : IF entries[k][2] = "W" THEN ~entries[k][3] ELSE entries[k][3]
Quiescent == ~ENABLED Next
\* a full queue holds, it does not drop
HoldNotDrop == (Quiescent /\ ~frozen) => /\ Len(rIn) = Len(sent)
                                         /\ (curSink # -1 => Len(out) = Len(rOut))
\* releasing the worker pipe frees everything
FreedOnce == (Quiescent /\ relA /\ ~frozen) => rFreed /\ hDead /\ mgrFreed /\ qDead /\ oDead
Emit == Quiescent => PrintT(<<"BEH", ToJson([script |-> hist, obs |-> obs])>>)
=============================================================================
