SPECIFICATION Spec
CONSTANTS
  Mode = "R"
  Variant = "ok"
  MaxPkts = 0
  Pays = {}
  AfKinds = {}
  Deltas = {1}
  FirstCcs = {0, 14}
  MaxAus = 1
  AuSizes = {1, 165, 173, 174, 175, 176, 360}
  TsKs = {"none", "pts", "both"}
  Stamps = {0, 4, 11, 13, 23}
  Gaps = {1, 3, 9}
  FlagKinds = {"-", "r", "d", "rd"}
  Pads = {FALSE, TRUE}
  Cuts = {}
  HdrPads = {0}
  MayLose = FALSE
  Scale = 3
  Mod = 4
  MaxDelay = 6
INVARIANT CcRuleEnc PacketizeOK RoundTrip InOrder

CHECK_DEADLOCK FALSE
