\* NEGATIVE: zero history kept after a dropped 03 (00 00 03 03 loses both): must violate ReadOK
SPECIFICATION Spec
CONSTANTS
  Mode = "P"
  Variant = "neg_noreset"
  Leads = {0}
  Ks = {0}
  K2s = {0}
  Reps = {"min"}
  Kinds = {"ue"}
  Alphabet = {0, 1, 3, 255}
  MaxLen = 4
INVARIANT TypeOK NoUB CodecInverse EscInverse ReadOK OvSound
VIEW View
CHECK_DEADLOCK FALSE
