---------------------------- MODULE PicGeom_Trace ----------------------------
(***************************************************************************)
(* C19 / C02 (pictures, sound): validation of executions recorded from the *)
(* REAL picture and sound buffer managers (harness/replay_pic.c) against   *)
(* the abstract specification PicGeom.tla.                                 *)
(*                                                                         *)
(* One TLC state per trace line.  Each event is                            *)
(*     IsEv(name) /\ <checks on the logged results> /\ Do<Action>(args)    *)
(* where the Do-actions are those of PicGeom.tla.  What is checked:        *)
(*  - Result:  accepted / refused / busy / null as MapVerdict,             *)
(*    ResizeVerdict, SResizeVerdict, AllocVerdict, the single-owner rule   *)
(*    say (either outcome where the statement is silent);                  *)
(*  - Report:  sizes, sub-samplings, macropixel sizes reported by the API  *)
(*    agree with the geometry and the window;                              *)
(*  - Inside:  the cells of every accepted mapping, RECOMPUTED from the    *)
(*    logged address (relative to the umem buffer) and the logged stride,  *)
(*    lie inside the umem allocation; so does every block view;            *)
(*  - Injective: lines of a mapping do not overlap, mappings (and views)   *)
(*    of different planes of one area are disjoint;                        *)
(*  - Formula: the address of a mapping is the address of the window's     *)
(*    first cell + cj * stride + ci * mps (logged as a cell coordinate);   *)
(*  - Content: octets read back equal the position codes of the canvas     *)
(*    cells (pixel identity by canvas coordinate): CropPreserves, DupSees, *)
(*    isolation of handles;                                                *)
(*  - WriteOnlySingle: write mappings (plane or block view) are granted    *)
(*    only while the area has one owner, refused otherwise;                *)
(*  - Guard: guard octets around the allocation intact, the memory is      *)
(*    released with its last owner and not before.                         *)
(* A failing check prints <<"BAD", line, reason>>.  If the event is an      *)
(* observer (map, peek, check, bread) it is then ignored and validation    *)
(* goes on; if it changes the buffers (alloc, resize, fill, poke, view)    *)
(* the real code and the specification have parted: the rest of that       *)
(* execution is skipped (halt) up to the next Reset.  The check rejects     *)
(* every execution with a BAD line; POSTCONDITION Accepted guarantees all  *)
(* lines were consumed.  Executions are concatenated, each starting with a *)
(* Reset event.  All logged numbers are < 2^30 (the check clamps wild      *)
(* addresses).                                                             *)
(***************************************************************************)
EXTENDS PicGeom, IOUtils

Tr == ndJsonDeserialize(IOEnv.TRACE)

VARIABLES l,      \* next line of Tr
          asize,  \* area id -> size of the umem allocation (logged)
          maps,   \* accepted mappings seen so far: [a, p, off, stride, w, nl]
          halt    \* the rest of the execution is skipped

tvars == <<vars, l, asize, maps, halt>>

Stay == UNCHANGED <<vars, asize, maps>>
Soft(reason) == PrintT(<<"BAD", l, reason>>) /\ Stay /\ halt' = FALSE
Hard(reason) == PrintT(<<"BAD", l, reason>>) /\ Stay /\ halt' = TRUE
IsEv(e) == ~halt /\ l <= Len(Tr) /\ Tr[l].e = e /\ l' = l + 1
Keep == halt' = FALSE /\ UNCHANGED <<hist, nops, nrs, pick>>

(* observed mapping m = [a, p, off, stride, w (octets per line), nl] *)
\* an empty window has no octet that could be outside
ObsInside(m) == \/ m.w = 0 \/ m.nl = 0
                \/ /\ m.off >= 0
                   /\ m.off + (m.nl - 1) * m.stride + m.w <= asize[m.a]
ObsLinesDisjoint(m) == m.nl <= 1 \/ m.w <= m.stride
Lo(m) == m.off
Hi(m) == IF m.w = 0 \/ m.nl = 0 THEN m.off ELSE m.off + (m.nl - 1) * m.stride + m.w
\* exact test, only evaluated when the extents overlap
LinesApart(m1, m2) ==
  \A j1 \in 0..(m1.nl - 1), j2 \in 0..(m2.nl - 1) :
     \/ m1.off + j1 * m1.stride + m1.w <= m2.off + j2 * m2.stride
     \/ m2.off + j2 * m2.stride + m2.w <= m1.off + j1 * m1.stride
ObsDisjoint(m1, m2) == \/ Hi(m1) <= Lo(m2) \/ Hi(m2) <= Lo(m1)
                       \/ m1.w = 0 \/ m2.w = 0 \/ m1.nl = 0 \/ m2.nl = 0
                       \/ LinesApart(m1, m2)
ObsPlanesApart(m) == \A x \in maps : (x.a = m.a /\ x.p # m.p) => ObsDisjoint(m, x)
ObsReason(m) == IF ~ObsInside(m) THEN "Inside"
                ELSE IF ~ObsLinesDisjoint(m) THEN "Injective:lines"
                ELSE IF ~ObsPlanesApart(m) THEN "Injective:planes"
                ELSE ""
RECURSIVE FirstReason(_)
FirstReason(s) == IF s = <<>> THEN "" ELSE IF Head(s) # "" THEN Head(s) ELSE FirstReason(Tail(s))

\* observed full-window mappings of fill / check: pl[p] = <<off, stride, nc, nl, mps>>
FullObs(h, pl, p) == [a |-> area[h], p |-> p, off |-> pl[p][1], stride |-> pl[p][2],
                      w |-> pl[p][3] * pl[p][5], nl |-> pl[p][4]]
FullReport(h, pl) ==
  IF Len(pl) # NPl(geo) THEN "Report:planes"
  ELSE FirstReason([p \in PlaneIds(geo) |->
         IF \/ pl[p][3] # PNC(geo, win[h], p) \/ pl[p][4] # PNL(geo, win[h], p)
            \/ pl[p][5] # geo.planes[p].mps
         THEN "Report:size" ELSE ObsReason(FullObs(h, pl, p))])

Blank == /\ win' = [h \in Handles |-> NoWin] /\ area' = [h \in Handles |-> 0]
         /\ view' = [h \in Handles |-> NoView]
         /\ canv' = <<>> /\ content' = <<>> /\ nextk' = 1
         /\ last' = [op |-> "init", res |-> "ok"]

TReset == /\ l <= Len(Tr) /\ Tr[l].e = "Reset" /\ l' = l + 1
          /\ geo' = NoGeo /\ Blank
          /\ asize' = <<>> /\ maps' = {}
          /\ Keep

TMgr == /\ IsEv("Mgr")
        /\ LET e == Tr[l] IN
           geo' = [kind |-> e.kind, name |-> e.name, mp |-> e.mp,
                   planes |-> [p \in 1..Len(e.planes) |->
                                 [hsub |-> e.planes[p][1], vsub |-> e.planes[p][2], mps |-> e.planes[p][3]]],
                   hmpre |-> e.hmpre, hmapp |-> e.hmapp, vpre |-> e.vpre, vapp |-> e.vapp,
                   align |-> e.align, aoff |-> e.aoff, basemod |-> 0]
        /\ last' = [op |-> "mgr", res |-> "ok"]
        /\ UNCHANGED <<win, area, view, canv, content, nextk, asize, maps>>
        /\ Keep

TAlloc == /\ IsEv("Alloc")
          /\ LET e == Tr[l]
                 reason == IF ~Compat(AllocVerdict(geo, e.W, e.H), e.res)
                           THEN (IF e.res = "ok" THEN "Granularity:alloc-accepted" ELSE "Result:alloc-refused")
                           ELSE ""
             IN IF reason # "" THEN Hard(reason)
                ELSE /\ DoAlloc(e.h, e.W, e.H, e.res)
                     /\ asize' = IF e.res = "ok" THEN Append(asize, e.size) ELSE asize
                     /\ UNCHANGED maps /\ Keep

TDup == /\ IsEv("Dup") /\ DoDup(Tr[l].h, Tr[l].src) /\ UNCHANGED <<asize, maps>> /\ Keep

TFree == /\ IsEv("Free")
         /\ (IF Tr[l].guard # "ok" THEN PrintT(<<"BAD", l, "Inside:guard">>) ELSE TRUE)
         /\ (IF Tr[l].released # (IF Owners(area[Tr[l].h]) = 1 THEN 1 ELSE 0)
             THEN PrintT(<<"BAD", l, "Isolation:released">>) ELSE TRUE)
         /\ DoFree(Tr[l].h)
         /\ UNCHANGED <<asize, maps>> /\ Keep

\* e.W, e.H: the size the API reports after the call
TResize == /\ IsEv("Resize")
           /\ LET e == Tr[l]
                  h == e.h
                  sound == geo.kind = "sound"
                  q == IF sound THEN [off |-> e.hskip, size |-> e.hsize]
                       ELSE [hskip |-> e.hskip, vskip |-> e.vskip, hsize |-> e.hsize, vsize |-> e.vsize]
                  pred == IF sound THEN SResizeVerdict(win[h], q) ELSE ResizeVerdict(geo, win[h], q)
                  nw == IF e.res # "ok" THEN win[h]
                        ELSE IF sound THEN SRWin(win[h], SRNorm(win[h], q))
                        ELSE RWin(geo, win[h], RNorm(geo, win[h], q))
              IN IF ~Compat(pred, e.res)
                 THEN Hard(IF e.res = "ok" THEN "Resize:accepted" ELSE "Resize:refused")
                 ELSE IF e.W # WinW(geo, nw) \/ e.H # nw.vsize THEN Hard("Report:size-after-resize")
                 ELSE /\ (IF sound THEN DoSResize(h, q, e.res) ELSE DoResize(h, q, e.res))
                      /\ UNCHANGED <<asize, maps>> /\ Keep

\* ubuf_pic_replace: e.W, e.H the size reported afterwards, e.size the new allocation, e.released whether the old
\* area went back to its allocator
TReplace == /\ IsEv("Replace")
            /\ LET e == Tr[l]
                   h == e.h
                   q == [hskip |-> e.hskip, vskip |-> e.vskip, hsize |-> e.hsize, vsize |-> e.vsize]
                   pred == ReplaceVerdict(geo, win[h], q)
                   n == RNorm(geo, win[h], q)
               IN IF ~Compat(pred, e.res)
                  THEN Hard(IF e.res = "ok" THEN "Resize:replace-accepted" ELSE "Resize:replace-refused")
                  ELSE IF e.res = "ok" /\ (e.W # n.nh \/ e.H # n.nv) THEN Hard("Report:size-after-replace")
                  ELSE IF e.res = "ok" /\ e.released # (IF Owners(area[h]) = 1 THEN 1 ELSE 0)
                       THEN Hard("Isolation:released")
                  ELSE IF e.res = "ok" /\ e.guard # "ok" THEN Hard("Inside:guard")
                  ELSE /\ DoReplace(h, q, e.res)
                       /\ asize' = IF e.res = "ok" THEN Append(asize, e.size) ELSE asize
                       /\ UNCHANGED maps /\ Keep

TMap == /\ IsEv("Map")
        /\ LET e == Tr[l]
               h == e.h
               p == e.p + 1
               r == [ho |-> e.ho, vo |-> e.vo, hs |-> e.hs, vs |-> e.vs]
               pred == MapVerdict(geo, win[h], p, r, Shared(h), e.mode)
               n == MapNorm(geo, win[h], r)
               ok == e.res = "ok"
               nc == IF InWindow(geo, win[h], n) THEN NC(geo, p, n) ELSE 0
               nl == IF InWindow(geo, win[h], n) THEN NL(geo, p, n) ELSE 0
               m == [a |-> area[h], p |-> p, off |-> e.off, stride |-> e.stride,
                     w |-> nc * e.mps, nl |-> nl]
               reason ==
                 IF ~Compat(pred, e.res)
                 THEN (IF ok /\ pred \in {"busy", "refused"} /\ e.mode = "w" THEN "WriteOnlySingle"
                       ELSE IF ok THEN (IF InWindow(geo, win[h], n) THEN "Granularity:map-accepted"
                                        ELSE "Range:map-accepted")
                       ELSE "Result:map-refused")
                 \* a write mapping refused because the area is shared must not hand out the address either
                 ELSE IF ~ok /\ e.mode = "w" /\ pred = "busy" /\ e.leak = 1 THEN "WriteOnlySingle:address-handed-out"
                 ELSE IF ~ok THEN ""
                 ELSE IF \/ e.hsub # geo.planes[p].hsub \/ e.vsub # geo.planes[p].vsub
                         \/ e.mps # geo.planes[p].mps THEN "Report:plane"
                 ELSE IF ObsReason(m) # "" THEN ObsReason(m)
                 ELSE IF pred = "ok" /\ (e.ci # n.ho \div HGran(geo, p) \/ e.cj # n.vo \div VGran(geo, p))
                      THEN "Formula:cell"
                 ELSE ""
           IN IF reason # "" THEN Soft(reason)
              ELSE /\ DoMap(h, p, r, e.mode, e.res)
                   /\ maps' = IF ok THEN maps \cup {m} ELSE maps
                   /\ UNCHANGED asize /\ Keep

TFill == /\ IsEv("Fill")
         /\ LET e == Tr[l]
                h == e.h
                pred == IF Shared(h) THEN "busy" ELSE "ok"
                reason == IF e.res = "oob" THEN "Inside"
                          ELSE IF ~Compat(pred, e.res)
                          THEN (IF e.res = "ok" THEN "WriteOnlySingle" ELSE "Result:write-refused")
                          ELSE IF e.res = "ok" THEN FullReport(h, e.pl) ELSE ""
            IN IF reason # "" THEN Hard(reason)
               ELSE /\ DoFill(h, e.k, e.res)
                    /\ maps' = IF e.res = "ok"
                               THEN maps \cup {FullObs(h, e.pl, p) : p \in PlaneIds(geo)} ELSE maps
                    /\ UNCHANGED asize /\ Keep

\* write one cell (x, y in pixels / lines of the window) through its own write mapping
TPoke == /\ IsEv("Poke")
         /\ LET e == Tr[l]
                h == e.h
                p == e.p + 1
                r == PokeReq(geo, p, e.x, e.y)
                pred == MapVerdict(geo, win[h], p, r, Shared(h), "w")
                m == [a |-> area[h], p |-> p, off |-> e.off, stride |-> 0, w |-> geo.planes[p].mps, nl |-> 1]
                got == IF e.res = "oob" THEN "ok" ELSE e.res
                reason ==
                  IF ~Compat(pred, got)
                  THEN (IF got = "ok" /\ pred \in {"busy", "refused"} THEN "WriteOnlySingle"
                        ELSE IF got = "ok"
                        THEN (IF InWindow(geo, win[h], MapNorm(geo, win[h], r)) THEN "Granularity:map-accepted"
                              ELSE "Range:map-accepted")
                        ELSE "Result:write-refused")
                  ELSE IF e.res = "oob" THEN "Inside"
                  ELSE IF e.res # "ok" THEN ""
                  ELSE ObsReason(m)
            IN IF reason # "" THEN Hard(reason)
               ELSE /\ DoPoke(h, p, e.x, e.y, e.k, e.res)
                    /\ maps' = IF e.res = "ok" THEN maps \cup {m} ELSE maps
                    /\ UNCHANGED asize /\ Keep

\* e.bytes[p] = octets read back through plane p, line by line
TCheck == /\ IsEv("Check")
          /\ LET e == Tr[l]
                 h == e.h
                 exp == Visible(geo, content[area[h]], win[h])
                 reason == IF e.res = "oob" THEN "Inside"
                           ELSE IF e.res # "ok" THEN "Result:check-refused"
                           ELSE IF FullReport(h, e.pl) # "" THEN FullReport(h, e.pl)
                           ELSE IF \E p \in PlaneIds(geo) :
                                     \/ Len(e.bytes[p]) # Len(exp[p])
                                     \/ \E i \in 1..Len(exp[p]) : exp[p][i] # -1 /\ exp[p][i] # e.bytes[p][i]
                                THEN "Content"
                           ELSE ""
             IN IF reason # "" THEN Soft(reason)
                ELSE /\ DoCheck(h)
                     /\ maps' = maps \cup {FullObs(h, e.pl, p) : p \in PlaneIds(geo)}
                     /\ UNCHANGED asize /\ Keep

\* read one cell (x, y in pixels / lines of the window) through its own mapping
TPeek == /\ IsEv("Peek")
         /\ LET e == Tr[l]
                h == e.h
                p == e.p + 1
                r == PokeReq(geo, p, e.x, e.y)
                pred == MapVerdict(geo, win[h], p, r, FALSE, "r")
                n == MapNorm(geo, win[h], r)
                m == [a |-> area[h], p |-> p, off |-> e.off, stride |-> 0, w |-> geo.planes[p].mps, nl |-> 1]
                got == IF e.res = "oob" THEN "ok" ELSE e.res    \* oob: accepted, address outside
                reason ==
                  IF ~Compat(pred, got)
                  THEN (IF got = "ok" THEN (IF InWindow(geo, win[h], n) THEN "Granularity:map-accepted"
                                            ELSE "Range:map-accepted")
                        ELSE "Result:map-refused")
                  ELSE IF e.res = "oob" THEN "Inside"
                  ELSE IF e.res # "ok" THEN ""
                  ELSE IF ObsReason(m) # "" THEN ObsReason(m)
                  ELSE IF \/ Len(e.bytes) # geo.planes[p].mps
                          \/ \E b \in 0..(geo.planes[p].mps - 1) :
                               LET x == ByteAt(geo, content[area[h]], p,
                                               CX0(geo, win[h], p, n), CY0(geo, win[h], p, n), b)
                               IN x # -1 /\ x # e.bytes[b + 1]
                       THEN "Content"
                  ELSE ""
            IN IF reason # "" THEN Soft(reason)
               ELSE /\ DoMap(h, p, r, "r", e.res)
                    /\ maps' = IF e.res = "ok" THEN maps \cup {m} ELSE maps
                    /\ UNCHANGED asize /\ Keep

\* block view of plane p of buffer src: e.off relative to the umem buffer, e.d
\* relative to the mapping of the whole window of that plane, e.stride as the
\* picture API reports it (0 for sound), e.size as the block API reports it
TView == /\ IsEv("View")
         /\ LET e == Tr[l]
                s == e.src
                p == e.p + 1
                x == [p |-> p, w |-> win[s], stride |-> e.stride, size |-> e.size]
                m == [a |-> area[s], p |-> p, off |-> e.off, stride |-> 0, w |-> e.size, nl |-> 1]
                reason == IF e.res # "ok" THEN "Result:view-refused"
                          ELSE IF ObsReason(m) # "" THEN ObsReason(m)
                          ELSE IF e.d # 0 THEN "Formula:view"
                          ELSE ""
            IN IF reason # "" THEN Hard(reason)
               ELSE /\ DoView(e.h, s, x, e.res)
                    /\ maps' = maps \cup {m}
                    /\ UNCHANGED asize /\ Keep

TBRead == /\ IsEv("BRead")
          /\ LET e == Tr[l]
                 h == e.h
                 x == view[h]
                 reason == IF e.res = "oob" THEN "Inside"
                           ELSE IF e.res # "ok" THEN "Result:read-refused"
                           ELSE IF Len(e.bytes) # x.size THEN "Report:size"
                           ELSE IF \E i \in 0..(x.size - 1) :
                                     LET b == ViewByte(geo, content[area[h]], x, i)
                                     IN b # -1 /\ b # e.bytes[i + 1]
                                THEN "Content"
                           ELSE ""
             IN IF reason # "" THEN Soft(reason)
                ELSE /\ DoBRead(h) /\ UNCHANGED <<asize, maps>> /\ Keep

TBPoke == /\ IsEv("BPoke")
          /\ LET e == Tr[l]
                 h == e.h
                 pred == IF Shared(h) THEN "busy" ELSE "ok"
                 reason == IF ~ViewInWindow(geo, view[h], e.i) THEN "Unsupported:bpoke-outside-window"
                           ELSE IF ~Compat(pred, e.res)
                           THEN (IF e.res = "ok" THEN "WriteOnlySingle" ELSE "Result:write-refused")
                           ELSE ""
             IN IF reason # "" THEN Hard(reason)
                ELSE /\ DoBPoke(h, e.i, e.v, e.res) /\ UNCHANGED <<asize, maps>> /\ Keep

TEnd == /\ IsEv("End")
        /\ (IF Tr[l].corrupt # 0 THEN PrintT(<<"BAD", l, "Inside:guard">>) ELSE TRUE)
        /\ (IF Tr[l].live # 0 THEN PrintT(<<"BAD", l, "Isolation:leak">>) ELSE TRUE)
        /\ Stay /\ halt' = FALSE

\* the process running the real code died (assertion, signal): never acceptable
TCrash == IsEv("Crash") /\ Hard("Crash")
\* a command of the real code did not return (per-command alarm of the harness)
THang == IsEv("Hang") /\ Hard("Hang")

\* after a diverging mutator: skip to the next execution
TSkip == /\ halt /\ l <= Len(Tr) /\ Tr[l].e # "Reset" /\ l' = l + 1 /\ Stay /\ halt' = TRUE

TInit == /\ l = 1 /\ asize = <<>> /\ maps = {} /\ halt = FALSE
         /\ geo = NoGeo
         /\ win = [h \in Handles |-> NoWin] /\ area = [h \in Handles |-> 0]
         /\ view = [h \in Handles |-> NoView]
         /\ canv = <<>> /\ content = <<>> /\ nextk = 1
         /\ last = [op |-> "init", res |-> "ok"]
         /\ hist = <<>> /\ nops = 0 /\ nrs = 0 /\ pick = ""
TNext == \/ TSkip \/ TReset \/ TMgr \/ TAlloc \/ TDup \/ TFree \/ TResize \/ TReplace \/ TMap \/ TFill \/ TPoke
         \/ TCheck \/ TPeek \/ TView \/ TBRead \/ TBPoke \/ TEnd \/ TCrash \/ THang
TSpec == TInit /\ [][TNext]_tvars

NoGeoSet(t) == {}
Accepted == LET d == TLCGet("stats").diameter IN
            IF d - 1 = Len(Tr) THEN PrintT(<<"TRACE_ACCEPTED", Len(Tr)>>)
                               ELSE PrintT(<<"TRACE_REJECTED_AT", d>>)
=============================================================================
