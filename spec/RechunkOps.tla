----------------------------- MODULE RechunkOps -----------------------------
(***************************************************************************)
(* C14 - stream re-chunking pipes.  Pure operators over octet sequences in *)
(* which the sentences of the property are written.  The module has no     *)
(* variables: Rechunk.tla (abstract state + detailed transcriptions of the *)
(* pipes, checked exhaustively by TLC) and Rechunk_Trace.tla (validation   *)
(* of recorded executions of the REAL pipes) both EXTEND it, so the real   *)
(* code is judged by the very definitions the model was checked against.   *)
(*                                                                         *)
(* Vocabulary: a pipe receives BUFFERS (octet sequences, possibly empty);  *)
(* their concatenation is the input STREAM; it outputs UNITS.              *)
(*   mode "agg"    upipe_agg            units of whole buffers, <= MTU     *)
(*   mode "chunk"  upipe_chunk_stream   units of floor(mtu/align)*align    *)
(*   mode "sync"   upipe_ts_sync (and upipe_ts_align on "block.")          *)
(*   mode "check"  upipe_ts_check (and upipe_ts_align on                   *)
(*                 "block.mpegtsaligned.")                                 *)
(***************************************************************************)
EXTENDS Naturals, Integers, Sequences, FiniteSets

SYNC == 71                       \* 0x47, the TS synchronisation octet

Min(S) == CHOOSE x \in S : \A y \in S : x <= y

RECURSIVE Flat(_)
Flat(us) == IF us = <<>> THEN <<>> ELSE Head(us) \o Flat(Tail(us))

Take(s, n) == SubSeq(s, 1, n)
Drop(s, n) == SubSeq(s, n + 1, Len(s))

IsPrefix(a, b) == Len(a) <= Len(b) /\ \A i \in 1..Len(a) : a[i] = b[i]

(***************************************************************************)
(* Subsequence: "the pipe outputs, in order and without overlap, only      *)
(* octets taken from its input": the concatenation of the units is a       *)
(* subsequence of the input stream.  Matching every octet with its         *)
(* leftmost possible occurrence is complete, so the greedy cursor decides  *)
(* the existence of an embedding.  cur = index of the last input octet     *)
(* used, -1 = no embedding exists.  The greedy matching proceeds by RUNS:  *)
(* the leftmost occurrence of the next octet, then as far as the unit and  *)
(* the stream agree octet by octet (which is what the leftmost rule does), *)
(* so the recursion depth is the number of runs, not of octets.            *)
(***************************************************************************)
NextOcc(s, cur, x) ==
    IF cur < 0 THEN -1
    ELSE IF cur + 1 <= Len(s) /\ s[cur + 1] = x THEN cur + 1
    ELSE LET I == (cur + 2)..Len(s)
         IN  IF \E p \in I : s[p] = x
             THEN CHOOSE p \in I : s[p] = x /\ \A q \in I : q < p => s[q] # x
             ELSE -1

\* number of octets on which s from p and u from lo agree (both 1-based)
RunLen(s, p, u, lo) ==
    LET K == IF Len(s) - p < Len(u) - lo THEN Len(s) - p + 1 ELSE Len(u) - lo + 1
    IN  IF \A i \in 0..(K - 1) : s[p + i] = u[lo + i] THEN K
        ELSE CHOOSE i \in 0..(K - 1) : /\ s[p + i] # u[lo + i]
                                       /\ \A j \in 0..(i - 1) : s[p + j] = u[lo + j]

RECURSIVE AdvRuns(_, _, _, _)
AdvRuns(s, cur, u, lo) ==
    IF cur < 0 THEN -1
    ELSE IF lo > Len(u) THEN cur
    ELSE LET p == NextOcc(s, cur, u[lo])
         IN  IF p < 0 THEN -1
             ELSE LET m == RunLen(s, p, u, lo)
                  IN  AdvRuns(s, p + m - 1, u, lo + m)

SubseqStep(s, cur, u) == AdvRuns(s, cur, u, 1)

RECURSIVE SubseqFrom(_, _, _)
SubseqFrom(s, cur, us) == IF us = <<>> THEN cur
                          ELSE SubseqFrom(s, SubseqStep(s, cur, Head(us)), Tail(us))

IsSubsequence(s, us) == SubseqFrom(s, 0, us) >= 0

(***************************************************************************)
(* WholePackets (TS modes): "TS units being whole packets": every unit is  *)
(* a SLICE of the input stream that starts after the end of the slice of   *)
(* the previous unit.  Again the leftmost choice is complete.              *)
(***************************************************************************)
OccursAt(s, u, p) == /\ p >= 1 /\ p + Len(u) - 1 <= Len(s)
                     /\ \A i \in 1..Len(u) : s[p + i - 1] = u[i]

EmbedStep(s, cur, u) ==
    IF cur < 0 THEN -1
    ELSE LET I == (cur + 1)..(Len(s) - Len(u) + 1)
         IN  IF \E p \in I : OccursAt(s, u, p)
             THEN (CHOOSE p \in I : OccursAt(s, u, p) /\ \A q \in I : q < p => ~OccursAt(s, u, q))
                  + Len(u) - 1
             ELSE -1

RECURSIVE EmbedFrom(_, _, _)
EmbedFrom(s, cur, us) == IF us = <<>> THEN cur
                         ELSE EmbedFrom(s, EmbedStep(s, cur, Head(us)), Tail(us))

IsSelection(s, us) == EmbedFrom(s, 0, us) >= 0

(***************************************************************************)
(* Conservation (agg, chunk): every accepted octet is output exactly once. *)
(* While the pipe runs, what was output is a prefix of what was accepted   *)
(* (nothing lost in the middle, duplicated or reordered); once released,   *)
(* all of it was output but for fewer than `tail` octets: tail = 1 for     *)
(* agg (nothing may be missing), tail = align for chunk_stream (a          *)
(* remainder shorter than the alignment cannot be output as an aligned     *)
(* block and is discarded).                                                *)
(***************************************************************************)
ConservedSoFar(acc, us) == IsPrefix(Flat(us), acc)
ConservedAtEnd(acc, us, tail) == /\ IsPrefix(Flat(us), acc)
                                 /\ Len(acc) - Len(Flat(us)) < tail

\* agg refuses buffers larger than the MTU (they cannot be output whole);
\* empty buffers carry no octet
AggAccepts(buf, mtu) == Len(buf) <= mtu

(***************************************************************************)
(* UnitSize: every unit respects the configured size.                      *)
(***************************************************************************)
UnitOK(mode, mtu, align, psize, u) ==
    CASE mode = "agg"   -> Len(u) <= mtu
      [] mode \in {"chunk", "chain"} -> Len(u) <= mtu /\ Len(u) % align = 0
      [] OTHER          -> Len(u) = psize /\ u[1] = SYNC       \* whole TS packet

(***************************************************************************)
(* CutInvariance (the parsers): two runs of the same pipe with the same    *)
(* settings that were given the SAME total stream (same octets, same       *)
(* discontinuity marks at the same stream offsets) cut in two different    *)
(* ways, and were then released, output the same sequence of units.  The   *)
(* equality of the total inputs is an explicit precondition.               *)
(* ts_check works buffer by buffer (its input is declared to be made of    *)
(* aligned packets): for it the claim is restricted to its domain, buffers *)
(* made of whole packets that each start with the sync octet.              *)
(***************************************************************************)
AlignedBuf(b, psize) == /\ Len(b) % psize = 0
                        /\ \A j \in 0..((Len(b) \div psize) - 1) : b[j * psize + 1] = SYNC

CutInvariant(mode, inA, marksA, unitsA, doneA, domA, inB, marksB, unitsB, doneB, domB) ==
    (/\ doneA /\ doneB
     /\ inA = inB /\ marksA = marksB
     /\ (mode = "check" => domA /\ domB))
    => unitsA = unitsB
=============================================================================
