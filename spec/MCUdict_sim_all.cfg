SPECIFICATION Spec
CONSTANTS
  Dicts = {1, 2, 3}
  Bug = "none"
  PrefixOf <- MCPrefixOf
  MaxDepth = 40
  Keys <- K_all
  Ops <- O_all
INVARIANT EmitDone
PROPERTY DupIndependent GetReturnsLastSet CmpIffEqual IterateExactlyOnce
CHECK_DEADLOCK FALSE
