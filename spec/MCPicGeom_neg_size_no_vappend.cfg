\* negative configuration: the variant "size_no_vappend" of the model must be rejected by TLC
CONSTANTS
  Geos = {"neg"}
  GeoSet <- PicGeoSet
  Handles = {0}
  MaxOps = 4
  MaxResize = 2
  Variant = "size_no_vappend"
  Record = FALSE
SPECIFICATION Spec
VIEW View
INVARIANT WindowsInCanvas Inside InjectiveMap CanvasInjective GranularityP MapIsWindowCell AllocGranular WriteOnlySingle
PROPERTY CropPreserves StructuralOpsDontWrite
CHECK_DEADLOCK FALSE
