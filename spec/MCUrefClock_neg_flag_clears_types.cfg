SPECIFICATION Spec
CONSTANTS
  W = 3
  PaletteName = "all"
  MaxSteps = 3
  Variant = "flag_clears_types"
  Record = FALSE
  AddAtUnset = "either"
VIEW View
CONSTRAINT StepBound
INVARIANT TypeOK Algebra
PROPERTY RebasePreserves SetReadsBack RapNotAfterCr
CHECK_DEADLOCK FALSE
