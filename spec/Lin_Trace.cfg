SPECIFICATION TSpec
INVARIANT NoDupNoOverflow Linearizable
POSTCONDITION Accepted
CHECK_DEADLOCK FALSE
