\* NEGATIVE: the walk stops at the first matching output: TLC must reject
SPECIFICATION Spec
CONSTANTS
  Mode = "S"
  Variant = "neg_first"
  SecPal <- SecsS
  FilPal <- FilsS
  Ports = {1, 2, 3}
  MaxOps = 3
  MaxIn = 1
  Record = TRUE
INVARIANT EmitBad DeliverIff
CHECK_DEADLOCK FALSE
