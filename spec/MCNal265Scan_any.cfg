\* the function with the guard au_size < 6, on ANY string over {0,1} up to 7 octets (also those that begin with 00 00 01), every cutting; behaviours of at most 3 chunks are emitted
SPECIFICATION Spec
CONSTANTS
  Variant = "ok"
  Alphabet = {0, 1}
  MaxLen = 7
  NoLead3 = FALSE
  EmitMax = 3
INVARIANT Emit TypeOK ChunkInvariant Monotone NoTrap
VIEW View
CHECK_DEADLOCK FALSE
