SPECIFICATION Spec
CONSTANTS
  N = 2
  Kind = "fifo"
  Prog <- P_P_P_pp
  HeadCmp = "tagindex"
INVARIANT NoErr StructureOK TypeOK
VIEW view
CHECK_DEADLOCK FALSE
