SPECIFICATION Spec
CONSTANTS
  NP = 1
  NS = 2
  Variant = "silent_flow_change"
  EmitEdges = FALSE
  OptModes = {TRUE, FALSE}
VIEW View
INVARIANTS TypeOK ReadyFirst DeadOnce DeadLast FlowDefBeforeData NoDataWhileRejected
CHECK_DEADLOCK FALSE
