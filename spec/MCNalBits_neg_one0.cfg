\* NEGATIVE: 03 dropped after a single zero octet: must violate ReadOK
SPECIFICATION Spec
CONSTANTS
  Mode = "P"
  Variant = "neg_one0"
  Leads = {0}
  Ks = {0}
  K2s = {0}
  Reps = {"min"}
  Kinds = {"ue"}
  Alphabet = {0, 1, 3, 255}
  MaxLen = 4
INVARIANT TypeOK NoUB CodecInverse EscInverse ReadOK OvSound
VIEW View
CHECK_DEADLOCK FALSE
