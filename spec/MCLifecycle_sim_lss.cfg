SPECIFICATION Spec
CONSTANTS
  TopoName = "lss"
  Variant = "ok"
  QLen = 1
  MaxHeld = 3
  MaxCmds = 16
  MinCmds = 9
  EmitBeh = TRUE
INVARIANTS RcIsHolders DestroyOnce NoUseAfterDestroy QuiescentClean Sane Emit
POSTCONDITION Cov
CHECK_DEADLOCK FALSE
