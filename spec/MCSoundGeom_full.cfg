\* exhaustive geometry evaluation (thorough): sound, every base, three alignments, sizes 1, 2, 3, 6, chains of 2 resizes
CONSTANTS
  Geos = {"full"}
  GeoSet <- SndGeoSet
  Handles = {0}
  MaxOps = 4
  MaxResize = 2
  Variant = "none"
  Record = FALSE
SPECIFICATION Spec
VIEW View
INVARIANT WindowsInCanvas Inside InjectiveMap CanvasInjective GranularityP MapIsWindowCell AllocGranular WriteOnlySingle
PROPERTY CropPreserves StructuralOpsDontWrite
CHECK_DEADLOCK FALSE
