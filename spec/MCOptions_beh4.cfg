\* C20 behaviours for the replay: every script of exactly 4 commands with the predicted results (one BEH line each)
SPECIFICATION Spec
CONSTANTS
  Acc = {1, 2, 3}
  Rej = {4, 5}
  Default = 0
  Garbage = 99
  Unknown = 98
  MaxLen = 4
  MaxIn = 2
  Variant = "ok"
  EmitBeh = TRUE
INVARIANT TypeOK GetReturnsLast GetterNeutral RejectNeutral SameAnswers Emit
CHECK_DEADLOCK FALSE
