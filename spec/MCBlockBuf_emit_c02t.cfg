\* emission for C02, thorough: one block; two sharing calls inside the block; then a poke at every offset
SPECIFICATION MCSpec
CONSTANTS
  Handles = {0, 1, 2}
  Fill = 14
  Strict = TRUE
  KeepHist = TRUE
  Bug = "none"
  Pre = 2
  MaxLen = 8
  MaxWins = 6
  Depth = 3
  PatSet = "q"
  InitSet = "one"
  ObsLast = FALSE
  Rand = FALSE
  Letters = {1}
  LastOps = {"poke"}
  LastSz = {}
  Dom = "in"
  Ops = {"dup", "splice", "split", "append", "insert", "delete", "poke"}
INVARIANT Emit
CONSTRAINT Bounded
CHECK_DEADLOCK FALSE
