SPECIFICATION GenSpec
CONSTANTS
  W = 64
  PaletteName = "edge"
  MaxSteps = 20
  Variant = "ok"
  Record = TRUE
  AddAtUnset = "avoid"
INVARIANT TypeOK Algebra
PROPERTY RebasePreserves SetReadsBack RapNotAfterCr
CHECK_DEADLOCK FALSE
