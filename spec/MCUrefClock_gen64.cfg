SPECIFICATION GenSpec
CONSTANTS
  W = 64
  PaletteName = "edge"
  MaxSteps = 14
  Variant = "ok"
  Record = TRUE
  AddAtUnset = "avoid"
INVARIANT TypeOK Algebra Emit
PROPERTY RebasePreserves SetReadsBack RapNotAfterCr
CHECK_DEADLOCK FALSE
