SPECIFICATION Spec
CONSTANTS
  ProgA <- P_full
  WRelAt = 2
  Variant = "code"
INVARIANT CmdInOrderOnce EventsInOrder AllExecuted NoStepOnDeadQueue
VIEW view
CHECK_DEADLOCK FALSE
