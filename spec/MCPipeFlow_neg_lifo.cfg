SPECIFICATION Spec
CONSTANTS
 Setups <- S_tblk
 Acts <- A_tblk
 Bufs <- B_one
 MaxSteps = 5
 MaxIn = 3
 Variant = "lifo"
 CheckEpi = TRUE
INVARIANT ExactlyOnce
INVARIANT InOrder
INVARIANT ContentOK
INVARIANT DupAll
INVARIANT NoLeak
INVARIANT EpilogueClean
INVARIANT DrainedOK
PROPERTY FlushFrees
VIEW view
CHECK_DEADLOCK FALSE
