------------------------------ MODULE MCPicGeom ------------------------------
(* Model-checking wrapper for PicGeom.tla: representative geometries as
   constant records, the request sets explored for each of them, and the
   geometry sets selected by the MCPicGeom*.cfg files (cfg files cannot
   contain records). *)
EXTENDS PicGeom

Pl(h, v, m) == [hsub |-> h, vsub |-> v, mps |-> m]
Pic(n, mp, pls) == [name |-> n, kind |-> "pic", mp |-> mp, planes |-> pls]

B_420p8   == Pic("yuv420p", 1, <<Pl(1, 1, 1), Pl(2, 2, 1), Pl(2, 2, 1)>>)      \* planar 4:2:0 8 bit
B_422p10  == Pic("yuv422p10le", 1, <<Pl(1, 1, 2), Pl(2, 1, 2), Pl(2, 1, 2)>>)  \* planar 4:2:2, 10 bit in 16
B_444p8   == Pic("yuv444p", 1, <<Pl(1, 1, 1), Pl(1, 1, 1), Pl(1, 1, 1)>>)      \* planar 4:4:4
B_nv12    == Pic("nv12", 1, <<Pl(1, 1, 1), Pl(2, 2, 2)>>)                      \* semi-planar
B_yuyv    == Pic("yuyv422", 2, <<Pl(1, 1, 4)>>)                                \* packed, macropixel 2
B_v210    == Pic("v210like", 6, <<Pl(1, 1, 16)>>)                              \* packed, macropixel 6
B_rgb24   == Pic("rgb24", 1, <<Pl(1, 1, 3)>>)                                  \* packed rgb
B_yuva420 == Pic("yuva420p", 1, <<Pl(1, 1, 1), Pl(2, 2, 1), Pl(2, 2, 1), Pl(1, 1, 1)>>)
Snd(n, ss, np) == [name |-> n, kind |-> "sound", mp |-> 1, planes |-> [p \in 1..np |-> Pl(1, 1, ss)]]
B_s16x2 == Snd("s16_planar2", 2, 2)
B_f32x1 == Snd("f32_packed_stereo", 8, 1)
B_u8x3  == Snd("u8_planar3", 1, 3)

SetMax(S) == CHOOSE x \in S : \A y \in S : y <= x
HG(b) == SetMax({b.mp * b.planes[p].hsub : p \in 1..Len(b.planes)})
VG(b) == SetMax({b.planes[p].vsub : p \in 1..Len(b.planes)})

\* request sets for a picture geometry b allocated with widths AW*HG, heights AH*VG
PicReq(b, AW, AH, kinds, fills, small) ==
  LET u == b.mp
      hg == HG(b)
      vg == VG(b)
      Wm == SetMax(AW) * hg
      Hm == SetMax(AH) * vg
      KH == (Wm + hg) \div u
      HO == {k * u : k \in (-KH)..KH} \cup (IF u > 1 THEN {1, -1} ELSE {})
      HS == {-1} \cup {k * u : k \in 1..KH} \cup (IF u > 1 THEN {1} ELSE {})
      VO == (-(Hm + vg))..(Hm + vg)
      VS == {-1} \cup (1..(Hm + vg))
      HOd == {0, hg, -hg, u}
      VOd == {0, vg, -vg, 1}
      HK == {-2 * hg, -hg, -u, 0, u, hg, 2 * hg}
      VK == {-2 * vg, -vg, -1, 0, 1, vg, 2 * vg}
      RH == {-1} \cup {k * u : k \in 1..((Wm + 2 * hg) \div u)}
      RV == {-1} \cup (1..(Hm + 2 * vg))
  IN [allocs |-> ({<<a * hg, c * vg>> : a \in AW, c \in AH}
                  \cup (IF small THEN {} ELSE {<<hg + u, vg>>, <<hg, vg + 1>>, <<0, vg>>, <<hg, 0>>})),
      maps |-> IF small
               THEN {Full, [ho |-> hg, vo |-> 0, hs |-> -1, vs |-> -1], [ho |-> 0, vo |-> vg, hs |-> hg, vs |-> vg]}
               ELSE ({[ho |-> ho, vo |-> 0, hs |-> hs, vs |-> -1] : ho \in HO, hs \in HS}
                     \cup {[ho |-> 0, vo |-> vo, hs |-> -1, vs |-> vs] : vo \in VO, vs \in VS}
                     \cup {[ho |-> ho, vo |-> vo, hs |-> hs, vs |-> vs] :
                             ho \in HOd, vo \in VOd, hs \in {-1, hg}, vs \in {-1, vg}}),
      resizes |-> IF small
                  THEN {[hskip |-> hk, vskip |-> vk, hsize |-> -1, vsize |-> -1] : hk \in {-hg, 0, hg}, vk \in {-vg, 0, vg}}
                       \cup {[hskip |-> 0, vskip |-> 0, hsize |-> hg, vsize |-> vg]}
                  ELSE ({[hskip |-> hk, vskip |-> 0, hsize |-> hs, vsize |-> -1] : hk \in HK, hs \in RH}
                        \cup {[hskip |-> 0, vskip |-> vk, hsize |-> -1, vsize |-> vs] : vk \in VK, vs \in RV}
                        \cup {[hskip |-> hk, vskip |-> vk, hsize |-> hs, vsize |-> vs] :
                                hk \in {-hg, hg, u}, vk \in {-vg, vg, 1}, hs \in {-1, hg}, vs \in {-1, vg}}),
      kinds |-> kinds, fills |-> fills]

SndReq(AN, kinds, fills, small) ==
  LET Nm == SetMax(AN)
  IN [allocs |-> {<<n, 1>> : n \in AN} \cup (IF small THEN {} ELSE {<<-1, 1>>}),
      maps |-> IF small THEN {Full, [ho |-> 1, vo |-> 0, hs |-> 1, vs |-> -1]}
               ELSE {[ho |-> o, vo |-> 0, hs |-> s, vs |-> -1] : o \in (-(Nm + 2))..(Nm + 2), s \in {-1} \cup (1..(Nm + 2))},
      resizes |-> IF small THEN {[off |-> 1, size |-> -1], [off |-> 0, size |-> 1], [off |-> -1, size |-> 1]}
                  ELSE {[off |-> o, size |-> s] : o \in (-(Nm + 1))..(Nm + 1), s \in {-1} \cup (1..(Nm + 1))},
      kinds |-> kinds, fills |-> fills]

Mk(b, hp, ha, vp, va, al, ao, bm, req) ==
  [hmpre |-> hp, hmapp |-> ha, vpre |-> vp, vapp |-> va, align |-> al,
   aoff |-> IF al = 0 THEN 0 ELSE ao, basemod |-> IF al = 0 THEN 0 ELSE bm, req |-> req] @@ b

GeoKinds == {"alloc", "resize", "map"}
AllKinds == {"alloc", "dup", "free", "resize", "map", "fill", "check"}

PicSet(bases, margins, aligns, AW, AH) ==
  { Mk(b, m[1], m[2], m[3], m[4], a[1], a[2], a[3], PicReq(b, AW, AH, GeoKinds, 0, FALSE)) :
      b \in bases, m \in margins, a \in aligns }
SndSet(bases, aligns, AN) ==
  { Mk(b, 0, 0, 0, 0, a[1], 0, a[3], SndReq(AN, GeoKinds, 0, FALSE)) : b \in bases, a \in aligns }

M3 == {0, 1, 2}
AllMargins == {<<a, b, c, d>> : a \in M3, b \in M3, c \in M3, d \in M3}
FewMargins == {<<0, 0, 0, 0>>, <<1, 2, 1, 2>>, <<2, 1, 2, 0>>, <<2, 2, 0, 1>>}
\* <<align, align_hmoffset, base address modulo align>>
FewAligns == {<<0, 0, 0>>, <<16, 1, 0>>}
AllAligns == {<<0, 0, 0>>, <<16, 0, 0>>, <<16, 1, 8>>, <<4, 0, 1>>}

(* ---- geometry sets selected by the cfg files ---- *)
\* quick: every base geometry, a few margin / alignment combinations
GS_quick_a == PicSet({B_420p8, B_yuyv}, FewMargins, FewAligns, {1, 2}, {1, 2})
GS_quick_b == PicSet({B_422p10, B_rgb24, B_444p8}, {<<1, 2, 1, 2>>, <<2, 0, 0, 1>>}, FewAligns, {1, 2}, {1, 2})
              \cup PicSet({B_v210, B_nv12}, {<<1, 2, 1, 2>>}, {<<16, 1, 0>>}, {1, 2}, {1, 2})
GS_quick_s == SndSet({B_s16x2, B_f32x1, B_u8x3}, AllAligns, {1, 2, 3, 4})
\* thorough: all margins in {0,1,2}^4, all alignments, widths up to 4 granules (8 macropixels for 4:2:x)
GS_full_420  == PicSet({B_420p8}, AllMargins, AllAligns, {1, 2, 4}, {1, 2})
GS_full_422  == PicSet({B_422p10}, AllMargins, AllAligns, {1, 2, 4}, {1, 2})
GS_full_444  == PicSet({B_444p8}, AllMargins, FewAligns, {1, 2, 4}, {1, 2, 4})
GS_full_nv12 == PicSet({B_nv12, B_yuva420}, AllMargins, FewAligns, {1, 2}, {1, 2})
GS_full_yuyv == PicSet({B_yuyv}, AllMargins, AllAligns, {1, 2, 4}, {1, 2, 4})
GS_full_v210 == PicSet({B_v210}, AllMargins, FewAligns, {1, 2}, {1, 2, 4})
GS_full_rgb  == PicSet({B_rgb24}, AllMargins, AllAligns, {1, 2, 4}, {1, 2, 4})
GS_full_s    == SndSet({B_s16x2, B_f32x1, B_u8x3}, AllAligns, 1..6)

\* negative configurations (deliberately broken variants must be rejected)
GS_neg == PicSet({B_420p8}, {<<1, 2, 1, 2>>}, {<<16, 1, 0>>}, {1, 2}, {1, 2})

\* content / copy-on-write: two handles, dup / fill / check / free, tiny requests
CowPic(b, m, a) == Mk(b, m[1], m[2], m[3], m[4], a[1], a[2], a[3], PicReq(b, {2}, {2}, AllKinds, 2, TRUE))
GS_cow_quick == {CowPic(B_420p8, <<2, 2, 1, 1>>, <<16, 0, 0>>), CowPic(B_yuyv, <<1, 1, 1, 0>>, <<0, 0, 0>>)}
                \cup {Mk(B_s16x2, 0, 0, 0, 0, 16, 0, 0, SndReq({3}, AllKinds, 2, TRUE))}
GS_cow_full == {CowPic(b, m, <<16, 1, 0>>) : b \in {B_420p8, B_422p10, B_yuyv, B_rgb24, B_nv12}, m \in {<<2, 2, 1, 1>>, <<1, 0, 2, 2>>}}
               \cup {Mk(b, 0, 0, 0, 0, 16, 0, 0, SndReq({3}, AllKinds, 2, TRUE)) : b \in {B_s16x2, B_f32x1}}

\* behaviour generator (simulation): every kind of operation, moderate request sets
DrvPic(b, m, a) == Mk(b, m[1], m[2], m[3], m[4], a[1], a[2], a[3], PicReq(b, {1, 2, 4}, {1, 2, 3}, AllKinds, 3, FALSE))
GS_drv == {DrvPic(b, m, a) : b \in {B_420p8, B_422p10, B_444p8, B_nv12, B_yuyv, B_v210, B_rgb24, B_yuva420},
                             m \in {<<0, 0, 0, 0>>, <<1, 2, 1, 2>>, <<2, 1, 2, 0>>, <<2, 2, 2, 2>>, <<0, 2, 1, 0>>},
                             a \in AllAligns}
          \cup {Mk(b, 0, 0, 0, 0, a[1], 0, a[3], SndReq(1..6, AllKinds, 3, FALSE)) :
                  b \in {B_s16x2, B_f32x1, B_u8x3}, a \in AllAligns}
=============================================================================
