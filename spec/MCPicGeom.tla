------------------------------ MODULE MCPicGeom ------------------------------
(* Model-checking wrapper for PicGeom.tla (pictures): the table of ALL the
   standard formats of include/upipe/uref_pic_flow_formats.h as geometry
   records (the check compares this table, printed as FMT, with what the
   header compiled into the harness says), the request sets explored for
   each geometry, and the geometry sets selected by the MCPicGeom*.cfg files
   (cfg files cannot contain records).  Sound: MCSoundGeom.tla. *)
EXTENDS PicGeom

Pl(h, v, m) == [hsub |-> h, vsub |-> v, mps |-> m]
Pic(n, mp, pls) == [name |-> n, kind |-> "pic", mp |-> mp, planes |-> pls]

P420(m) == <<Pl(1, 1, m), Pl(2, 2, m), Pl(2, 2, m)>>
P422(m) == <<Pl(1, 1, m), Pl(2, 1, m), Pl(2, 1, m)>>
P444(m) == <<Pl(1, 1, m), Pl(1, 1, m), Pl(1, 1, m)>>
WithA(pls, m) == Append(pls, Pl(1, 1, m))
One(m) == <<Pl(1, 1, m)>>

\* include/upipe/uref_pic_flow_formats.h, in the order of UREF_PIC_FLOW_FORMAT_FOREACH
Formats == <<
  Pic("yuva420p", 1, WithA(P420(1), 1)), Pic("yuva422p", 1, WithA(P422(1), 1)), Pic("yuva444p", 1, WithA(P444(1), 1)),
  Pic("yuv420p", 1, P420(1)), Pic("yuv422p", 1, P422(1)), Pic("yuv444p", 1, P444(1)),
  Pic("yuva420p10le", 1, WithA(P420(2), 2)), Pic("yuva422p10le", 1, WithA(P422(2), 2)), Pic("yuva444p10le", 1, WithA(P444(2), 2)),
  Pic("yuv420p10le", 1, P420(2)), Pic("yuv422p10le", 1, P422(2)), Pic("yuv444p10le", 1, P444(2)),
  Pic("yuv420p10be", 1, P420(2)), Pic("yuv422p10be", 1, P422(2)), Pic("yuv444p10be", 1, P444(2)),
  Pic("yuv420p12le", 1, P420(2)), Pic("yuv422p12le", 1, P422(2)), Pic("yuv444p12le", 1, P444(2)),
  Pic("yuv420p12be", 1, P420(2)), Pic("yuv422p12be", 1, P422(2)), Pic("yuv444p12be", 1, P444(2)),
  Pic("yuv420p16le", 1, P420(2)), Pic("yuv422p16le", 1, P422(2)), Pic("yuv444p16le", 1, P444(2)),
  Pic("yuv420p16be", 1, P420(2)), Pic("yuv422p16be", 1, P422(2)), Pic("yuv444p16be", 1, P444(2)),
  Pic("yuyv422", 2, One(4)), Pic("uyvy422", 2, One(4)),
  Pic("gray8", 1, One(1)), Pic("monoblack", 1, One(1)), Pic("monowhite", 1, One(1)),
  Pic("rgb0", 1, One(1)), Pic("0rgb", 1, One(1)), Pic("rgb565", 1, One(2)),
  Pic("rgb24", 1, One(3)), Pic("bgr24", 1, One(3)),
  Pic("argb", 1, One(4)), Pic("rgba", 1, One(4)), Pic("abgr", 1, One(4)), Pic("bgra", 1, One(4)),
  Pic("rgba64le", 1, One(8)), Pic("rgba64be", 1, One(8)),
  Pic("nv12", 1, <<Pl(1, 1, 1), Pl(2, 2, 2)>>), Pic("nv16", 1, <<Pl(1, 1, 1), Pl(2, 1, 2)>>),
  Pic("nv24", 1, <<Pl(1, 1, 1), Pl(1, 1, 2)>>),
  Pic("gbrp", 1, P444(1)),
  Pic("p010le", 1, <<Pl(1, 1, 2), Pl(2, 2, 4)>>) >>

\* the table as the check compares it with the header
FmtOut == [i \in 1..Len(Formats) |-> [name |-> Formats[i].name, mp |-> Formats[i].mp,
             planes |-> [p \in 1..Len(Formats[i].planes) |->
                           <<Formats[i].planes[p].hsub, Formats[i].planes[p].vsub, Formats[i].planes[p].mps>>]]]
ASSUME PrintT(<<"FMT", ToJson(FmtOut)>>)

\* formats with the same macropixel and planes have the same geometry: one
\* representative (the first of the table) per class
SameClass(a, b) == a.mp = b.mp /\ a.planes = b.planes
Reps == {i \in 1..Len(Formats) : \A j \in 1..(i - 1) : ~SameClass(Formats[i], Formats[j])}
ByName(n) == Formats[CHOOSE i \in 1..Len(Formats) : Formats[i].name = n]
\* a macropixel of 6 pixels in 16 octets (v210, not in the header), 4:1:1 / 4:1:0
B_v210 == Pic("v210like", 6, One(16))
B_411  == Pic("yuv411like", 1, <<Pl(1, 1, 1), Pl(4, 1, 1), Pl(4, 1, 1)>>)
B_410  == Pic("yuv410like", 1, <<Pl(1, 1, 1), Pl(4, 4, 1), Pl(4, 4, 1)>>)
AllBases == {Formats[i] : i \in Reps} \cup {B_v210, B_411, B_410}
ASSUME PrintT(<<"CLASSES", Cardinality(AllBases)>>)

SetMax(S) == CHOOSE x \in S : \A y \in S : y <= x
HG(b) == SetMax({b.mp * b.planes[p].hsub : p \in 1..Len(b.planes)})
VG(b) == SetMax({b.planes[p].vsub : p \in 1..Len(b.planes)})

\* request sets for a picture geometry b allocated with widths AW*HG, heights AH*VG
\* lvl: "full" every window, "mid" a cross-section, "small" a handful
PicReq(b, AW, AH, kinds, fills, lvl) ==
  LET u == b.mp
      hg == HG(b)
      vg == VG(b)
      Wm == SetMax(AW) * hg
      Hm == SetMax(AH) * vg
      KH == (Wm + hg) \div u
      HO == {k * u : k \in (-KH)..KH} \cup (IF u > 1 THEN {1, -1} ELSE {})
      HS == {-1} \cup {k * u : k \in 1..KH} \cup (IF u > 1 THEN {1} ELSE {})
      VO == (-(Hm + vg))..(Hm + vg)
      VS == {-1} \cup (1..(Hm + vg))
      HOd == {0, hg, -hg, u}
      VOd == {0, vg, -vg, 1}
      HK == {-2 * hg, -hg, -u, 0, u, hg, 2 * hg}
      VK == {-2 * vg, -vg, -1, 0, 1, vg, 2 * vg}
      RH == {-1} \cup {k * u : k \in 1..((Wm + 2 * hg) \div u)}
      RV == {-1} \cup (1..(Hm + 2 * vg))
      \* "mid": offsets at / around / beyond both ends, sizes at / around the granularity
      HOm == {0, u, hg, -u, -hg, Wm, -Wm, -(Wm + hg), -2 * Wm - hg, Wm + hg}
      HSm == {-1, hg, Wm + hg} \cup (IF u < hg THEN {u} ELSE {})
      VOm == {0, 1, vg, -1, -vg, Hm, -Hm, -(Hm + vg), -2 * Hm - vg, Hm + vg}
      VSm == {-1, vg, Hm + vg} \cup (IF 1 < vg THEN {1} ELSE {})
      smallR == {[hskip |-> hk, vskip |-> vk, hsize |-> -1, vsize |-> -1] : hk \in {-hg, 0, hg}, vk \in {-vg, 0, vg}}
                  \cup {[hskip |-> 0, vskip |-> 0, hsize |-> hg, vsize |-> vg]}
  IN [allocs |-> ({<<a * hg, c * vg>> : a \in AW, c \in AH}
                  \cup (IF lvl \in {"small", "tiny"} THEN {} ELSE {<<hg + u, vg>>, <<hg, vg + 1>>, <<0, vg>>, <<hg, 0>>})),
      maps |-> CASE lvl = "tiny" -> {Full, [ho |-> hg, vo |-> vg, hs |-> hg, vs |-> vg]}
                 [] lvl = "small" ->
                      {Full, [ho |-> hg, vo |-> 0, hs |-> -1, vs |-> -1], [ho |-> 0, vo |-> vg, hs |-> hg, vs |-> vg]}
                 [] lvl = "mid" ->
                      ({[ho |-> ho, vo |-> 0, hs |-> hs, vs |-> -1] : ho \in HOm, hs \in HSm}
                       \cup {[ho |-> 0, vo |-> vo, hs |-> -1, vs |-> vs] : vo \in VOm, vs \in VSm}
                       \cup {[ho |-> hg, vo |-> vg, hs |-> hg, vs |-> vg], [ho |-> -hg, vo |-> -vg, hs |-> -1, vs |-> -1]})
                 [] OTHER ->
                      ({[ho |-> ho, vo |-> 0, hs |-> hs, vs |-> -1] : ho \in HO \cup {-2 * Wm - hg}, hs \in HS}
                       \cup {[ho |-> 0, vo |-> vo, hs |-> -1, vs |-> vs] : vo \in VO \cup {-2 * Hm - vg}, vs \in VS}
                       \cup {[ho |-> ho, vo |-> vo, hs |-> hs, vs |-> vs] :
                               ho \in HOd, vo \in VOd, hs \in {-1, hg}, vs \in {-1, vg}}),
      resizes |-> CASE lvl = "tiny" -> {[hskip |-> hg, vskip |-> vg, hsize |-> -1, vsize |-> -1],
                                        [hskip |-> -hg, vskip |-> -vg, hsize |-> -1, vsize |-> -1],
                                        [hskip |-> 0, vskip |-> 0, hsize |-> hg, vsize |-> vg]}
                    [] lvl = "small" -> smallR
                    [] lvl = "mid" ->
                         smallR \cup {[hskip |-> hk, vskip |-> vk, hsize |-> hs, vsize |-> vs] :
                                        hk \in {-hg, u}, vk \in {-vg, 1}, hs \in {hg, Wm + hg}, vs \in {vg, Hm + vg}}
                    [] OTHER ->
                         ({[hskip |-> hk, vskip |-> 0, hsize |-> hs, vsize |-> -1] : hk \in HK, hs \in RH}
                          \cup {[hskip |-> 0, vskip |-> vk, hsize |-> -1, vsize |-> vs] : vk \in VK, vs \in RV}
                          \cup {[hskip |-> hk, vskip |-> vk, hsize |-> hs, vsize |-> vs] :
                                  hk \in {-hg, hg, u}, vk \in {-vg, vg, 1}, hs \in {-1, hg}, vs \in {-1, vg}}),
      pokes |-> IF lvl = "tiny" THEN {<<0, 0>>, <<hg, vg>>} ELSE {<<0, 0>>, <<hg, vg>>, <<-hg, -vg>>, <<u, 1>>, <<Wm, 0>>},
      bpokes |-> IF lvl = "tiny" THEN {0, 1} ELSE {0, 1, b.planes[1].mps},
      kinds |-> kinds, fills |-> fills]

Mk(b, hp, ha, vp, va, al, ao, bm, req) ==
  [hmpre |-> hp, hmapp |-> ha, vpre |-> vp, vapp |-> va, align |-> al,
   aoff |-> IF al = 0 THEN 0 ELSE ao, basemod |-> IF al = 0 THEN 0 ELSE bm, req |-> req] @@ b

GeoKinds == {"alloc", "resize", "map"}
CowKinds == {"alloc", "dup", "free", "resize", "map", "fill", "poke", "check", "view", "bread", "bpoke"}

PicSet(bases, margins, aligns, AW, AH, lvl) ==
  { Mk(b, m[1], m[2], m[3], m[4], a[1], a[2], a[3], PicReq(b, AW, AH, GeoKinds, 0, lvl)) :
      b \in bases, m \in margins, a \in aligns }

M3 == {0, 1, 2}
AllMargins == {<<a, b, c, d>> : a \in M3, b \in M3, c \in M3, d \in M3}
FewMargins == {<<0, 0, 0, 0>>, <<1, 2, 1, 2>>, <<2, 1, 2, 0>>, <<2, 2, 0, 1>>}
\* <<align, align_hmoffset, base address modulo align>>
FewAligns == {<<0, 0, 0>>, <<16, 1, 0>>}
AllAligns == {<<0, 0, 0>>, <<16, 0, 0>>, <<16, 1, 8>>, <<4, 0, 1>>}

(* ---- geometry sets selected by the cfg files ---- *)
\* quick, wide: EVERY geometry class of the header (+ v210, 4:1:1, 4:1:0), one
\* margin / alignment setting, every allocation, one resize, a cross-section of windows
GS_wide(z) == PicSet(AllBases, {<<1, 2, 1, 2>>}, {<<16, 1, 0>>}, {2}, {2}, "mid")
\* quick, deep: representative classes, a few margin / alignment settings, every window
GS_deep_a(z) == PicSet({ByName("yuv420p")}, {<<1, 2, 1, 2>>}, {<<16, 1, 0>>}, {2}, {2}, "full")
GS_deep_b(z) == PicSet({ByName("yuyv422")}, {<<1, 2, 1, 2>>, <<2, 1, 2, 0>>}, {<<16, 1, 0>>}, {1, 2}, {1, 2}, "full")
             \cup PicSet({ByName("rgb24")}, {<<2, 0, 0, 1>>}, {<<4, 0, 1>>}, {1, 2}, {1, 2}, "full")
\* thorough: all margins in {0,1,2}^4 for six representative classes, a few margins for the
\* other classes; every class x all alignments; one allocation, one resize, cross-section of windows
GS_full_margins(bases) == PicSet(bases, AllMargins, {<<16, 1, 0>>}, {2}, {2}, "mid")
GS_full_m1(z) == GS_full_margins({ByName("yuv420p"), ByName("yuv422p10le")})
GS_full_m2(z) == GS_full_margins({ByName("nv12"), ByName("yuyv422")})
GS_full_m3(z) == GS_full_margins({B_v210})
Rep6 == {ByName("yuv420p"), ByName("yuv422p10le"), ByName("nv12"), ByName("yuyv422"), B_v210}
GS_full_m4(z) == PicSet(AllBases \ Rep6, FewMargins, {<<16, 1, 0>>}, {2}, {2}, "mid")
GS_full_al(z) == PicSet(AllBases, {<<1, 2, 1, 2>>}, AllAligns, {2}, {2}, "mid")
\* thorough, deep: every window, chains of 3 resizes
GS_full_420(z) == PicSet({ByName("yuv420p")}, {<<1, 2, 1, 2>>, <<2, 1, 2, 0>>}, FewAligns, {2}, {2}, "full")
GS_full_422(z) == PicSet({ByName("yuv422p10le"), ByName("nv12")}, {<<1, 2, 1, 2>>}, FewAligns, {2}, {2}, "full")
GS_full_pk(z) == PicSet({ByName("yuyv422"), B_v210, ByName("rgb24")}, {<<1, 2, 1, 2>>}, FewAligns, {2}, {2}, "full")

\* negative configurations (deliberately broken variants must be rejected)
GS_neg(z) == PicSet({ByName("yuv420p")}, {<<1, 2, 1, 2>>}, {<<16, 1, 0>>}, {1, 2}, {1, 2}, "full")

\* content / copy-on-write: two or three handles, tiny requests
CowPic(b, m, a) == Mk(b, m[1], m[2], m[3], m[4], a[1], a[2], a[3], PicReq(b, {2}, {2}, CowKinds, 2, "tiny"))
GS_cow_quick(z) == {CowPic(ByName("yuv420p"), <<2, 2, 1, 1>>, <<16, 0, 0>>), CowPic(ByName("yuyv422"), <<1, 1, 1, 0>>, <<0, 0, 0>>)}
GS_cow_q(z) == {CowPic(ByName("yuv420p"), <<2, 2, 1, 1>>, <<16, 0, 0>>)}
GS_cow_full(z) == {CowPic(ByName(n), m, <<16, 1, 0>>) : n \in {"yuv420p", "yuv422p10le", "yuyv422", "rgb24", "nv12"},
                                                     m \in {<<2, 2, 1, 1>>, <<1, 0, 2, 2>>}}

\* behaviour generator (simulation): every kind of operation, moderate request sets
DrvPic(b, m, a) == Mk(b, m[1], m[2], m[3], m[4], a[1], a[2], a[3], PicReq(b, {1, 2, 4}, {1, 2, 3}, CowKinds, 4, "mid"))
GS_drv(z) == {DrvPic(b, m, a) : b \in AllBases,
                             m \in {<<0, 0, 0, 0>>, <<1, 2, 1, 2>>, <<2, 1, 2, 0>>, <<2, 2, 2, 2>>, <<0, 2, 1, 0>>},
                             a \in AllAligns}
\* tag -> geometry set (an operator with an argument: TLC evaluates only the set a cfg selects)
PicGeoSet(t) == CASE t = "wide" -> GS_wide(0) [] t = "deep_a" -> GS_deep_a(0) [] t = "deep_b" -> GS_deep_b(0) [] t = "full_m1" -> GS_full_m1(0) [] t = "full_m2" -> GS_full_m2(0) [] t = "full_m3" -> GS_full_m3(0) [] t = "full_m4" -> GS_full_m4(0) [] t = "full_al" -> GS_full_al(0) [] t = "neg" -> GS_neg(0) [] t = "cow_quick" -> GS_cow_quick(0) [] t = "cow_full" -> GS_cow_full(0) [] t = "cow_q" -> GS_cow_q(0) [] t = "drv" -> GS_drv(0)
                  [] t = "full_420" -> GS_full_420(0) [] t = "full_422" -> GS_full_422(0) [] t = "full_pk" -> GS_full_pk(0)
=============================================================================
