\* C02 exhaustive, thorough: weakest grant rule, 4 handles, blocks of 2 and 3 octets, 3 calls deep
SPECIFICATION MCSpec
CONSTANTS
  Handles = {0, 1, 2, 3}
  Fill = 14
  Strict = FALSE
  KeepHist = FALSE
  Bug = "none"
  Pre = 1
  MaxLen = 5
  MaxWins = 5
  Depth = 3
  PatSet = "c02"
  InitSet = "one"
  ObsLast = FALSE
  Rand = FALSE
  Letters = {0, 1}
  LastOps = {}
  LastSz = {}
  Dom = "all"
  Ops = {"dup", "splice", "split", "merge", "append", "insert", "delete", "truncate", "resize", "prepend", "poke", "free"}
INVARIANT TypeOK ByteString FreshSingle
PROPERTY Isolation WriteOnlySingle StructuralOpsDontWrite SharedNeverWritten ErrLeavesUnchanged
CONSTRAINT Bounded
VIEW view
CHECK_DEADLOCK FALSE
