\* C02 exhaustive, thorough: 4 calls deep
SPECIFICATION MCSpec
CONSTANTS
  Handles = {0, 1, 2, 3}
  Fill = 14
  Strict = FALSE
  KeepHist = FALSE
  Bug = "none"
  Pre = 1
  MaxLen = 5
  MaxWins = 5
  Depth = 4
  PatSet = "c02"
  InitSet = "one"
  ObsLast = FALSE
  Rand = FALSE
  Letters = {0, 1}
  Ops = {"dup", "splice", "split", "merge", "append", "insert", "delete", "truncate", "resize", "prepend", "poke", "free"}
INVARIANT TypeOK ByteString FreshSingle WriteOnlySingle
PROPERTY Isolation StructuralOpsDontWrite SharedNeverWritten ErrLeavesUnchanged
CONSTRAINT Bounded
VIEW view
CHECK_DEADLOCK FALSE
