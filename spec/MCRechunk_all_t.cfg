\* thorough: the four pipes, two arbitrary cuttings
SPECIFICATION Spec
CONSTANTS
  ModeSet = {"agg", "chunk", "sync", "check"}
  AggMtuSet = {3, 4, 5, 7}
  InSizeSet = {0, 1, 2, 3}
  ChunkMtuSet = {2, 3, 5, 7}
  AlignSet = {1, 2, 3, 4}
  PSizeSet = {3, 4}
  NSyncSet = {2, 3}
  CheckPSizeSet = {2, 3}
  LenAgg = 14
  LenChunk = 16
  LenSync = 7
  LenCheck = 7
  BufAgg = 8
  BufOther = 99
  MaxEmpty = 2
  MaxDisc = 0
  Twin = "free"
  EarlyB = FALSE
  Variant = "ok"
VIEW View
INVARIANT Subsequence WholePackets Conservation UnitSize CutInvariance ReleaseTerminates AggSane NoOverrun UnitsAreSlices FlushHeadSync
CHECK_DEADLOCK FALSE
