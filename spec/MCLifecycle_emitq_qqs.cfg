SPECIFICATION Spec
CONSTANTS
  TopoName = "qqs"
  Variant = "ok"
  QLen = 1
  MaxHeld = 2
  MaxCmds = 4
  MinCmds = 0
  EmitBeh = TRUE
INVARIANTS RcIsHolders DestroyOnce NoUseAfterDestroy QuiescentClean Sane Emit
POSTCONDITION Cov
CHECK_DEADLOCK FALSE
