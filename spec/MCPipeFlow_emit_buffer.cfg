SPECIFICATION Spec
CONSTANTS
 Setups <- S_buffer
 Acts <- A_buffer
 Bufs <- B_size
 MaxSteps = 4
 MaxIn = 3
 Variant = "ok"
 CheckEpi = FALSE
INVARIANT Emit
CHECK_DEADLOCK FALSE
