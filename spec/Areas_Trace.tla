---------------------------- MODULE Areas_Trace ----------------------------
(***************************************************************************)
(* C09 (second sentence) - "the area is returned to its allocator exactly  *)
(* once, by whichever holder lets go last" over SEVERAL memory areas and   *)
(* recycled structures: validation of traces of the real ubuf_block_mem    *)
(* (harness/sched_refcount.c, mode areas) under the deterministic          *)
(* scheduler.                                                              *)
(*                                                                         *)
(*   Alloc(t,h,a)   ubuf_block_alloc gave handle h on the NEW area a       *)
(*   Refused(t)     ubuf_block_alloc returned NULL (the allocator refused) *)
(*   Dup(t,h,from)  ubuf_dup of handle from gave handle h (same areas)     *)
(*   Append(t,h,a)  a buffer on the NEW area a was appended to handle h:    *)
(*                  h holds a set of areas (segmented block)                *)
(*   Foreign(t,h)   a segment of a manager without UBUF_DUP was appended    *)
(*                  to h (no area of ours): ubuf_dup of h then fails        *)
(*   DupFailed(t,from) ubuf_dup returned NULL: nothing may change          *)
(*   Free(t,h)      ubuf_free(h) is called                                 *)
(*   Return(t,a)    area a goes back to its allocator (umem_free)          *)
(*   End            everything the program and its epilogue hold was freed *)
(*   AllocDead(u)   allocator u ran its destructor (mode xareas: a picture *)
(*                  manager P over its own allocator, a block of another   *)
(*                  manager built on the picture's area)                   *)
(*   MgrRelease(t,m) thread t released its handle on manager m (no guard)  *)
(* An area is returned once, only when no handle on it is outstanding, to  *)
(* an allocator that still exists - an allocator does not go away while    *)
(* one of its areas is outstanding - and at the end every area has been    *)
(* returned.                                                               *)
(***************************************************************************)
EXTENDS Naturals, Integers, Sequences, FiniteSets, TLC, Json, IOUtils

Tr == ndJsonDeserialize(IOEnv.TRACE)
VARIABLES l, area,     \* handle -> set of areas it holds, for outstanding handles
          st,          \* area -> "live" | "returned"
          alc,         \* area -> allocator it came from
          gone,        \* allocators that ran their destructor
          skip, cur, bad
vars == <<l, area, st, alc, gone, skip, cur, bad>>
Has(ev, f) == f \in DOMAIN ev

Holders(a) == {h \in DOMAIN area : a \in area[h]}
Upd(f, k, v) == [x \in DOMAIN f \cup {k} |-> IF x = k THEN v ELSE f[x]]
Del(f, k) == [x \in DOMAIN f \ {k} |-> f[x]]

Guard(ev) ==
  CASE ev.e = "Alloc" -> ev.a >= 0 /\ ev.a \notin DOMAIN st /\ ev.h \notin DOMAIN area
    [] ev.e = "Append" -> ev.a >= 0 /\ ev.a \notin DOMAIN st /\ ev.h \in DOMAIN area
    [] ev.e \in {"Refused", "Foreign", "DupFailed"} -> TRUE
    [] ev.e = "Dup" -> ev.from \in DOMAIN area /\ ev.h \notin DOMAIN area
    [] ev.e = "Free" -> ev.h \in DOMAIN area
    \* exactly once, after the last holder let go, never while one is outstanding
    [] ev.e = "Return" -> ev.a \in DOMAIN st /\ st[ev.a] = "live" /\ Holders(ev.a) = {} /\ alc[ev.a] \notin gone
    \* an allocator outlives every area it handed out
    [] ev.e = "AllocDead" -> ev.u \notin gone /\ \A a \in DOMAIN st : alc[a] = ev.u => st[a] = "returned"
    [] ev.e = "MgrRelease" -> TRUE
    [] ev.e = "End" -> DOMAIN area = {} /\ \A a \in DOMAIN st : st[a] = "returned"
    [] OTHER -> FALSE                       \* Crash, Hang

Effect(ev) ==
  CASE ev.e = "Alloc" -> /\ area' = Upd(area, ev.h, {ev.a}) /\ st' = Upd(st, ev.a, "live")
                         /\ alc' = Upd(alc, ev.a, IF Has(ev, "u") THEN ev.u ELSE 0) /\ gone' = gone
    [] ev.e = "Append" -> /\ area' = [area EXCEPT ![ev.h] = @ \cup {ev.a}] /\ st' = Upd(st, ev.a, "live")
                          /\ alc' = Upd(alc, ev.a, 0) /\ gone' = gone
    [] ev.e = "Dup" -> area' = Upd(area, ev.h, area[ev.from]) /\ UNCHANGED <<st, alc, gone>>
    [] ev.e = "Free" -> area' = Del(area, ev.h) /\ UNCHANGED <<st, alc, gone>>
    [] ev.e = "Return" -> st' = [st EXCEPT ![ev.a] = "returned"] /\ UNCHANGED <<area, alc, gone>>
    [] ev.e = "AllocDead" -> gone' = gone \cup {ev.u} /\ UNCHANGED <<area, st, alc>>
    [] OTHER -> UNCHANGED <<area, st, alc, gone>>

TStep ==
  /\ l <= Len(Tr) /\ l' = l + 1
  /\ LET ev == Tr[l] IN
     IF ev.e = "Reset"
     THEN area' = <<>> /\ st' = <<>> /\ alc' = <<>> /\ gone' = {} /\ skip' = FALSE /\ cur' = ev.hid /\ bad' = bad
     ELSE IF skip THEN UNCHANGED <<area, st, alc, gone, skip, cur, bad>>
     ELSE IF Guard(ev) THEN Effect(ev) /\ UNCHANGED <<skip, cur, bad>>
     ELSE skip' = TRUE /\ bad' = bad \cup {<<cur, l>>} /\ UNCHANGED <<area, st, alc, gone, cur>>
TInit == l = 1 /\ area = <<>> /\ st = <<>> /\ alc = <<>> /\ gone = {} /\ skip = FALSE /\ cur = 0 /\ bad = {}
TSpec == TInit /\ [][TStep]_vars
Report == (l = Len(Tr) + 1) => PrintT(<<"TRACE_BAD", bad>>)
Accepted == LET d == TLCGet("stats").diameter IN
            IF d - 1 = Len(Tr) THEN PrintT(<<"TRACE_ACCEPTED", Len(Tr)>>)
                               ELSE PrintT(<<"TRACE_REJECTED_AT", d>>)
=============================================================================
