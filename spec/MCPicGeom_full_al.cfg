\* exhaustive geometry evaluation (thorough): every class x every alignment setting
CONSTANTS
  Geos = {"full_al"}
  GeoSet <- PicGeoSet
  Handles = {0}
  MaxOps = 3
  MaxResize = 1
  Variant = "none"
  Record = FALSE
SPECIFICATION Spec
VIEW View
INVARIANT WindowsInCanvas Inside InjectiveMap CanvasInjective GranularityP MapIsWindowCell AllocGranular WriteOnlySingle
PROPERTY CropPreserves StructuralOpsDontWrite
CHECK_DEADLOCK FALSE
