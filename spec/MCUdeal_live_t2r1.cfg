SPECIFICATION FairSpec
CONSTANTS
  NT = 2
  Rounds = 1
  Variant = "code"
INVARIANT Mutex NoLostHandOver
PROPERTY EventuallyAll
VIEW view
CHECK_DEADLOCK FALSE
