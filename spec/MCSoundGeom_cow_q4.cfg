\* content and copy-on-write: alloc / dup / view / free / resize / fill / poke / map r,w / check / bread / bpoke (sound; quick: two handles, 4 operations)
CONSTANTS
  Geos = {"cow_quick"}
  GeoSet <- SndGeoSet
  Handles = {0, 1}
  MaxOps = 4
  MaxResize = 1
  Variant = "none"
  Record = FALSE
SPECIFICATION Spec
VIEW View
INVARIANT WindowsInCanvas Inside InjectiveMap CanvasInjective GranularityP MapIsWindowCell AllocGranular WriteOnlySingle DupSees
PROPERTY CropPreserves StructuralOpsDontWrite Isolation
CHECK_DEADLOCK FALSE
