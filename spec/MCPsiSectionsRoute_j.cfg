\* joiner, exhaustive: 3 inputs, <= 4 additions/releases, 3 sections
SPECIFICATION Spec
CONSTANTS
  Mode = "J"
  Variant = "ok"
  SecPal <- SecsTiny
  FilPal <- FilsTiny
  Ports = {1, 2, 3}
  MaxOps = 4
  MaxIn = 3
  Record = FALSE
INVARIANT JoinForward
CHECK_DEADLOCK FALSE
