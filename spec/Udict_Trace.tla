---------------------------- MODULE Udict_Trace ----------------------------
(***************************************************************************)
(* C10 - trace validation of executions of the real udict / uref_attr code *)
(* (harness/replay_udict.c) against the abstract module Udict.             *)
(*                                                                         *)
(* One TLC state per trace line (ndjson, IOEnv.TRACE).  An event is        *)
(* accepted iff the corresponding action of Udict is enabled for the       *)
(* logged arguments AND the result it yields equals the logged result      *)
(* ("r"); a crash of the real code (assert, sanitizer report, time-out)    *)
(* is logged as r = "crash", which no action yields.  Executions are       *)
(* concatenated; a Reset event starts a new one with no dictionary.        *)
(*                                                                         *)
(*   {"e":"Reset", ...configuration of the manager, informative...}        *)
(*   {"e":"Alloc","d":0,"r":"ok"}                                          *)
(*   {"e":"Set","d":0,"t":"string","n":"a","v":"s3.1","r":"ok"}           *)
(*   {"e":"SetAlias","d":0,"t":..,"n":..,"t2":..,"n2":..,"r":"ok"|"absent"}*)
(*   {"e":"Get","d":0,"t":..,"n":..,"r":"s3.1"|"absent"}                  *)
(*   {"e":"Delete","d":0,"t":..,"n":..,"r":"ok"|"absent"}                  *)
(*   {"e":"Dup","d":1,"s":0,"r":"ok"}      (d: the new handle)             *)
(*   {"e":"Import","d":1,"s":0,"r":"ok"}                                   *)
(*   {"e":"Copy","d":1,"s":0,"t":..,"n":..,"r":"ok"}                       *)
(*   {"e":"Cmp","d":0,"s":1,"r":"0"|"nz"}                                  *)
(*   {"e":"Iter","d":0,"ks":[{"t":..,"n":..},...],"r":"ok"}  (visit order) *)
(*   {"e":"Free","d":0,"r":"ok"}                                           *)
(* Values are tokens (strings): nothing wider than 31 bits reaches TLC as  *)
(* an integer.                                                             *)
(*                                                                         *)
(* Tolerant = TRUE (Udict_Trace_multi.cfg, used to judge many candidate    *)
(* executions in one run, e.g. when shrinking): an event that cannot be    *)
(* explained prints <<"EXEC_REJECTED", execution, line>> and the rest of   *)
(* that execution is skipped.                                              *)
(***************************************************************************)
EXTENDS Udict, Json, IOUtils

CONSTANT Tolerant

Tr == ndJsonDeserialize(IOEnv.TRACE)

VARIABLES l,      \* next line of Tr
          ex,     \* number of Reset events seen (index of the current execution)
          skip    \* Tolerant only: the current execution was rejected, skip to the next Reset

vars == <<dict, live, last, l, ex, skip>>

NoPrefix(a, b) == FALSE

Key(ev)  == [n |-> ev.n,  t |-> ev.t]
Key2(ev) == [n |-> ev.n2, t |-> ev.t2]

IsEv(e) == l <= Len(Tr) /\ Tr[l].e = e

TReset == /\ IsEv("Reset")
          /\ dict' = [d \in Dicts |-> EmptyF]
          /\ live' = {}
          /\ last' = [op |-> "reset", d |-> 99, res |-> "ok"]

TAlloc    == IsEv("Alloc")    /\ Alloc(Tr[l].d)                            /\ last'.res = Tr[l].r
TSet      == IsEv("Set")      /\ WellFormedKey(Key(Tr[l]))
                              /\ Set(Tr[l].d, Key(Tr[l]), Tr[l].v)         /\ last'.res = Tr[l].r
\* (SetHex: the value given as a hexadecimal string - the same as Set; SetBad: the string is not hexadecimal)
TSetHex   == IsEv("SetHex")   /\ WellFormedKey(Key(Tr[l])) /\ BaseOf(Tr[l].t) = "opaque"
                              /\ Set(Tr[l].d, Key(Tr[l]), Tr[l].v)         /\ last'.res = Tr[l].r
TSetBad   == IsEv("SetBad")   /\ WellFormedKey(Key(Tr[l])) /\ BaseOf(Tr[l].t) = "opaque"
                              /\ SetRefused(Tr[l].d, Key(Tr[l]))           /\ last'.res = Tr[l].r
TSetAlias == IsEv("SetAlias") /\ WellFormedKey(Key(Tr[l])) /\ WellFormedKey(Key2(Tr[l]))
                              /\ BaseOf(Tr[l].t) = BaseOf(Tr[l].t2)
                              /\ SetAlias(Tr[l].d, Key(Tr[l]), Key2(Tr[l])) /\ last'.res = Tr[l].r
TGet      == IsEv("Get")      /\ Get(Tr[l].d, Key(Tr[l]))                  /\ last'.res = Tr[l].r
TDelete   == IsEv("Delete")   /\ Delete(Tr[l].d, Key(Tr[l]))               /\ last'.res = Tr[l].r
TDup      == IsEv("Dup")      /\ Dup(Tr[l].s, Tr[l].d)                     /\ last'.res = Tr[l].r
TImport   == IsEv("Import")   /\ Import(Tr[l].d, Tr[l].s)                  /\ last'.res = Tr[l].r
TCopy     == IsEv("Copy")     /\ Copy(Tr[l].d, Tr[l].s, Key(Tr[l]))        /\ last'.res = Tr[l].r
TCmp      == IsEv("Cmp")      /\ Cmp(Tr[l].d, Tr[l].s)                     /\ last'.res = Tr[l].r
TIter     == IsEv("Iter")     /\ Iterate(Tr[l].d)                          /\ Tr[l].r = "ok"
                              /\ VisitsExactlyOnce(Tr[l].ks, last'.res)
TFree     == IsEv("Free")     /\ Free(Tr[l].d)                             /\ last'.res = Tr[l].r

Explained == TReset \/ TAlloc \/ TSet \/ TSetHex \/ TSetBad \/ TSetAlias \/ TGet \/ TDelete \/ TDup \/ TImport
             \/ TCopy \/ TCmp \/ TIter \/ TFree

\* what the specification would have answered (diagnostics of a rejection)
Expected(ev) ==
    IF ~("d" \in DOMAIN ev) \/ ev.d \notin live THEN "n/a"
    ELSE CASE ev.e = "Get"      -> Lookup(dict[ev.d], Key(ev))
           [] ev.e = "Delete"   -> IF Has(dict[ev.d], Key(ev)) THEN "ok" ELSE Absent
           [] ev.e = "SetAlias" -> IF Has(dict[ev.d], Key2(ev)) THEN "ok" ELSE Absent
           [] ev.e = "Cmp"      -> IF ev.s \in live THEN CmpRes(ev.d, ev.s) ELSE "n/a"
           [] ev.e = "Iter"     -> DOMAIN dict[ev.d]
           [] OTHER             -> "ok"

\* strict: every line must be explained
TStrict == /\ ~skip
           /\ Explained
           /\ l' = l + 1
           /\ ex' = IF Tr[l].e = "Reset" THEN ex + 1 ELSE ex
           /\ UNCHANGED skip

\* tolerant: note the rejection and skip to the next Reset
TRejectHere == /\ Tolerant /\ ~skip /\ l <= Len(Tr)
               /\ ~ENABLED Explained
               /\ PrintT(<<"EXEC_REJECTED", ex, l>>)
               /\ PrintT(<<"EXPECTED", ToJson([ex |-> ex, l |-> l, want |-> Expected(Tr[l])])>>)
               /\ skip' = TRUE /\ l' = l + 1
               /\ UNCHANGED <<dict, live, last, ex>>
TSkip == /\ Tolerant /\ skip /\ l <= Len(Tr)
         /\ IF Tr[l].e = "Reset"
            THEN TReset /\ skip' = FALSE /\ ex' = ex + 1
            ELSE UNCHANGED <<dict, live, last, skip, ex>>
         /\ l' = l + 1

TInit == Init /\ l = 1 /\ ex = 0 /\ skip = FALSE
TNext == TStrict \/ TRejectHere \/ TSkip
TSpec == TInit /\ [][TNext]_vars

Accepted == LET d == TLCGet("stats").diameter IN
            IF d - 1 = Len(Tr) THEN PrintT(<<"TRACE_ACCEPTED", Len(Tr)>>)
                               ELSE PrintT(<<"TRACE_REJECTED_AT", d>>)
=============================================================================
