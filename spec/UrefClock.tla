------------------------------ MODULE UrefClock ------------------------------
(***************************************************************************)
(* C11 - timestamp algebra of a uref (include/upipe/uref_clock.h).         *)
(*                                                                         *)
(* A buffer carries, for each of three clock domains (sys, prog, orig), ONE*)
(* stored date and a 2-bit type saying whether that date is a clock        *)
(* reference (cr), a decoding date (dts) or a presentation date (pts), and *)
(* three delays SHARED by the three domains: cr->dts, dts->pts and rap->cr.*)
(* The nine accessors get_{cr,dts,pts}_{sys,prog,orig} (and get_rap_x)     *)
(* derive the other views by adding / subtracting the delays.              *)
(*                                                                         *)
(* Numbers are W-bit words, arithmetic is modulo 2^W and the all-ones word *)
(* is the "unset" marker (UINT64_MAX in the code).  A word is a tuple of   *)
(* NLimbs limbs of LimbBits bits, least significant first, added with      *)
(* carry: W = 3 gives 1-tuples <<0>>..<<7>> (exhaustive model checking),   *)
(* W = 64 gives four 16-bit limbs (TLC integers are 32-bit) and is the     *)
(* instance that predicts the behaviour of the real code (behaviours for   *)
(* replay, trace validation).  The module is the same in both cases.       *)
(*                                                                         *)
(* Unspecified (both outcomes accepted): add_date on a domain whose stored *)
(* date word is all-ones although its type is not "none" (a date that      *)
(* legitimately wrapped to 2^W - 1): the documentation says "adds the      *)
(* delay to the date", the code treats the word as unset and does nothing. *)
(* AddAtUnset = "either" allows both, "avoid" disables the step (behaviour *)
(* generation: nothing can be predicted), "noop"/"shift" pick one.         *)
(***************************************************************************)
EXTENDS Naturals, Sequences, FiniteSets, TLC, Json

CONSTANTS W,            \* word size in bits (<= 16, or a multiple of 16)
          PaletteName,  \* "all": every word (small W only); "edge": {0,1,2,2^(W-1),2^W-3,2^W-2,Unset}
          MaxSteps,     \* bound on the number of operations of a behaviour
          Variant,      \* "ok", or the name of a deliberately broken variant (negative configs)
          Record,       \* TRUE: keep the history of calls and predicted results (hist)
          AddAtUnset    \* "either" | "avoid" | "noop" | "shift"   (see above)

LimbBits == IF W <= 16 THEN W ELSE 16
NLimbs   == W \div LimbBits
Base     == 2 ^ LimbBits
ASSUME NLimbs * LimbBits = W /\ W >= 1

Doms  == {"sys", "prog", "orig"}
DomSeq == <<"sys", "prog", "orig">>
\* date types, numbered as enum uref_date_type; 4 = rap (getter only)
TNone == 0
TCr   == 1
TDts  == 2
TPts  == 3
TRap  == 4
SetTypes == {TCr, TDts, TPts}
GetTypes == {TCr, TDts, TPts, TRap}
Delays == {"dtsPts", "crDts", "rapCr"}

-----------------------------------------------------------------------------
(* W-bit words as limb tuples *)
RECURSIVE Rep(_, _)
Rep(x, n) == IF n = 0 THEN <<>> ELSE <<x>> \o Rep(x, n - 1)
Unset == Rep(Base - 1, NLimbs)
Zero  == Rep(0, NLimbs)
Absent == <<>>          \* result of a getter that returns an error

IsWord(x) == /\ x \in Seq(0 .. Base - 1) /\ Len(x) = NLimbs

RECURSIVE AddFrom(_, _, _, _)
AddFrom(a, b, i, c) ==
  IF i > NLimbs THEN <<>>
  ELSE LET s == a[i] + b[i] + c IN <<s % Base>> \o AddFrom(a, b, i + 1, s \div Base)
Add(a, b) == AddFrom(a, b, 1, 0)

RECURSIVE SubFrom(_, _, _, _)
SubFrom(a, b, i, br) ==
  IF i > NLimbs THEN <<>>
  ELSE LET s == a[i] + Base - b[i] - br IN <<s % Base>> \o SubFrom(a, b, i + 1, 1 - (s \div Base))
Sub(a, b) == SubFrom(a, b, 1, 0)

\* unsigned comparison a > b, most significant limb first
RECURSIVE GtFrom(_, _, _)
GtFrom(a, b, i) == IF i = 0 THEN FALSE
                   ELSE IF a[i] # b[i] THEN a[i] > b[i] ELSE GtFrom(a, b, i - 1)
Gt(a, b) == GtFrom(a, b, NLimbs)

\* the words the environment draws dates, delays, deltas and raps from
One == <<1>> \o Rep(0, NLimbs - 1)
Two == Add(One, One)
Top == Rep(0, NLimbs - 1) \o <<Base \div 2>>          \* 2^(W-1)
Edge == {Zero, One, Two, Top, Sub(Unset, Two), Sub(Unset, One), Unset}
Palette == IF PaletteName = "all" THEN {<<i>> : i \in 0 .. Base - 1} ELSE Edge
ASSUME PaletteName = "all" => NLimbs = 1

-----------------------------------------------------------------------------
VARIABLES date,     \* [Doms -> word]   stored date (Unset when type is none)
          type,     \* [Doms -> 0..3]   what the stored date is
          dtsPts, crDts, rapCr,   \* shared delays (word; Unset = absent)
          steps,    \* number of operations performed
          last,     \* the operation just performed and its result (ghost, for the action properties)
          hist      \* ghost: sequence of operations with predicted results (only if Record)

state == <<date, type, dtsPts, crDts, rapCr>>
vars  == <<date, type, dtsPts, crDts, rapCr, steps, last, hist>>
View  == <<date, type, dtsPts, crDts, rapCr, steps>>

-----------------------------------------------------------------------------
(* The getters: transcription of UREF_CLOCK_GET_{PTS,DTS,CR,RAP}, first as  *)
(* functions of a stored date d of type t and the delays cd (cr->dts),     *)
(* dp (dts->pts), rc (rap->cr).  A delay that is Unset makes the getter    *)
(* fail.  The negative variant "getdts_wrong_delay" subtracts the wrong    *)
(* delay in get_dts.                                                       *)
PtsOf(d, t, cd, dp) ==
  CASE t = TNone -> Absent
    [] t = TCr   -> IF cd = Unset \/ dp = Unset THEN Absent ELSE Add(Add(d, cd), dp)
    [] t = TDts  -> IF dp = Unset THEN Absent ELSE Add(d, dp)
    [] t = TPts  -> d

DtsOf(d, t, cd, dp) ==
  CASE t = TNone -> Absent
    [] t = TCr   -> IF cd = Unset THEN Absent ELSE Add(d, cd)
    [] t = TDts  -> d
    [] t = TPts  -> IF Variant = "getdts_wrong_delay"
                    THEN (IF cd = Unset THEN Absent ELSE Sub(d, cd))
                    ELSE (IF dp = Unset THEN Absent ELSE Sub(d, dp))

CrOf(d, t, cd, dp) ==
  CASE t = TNone -> Absent
    [] t = TCr   -> d
    [] t = TDts  -> IF cd = Unset THEN Absent ELSE Sub(d, cd)
    [] t = TPts  -> IF dp = Unset \/ cd = Unset THEN Absent ELSE Sub(Sub(d, dp), cd)

RapOf(d, t, cd, dp, rc) ==
  LET c == CrOf(d, t, cd, dp) IN
  IF c = Absent \/ rc = Unset THEN Absent ELSE Sub(c, rc)

DelayOf(x) == IF x = Unset THEN Absent ELSE x

\* the getters in the current state
GetPts(dom) == PtsOf(date[dom], type[dom], crDts, dtsPts)
GetDts(dom) == DtsOf(date[dom], type[dom], crDts, dtsPts)
GetCr(dom)  == CrOf(date[dom], type[dom], crDts, dtsPts)
GetRap(dom) == RapOf(date[dom], type[dom], crDts, dtsPts, rapCr)

Getter(dom, t) ==
  CASE t = TCr  -> GetCr(dom)
    [] t = TDts -> GetDts(dom)
    [] t = TPts -> GetPts(dom)
    [] t = TRap -> GetRap(dom)

DelayVal(w) == CASE w = "dtsPts" -> dtsPts [] w = "crDts" -> crDts [] w = "rapCr" -> rapCr
GetDelay(w) == DelayOf(DelayVal(w))

\* everything an observer can read in a state s = [date, type, dtsPts, crDts,
\* rapCr]: cr, dts, pts, rap of sys, prog, orig, then the three delays
\* (15 entries, each a word or Absent)
DomGetters(s, dom) ==
  LET d == s.date[dom] t == s.type[dom] IN
  << CrOf(d, t, s.crDts, s.dtsPts), DtsOf(d, t, s.crDts, s.dtsPts),
     PtsOf(d, t, s.crDts, s.dtsPts), RapOf(d, t, s.crDts, s.dtsPts, s.rapCr) >>
GettersOf(s) ==
  DomGetters(s, "sys") \o DomGetters(s, "prog") \o DomGetters(s, "orig")
  \o << DelayOf(s.dtsPts), DelayOf(s.crDts), DelayOf(s.rapCr) >>

Cur == [date |-> date, type |-> type, dtsPts |-> dtsPts, crDts |-> crDts, rapCr |-> rapCr]
AllGetters == GettersOf(Cur)

-----------------------------------------------------------------------------
Op(o, dom, t, v, ok, res) == [op |-> o, dom |-> dom, ty |-> t, v |-> v, ok |-> ok, res |-> res]

\* bookkeeping common to all operations; `o` describes the call and what it
\* returned.  The history keeps the call and the state reached; the predicted
\* results of all getters are computed from it when the behaviour is printed.
Done(o) == /\ steps' = steps + 1
           /\ last' = o
           /\ hist' = IF Record THEN Append(hist, [c |-> o, s |-> Cur']) ELSE hist

\* effect of uref_clock_set_date_<dom>(date = v, type = t) on the state:
\* moving the stored date to a LATER stage records the delay, so that the
\* date that was stored stays readable; everything else keeps the delays.
SetDateEffect(dom, t, v) ==
  LET cur == type[dom]
      cd  == date[dom]
  IN /\ crDts' = IF cur = TCr /\ t = TPts /\ dtsPts # Unset THEN Sub(Sub(v, dtsPts), cd)
                 ELSE IF cur = TCr /\ t = TDts THEN Sub(v, cd)
                 ELSE crDts
     /\ dtsPts' = IF cur = TDts /\ t = TPts THEN Sub(v, cd) ELSE dtsPts
     /\ date' = [date EXCEPT ![dom] = v]
     /\ type' = [type EXCEPT ![dom] = IF Variant = "setdate_keeps_type" /\ cur # TNone THEN cur ELSE t]
     /\ UNCHANGED rapCr

SetDate(dom, t, v) ==
  /\ SetDateEffect(dom, t, v)
  /\ Done(Op("SetDate", dom, t, v, TRUE, Absent))

\* rebase = get as type t, then set as type t; fails (changing nothing) when the getter fails
Rebase(dom, t) ==
  LET g == Getter(dom, t) IN
  IF g = Absent
  THEN UNCHANGED state /\ Done(Op("Rebase", dom, t, Zero, FALSE, Absent))
  ELSE /\ IF Variant = "rebase_noconv"
          THEN /\ type' = [type EXCEPT ![dom] = t]      \* forgets to convert the stored date
               /\ UNCHANGED <<date, dtsPts, crDts, rapCr>>
          ELSE SetDateEffect(dom, t, g)
       /\ Done(Op("Rebase", dom, t, Zero, TRUE, Absent))

DeleteDate(dom) ==
  /\ date' = [date EXCEPT ![dom] = Unset]
  /\ type' = [type EXCEPT ![dom] = TNone]
  /\ UNCHANGED <<dtsPts, crDts, rapCr>>
  /\ Done(Op("DeleteDate", dom, TNone, Zero, TRUE, Absent))

\* the stored word of a typed date is all-ones: add_date is Unspecified there
AddCollides(dom) == type[dom] # TNone /\ date[dom] = Unset

AddDate(dom, delta) ==
  /\ \/ /\ date[dom] # Unset
        /\ date' = [date EXCEPT ![dom] = Add(date[dom], delta)]
     \/ /\ date[dom] = Unset
        /\ type[dom] = TNone \/ AddAtUnset \in {"either", "noop"}
        /\ UNCHANGED date
     \/ /\ AddCollides(dom)
        /\ AddAtUnset \in {"either", "shift"}
        /\ date' = [date EXCEPT ![dom] = Add(date[dom], delta)]
  /\ UNCHANGED <<type, dtsPts, crDts, rapCr>>
  /\ Done(Op("AddDate", dom, TNone, delta, TRUE, Absent))

\* uref_clock_set_<delay>(v); storing the all-ones word is the same as deleting
SetDelay(w, v) ==
  /\ dtsPts' = IF w = "dtsPts" THEN v ELSE dtsPts
  /\ crDts'  = IF w = "crDts"  THEN v ELSE crDts
  /\ rapCr'  = IF w = "rapCr"  THEN v ELSE rapCr
  /\ UNCHANGED <<date, type>>
  /\ Done(Op("SetDelay", w, TNone, v, TRUE, Absent))

DeleteDelay(w) ==
  /\ dtsPts' = IF w = "dtsPts" THEN Unset ELSE dtsPts
  /\ crDts'  = IF w = "crDts"  THEN Unset ELSE crDts
  /\ rapCr'  = IF w = "rapCr"  THEN Unset ELSE rapCr
  /\ UNCHANGED <<date, type>>
  /\ Done(Op("DeleteDelay", w, TNone, Zero, TRUE, Absent))

\* uref_clock_set_rap_<dom>(rap): needs a readable cr, refuses rap > cr
SetRap(dom, rap) ==
  LET c == GetCr(dom) IN
  IF c = Absent \/ (Gt(rap, c) /\ Variant # "rap_after_cr")
  THEN UNCHANGED state /\ Done(Op("SetRap", dom, TRap, rap, FALSE, Absent))
  ELSE /\ rapCr' = Sub(c, rap)
       /\ UNCHANGED <<date, type, dtsPts, crDts>>
       /\ Done(Op("SetRap", dom, TRap, rap, TRUE, Absent))

\* uref_dup: continue with the copy ("copy") or with the original ("orig")
Dup(which) ==
  /\ IF Variant = "dup_drops_delay" /\ which = "copy"
     THEN crDts' = Unset /\ UNCHANGED <<date, type, dtsPts, rapCr>>
     ELSE UNCHANGED state
  /\ Done(Op("Dup", which, TNone, Zero, TRUE, Absent))

\* an operation on the SAME uref through another interface that shares its flags word with the date types:
\* setting, deleting or copying one of the void attributes kept in uref->flags (flow end / discontinuity /
\* random, block start / end, clock ref) - no date, no delay changes
Flags == {"set_disc", "del_disc", "del_end", "del_random", "set_start", "del_start", "del_ref", "copy_end",
          "copy_ref", "set_random"}
Flag(which) ==
  /\ IF Variant = "flag_clears_types"
     THEN type' = [d \in DOMAIN type |-> TNone] /\ date' = [d \in DOMAIN date |-> Unset]
          /\ UNCHANGED <<dtsPts, crDts, rapCr>>
     ELSE UNCHANGED state
  /\ Done(Op("Flag", which, TNone, Zero, TRUE, Absent))

\* observers are operations of the behaviour like any other
Get(dom, t) ==
  /\ UNCHANGED state
  /\ LET g == Getter(dom, t) IN Done(Op("Get", dom, t, Zero, g # Absent, g))

GetDelayOp(w) ==
  /\ UNCHANGED state
  /\ LET g == GetDelay(w) IN Done(Op("GetDelay", w, TNone, Zero, g # Absent, g))

-----------------------------------------------------------------------------
Init == /\ date = [d \in Doms |-> Unset]
        /\ type = [d \in Doms |-> TNone]
        /\ dtsPts = Unset /\ crDts = Unset /\ rapCr = Unset
        /\ steps = 0
        /\ last = Op("Init", "sys", TNone, Zero, TRUE, Absent)
        /\ hist = <<>>

More == steps < MaxSteps
KSetDate   == More /\ \E dom \in Doms, t \in SetTypes, v \in Palette : SetDate(dom, t, v)
KRebaseOk  == More /\ \E dom \in Doms, t \in SetTypes : Getter(dom, t) # Absent /\ Rebase(dom, t)
KRebaseErr == More /\ \E dom \in Doms, t \in SetTypes : Getter(dom, t) = Absent /\ Rebase(dom, t)
KDelete    == More /\ \E dom \in Doms : DeleteDate(dom)
KAdd       == More /\ \E dom \in Doms, v \in Palette : ~ AddCollides(dom) /\ AddDate(dom, v)
KAddUnspec == More /\ \E dom \in Doms, v \in Palette : AddCollides(dom) /\ AddDate(dom, v)
KSetDelay  == More /\ \E w \in Delays, v \in Palette : SetDelay(w, v)
KDelDelay  == More /\ \E w \in Delays : DeleteDelay(w)
KSetRapOk  == More /\ \E dom \in Doms, v \in Palette :
                         (IF GetCr(dom) = Absent THEN FALSE ELSE ~ Gt(v, GetCr(dom))) /\ SetRap(dom, v)
KSetRapErr == More /\ \E dom \in Doms, v \in Palette :
                         (IF GetCr(dom) = Absent THEN TRUE ELSE Gt(v, GetCr(dom))) /\ SetRap(dom, v)
KDup       == More /\ \E which \in {"copy", "orig"} : Dup(which)
KFlag      == More /\ \E which \in Flags : Flag(which)
KGet       == More /\ \E dom \in Doms, t \in GetTypes : Get(dom, t)
KGetDelay  == More /\ \E w \in Delays : GetDelayOp(w)

KRebase == KRebaseOk \/ KRebaseErr
KSetRap == KSetRapOk \/ KSetRapErr

\* (the split into Ok / Err / Unspec actions only serves the coverage report)
Next == \/ KGet \/ KGetDelay \/ KDup \/ KFlag \/ KRebaseOk \/ KRebaseErr \/ KDelDelay \/ KDelete
        \/ KAdd \/ KAddUnspec \/ KSetRapOk \/ KSetRapErr \/ KSetDelay \/ KSetDate

Spec == Init /\ [][Next]_vars

\* Behaviour generation (TLC -simulate): the same operations, but the KIND of
\* the next operation is drawn first (weights below) so that set_date, which
\* has by far the most instances, does not crowd out the others.
Kinds == <<"SetDate", "SetDate", "SetDate", "SetDate", "Rebase", "Rebase", "Rebase", "Rebase",
           "Add", "Add", "Delete", "SetDelay", "SetDelay", "SetDelay", "DelDelay",
           "SetRap", "SetRap", "Dup", "Flag", "Get", "GetDelay">>

Kind(k) == CASE k = "SetDate"  -> KSetDate
             [] k = "Rebase"   -> KRebase
             [] k = "Delete"   -> KDelete
             [] k = "Add"      -> KAdd \/ KAddUnspec
             [] k = "SetDelay" -> KSetDelay
             [] k = "DelDelay" -> KDelDelay
             [] k = "SetRap"   -> KSetRap
             [] k = "Dup"      -> KDup
             [] k = "Flag"     -> KFlag
             [] k = "Get"      -> KGet
             [] k = "GetDelay" -> KGetDelay

\* (the set depends on a variable only to keep TLC from evaluating the draw once
\* and for all).  After the last operation a single End step prints the
\* behaviour - calls and predicted results - as one JSON line.
KEnd == /\ steps = MaxSteps /\ last.op # "End"
        /\ last' = Op("End", "sys", TNone, Zero, TRUE, Absent)
        /\ UNCHANGED <<date, type, dtsPts, crDts, rapCr, steps, hist>>
        /\ PrintT(<<"BEH", ToJson([i \in 1 .. Len(hist) |->
                                      [c |-> hist[i].c, g |-> GettersOf(hist[i].s)]])>>)
GenNext == \/ \E i \in {RandomElement({j \in 1 .. Len(Kinds) : steps >= 0})} : Kind(Kinds[i])
           \/ KEnd
GenSpec == Init /\ [][GenNext]_vars

StepBound == steps <= MaxSteps

-----------------------------------------------------------------------------
(* Properties *)

TypeOK == /\ \A d \in Doms : IsWord(date[d]) /\ type[d] \in 0 .. 3
          /\ \A d \in Doms : type[d] = TNone => date[d] = Unset
          /\ IsWord(dtsPts) /\ IsWord(crDts) /\ IsWord(rapCr)
          /\ LET G == AllGetters IN \A i \in 1 .. 15 : G[i] = Absent \/ IsWord(G[i])

\* whichever of the three the date is stored as, the views that can be read agree
Algebra ==
  \A d \in Doms :
    LET c == GetCr(d)
        t == GetDts(d)
        p == GetPts(d)
        r == GetRap(d)
    IN /\ (c # Absent /\ t # Absent) => crDts # Unset /\ t = Add(c, crDts)
       /\ (t # Absent /\ p # Absent) => dtsPts # Unset /\ p = Add(t, dtsPts)
       /\ (r # Absent) => c # Absent /\ rapCr # Unset /\ c = Add(r, rapCr)

\* re-basing, reading and duplicating change no date (nor delay) that could be read before
Preserving == {"Rebase", "Get", "GetDelay", "Dup", "Flag"}
RebasePreserves ==
  [][ last'.op \in Preserving =>
        LET G == AllGetters
            H == AllGetters'
        IN \A i \in 1 .. 15 : G[i] # Absent => H[i] = G[i] ]_vars

\* a date set as one type reads back as the same value of that type
SetReadsBack ==
  [][ last'.op = "SetDate" =>
        \A d \in Doms, t \in SetTypes :
           (last'.dom = d /\ last'.ty = t) => Getter(d, t)' = last'.v ]_vars

\* a rap is recorded only at or before the cr (and then reads back, unless the
\* delay cr - rap collides with the unset word); a refusal changes nothing;
\* nothing else than set_rap and the delay accessors touches the rap delay
RapNotAfterCr ==
  [][ /\ last'.op = "SetRap" =>
           IF last'.ok
           THEN /\ GetCr(last'.dom) # Absent
                /\ ~ Gt(last'.v, GetCr(last'.dom))
                /\ rapCr' = Sub(GetCr(last'.dom), last'.v)
                /\ rapCr' # Unset => \A d \in Doms : last'.dom = d => GetRap(d)' = last'.v
                /\ UNCHANGED <<date, type, dtsPts, crDts>>
           ELSE UNCHANGED state
      /\ rapCr' # rapCr => last'.op \in {"SetRap", "SetDelay", "DeleteDelay", "Init"}
    ]_vars

=============================================================================
