\* merger, -simulate at real sizes: section sizes up to 4096, TS payloads <= 184 octets, interesting cut positions; runs emitted (the harness serialises them)
SPECIFICATION Spec
CONSTANTS
  Variant = "ok"
  Palette <- PalRealD
  MaxSecs = 4
  MaxRuns = 3
  MaxPay = 184
  AllCuts = FALSE
  Stuffs = {0, 1, 2, 50}
  Damage = {"disc", "drop", "bad"}
  MidStart = TRUE
  Record = TRUE
  Small = FALSE
INVARIANT WellFormed NoGarbage NoLoss Exact SyncAgree NextShape Emit
CHECK_DEADLOCK FALSE
