\* C20 behaviours for the replay: random scripts of 10 commands (TLC -simulate)
SPECIFICATION Spec
CONSTANTS
  Acc = {1, 2, 3}
  Rej = {4, 5}
  Default = 0
  Garbage = 99
  Unknown = 98
  MaxLen = 10
  MaxIn = 4
  Variant = "ok"
  EmitBeh = TRUE
INVARIANT TypeOK GetReturnsLast GetterNeutral RejectNeutral SameAnswers Emit
CHECK_DEADLOCK FALSE
