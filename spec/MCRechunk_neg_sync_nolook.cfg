\* NEGATIVE: output without look-ahead once acquired: CutInvariance must be violated
SPECIFICATION Spec
CONSTANTS
  ModeSet = {"sync"}
  AggMtuSet = {3, 4}
  InSizeSet = {0, 2}
  ChunkMtuSet = {3, 5}
  AlignSet = {1, 2, 3}
  PSizeSet = {3}
  NSyncSet = {2}
  CheckPSizeSet = {2, 3}
  LenAgg = 1
  LenChunk = 1
  LenSync = 8
  LenCheck = 1
  BufAgg = 5
  BufOther = 99
  MaxEmpty = 1
  MaxDisc = 0
  Twin = "canon"
  EarlyB = FALSE
  Variant = "sync_nolook"
VIEW View
INVARIANT Subsequence WholePackets Conservation UnitSize CutInvariance ReleaseTerminates AggSane NoOverrun UnitsAreSlices FlushHeadSync
CHECK_DEADLOCK FALSE
