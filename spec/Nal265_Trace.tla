---------------------------- MODULE Nal265_Trace ----------------------------
(***************************************************************************)
(* C17 (stage 3) - validation of recorded executions of the REAL H.265     *)
(* framer (lib/upipe-framers/upipe_h265_framer.c, Annex B input), produced *)
(* by harness/replay_nal_h265f.c, against the access units of the stream.  *)
(*                                                                         *)
(* The access units are DERIVED here from the octets (ITU-T H.265          *)
(* 7.4.2.4.4): the NAL units are delimited by the start codes (Annex B),   *)
(* the type is read in the NAL unit header (7.3.1.2), and the first of     *)
(*   an access unit delimiter, VPS, SPS, PPS, prefix SEI, a NAL unit of    *)
(*   type 41..44 or 48..55, or a slice segment with                        *)
(*   first_slice_segment_in_pic_flag = 1                                   *)
(* after the last VCL NAL unit of a picture starts a new access unit.  The *)
(* generator's own list of access units must be equal to the derived one   *)
(* (checked at Reset: two independent descriptions of the same rule).      *)
(*                                                                         *)
(* One TLC state per trace line; executions are separated by Reset (which  *)
(* carries the number `hid` of the execution).  Single pass: an event the  *)
(* specification does not accept puts <<hid, line>> into `bad` and the     *)
(* rest of that execution is skipped.                                      *)
(*  Reset k="h265"  {stream, aus, dims, dims2, out}  a stream written by   *)
(*        the reference bit-writer (dims: coded size, dims2: cropped size);*)
(*        aus = <<start, end, params>> of each                             *)
(*        access unit (params: it holds a VPS, an SPS and a PPS)           *)
(*  Reset k="h265d" {stream}   such a stream, one input buffer carries the *)
(*        discontinuity flag: the statement does not say which access      *)
(*        units survive; what is output must still be cut at NAL           *)
(*        boundaries: its stored offsets delimit its NAL units             *)
(*  Reset k="h265raw" {stream} arbitrary octets: no sanitizer report       *)
(*  Feed {n, d}             a piece of the stream given to the framer      *)
(*  Out  {b, l}             a buffer output by the framer: octets, stored  *)
(*                          NAL offsets                                    *)
(*  Fd   {hsize, vsize}     flow definition output by the framer           *)
(*  Ev   {name}             probe event                                    *)
(*  End                     the framer was released                        *)
(*  Abort a failed assert of the code under test: accepted on arbitrary    *)
(*        octets only;  San  a sanitizer report / crash / hang: never      *)
(*                                                                         *)
(* k="h265", every Out: it is exactly the next access unit (Subsequence:   *)
(* cut at NAL boundaries, stream order, no overlap; converted with Convert *)
(* of NalOps when another encapsulation was negotiated; an access unit     *)
(* delimiter may have been put in front of an access unit that has none),  *)
(* its stored offsets delimit its NAL units, nothing that was not input    *)
(* yet; End:                                                               *)
(* every access unit from the first one with parameter sets on was output. *)
(* Permissive where the statement is silent: the access units before the   *)
(* first parameter sets may be skipped, output one by one, or - what this  *)
(* framer does - left in front of the first access unit that can be        *)
(* decoded (from any NAL boundary on).                                     *)
(***************************************************************************)
EXTENDS NalOps, Json, IOUtils

Tr == ndJsonDeserialize(IOEnv.TRACE)

VARIABLES l,        \* next line of Tr
          kind,     \* "h265" | "h265d" | "h265raw" | "none"
          h,        \* [stream, aus, out, dims, next, fed, nals]
          skip, cur, bad
vars == <<l, kind, h, skip, cur, bad>>

---------------------------------------------------------------------------
(* Annex B: offsets (0-based) of the NAL units of an octet string: every
   start code 00 00 01, with the zero octet before it if there is one *)
RECURSIVE ScanStarts(_, _)
ScanStarts(bs, p) ==
  IF p + 2 > Len(bs) THEN <<>>
  ELSE IF bs[p] = 0 /\ bs[p + 1] = 0 /\ bs[p + 2] = 1
       THEN <<(IF p > 1 /\ bs[p - 1] = 0 THEN p - 2 ELSE p - 1)>> \o ScanStarts(bs, p + 3)
       ELSE ScanStarts(bs, p + 1)
NalStarts(bs) == ScanStarts(bs, 1)
AnnexbFrame(bs) == [S |-> RNorm(Lit(bs)), offs |-> Tail(NalStarts(bs)), enc |-> "annexb"]

(* 7.3.1.2: nal_unit_type is bits 1..6 of the first header octet; 7.3.6.1:
   first_slice_segment_in_pic_flag is the first bit of a slice segment *)
NalAt(bs, off) ==
  LET sc == IF bs[off + 1] = 0 /\ bs[off + 2] = 0 /\ bs[off + 3] = 1 THEN 3 ELSE 4
      hp == off + sc
  IN [off   |-> off,
      type  |-> IF hp + 1 <= Len(bs) THEN (bs[hp + 1] \div 2) % 64 ELSE 63,
      first |-> IF hp + 3 <= Len(bs) THEN bs[hp + 3] \div 128 ELSE 0]
NalsOf(bs) == LET st == NalStarts(bs) IN [i \in 1..Len(st) |-> NalAt(bs, st[i])]
IsVcl(t) == t < 32
Starter(t) == t \in ({32, 33, 34, 35, 39} \cup (41..44) \cup (48..55))
(* 7.4.2.4.4 *)
RECURSIVE AuStartsFrom(_, _, _)
AuStartsFrom(N, i, seen) ==
  IF i > Len(N) THEN <<>>
  ELSE LET n   == N[i]
           new == seen /\ (Starter(n.type) \/ (IsVcl(n.type) /\ n.first = 1))
       IN (IF new \/ i = 1 THEN <<n.off>> ELSE <<>>)
          \o AuStartsFrom(N, i + 1, IF new THEN IsVcl(n.type) ELSE (seen \/ IsVcl(n.type)))
DerivedAus(bs) ==
  LET N  == NalsOf(bs)
      st == AuStartsFrom(N, 1, FALSE)
      en(j) == IF j = Len(st) THEN Len(bs) ELSE st[j + 1]
      has(j, t) == \E i \in 1..Len(N) : N[i].type = t /\ N[i].off >= st[j] /\ N[i].off < en(j)
  IN [j \in 1..Len(st) |-> <<st[j], en(j), IF has(j, 32) /\ has(j, 33) /\ has(j, 34) THEN 1 ELSE 0>>]

---------------------------------------------------------------------------
H0 == [stream |-> <<>>, aus |-> <<>>, out |-> "annexb", dims |-> <<0, 0>>, dims2 |-> <<0, 0>>,
       next |-> 1, fed |-> 0, nals |-> <<>>]
HResetOK(e) ==
  /\ e.out \in EncsAll
  /\ Len(NalStarts(e.stream)) >= 1 /\ NalStarts(e.stream)[1] = 0
  /\ e.aus = DerivedAus(e.stream)       \* the generator cut the stream as 7.4.2.4.4 does

\* first access unit holding the parameter sets (0: none)
FirstParam == IF \E j \in 1..Len(h.aus) : h.aus[j][3] = 1
              THEN CHOOSE j \in 1..Len(h.aus) : h.aus[j][3] = 1 /\ \A i \in 1..(j - 1) : h.aus[i][3] = 0
              ELSE 0
\* what the framer must output for the octets s..t of the stream: these
\* octets (converted to the encapsulation asked for) with stored offsets
\* delimiting their NAL units.  (Annex B output is compared octet by octet;
\* the run notation of NalOps is only needed for Convert.)
UnitsP(offs, tot) ==        \* Units of NalOps over a plain octet count
  LET n == Len(offs)
      st(k) == IF k = 1 THEN 0 ELSE offs[k - 1]
      last == IF n = 0 THEN 0 ELSE offs[n]
      stored == [k \in 1..n |-> <<st(k), offs[k] - st(k)>>]
  IN IF tot > last THEN Append(stored, <<last, tot - last>>) ELSE stored
Expected(s, t) == Convert(AnnexbFrame(SubSeq(h.stream, s + 1, t)), h.out)
\* an access unit delimiter on its own (the framer puts one in front of an
\* access unit that has none: the NAL units of the stream are not touched)
IsAud(x) == Len(x) >= 5 /\ NalStarts(x) = <<0>> /\ NalAt(x, 0).type = 35
Shift(offs, n) == [k \in 1..Len(offs) |-> offs[k] + n]
Matches(e, s, t) ==
  IF h.out = "annexb"
  THEN LET bs == SubSeq(h.stream, s + 1, t)
           n  == IF e.l = <<>> THEN 0 ELSE e.l[1]
       IN \/ /\ e.b = bs
             /\ UnitsP(e.l, Len(bs)) = UnitsP(Tail(NalStarts(bs)), Len(bs))
          \/ /\ n > 0 /\ n < Len(e.b) /\ NalAt(bs, 0).type # 35
             /\ IsAud(SubSeq(e.b, 1, n))
             /\ SubSeq(e.b, n + 1, Len(e.b)) = bs
             /\ UnitsP(e.l, Len(e.b)) = UnitsP(<<n>> \o Shift(Tail(NalStarts(bs)), n), Len(e.b))
  ELSE LET x == Expected(s, t) IN
       /\ x # Err
       /\ RNorm(Lit(e.b)) = x.S
       /\ Units([S |-> x.S, offs |-> e.l, enc |-> x.enc]) = Units(x)
\* <<j, s>>: the output may be the octets from s to the end of access unit j
Options ==
  IF FirstParam = 0 \/ h.next > Len(h.aus) THEN {}
  ELSE IF h.next > FirstParam THEN {<<h.next, h.aus[h.next][1]>>}
  ELSE {<<j, h.aus[j][1]>> : j \in h.next..FirstParam}
       \cup {<<FirstParam, h.nals[i].off>> : i \in {i \in 1..Len(h.nals) :
                  /\ h.nals[i].off >= h.aus[h.next][1]
                  /\ h.nals[i].off < h.aus[FirstParam][1]}}
Fits(e, o) == /\ h.aus[o[1]][2] <= h.fed                  \* nothing that was not input yet
              /\ Matches(e, o[2], h.aus[o[1]][2])
\* cut at NAL boundaries, whatever was output
OffsetsDelimit(e) == UnitsP(e.l, Len(e.b)) = UnitsP(Tail(NalStarts(e.b)), Len(e.b))

Guard(e) ==
  CASE e.e = "Feed" -> /\ kind # "none" /\ e.n >= 0
                       /\ kind = "h265" => (h.fed + e.n <= Len(h.stream) /\ e.d = 0)
    [] e.e = "Out"  -> /\ kind # "none"
                       /\ kind = "h265" => \E o \in Options : Fits(e, o)
                       /\ kind = "h265d" => OffsetsDelimit(e)
    [] e.e = "Fd"   -> /\ kind # "none"
                       \* the coded size of the SPS, or that size cropped by its conformance window
                       /\ kind = "h265" => <<e.hsize, e.vsize>> \in {h.dims, h.dims2}
    [] e.e = "Ev"   -> /\ kind # "none"
                       /\ kind = "h265" => e.name \notin {"error", "fatal"}
    [] e.e = "End"  -> /\ kind # "none"
                       \* every access unit that follows the parameter sets was output
                       /\ kind = "h265" => /\ h.fed = Len(h.stream)
                                           /\ IF FirstParam = 0 THEN h.next = 1 ELSE h.next = Len(h.aus) + 1
    [] e.e = "Abort" -> kind = "h265raw"
    [] OTHER        -> FALSE                               \* San: never accepted
Effect(e) ==
  CASE e.e = "Feed" -> h' = [h EXCEPT !.fed = @ + e.n]
    [] e.e = "Out" /\ kind = "h265" ->
          LET js == {o[1] : o \in {o \in Options : Fits(e, o)}} IN
          h' = [h EXCEPT !.next = 1 + CHOOSE j \in js : \A i \in js : j <= i]
    [] OTHER        -> h' = h

ResetGuard(e) ==
  CASE e.k = "h265"    -> HResetOK(e)
    [] e.k = "h265d"   -> TRUE
    [] e.k = "h265raw" -> TRUE
    [] OTHER           -> FALSE
ResetEffect(e) ==
  /\ kind' = e.k
  /\ h' = [stream |-> e.stream,
           aus  |-> IF e.k = "h265" THEN e.aus ELSE <<>>,
           out  |-> IF e.k = "h265" THEN e.out ELSE "annexb",
           dims |-> IF e.k = "h265" THEN e.dims ELSE <<0, 0>>,
           dims2 |-> IF e.k = "h265" THEN e.dims2 ELSE <<0, 0>>,
           next |-> 1, fed |-> 0,
           nals |-> IF e.k = "h265" THEN NalsOf(e.stream) ELSE <<>>]

TStep ==
  /\ l <= Len(Tr) /\ l' = l + 1
  /\ LET ev == Tr[l] IN
     IF ev.e = "Reset"
     THEN /\ cur' = ev.hid
          /\ IF ResetGuard(ev)
             THEN ResetEffect(ev) /\ skip' = FALSE /\ bad' = bad
             ELSE UNCHANGED <<kind, h>> /\ skip' = TRUE /\ bad' = bad \cup {<<ev.hid, l>>}
     ELSE IF skip THEN UNCHANGED <<kind, h, skip, cur, bad>>
     ELSE IF Guard(ev) THEN Effect(ev) /\ UNCHANGED <<kind, skip, cur, bad>>
     ELSE skip' = TRUE /\ bad' = bad \cup {<<cur, l>>} /\ UNCHANGED <<kind, h, cur>>

TInit == l = 1 /\ kind = "none" /\ h = H0 /\ skip = FALSE /\ cur = 0 /\ bad = {}
TSpec == TInit /\ [][TStep]_vars

\* the access units the specification works with tile the stream, in order
AusSound == (kind = "h265" /\ ~skip) =>
               /\ Len(h.aus) >= 1 /\ h.aus[1][1] = 0 /\ h.aus[Len(h.aus)][2] = Len(h.stream)
               /\ \A j \in 1..Len(h.aus) : /\ h.aus[j][1] < h.aus[j][2]
                                           /\ j > 1 => h.aus[j][1] = h.aus[j - 1][2]
               /\ h.next \in 1..(Len(h.aus) + 1) /\ h.fed <= Len(h.stream)

Report == (l = Len(Tr) + 1) => PrintT(<<"TRACE_BAD", bad>>)
Accepted == LET d == TLCGet("stats").diameter IN
            IF d - 1 = Len(Tr) THEN PrintT(<<"TRACE_ACCEPTED", Len(Tr)>>)
                               ELSE PrintT(<<"TRACE_REJECTED_AT", d>>)
=============================================================================
