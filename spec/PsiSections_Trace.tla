--------------------------- MODULE PsiSections_Trace ---------------------------
(***************************************************************************)
(* C16 - validation of recorded executions of the REAL upipe_ts_psi_merge, *)
(* upipe_ts_psi_split and upipe_ts_psi_join (harness/replay_psi.c) against *)
(* the ABSTRACT definitions of PsiSectionsBase.tla - the very operators    *)
(* (WellFormedPay, AbsPay, Corrupt, MatchClass) the detailed models of     *)
(* PsiSections.tla / PsiSectionsRoute.tla are checked against.             *)
(*                                                                         *)
(* One TLC state per trace line; executions are separated by Reset.        *)
(*   Reset  {pipe, secs, mid, maxpay}  secs[k] = <<len, tid, syn, ff, bad>> *)
(*   Pay    {st, di, dr, ptr, runs, stuff, n, out}                         *)
(*            one TS payload: runs[i] = <<k, a, b>>; dr = 1: the payload    *)
(*            was lost before the merger (not input); n = its size as       *)
(*            serialised; out = what the merger output during this input:   *)
(*            k if the octets are exactly section k, 0 otherwise            *)
(*   End    {}                         end of the stream                   *)
(*   AddOut {o, n, f, m, r} / DelOut {o} / SSec {k, del, mod}               *)
(*   JAdd {i, r} / JDel {i} / JSec {i, k, out, mod}                         *)
(*   JFd {i, r, refused}   set_flow_def on input i answered r (refused = the*)
(*                         number of allocations refused during the call)  *)
(*   San    {...}                      sanitizer report: no action accepts  *)
(*                                                                         *)
(* The conditions on the INPUT of the pipes (well-formed cutting, a lost    *)
(* payload is followed by a flagged one, ports exist) are enabling          *)
(* conditions: a script that breaks them is refused as a whole (tool        *)
(* error, not a verdict).  The PROPERTY is in the invariants:               *)
(*   MergerSafe      everything output so far is an intact, valid section,  *)
(*                   in the order of the stream, each at most once          *)
(*   MergerComplete  at the end, every section that had to be output        *)
(*                   (AbsPay: received in a row since a synchronisation     *)
(*                   point; resynchronisation at the next unit start after  *)
(*                   corrupt or missing data) has been output               *)
(*   SplitDeliver    each section went, unmodified, exactly to the present  *)
(*                   outputs whose filter and mask match its leading octets *)
(*   JoinForward     each section given to an input came out once,          *)
(*                   unmodified, at once                                    *)
(* The statement does not say WHEN the merger outputs a section: only the   *)
(* order is judged during the stream, completeness at its end.              *)
(***************************************************************************)
EXTENDS PsiSectionsBase, TLC, Json, IOUtils

Tr == ndJsonDeserialize(IOEnv.TRACE)

VARIABLES l, pipe, secs, maxpay,
          done, off, pdisc,        \* position of the stream, a payload was lost
          sync, cur, must, out, ended,
          present, sok,            \* splitter: outputs present [o, n, fb, mb]; verdict
          jins, jok                \* joiner: inputs present; verdict
vars == <<l, pipe, secs, maxpay, done, off, pdisc, sync, cur, must, out, ended, present, sok, jins, jok>>

DescOf(k) == LET s == secs[k] IN
             [k |-> k, len |-> s[1], tid |-> s[2], syn |-> s[3], ff |-> s[4], bad |-> s[5]]
IsEv(e) == l <= Len(Tr) /\ Tr[l].e = e /\ l' = l + 1

TReset ==
    /\ IsEv("Reset")
    /\ LET e == Tr[l] IN
       /\ pipe' = e.pipe /\ secs' = e.secs
       /\ maxpay' = IF e.pipe = "merge" THEN e.maxpay ELSE 0
       /\ off' = IF e.pipe = "merge" THEN e.mid ELSE 0
    /\ done' = 0 /\ pdisc' = FALSE
    /\ sync' = FALSE /\ cur' = 0 /\ must' = <<>> /\ out' = <<>> /\ ended' = FALSE
    /\ present' = {} /\ sok' = TRUE /\ jins' = {} /\ jok' = TRUE

Ends1(r) == IF r.b = r.d.len THEN 1 ELSE 0
RECURSIVE CountEnds(_)
CountEnds(rs) == IF rs = <<>> THEN 0 ELSE Ends1(Head(rs)) + CountEnds(Tail(rs))

\* the flow definition again, between two payloads: it is not data, the section being assembled goes on
TMFd ==
    /\ IsEv("MFd") /\ pipe = "merge" /\ ~ended /\ Tr[l].r = 0
    /\ UNCHANGED <<pipe, secs, maxpay, done, off, pdisc, sync, cur, must, out, ended, present, sok, jins, jok>>

TPay ==
    /\ IsEv("Pay") /\ pipe = "merge" /\ ~ended
    /\ LET e == Tr[l] IN
       /\ \A i \in 1..Len(e.runs) : e.runs[i][1] \in 1..Len(secs)
       /\ LET runs == [i \in 1..Len(e.runs) |-> R(DescOf(e.runs[i][1]), e.runs[i][2], e.runs[i][3])]
              p    == [start |-> e.st = 1, disc |-> e.di = 1, ptr |-> e.ptr, runs |-> runs, stuff |-> e.stuff]
              lr   == runs[Len(runs)]
          IN /\ WellFormedPay(p, done, off, maxpay)            \* the script is a well-formed cutting
             /\ (pdisc /\ e.dr = 0) => e.di = 1                \* a gap is flagged on the next payload
             /\ done' = done + CountEnds(runs)
             /\ off' = IF lr.b = lr.d.len THEN 0 ELSE lr.b
             /\ IF e.dr = 1
                THEN /\ e.out = <<>>
                     /\ pdisc' = TRUE
                     /\ UNCHANGED <<sync, cur, must, out>>
                ELSE /\ e.n = PSize(p)                         \* the harness serialised what the script describes
                     /\ IF e.rf > 0
                        \* an allocation was refused inside the merger during this payload: its data is missing
                        \* (and so is the section that was being assembled) - nothing of it is due, the merger
                        \* has to resynchronise at the next unit start; what it did output is still judged
                        THEN sync' = FALSE /\ cur' = 0 /\ must' = must
                        ELSE LET ab == AbsPay(p, sync, cur) IN
                             sync' = ab.sync /\ cur' = ab.cur /\ must' = must \o ab.must
                     /\ out' = out \o e.out
                     /\ pdisc' = FALSE
    /\ UNCHANGED <<pipe, secs, maxpay, ended, present, sok, jins, jok>>

TEnd ==
    /\ IsEv("End") /\ ~ended
    /\ ended' = TRUE
    /\ UNCHANGED <<pipe, secs, maxpay, done, off, pdisc, sync, cur, must, out, present, sok, jins, jok>>

(***************************************************************************)
(* Splitter                                                                *)
(***************************************************************************)
PortsOf(S) == {x.o : x \in S}
Count(seq, x) == Cardinality({i \in 1..Len(seq) : seq[i] = x})

TAddOut ==
    /\ IsEv("AddOut") /\ pipe = "split" /\ ~ended
    /\ LET e == Tr[l] IN
       /\ e.o \notin PortsOf(present) /\ e.r = 0
       /\ e.n = Len(e.f) /\ e.n = Len(e.m) /\ e.n >= 1
       /\ present' = present \cup {[o |-> e.o, n |-> e.n, fb |-> e.f, mb |-> e.m]}
    /\ UNCHANGED <<pipe, secs, maxpay, done, off, pdisc, sync, cur, must, out, ended, sok, jins, jok>>

TDelOut ==
    /\ IsEv("DelOut") /\ pipe = "split" /\ ~ended
    /\ Tr[l].o \in PortsOf(present)
    /\ present' = {x \in present : x.o # Tr[l].o}
    /\ UNCHANGED <<pipe, secs, maxpay, done, off, pdisc, sync, cur, must, out, ended, sok, jins, jok>>

TSSec ==
    /\ IsEv("SSec") /\ pipe = "split" /\ ~ended
    /\ LET e == Tr[l] IN
       /\ e.k \in 1..Len(secs)
       /\ LET d == DescOf(e.k) IN
          /\ WFDesc(d)
          /\ sok' = /\ sok
                    /\ e.mod = <<>>                                        \* unmodified
                    /\ \A i \in 1..Len(e.del) : e.del[i] \in PortsOf(present)  \* only outputs present now
                    /\ \A x \in present :
                          LET c == MatchClass(d, x)
                              n == Count(e.del, x.o)
                          IN /\ c = "yes" => n = 1
                             /\ c = "no" => n = 0
                             /\ n <= 1
    /\ UNCHANGED <<pipe, secs, maxpay, done, off, pdisc, sync, cur, must, out, ended, present, jins, jok>>

(***************************************************************************)
(* Joiner                                                                  *)
(***************************************************************************)
TJAdd ==
    /\ IsEv("JAdd") /\ pipe = "join" /\ ~ended
    /\ Tr[l].i \notin jins /\ Tr[l].r = 0
    /\ jins' = jins \cup {Tr[l].i}
    /\ UNCHANGED <<pipe, secs, maxpay, done, off, pdisc, sync, cur, must, out, ended, present, sok, jok>>

TJDel ==
    /\ IsEv("JDel") /\ pipe = "join" /\ ~ended
    /\ Tr[l].i \in jins
    /\ jins' = jins \ {Tr[l].i}
    /\ UNCHANGED <<pipe, secs, maxpay, done, off, pdisc, sync, cur, must, out, ended, present, sok, jok>>

\* a flow definition update, applied or not, leaves the input in place
TJFd ==
    /\ IsEv("JFd") /\ pipe = "join" /\ ~ended
    /\ Tr[l].i \in jins
    /\ UNCHANGED <<pipe, secs, maxpay, done, off, pdisc, sync, cur, must, out, ended, present, sok, jins, jok>>

TJSec ==
    /\ IsEv("JSec") /\ pipe = "join" /\ ~ended
    /\ LET e == Tr[l] IN
       /\ e.i \in jins /\ e.k \in 1..Len(secs) /\ WFDesc(DescOf(e.k))
       /\ jok' = (jok /\ e.out = <<e.k>> /\ e.mod = 0)
    /\ UNCHANGED <<pipe, secs, maxpay, done, off, pdisc, sync, cur, must, out, ended, present, sok, jins>>

TInit == /\ l = 1 /\ pipe = "none" /\ secs = <<>> /\ maxpay = 0 /\ done = 0 /\ off = 0 /\ pdisc = FALSE
         /\ sync = FALSE /\ cur = 0 /\ must = <<>> /\ out = <<>> /\ ended = FALSE
         /\ present = {} /\ sok = TRUE /\ jins = {} /\ jok = TRUE
TNext == TReset \/ TMFd \/ TPay \/ TEnd \/ TAddOut \/ TDelOut \/ TSSec \/ TJAdd \/ TJDel \/ TJFd \/ TJSec
TSpec == TInit /\ [][TNext]_vars

(***************************************************************************)
(* The property                                                            *)
(***************************************************************************)
MergerSafe ==
    \A i \in 1..Len(out) :
       /\ out[i] \in 1..Len(secs)
       /\ ~Corrupt(DescOf(out[i]))
       /\ i > 1 => out[i - 1] < out[i]
MergerComplete ==
    ended => \A j \in 1..Len(must) : \E i \in 1..Len(out) : out[i] = must[j]
SplitDeliver == sok
JoinForward == jok

Accepted == LET d == TLCGet("stats").diameter IN
            IF d - 1 = Len(Tr) THEN PrintT(<<"TRACE_ACCEPTED", Len(Tr)>>)
                               ELSE PrintT(<<"TRACE_REJECTED_AT", d>>)
=============================================================================
