SPECIFICATION Spec
CONSTANTS
 Setups <- S_tblk
 Acts <- A_tblk
 Bufs <- B_one
 MaxSteps = 4
 MaxIn = 3
 Variant = "ok"
 CheckEpi = FALSE
INVARIANT Emit
CHECK_DEADLOCK FALSE
