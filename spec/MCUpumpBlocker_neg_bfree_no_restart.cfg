\* C13 negative configuration: deliberately broken variant bfree_no_restart, TLC must reject it
SPECIFICATION Spec
CONSTANTS
  Blockers = {1, 2, 3}
  Kinds = {"idler", "fd", "timer", "oneshot"}
  Variant = "bfree_no_restart"
  EmitEdges = FALSE
INVARIANT TypeOK ActiveIff ExpiredOnlyOneShot FreedIsFinal FreeNotifiesAll
INVARIANT NoCallbackWhenInactive PollFiresWhenActive GetStatusReturns
CHECK_DEADLOCK FALSE
