\* coverage guard (run with -coverage 1): constants included in those of g_q/g_t; every action must be taken
SPECIFICATION Spec
CONSTANTS
  Mode = "G"
  Variant = "ok"
  Leads = {0, 3}
  Ks = {0, 7, 24, 31}
  K2s = {0}
  Reps = {"min", "max", "alt"}
  Kinds = {"ue", "se"}
  Alphabet = {0}
  MaxLen = 0
INVARIANT TypeOK NoUB CodecInverse EscInverse ReadOK OvSound
VIEW View
CHECK_DEADLOCK FALSE
