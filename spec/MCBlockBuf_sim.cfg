\* simulation: random behaviours, every call with its predicted result
SPECIFICATION MCSpec
CONSTANTS
  Handles = {0, 1, 2, 3}
  Fill = 14
  Strict = TRUE
  KeepHist = TRUE
  Bug = "none"
  Pre = 2
  MaxLen = 12
  MaxWins = 8
  Depth = 10
  PatSet = "sim"
  InitSet = "one"
  ObsLast = FALSE
  Rand = TRUE
  Letters = {0, 1, 2}
  LastOps = {}
  LastSz = {}
  Dom = "all"
  Ops = {"alloc", "dup", "splice", "split", "copy", "merge", "append", "insert", "delete", "truncate", "resize", "prepend", "wmap", "poke", "free", "size", "read", "rd1", "peek", "extract", "iovec", "slin", "scan", "find", "compare", "equal", "match"}
INVARIANT Emit
CONSTRAINT Bounded
CHECK_DEADLOCK FALSE
