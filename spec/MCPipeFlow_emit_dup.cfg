SPECIFICATION Spec
CONSTANTS
 Setups <- S_dup
 Acts <- A_dup
 Bufs <- B_one
 MaxSteps = 3
 MaxIn = 2
 Variant = "ok"
 CheckEpi = FALSE
INVARIANT Emit
CHECK_DEADLOCK FALSE
