\* NEGATIVE: ubits_put as found in the tree (shift by `available` unguarded): TLC must reach the undefined shift (NoUB)
SPECIFICATION Spec
CONSTANTS
  Mode = "W"
  Variant = "s5"
  Widths = {1, 7, 8, 9, 24, 31, 32}
  Kinds = {"ones", "alt", "zero"}
  MaxFields = 3
  MaxCap = 13
  MaxSize = 0
  MaxSeg = 1
  Pats = {"tex"}
  NearCap = FALSE
VIEW ViewW
INVARIANT TypeOK NoUB InBounds RefInv OvSound CleanOK Untouched
CHECK_DEADLOCK FALSE
