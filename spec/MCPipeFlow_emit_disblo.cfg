SPECIFICATION Spec
CONSTANTS
 Setups <- S_disblo
 Acts <- A_disblo
 Bufs <- B_one
 MaxSteps = 4
 MaxIn = 3
 Variant = "ok"
 CheckEpi = FALSE
INVARIANT Emit
CHECK_DEADLOCK FALSE
