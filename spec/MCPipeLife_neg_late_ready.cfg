SPECIFICATION Spec
CONSTANTS
  NP = 1
  NS = 2
  Variant = "late_ready"
  EmitEdges = FALSE
  OptModes = {TRUE, FALSE}
VIEW View
INVARIANTS TypeOK ReadyFirst DeadOnce DeadLast FlowDefBeforeData NoDataWhileRejected
CHECK_DEADLOCK FALSE
