\* vacuity guard: every call is enabled and produces successors from the initial states (run with -coverage)
SPECIFICATION MCSpec
CONSTANTS
  Handles = {0, 1, 2}
  Fill = 14
  Strict = TRUE
  KeepHist = FALSE
  Bug = "none"
  Pre = 2
  MaxLen = 8
  MaxWins = 5
  Depth = 1
  PatSet = "c02"
  InitSet = "two"
  ObsLast = FALSE
  Rand = FALSE
  Letters = {0, 1}
  LastOps = {}
  LastSz = {}
  Dom = "all"
  Ops = {"alloc", "dup", "splice", "split", "copy", "merge", "append", "insert", "delete", "truncate", "resize", "prepend", "wmap", "poke", "free"}
INVARIANT TypeOK ByteString FreshSingle
PROPERTY Isolation WriteOnlySingle StructuralOpsDontWrite SharedNeverWritten ErrLeavesUnchanged
CONSTRAINT Bounded
CHECK_DEADLOCK FALSE
