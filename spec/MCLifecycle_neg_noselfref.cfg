SPECIFICATION Spec
CONSTANTS
  TopoName = "qs"
  Variant = "noselfref"
  QLen = 1
  MaxHeld = 2
  MaxCmds = 0
  MinCmds = 0
  EmitBeh = FALSE
INVARIANTS RcIsHolders
VIEW View
POSTCONDITION Cov
CHECK_DEADLOCK FALSE
