SPECIFICATION Spec
CONSTANTS
  Reqs = {"r0", "r1"}
  Inners = {"i0", "i1"}
  AnsChoices = {{}, {"i1"}}
  ProbeChoices = {TRUE, FALSE}
  Variant = "code"
  MaxSteps = 9
INVARIANTS TypeOK Placement NoDeadWithRegs
PROPERTY NoStaleAnswer
CHECK_DEADLOCK FALSE
