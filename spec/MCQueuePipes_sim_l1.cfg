SPECIFICATION Spec
CONSTANTS
  L = 1
  Prog <- P_Aifir
  FreeLen = 9
  Variant = "code"
INVARIANT InOrderOnce FlowDefFirst HoldNotDrop SourceEndLast Emit
CHECK_DEADLOCK FALSE
