\* C12 NEGATIVE: set_output does not re-issue the requests to the new output
SPECIFICATION Spec
CONSTANTS
  Scenarios <- ScnOnlyA
  Variant = "setout_no_reissue"
  EmitEdges = FALSE
  Idle = FALSE
  MaxGen = 2
  MaxChan = 2
  MaxPath = 0
CONSTRAINT Bound
VIEW ViewCore
INVARIANT TypeOK PathInv OneEntry
PROPERTY StepNoCallbackAfterUnregister StepNoSinkFreedWithRegs StepReachesProvide StepReachesRunA StepReachesProbe
CHECK_DEADLOCK FALSE
