------------------------------ MODULE MCUring ------------------------------
(* Model-checking configurations (client programs) for Uring.tla; generated list,
   the shapes were chosen by model mutations (DESIGN.md C07). *)
EXTENDS Uring
P_P_P_pp == << <<"P">>, <<"P">>, <<"p","p">> >>
P_PP_PPp == << <<"P","P">>, <<"P","P","p">> >>
P_PPp_pPp == << <<"P","P","p">>, <<"p","P","p">> >>
P_PPp_pPp_p == << <<"P","P","p">>, <<"p","P","p">>, <<"p">> >>
P_PPpp_pp == << <<"P","P","p","p">>, <<"p","p">> >>
P_Pp_Pp == << <<"P","p">>, <<"P","p">> >>
P_Pp_Pp_p == << <<"P","p">>, <<"P","p">>, <<"p">> >>
P_Pp_p_P == << <<"P","p">>, <<"p">>, <<"P">> >>
P_PpP_pPp == << <<"P","p","P">>, <<"p","P","p">> >>
=============================================================================
