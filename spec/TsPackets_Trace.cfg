SPECIFICATION TSpec
INVARIANT NoExcess DupOnce
POSTCONDITION Accepted
CHECK_DEADLOCK FALSE
