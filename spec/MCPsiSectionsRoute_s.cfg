\* splitter, exhaustive: 3 ports, 6 filters, 5 sections, <= 3 additions/releases, 2 sections; no history
SPECIFICATION Spec
CONSTANTS
  Mode = "S"
  Variant = "ok"
  SecPal <- SecsS
  FilPal <- FilsS
  Ports = {1, 2, 3}
  MaxOps = 3
  MaxIn = 2
  Record = FALSE
INVARIANT DeliverIff
CHECK_DEADLOCK FALSE
