--------------------------- MODULE BinInput_Trace ---------------------------
(***************************************************************************)
(* C12 - single-pass validation of recorded executions of a bin pipe built  *)
(* from the repository's helper macros (harness/replay_bininput.c:          *)
(* UPIPE_HELPER_INNER + UPIPE_HELPER_BIN_INPUT) against BinInput.tla.       *)
(* Events: Reset(hid, answering, probe) / Reg(r) / Unreg(r) / Store(x) /    *)
(* Provide(i, r) / Drop(i), each with evs = what the recording inner pipes, *)
(* the probe and the requesters' call-backs saw during the command.  A      *)
(* command is accepted iff the action of BinInput is enabled and predicts   *)
(* exactly these events; the statement is evaluated on every accepted step. *)
(***************************************************************************)
EXTENDS Naturals, Sequences, FiniteSets, TLC, Json, IOUtils
Tr == ndJsonDeserialize(IOEnv.TRACE)
Reqs == {"r0", "r1", "r2"}
Inners == {"i0", "i1", "i2"}
MaxSteps == 1000000
Variant == "code"
AnsChoices == SUBSET Inners
ProbeChoices == BOOLEAN
VARIABLES list, first, at, held, dead, obs, steps, Answering, ProbeAnswers
M == INSTANCE BinInput
VARIABLES l, skip, cur, bad
mvars == <<list, first, at, held, dead, obs, steps, Answering, ProbeAnswers>>
vars == <<l, mvars, skip, cur, bad>>

ToSet(s) == {s[k] : k \in 1..Len(s)}
Act(ev) ==
  /\ CASE ev.e = "Reg" -> M!Reg(ev.r)
       [] ev.e = "Unreg" -> M!Unreg(ev.r)
       [] ev.e = "Store" -> M!Store(ev.x)
       [] ev.e = "Provide" -> M!Provide(ev.i, ev.r)
       [] ev.e = "Drop" -> M!Drop(ev.i)
       [] OTHER -> FALSE
  /\ obs' = ToSet(ev.evs)
  /\ steps' = steps + 1
  /\ UNCHANGED <<Answering, ProbeAnswers>>
  \* the statement, on the state reached and on the step
  /\ M!Placement' /\ M!NoDeadWithRegs'
  /\ \A e \in obs' : e[1] = "cb" => (e[3] \in list' /\ e[2] = first')

TStep ==
  /\ l <= Len(Tr) /\ l' = l + 1
  /\ LET ev == Tr[l] IN
     IF ev.e = "Reset"
     THEN /\ list' = {} /\ first' = M!None /\ at' = [i \in Inners |-> {}] /\ held' = Inners /\ dead' = {}
          /\ obs' = {} /\ steps' = 0 /\ Answering' = ToSet(ev.answering) /\ ProbeAnswers' = ev.probe
          /\ skip' = FALSE /\ cur' = ev.hid /\ bad' = bad
     ELSE IF skip THEN UNCHANGED <<mvars, skip, cur, bad>>
     ELSE IF ENABLED Act(ev) THEN Act(ev) /\ UNCHANGED <<skip, cur, bad>>
     ELSE skip' = TRUE /\ bad' = bad \cup {<<cur, l>>} /\ UNCHANGED <<mvars, cur>>
TInit == /\ l = 1 /\ list = {} /\ first = M!None /\ at = [i \in Inners |-> {}] /\ held = Inners /\ dead = {}
         /\ obs = {} /\ steps = 0 /\ Answering = {} /\ ProbeAnswers = FALSE
         /\ skip = FALSE /\ cur = 0 /\ bad = {}
TSpec == TInit /\ [][TStep]_vars
Report == (l = Len(Tr) + 1) => PrintT(<<"TRACE_BAD", bad>>)
Accepted == LET d == TLCGet("stats").diameter IN
            IF d - 1 = Len(Tr) THEN PrintT(<<"TRACE_ACCEPTED", Len(Tr)>>)
                               ELSE PrintT(<<"TRACE_REJECTED_AT", d>>)
=============================================================================
