SPECIFICATION Spec
CONSTANTS
  Prog <- P_R_R
  Variant = "nonatomic"
INVARIANT DestroyAtMostOnce NotWhileHeld DestroyedAtEnd
VIEW view
CHECK_DEADLOCK FALSE
