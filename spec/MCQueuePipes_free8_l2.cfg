SPECIFICATION Spec
CONSTANTS
  L = 2
  Prog <- P_Aifir
  FreeLen = 8
  Variant = "code"
INVARIANT InOrderOnce FlowDefFirst HoldNotDrop SourceEndLast
VIEW view
CHECK_DEADLOCK FALSE
