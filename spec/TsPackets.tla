------------------------------ MODULE TsPackets ------------------------------
(***************************************************************************)
(* C15 - TS and PES packetisation round-trips payload, timing and          *)
(* continuity.                                                             *)
(*                                                                         *)
(* Octet layouts are NOT modelled (they are judged by the reference        *)
(* serializer / parser of harness/replay_ts.c, written from ISO/IEC        *)
(* 13818-1); the module is about sequencing and conservation:              *)
(*                                                                         *)
(* abstract TS packet   [cc, pusi, afc, af, disc, rai, pcr, pay]           *)
(*    afc  adaptation_field_control (1 payload, 2 adaptation field only,   *)
(*         3 both), af = adaptation_field_length (-1: no field),           *)
(*    disc / rai / pcr  flags of the adaptation field, pay = identity of   *)
(*    the payload (0: none); the payload length follows from afc / af.     *)
(* abstract access unit [n, k, pts, dts, rap, disc, pad, hp]               *)
(*    n octets, k in "none" | "pts" | "both" (time stamps present),        *)
(*    pad: an adaptation-field-only packet is sent before it,              *)
(*    hp: stuffing octets in the PES header (mode P).                      *)
(*                                                                         *)
(* PART A (abstract): what the statement says about a decapsulator.        *)
(*   AClass     "out"  the packet carries payload that must be delivered   *)
(*              "none" nothing may be delivered (no payload; the one legal *)
(*                     duplicate of the previous packet)                   *)
(*              "any"  the statement is silent (third copy; same counter   *)
(*                     with another payload = exactly 16 packets missing)  *)
(*   AGap / ANeed  the counter of a packet is not the one expected after   *)
(*              the previous packet of the PID (a packet without payload   *)
(*              does not advance the counter); the gap stays pending until *)
(*              the next delivered payload, which must be flagged          *)
(*   TsOK       time stamps after the round trip, in the units the pipes   *)
(*              use: dtsOut = Scale * ((dtsIn div Scale) mod Mod), and     *)
(*              ptsOut - dtsOut = Scale * ((pts' - dts') mod Mod)          *)
(*              (Scale = 300, Mod = 2^33 in the code; small values here)   *)
(*                                                                         *)
(* PART B (detailed): transcriptions of                                    *)
(*   DStep      upipe_ts_decaps_input (last_cc, last_uref comparison,      *)
(*              discontinuity, adaptation field checks)                    *)
(*   Pkts/Wire  upipe_ts_encaps_build_ts + upipe_ts_encaps_complete for an *)
(*              aligned PES (header sizes, stuffing by adaptation field,   *)
(*              counter), HdrKind = upipe_ts_encaps_pes_header_size        *)
(*   PStep/PTry upipe_ts_pesd_input / upipe_ts_pesd_decaps at octet-count  *)
(*              level (next_uref accumulation, drop flag)                  *)
(*                                                                         *)
(* Properties (INVARIANTs):                                                *)
(*   PayloadExact  delivered <=> carried, and what is delivered is the     *)
(*                 payload of that packet                 (mode D)         *)
(*   CcRule        a pending gap => the delivered payload is flagged       *)
(*   Markers       unit start / random access copied       (mode D)        *)
(*   CcRuleEnc     emitted counters advance by one per payload-carrying    *)
(*                 packet, not at all otherwise            (mode R)        *)
(*   PacketizeOK   emitted packets are well formed and carry the PES       *)
(*   RoundTrip     every access unit comes back: octet count, order, unit  *)
(*                 start, random access, discontinuity, time stamps        *)
(*                                                          (modes R, P)   *)
(*                                                                         *)
(* Mode "D"  TLC chooses packet sequences (counter patterns next / same /  *)
(*           gap, adaptation shapes, payload identities)                   *)
(*      "R"  TLC chooses access units; they are encapsulated, sent over a  *)
(*           loss-free wire, decapsulated by DStep then PStep              *)
(*      "P"  TLC chooses PES packets and how they are cut into chunks      *)
(*           (one chunk may be lost)                                       *)
(* Variant "ok"    what the property needs: a discontinuity seen on a      *)
(*                 packet without payload is remembered for the next       *)
(*                 output                                                  *)
(*         "tree"  upipe_ts_decaps.c as found: that discontinuity is lost  *)
(*         "neg_*" deliberately broken variants (negative configurations)  *)
(***************************************************************************)
EXTENDS Naturals, Integers, Sequences, FiniteSets, TLC, Json

CONSTANTS Mode, Variant,
          MaxPkts, Pays, AfKinds, Deltas, FirstCcs,            \* mode D
          MaxAus, AuSizes, TsKs, Stamps, Gaps, FlagKinds, Pads, \* modes R, P
          Scale, Mod, MaxDelay, Cuts, HdrPads, MayLose

VARIABLES n,      \* steps taken
          ds,     \* detailed decapsulator  [lastCc, lastPay, pend]
          as,     \* abstract decapsulator  [last, lastPay, pend, dupd, prevOrig]
          last,   \* last step of mode D    [pkt, out, cls, need]
          hist,   \* mode D: packets and outputs so far (hidden by ViewD)
          r       \* modes R / P
vars == <<n, ds, as, last, hist, r>>

---------------------------------------------------------------------------
(* packets *)
HasPay(p)   == p.afc \in {1, 3}
HasAf(p)    == p.afc \in {2, 3}
HasFlags(p) == HasAf(p) /\ p.af >= 1
PLen(p)     == IF ~HasPay(p) THEN 0 ELSE IF p.afc = 1 THEN 184 ELSE 183 - p.af
PayId(p)    == <<p.pay, PLen(p)>>
NoPay       == <<0, 0>>
NoOut       == [pay |-> NoPay, disc |-> FALSE, rap |-> FALSE, start |-> FALSE]
IsOut(o)    == o.pay # NoPay
\* ISO/IEC 13818-1 2.4.3.2 / 2.4.3.4
WellFormed(p) == /\ p.cc \in 0..15
                 /\ p.afc \in {1, 2, 3}
                 /\ (p.afc = 1 => p.af = -1)
                 /\ (p.afc = 2 => p.af = 183)
                 /\ (p.afc = 3 => p.af \in 0..182)
                 /\ (p.pcr => p.af >= 7)
                 /\ ((p.disc \/ p.rai \/ p.pcr) => HasFlags(p))
                 /\ (p.pusi => HasPay(p))
                 /\ (HasPay(p) <=> p.pay # 0)

AfOf(k) ==
  CASE k = "n"    -> [afc |-> 1, af |-> -1,  disc |-> FALSE, rai |-> FALSE, pcr |-> FALSE]
    [] k = "a0"   -> [afc |-> 3, af |-> 0,   disc |-> FALSE, rai |-> FALSE, pcr |-> FALSE]
    [] k = "a1"   -> [afc |-> 3, af |-> 1,   disc |-> FALSE, rai |-> FALSE, pcr |-> FALSE]
    [] k = "a1d"  -> [afc |-> 3, af |-> 1,   disc |-> TRUE,  rai |-> FALSE, pcr |-> FALSE]
    [] k = "a1r"  -> [afc |-> 3, af |-> 1,   disc |-> FALSE, rai |-> TRUE,  pcr |-> FALSE]
    [] k = "a2"   -> [afc |-> 3, af |-> 2,   disc |-> FALSE, rai |-> FALSE, pcr |-> FALSE]
    [] k = "a7p"  -> [afc |-> 3, af |-> 7,   disc |-> FALSE, rai |-> TRUE,  pcr |-> TRUE]
    [] k = "a182" -> [afc |-> 3, af |-> 182, disc |-> FALSE, rai |-> FALSE, pcr |-> FALSE]
    [] k = "o"    -> [afc |-> 2, af |-> 183, disc |-> FALSE, rai |-> FALSE, pcr |-> FALSE]
    [] k = "od"   -> [afc |-> 2, af |-> 183, disc |-> TRUE,  rai |-> FALSE, pcr |-> FALSE]
    [] OTHER      -> [afc |-> 2, af |-> 183, disc |-> FALSE, rai |-> FALSE, pcr |-> TRUE]   \* "op"

---------------------------------------------------------------------------
(* PART A - abstract decapsulator *)
\* the fields of the header a duplicate shares with its original (2.4.3.3:
\* every octet is duplicated, except the program clock reference)
Hdr(p) == <<p.pusi, p.afc, p.af, p.disc, p.rai>>
NoHdr  == <<FALSE, 0, 0, FALSE, FALSE>>
AInit == [last |-> -1, lastPay |-> NoPay, lastHdr |-> NoHdr, pend |-> FALSE, dupd |-> FALSE,
          prevOrig |-> FALSE]
SameAsLast(a, p)  == HasPay(p) /\ a.last # -1 /\ p.cc = a.last /\ PayId(p) = a.lastPay
SameCcOther(a, p) == HasPay(p) /\ a.last # -1 /\ p.cc = a.last /\ PayId(p) # a.lastPay
\* same counter and payload: the one legal duplicate must vanish; a copy whose
\* header differs, a third copy, a copy after something else: left open
AClass(a, p) == IF ~HasPay(p) THEN "none"
                ELSE IF SameAsLast(a, p)
                THEN (IF a.prevOrig /\ ~a.dupd /\ Hdr(p) = a.lastHdr THEN "none" ELSE "any")
                ELSE IF SameCcOther(a, p) THEN "any"
                ELSE "out"
AGap(a, p)  == a.last # -1 /\ p.cc # (IF HasPay(p) THEN (a.last + 1) % 16 ELSE a.last)
ANeed(a, p) == AClass(a, p) = "out" /\ (a.pend \/ AGap(a, p))
ANext(a, p, o) ==
  IF ~HasPay(p)
  THEN [a EXCEPT !.pend = a.pend \/ AGap(a, p), !.last = p.cc, !.prevOrig = FALSE]
  ELSE IF ~IsOut(o)
  THEN (IF SameAsLast(a, p) THEN [a EXCEPT !.dupd = a.dupd \/ a.prevOrig]
                            ELSE [a EXCEPT !.prevOrig = FALSE])
  ELSE [last |-> p.cc, lastPay |-> PayId(p), lastHdr |-> Hdr(p),
        pend |-> (a.pend \/ AGap(a, p)) /\ ~o.disc /\ AClass(a, p) # "out",
        dupd |-> FALSE, prevOrig |-> TRUE]

(* time stamps *)
P33(t)  == (t \div Scale) % Mod
NoTs    == [f |-> FALSE, dts |-> 0, delay |-> 0]
TsOK(a, ts) ==
  IF a.k = "none" THEN ~ts.f
  ELSE /\ ts.f
       /\ LET P   == P33(a.pts)
              D   == IF a.k = "both" THEN P33(a.dts) ELSE P
              del == (Mod + P - D) % Mod
          IN Scale * del <= MaxDelay =>
               /\ ts.dts = Scale * D
               /\ ts.delay = Scale * del

---------------------------------------------------------------------------
(* PART B - upipe_ts_decaps_input *)
DInit == [lastCc |-> -1, lastPay |-> NoPay, pend |-> FALSE]
DStep(s, p) ==
  LET hp      == HasPay(p)
      d0      == s.lastCc = -1
      badaf   == HasAf(p) /\ ((~hp /\ p.af # 183) \/ p.af > 183)
      d1      == d0 \/ (HasFlags(p) /\ p.disc)
      rnd     == HasFlags(p) /\ p.rai
      samecc  == p.cc = s.lastCc                               \* ts_check_duplicate
      dupdrop == samecc /\ hp /\ s.lastPay = PayId(p) /\ Variant # "neg_nodup"
      d2      == d1 \/ (samecc /\ hp)                          \* "potentially lost 16 packets"
      gap     == (s.lastCc + 17 - p.cc) % 16 # 0               \* ts_check_discontinuity
      d3      == d2 \/ (gap /\ Variant # "neg_nogap")
      \* a packet without payload does not advance the counter: when one gets
      \* past the samecc test the counter has moved (or it is the first packet).
      \* "ok": remembered for the next output; "tree": forgotten
      keep    == Variant \notin {"tree", "neg_nogap"}
  IN IF badaf THEN <<s, NoOut>>
     ELSE IF samecc /\ ~hp THEN <<s, NoOut>>                   \* padding or just PCR
     ELSE IF dupdrop THEN <<s, NoOut>>                         \* removing duplicate packet
     ELSE IF ~hp THEN <<[s EXCEPT !.lastCc = p.cc, !.pend = keep], NoOut>>
     ELSE <<[lastCc |-> p.cc, lastPay |-> PayId(p), pend |-> FALSE],
            [pay |-> PayId(p), disc |-> d3 \/ s.pend, rap |-> rnd,
             start |-> IF Variant = "neg_start" THEN FALSE ELSE p.pusi]>>

---------------------------------------------------------------------------
(* PART B - PES header and TS packetisation (upipe_ts_encaps.c, aligned PES) *)
HdrKind(a) == IF a.k = "none" THEN "none"
              ELSE IF a.k = "both" /\ P33(a.pts) # P33(a.dts) THEN "both" ELSE "pts"
HdrSize(a) == (CASE HdrKind(a) = "none" -> 9 [] HdrKind(a) = "pts" -> 14 [] OTHER -> 19) + a.hp
PesSize(a) == HdrSize(a) + a.n

RECURSIVE Pkts(_, _, _, _, _, _)
\* left octets of the PES to send, off = offset of the next one, cc = last counter used
Pkts(left, off, cc, first, a, i) ==
  IF left = 0 THEN <<>>
  ELSE LET flags == first /\ (a.rap \/ a.disc)
           h0 == IF flags THEN 6 ELSE 4
           h  == IF left < 188 - h0 THEN 188 - left ELSE h0       \* stuffing
           pl == 188 - h
           c  == (cc + 1) % 16
           pk == [cc |-> c,
                  pusi |-> IF Variant = "neg_pusi" THEN TRUE ELSE first,
                  afc |-> IF h > 4 THEN 3 ELSE 1,
                  af |-> IF h > 4 THEN h - 5 ELSE -1,
                  disc |-> flags /\ a.disc, rai |-> flags /\ a.rap, pcr |-> FALSE,
                  pay |-> 1000 * i + off + 1]
       IN <<pk>> \o Pkts(left - pl, off + pl, c, FALSE, a, i)

PadPkt(cc) == [cc |-> cc, pusi |-> FALSE, afc |-> 2, af |-> 183, disc |-> FALSE,
               rai |-> FALSE, pcr |-> FALSE, pay |-> 0]
RECURSIVE Wire(_, _, _)
Wire(aus, i, cc) ==
  IF i > Len(aus) THEN <<>>
  ELSE LET a   == aus[i]
           c1  == IF a.pad /\ Variant = "neg_ccpad" THEN (cc + 1) % 16 ELSE cc
           pad == IF a.pad THEN <<PadPkt(c1)>> ELSE <<>>
           ps  == Pkts(PesSize(a), 0, c1, TRUE, a, i)
       IN pad \o ps \o Wire(aus, i + 1, (c1 + Len(ps)) % 16)

---------------------------------------------------------------------------
(* PART B - upipe_ts_pesd_input / upipe_ts_pesd_decaps, octet counts *)
NoAttr == [start |-> FALSE, rap |-> FALSE, disc |-> FALSE]
PInit  == [acc |-> -1, au |-> 0, at |-> NoAttr, drop |-> TRUE]
NoPOut == [au |-> 0, off |-> 0, n |-> 0, start |-> FALSE, rap |-> FALSE, disc |-> FALSE, ts |-> NoTs]
IsPOut(o) == o.au # 0
\* what the header of access unit a carries, as upipe_ts_pesd_decaps reads it
TsOf(a) ==
  IF HdrKind(a) = "none" THEN NoTs
  ELSE LET P   == P33(a.pts)
           D   == IF HdrKind(a) = "both" THEN P33(a.dts) ELSE P
           del == Scale * ((Mod + P - D) % Mod)
       IN [f |-> TRUE, dts |-> Scale * D, delay |-> IF del > MaxDelay THEN 0 ELSE del]
PTry(ps, aus) ==
  LET a == aus[ps.au]
      H == IF Variant = "neg_hdr" THEN 9 ELSE HdrSize(a)
  IN IF ps.acc < 6 \/ ps.acc < 9 \/ ps.acc < H
     THEN <<ps, NoPOut>>
     ELSE <<[ps EXCEPT !.acc = -1, !.drop = FALSE],
            [au |-> ps.au, off |-> 0, n |-> ps.acc - H, start |-> ps.at.start,
             rap |-> ps.at.rap, disc |-> ps.at.disc, ts |-> TsOf(a)]>>
\* chunk c = [au, off, n, start, rap, disc]
PStep(ps, c, aus) ==
  IF c.start
  THEN PTry([ps EXCEPT !.acc = c.n, !.au = c.au,
                       !.at = [start |-> TRUE, rap |-> c.rap, disc |-> c.disc]], aus)
  ELSE IF ps.acc >= 0 THEN PTry([ps EXCEPT !.acc = ps.acc + c.n], aus)
  ELSE IF ~ps.drop
  THEN <<ps, [au |-> c.au, off |-> c.off - HdrSize(aus[c.au]), n |-> c.n, start |-> FALSE,
              rap |-> c.rap, disc |-> c.disc, ts |-> NoTs]>>
  ELSE <<ps, NoPOut>>

---------------------------------------------------------------------------
(* driver, mode D *)
Pkt0  == [cc |-> -1, pusi |-> FALSE, afc |-> 2, af |-> 183, disc |-> FALSE, rai |-> FALSE,
          pcr |-> FALSE, pay |-> 0]
Last0 == [pkt |-> Pkt0, out |-> NoOut, cls |-> "none", need |-> FALSE]
R0    == [phase |-> "off"]

\* k = shape of the adaptation field, c = distance of the counter from the one
\* of the previous packet (the first packet gets 15, so that the counter wraps
\* at once), py = payload identity (0: none).  Payload 1 starts a unit.
MkPkt(k, c, py) ==
  LET f == AfOf(k) IN
  [cc |-> IF n = 0 THEN 15 ELSE (last.pkt.cc + c) % 16,
   pusi |-> (py = 1 /\ k \in {"n", "a1r", "a2"}),
   afc |-> f.afc, af |-> f.af, disc |-> f.disc, rai |-> f.rai, pcr |-> f.pcr, pay |-> py]
Choice(k, c, py) == /\ Mode = "D" /\ n < MaxPkts
                    /\ (n = 0 => c = 1)
                    /\ (AfOf(k).afc \in {1, 3} <=> py # 0)
\* what the detailed machine does with p (one action per outcome, for the
\* coverage guard; evaluated before the expensive part of the step)
Oc(p) == LET o == DStep(ds, p)[2] IN
         IF IsOut(o) THEN (IF ANeed(as, p) THEN "gap" ELSE IF o.disc THEN "disc" ELSE "out")
         ELSE IF HasPay(p) THEN "dup"
         ELSE IF AGap(as, p) THEN "nopaygap" ELSE "nopay"
StepD(p) == LET res == DStep(ds, p) IN
            /\ ds' = res[1]
            /\ as' = ANext(as, p, res[2])
            /\ last' = [pkt |-> p, out |-> res[2], cls |-> AClass(as, p), need |-> ANeed(as, p)]
            /\ hist' = Append(hist, [p |-> p, o |-> res[2]])
            /\ n' = n + 1
            /\ UNCHANGED r
FeedD(k, c, py, oc) == Choice(k, c, py) /\ Oc(MkPkt(k, c, py)) = oc /\ StepD(MkPkt(k, c, py))
DOut(k, c, py) == Mode = "D" /\ FeedD(k, c, py, "out")
DOutDisc(k, c, py) == Mode = "D" /\ FeedD(k, c, py, "disc")
DOutGap(k, c, py) == Mode = "D" /\ FeedD(k, c, py, "gap")
DDropDup(k, c, py) == Mode = "D" /\ FeedD(k, c, py, "dup")
DNoPay(k, c, py) == Mode = "D" /\ FeedD(k, c, py, "nopay")
DNoPayGap(k, c, py) == Mode = "D" /\ FeedD(k, c, py, "nopaygap")

---------------------------------------------------------------------------
(* driver, modes R and P *)
FlagsOf(f) == [rap |-> f \in {"r", "rd"}, disc |-> f \in {"d", "rd"}]
AuChoices ==
  {[n |-> s, k |-> "none", pts |-> 0, dts |-> 0, rap |-> FlagsOf(f).rap, disc |-> FlagsOf(f).disc,
    pad |-> pd, hp |-> h] : s \in AuSizes, f \in FlagKinds, pd \in Pads, h \in HdrPads}
  \cup
  {[n |-> s, k |-> "pts", pts |-> t, dts |-> 0, rap |-> FlagsOf(f).rap, disc |-> FlagsOf(f).disc,
    pad |-> pd, hp |-> h] : s \in AuSizes, t \in Stamps, f \in FlagKinds, pd \in Pads, h \in HdrPads}
  \cup
  {[n |-> s, k |-> "both", pts |-> t, dts |-> t - g, rap |-> FlagsOf(f).rap, disc |-> FlagsOf(f).disc,
    pad |-> pd, hp |-> h] : s \in AuSizes, t \in {x \in Stamps : \E y \in Gaps : x >= y},
                           g \in {y \in Gaps : TRUE}, f \in FlagKinds, pd \in Pads, h \in HdrPads}

InitRP == [phase |-> "plan", aus |-> <<>>, cc0 |-> 0, sent |-> <<>>, wire |-> <<>>, ps |-> PInit,
           outs |-> <<>>, pos |-> <<1, 0>>, fed |-> <<>>, lostAu |-> 0]

PlanAu(a) == /\ Mode \in {"R", "P"} /\ r.phase = "plan" /\ Len(r.aus) < MaxAus
             /\ a.k \in TsKs /\ a.dts >= 0
             /\ r' = [r EXCEPT !.aus = Append(r.aus, a)]
             /\ UNCHANGED <<n, ds, as, last, hist>>

StartR(c0) == /\ Mode = "R" /\ r.phase = "plan" /\ Len(r.aus) > 0
              /\ LET w == Wire(r.aus, 1, c0) IN
                 r' = [r EXCEPT !.phase = "feed", !.cc0 = c0, !.sent = w, !.wire = w]
              /\ UNCHANGED <<n, ds, as, last, hist>>

\* one packet of the wire through the TS decapsulator, then the PES decapsulator
FeedR == /\ Mode = "R" /\ r.phase = "feed" /\ Len(r.wire) > 0
         /\ LET p   == Head(r.wire)
                res == DStep(ds, p)
                o   == res[2]
            IN /\ ds' = res[1]
               /\ IF IsOut(o)
                  THEN LET c  == [au |-> (p.pay - 1) \div 1000, off |-> (p.pay - 1) % 1000, n |-> o.pay[2],
                                  start |-> o.start, rap |-> o.rap, disc |-> o.disc]
                           pr == PStep(r.ps, c, r.aus)
                       IN r' = [r EXCEPT !.wire = Tail(r.wire), !.ps = pr[1],
                                         !.outs = IF IsPOut(pr[2]) THEN Append(r.outs, pr[2]) ELSE r.outs]
                  ELSE r' = [r EXCEPT !.wire = Tail(r.wire)]
         /\ n' = n + 1
         /\ UNCHANGED <<as, last, hist>>
RFeedStart == FeedR /\ Head(r.wire).pusi
RFeedCont  == FeedR /\ HasPay(Head(r.wire)) /\ ~Head(r.wire).pusi
RFeedNoPay == FeedR /\ ~HasPay(Head(r.wire))
DoneR == /\ Mode = "R" /\ r.phase = "feed" /\ Len(r.wire) = 0
         /\ r' = [r EXCEPT !.phase = "done"]
         /\ UNCHANGED <<n, ds, as, last, hist>>

StartP == /\ Mode = "P" /\ r.phase = "plan" /\ Len(r.aus) > 0
          /\ r' = [r EXCEPT !.phase = "cut"]
          /\ UNCHANGED <<n, ds, as, last, hist>>
Min(x, y) == IF x < y THEN x ELSE y
\* the next sz octets of the current PES as one chunk; lose = it never reaches the pipe
CutP(sz, lose) ==
  /\ Mode = "P" /\ r.phase = "cut"
  /\ LET i   == r.pos[1]
         off == r.pos[2]
         a   == r.aus[i]
         m   == Min(sz, PesSize(a) - off)
         c   == [au |-> i, off |-> off, n |-> m, start |-> off = 0, rap |-> FALSE, disc |-> FALSE]
         np  == IF off + m = PesSize(a) THEN <<i + 1, 0>> ELSE <<i, off + m>>
         ph  == IF np[1] > Len(r.aus) THEN "done" ELSE "cut"
     IN /\ m > 0
        /\ IF lose
           THEN /\ MayLose /\ r.lostAu = 0
                /\ (c.start \/ off >= HdrSize(a))      \* octet counts cannot predict a damaged header
                /\ r' = [r EXCEPT !.pos = np, !.phase = ph, !.lostAu = i,
                                  !.fed = Append(r.fed, [au |-> i, n |-> m, start |-> c.start, lost |-> TRUE])]
           ELSE LET pr == PStep(r.ps, c, r.aus) IN
                r' = [r EXCEPT !.pos = np, !.phase = ph, !.ps = pr[1],
                               !.outs = IF IsPOut(pr[2]) THEN Append(r.outs, pr[2]) ELSE r.outs,
                               !.fed = Append(r.fed, [au |-> i, n |-> m, start |-> c.start, lost |-> FALSE])]
  /\ n' = n + 1
  /\ UNCHANGED <<ds, as, last, hist>>
PCutStart(sz) == CutP(sz, FALSE) /\ r.pos[2] = 0
PCutWait(sz)  == CutP(sz, FALSE) /\ r.pos[2] > 0 /\ r.ps.acc >= 0 /\ r'.ps.acc >= 0
PCutHdr(sz)   == CutP(sz, FALSE) /\ r.pos[2] > 0 /\ r.ps.acc >= 0 /\ r'.ps.acc < 0
PCutCont(sz)  == CutP(sz, FALSE) /\ r.pos[2] > 0 /\ r.ps.acc < 0
PLose(sz)     == MayLose /\ CutP(sz, TRUE)

\* (the guard comes first: the set of choices is not built in the other phases)
Plan == Mode \in {"R", "P"} /\ r.phase = "plan" /\ \E a \in AuChoices : PlanAu(a)

Init == /\ n = 0 /\ ds = DInit /\ as = AInit /\ last = Last0 /\ hist = <<>>
        /\ r = IF Mode = "D" THEN R0 ELSE InitRP
Next == \/ \E k \in AfKinds, c \in Deltas, py \in Pays \cup {0} :
              \/ DOut(k, c, py) \/ DOutDisc(k, c, py) \/ DOutGap(k, c, py)
              \/ DDropDup(k, c, py) \/ DNoPay(k, c, py) \/ DNoPayGap(k, c, py)
        \/ Plan
        \/ \E c0 \in FirstCcs : StartR(c0)
        \/ RFeedStart \/ RFeedCont \/ RFeedNoPay \/ DoneR
        \/ StartP
        \/ \E sz \in Cuts : PCutStart(sz) \/ PCutWait(sz) \/ PCutHdr(sz) \/ PCutCont(sz) \/ PLose(sz)
Spec == Init /\ [][Next]_vars

---------------------------------------------------------------------------
(* properties, mode D *)
GenWF        == Mode = "D" => (n > 0 => WellFormed(last.pkt))
PayloadExact == /\ (last.cls = "out"  => IsOut(last.out))
                /\ (last.cls = "none" => ~IsOut(last.out))
                /\ (IsOut(last.out) => last.out.pay = PayId(last.pkt))
CcRule       == (IsOut(last.out) /\ last.need) => last.out.disc
Markers      == IsOut(last.out) => /\ last.out.start = last.pkt.pusi
                                   /\ last.out.rap = (HasFlags(last.pkt) /\ last.pkt.rai)
\* the detailed state is the abstract one (refinement mapping)
RefD         == Mode = "D" => /\ ds.lastCc = as.last
                              /\ ds.lastPay = as.lastPay
ViewD == <<n, ds, as, last, r>>

(* properties, modes R and P *)
RECURSIVE SumN(_)
SumN(s) == IF Len(s) = 0 THEN 0 ELSE s[1].n + SumN(Tail(s))
Started == Mode \in {"R", "P"} /\ r.phase # "plan"
CcRuleEnc == (Mode = "R" /\ r.phase # "plan") =>
   \A j \in 1..Len(r.sent) :
      LET prev == IF j = 1 THEN r.cc0 ELSE r.sent[j - 1].cc IN
      r.sent[j].cc = IF HasPay(r.sent[j]) THEN (prev + 1) % 16 ELSE prev
PacketizeOK == (Mode = "R" /\ r.phase # "plan") =>
   /\ \A j \in 1..Len(r.sent) : WellFormed(r.sent[j])
   /\ \A i \in 1..Len(r.aus) :
        LET ps == SelectSeq(r.sent, LAMBDA p : HasPay(p) /\ (p.pay - 1) \div 1000 = i) IN
        /\ Len(ps) >= 1 /\ ps[1].pusi /\ (ps[1].pay - 1) % 1000 = 0
        /\ \A j \in 2..Len(ps) : ~ps[j].pusi
                                 /\ ((ps[j].pay - 1) % 1000) = ((ps[j - 1].pay - 1) % 1000) + PLen(ps[j - 1])
        /\ ((ps[Len(ps)].pay - 1) % 1000) + PLen(ps[Len(ps)]) = PesSize(r.aus[i])
        /\ (r.aus[i].rap => HasFlags(ps[1]) /\ ps[1].rai)
RoundTrip == (Mode \in {"R", "P"} /\ r.phase = "done") =>
   \A i \in 1..Len(r.aus) :
      (i # r.lostAu) =>
        LET a  == r.aus[i]
            os == SelectSeq(r.outs, LAMBDA o : o.au = i)
        IN /\ Len(os) >= 1
           /\ os[1].start /\ os[1].off = 0
           /\ \A j \in 2..Len(os) : ~os[j].start /\ os[j].off = os[j - 1].off + os[j - 1].n
           /\ SumN(os) = a.n
           /\ os[1].rap = a.rap
           /\ (a.disc => os[1].disc)
           /\ TsOK(a, os[1].ts)
\* the outputs come in the order of the access units
InOrder == Started => \A j \in 2..Len(r.outs) : r.outs[j - 1].au <= r.outs[j].au

---------------------------------------------------------------------------
(* behaviours for the replayer *)
PktJ(p) == [cc |-> p.cc, pusi |-> p.pusi, afc |-> p.afc, af |-> p.af, disc |-> p.disc,
            rai |-> p.rai, pcr |-> p.pcr, pay |-> p.pay, plen |-> PLen(p)]
OutJ(o) == [out |-> IsOut(o), disc |-> o.disc, rap |-> o.rap, start |-> o.start]
BehD == [i \in 1..Len(hist) |-> [p |-> PktJ(hist[i].p), o |-> OutJ(hist[i].o)]]
BehRP == [mode |-> Mode, cc0 |-> r.cc0,
          aus  |-> [i \in 1..Len(r.aus) |->
                      [n |-> r.aus[i].n, k |-> r.aus[i].k, hk |-> HdrKind(r.aus[i]), hp |-> r.aus[i].hp,
                       rap |-> r.aus[i].rap, disc |-> r.aus[i].disc, pad |-> r.aus[i].pad]],
          pkts |-> [j \in 1..Len(r.sent) |-> PktJ(r.sent[j])],
          fed  |-> r.fed,
          outs |-> [j \in 1..Len(r.outs) |->
                      [au |-> r.outs[j].au, n |-> r.outs[j].n, start |-> r.outs[j].start,
                       rap |-> r.outs[j].rap, ts |-> r.outs[j].ts.f]]]
Emit == /\ (Mode = "D" /\ n = MaxPkts) => PrintT(<<"BEH", ToJson(BehD)>>)
        /\ (Mode \in {"R", "P"} /\ r.phase = "done") => PrintT(<<"BEH", ToJson(BehRP)>>)
=============================================================================
