SPECIFICATION Spec
CONSTANTS
 Setups <- S_cfg
 Acts <- A_cfg
 Bufs <- B_two
 MaxSteps = 6
 MaxIn = 3
 Variant = "ok"
 CheckEpi = TRUE
INVARIANT ExactlyOnce
INVARIANT InOrder
INVARIANT ContentOK
INVARIANT DupAll
INVARIANT NoLeak
INVARIANT EpilogueClean
INVARIANT DrainedOK
PROPERTY FlushFrees
VIEW view
CHECK_DEADLOCK FALSE
