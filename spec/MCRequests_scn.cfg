\* C12: prints the scenario records (SCN lines) of every scenario; nothing is explored
SPECIFICATION Spec
CONSTANTS
  Scenarios <- ScnAll
  Variant = "ok"
  EmitEdges = TRUE
  Idle = FALSE
  MaxGen = 0
  MaxChan = 0
  MaxPath = 0
CONSTRAINT NoExplore
CHECK_DEADLOCK FALSE
