SPECIFICATION Spec
CONSTANTS
  TopoName = "lls"
  Variant = "norelout"
  QLen = 1
  MaxHeld = 2
  MaxCmds = 0
  MinCmds = 0
  EmitBeh = FALSE
INVARIANTS QuiescentClean
VIEW View
POSTCONDITION Cov
CHECK_DEADLOCK FALSE
