SPECIFICATION Spec
CONSTANTS
  NU = 3
  NB = 2
  Variant = "ok"
  MaxCmds = 5
  MinCmds = 0
  EmitBeh = TRUE
INVARIANTS RcIsHolders DestroyOnce NoUseAfterDestroy QuiescentClean Sane Emit
POSTCONDITION Cov
CHECK_DEADLOCK FALSE
