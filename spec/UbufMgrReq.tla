----------------------------- MODULE UbufMgrReq -----------------------------
(***************************************************************************)
(* C12 - the REQUESTER's end of a buffer manager request                    *)
(* (include/upipe/upipe_helper_ubuf_mgr.h: require_ubuf_mgr /               *)
(* provide_ubuf_mgr): an answer is a pair (manager, flow format).  The      *)
(* request stays registered while outputs are connected and replaced        *)
(* downstream, so the same request is answered several times, by providers  *)
(* that may hand back the SAME manager for ANOTHER flow format (a picture   *)
(* manager aligned on 32 serves align 16 as well; uprobe_ubuf_mem_pool).    *)
(*                                                                          *)
(* "The answer reaches the original requester": after every answer the      *)
(* requester holds exactly the pair it was last given (Holds), and its      *)
(* check call-back ran for every answer that differs from what it held      *)
(* (ActsOnNew) - an answer identical to what it holds changes nothing and   *)
(* may be ignored.                                                          *)
(***************************************************************************)
EXTENDS Naturals, TLC
CONSTANTS Mgrs, Fmts, Variant, MaxSteps
None == "none"
VARIABLES reg,        \* the request is registered downstream
          hm, hf,     \* what the helper holds: manager, flow format
          last,       \* the last answer given: <<m, f>> or <<None, None>>
          obs,        \* events of the last step
          steps
vars == <<reg, hm, hf, last, obs, steps>>

Init == reg = FALSE /\ hm = None /\ hf = None /\ last = <<None, None>> /\ obs = {} /\ steps = 0

\* require_ubuf_mgr(flow format): the previous request (if any) is withdrawn and the manager dropped
Require(f) ==
  /\ reg' = TRUE
  /\ hm' = None /\ hf' = hf
  /\ last' = <<None, None>>
  /\ obs' = (IF reg THEN {<<"unreg">>} ELSE {}) \cup {<<"reg", f>>}

\* the holder of the request answers it with manager m and flow format f
Provide(m, f) ==
  /\ reg
  /\ LET same == IF Variant = "mgr_only" THEN m = hm /\ hf # None
                 ELSE m = hm /\ f = hf
     IN IF same THEN hm' = hm /\ hf' = hf /\ obs' = {}
        ELSE hm' = m /\ hf' = f /\ obs' = {<<"chk", f>>}
  /\ last' = <<m, f>>
  /\ reg' = reg

Tick == steps < MaxSteps /\ steps' = steps + 1
ActRequire == Tick /\ \E f \in Fmts : Require(f)
ActProvide == Tick /\ \E m \in Mgrs, f \in Fmts : Provide(m, f)
Next == ActRequire \/ ActProvide
Spec == Init /\ [][Next]_vars

TypeOK == reg \in BOOLEAN /\ hm \in Mgrs \cup {None} /\ hf \in Fmts \cup {None}
\* the statement
Holds == (reg /\ last # <<None, None>>) => <<hm, hf>> = last
ActsOnNew == [][(last' # <<None, None>> /\ last' # <<hm, hf>>) => <<"chk", last'[2]>> \in obs']_vars
=============================================================================
