\* NEGATIVE: no stuffing test (0xff taken as a table_id): TLC must reject
SPECIFICATION Spec
CONSTANTS
  Variant = "neg_nostuff"
  Palette <- PalTiny
  MaxSecs = 2
  MaxRuns = 2
  MaxPay = 24
  AllCuts = TRUE
  Stuffs = {0, 1, 2}
  Damage = {}
  MidStart = FALSE
  Record = TRUE
  Small = TRUE
INVARIANT EmitBad WellFormed NoGarbage NoLoss Exact
CHECK_DEADLOCK FALSE
