\* quick: every string over {0,1,2} up to 6 octets that does not begin with 00 00 01, every cutting; behaviours of at most 3 chunks are emitted
SPECIFICATION Spec
CONSTANTS
  Variant = "ok"
  Alphabet = {0, 1, 2}
  MaxLen = 6
  NoLead3 = TRUE
  EmitMax = 3
INVARIANT Emit TypeOK ChunkInvariant Monotone NoTrap
VIEW View
CHECK_DEADLOCK FALSE
