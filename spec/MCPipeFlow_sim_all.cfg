SPECIFICATION Spec
CONSTANTS
 Setups <- S_all
 Acts <- A_all
 Bufs <- B_all
 MaxSteps = 12
 MaxIn = 5
 Variant = "ok"
 CheckEpi = FALSE
INVARIANT ExactlyOnce
INVARIANT InOrder
INVARIANT ContentOK
INVARIANT DupAll
INVARIANT NoLeak
INVARIANT Emit
CHECK_DEADLOCK FALSE
