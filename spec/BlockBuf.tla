------------------------------ MODULE BlockBuf ------------------------------
(***************************************************************************)
(* C03 / C02 - abstract specification of Upipe block buffers               *)
(* (include/upipe/ubuf_block.h, ubuf_block_common.h, uref_block.h,         *)
(* lib/upipe/ubuf_block_mem.c).                                            *)
(*                                                                         *)
(* Two layers in one module:                                               *)
(*   str[h]   the byte string a handle stands for (C03: every operation is *)
(*            defined on plain byte strings, every observer returns what   *)
(*            the byte string gives);                                      *)
(*   areas, hs  the sharing structure (C02): memory areas (byte sequences  *)
(*            including the room in front of the data), and per handle a   *)
(*            list of windows (area, off, len).  The owner count of an     *)
(*            area is the number of windows on it (= ubuf_mem_shared       *)
(*            .refcount).  Window lists follow the public semantics of     *)
(*            dup / splice / split / insert / delete / truncate: they      *)
(*            share instead of copying.                                    *)
(* The invariant ByteString ties the two: Cat(windows) = str.              *)
(*                                                                         *)
(* Result classes of a call (DESIGN.md C03):                               *)
(*   ok      arguments in the byte-string domain: new content and value    *)
(*           are exactly the byte-string ones;                             *)
(*   err     documented refusal: nothing changes;                          *)
(*   Unspecified (last.u = TRUE): arguments with no byte-string meaning    *)
(*           (offset past the end, range longer than the block ...).       *)
(*           Either the call reports an error and NOTHING changes, or it   *)
(*           reports success; then the statement says nothing about the    *)
(*           result except that it must be self-consistent: the binding    *)
(*           reads it back and frees it (res = "okfree"), the model drops  *)
(*           the handle.  Observers with such arguments: res = "any".      *)
(* Write mappings: granted (ok) / refused (busy).                          *)
(***************************************************************************)
EXTENDS Naturals, Integers, Sequences, FiniteSets, TLC

CONSTANTS Handles,    \* handle names (naturals)
          Fill,       \* octet found in memory never written (room, copy padding)
          Strict,     \* TRUE: a write mapping is granted iff the area has exactly
                      \* one window (what ubuf_block_mem does); FALSE: also allow
                      \* the permissive reading of the statement (granted as soon
                      \* as no OTHER handle has a window on the area, refused as
                      \* soon as the area has more than one window)
          KeepHist,   \* record the behaviour in hist (for emission)
          Bug         \* "none" or the name of a deliberately broken variant

VARIABLES areas,      \* area id -> Seq(octet)   (only referenced areas)
          hs,         \* live handle -> Seq of windows [a, off, len]
          str,        \* live handle -> Seq(octet): the byte string it stands for
          fresh,      \* handles that are "freshly allocated" (single segment rule)
          last,       \* ghost: the last call, its class and predicted result
          mayChange,  \* ghost: handles whose content the last call may change
          step,       \* ghost: number of calls so far
          hist        \* ghost: sequence of `last` records (if KeepHist)

vars == <<areas, hs, str, fresh, last, mayChange, step, hist>>
view == <<areas, hs, str, fresh>>

--------------------------------------------------------------------------
(* byte strings *)
Min(a, b) == IF a < b THEN a ELSE b
Max(a, b) == IF a > b THEN a ELSE b
Rep(x, k) == [i \in 1..k |-> x]
Norm(off, n) == IF off < 0 THEN off + n ELSE off
Sub(s, from, cnt) == SubSeq(s, from + 1, from + cnt)      \* 0-based, cnt octets

RECURSIVE BitAnd(_, _)
BitAnd(x, y) == IF x = 0 \/ y = 0 THEN 0
                ELSE (x % 2) * (y % 2) + 2 * BitAnd(x \div 2, y \div 2)

\* (offset, size) designates a range of an n-octet string: 0 <= o < n, o+sz <= n
RangeDom(n, off, size) ==
  LET o == Norm(off, n) IN
  /\ o >= 0 /\ o < n
  /\ size >= -1
  /\ size # -1 => o + size <= n
RangeSize(n, off, size) == IF size = -1 THEN n - Norm(off, n) ELSE size

\* resize(skip, new_size): negative skip counts from the end
ResizeDom(n, skip, size) ==
  LET s == Norm(skip, n) IN
  /\ s >= 0 /\ s <= n
  /\ size >= -1
  /\ size # -1 => s + size <= n

\* copy / merge (skip, new_size): negative skip extends upwards
CopyNs(n, skip, size) == IF size = -1 THEN n - skip ELSE size
CopyPre(skip) == IF skip < 0 THEN -skip ELSE 0
CopyDom(n, skip, size) ==
  /\ skip <= n /\ size >= -1
  /\ CopyNs(n, skip, size) >= 0
  /\ CopyNs(n, skip, size) > CopyPre(skip)
CopyStr(s, skip, size) ==
  LET n == Len(s)
      ns == CopyNs(n, skip, size)
      pre == CopyPre(skip)
      sk == IF skip < 0 THEN 0 ELSE skip
      ext == Min(ns - pre, n - sk)
  IN Rep(Fill, pre) \o Sub(s, sk, ext) \o Rep(Fill, ns - pre - ext)

\* scan / find
RECURSIVE ScanFrom(_, _, _)
ScanFrom(s, p, w) == IF p >= Len(s) THEN Len(s)
                     ELSE IF s[p + 1] = w THEN p ELSE ScanFrom(s, p + 1, w)
\* <<found, position>> exactly as documented for ubuf_block_find
RECURSIVE FindFrom(_, _, _)
FindFrom(s, p, ws) ==
  LET q == ScanFrom(s, p, ws[1]) IN
  IF q >= Len(s) THEN <<FALSE, Len(s)>>
  ELSE IF q + Len(ws) > Len(s) THEN <<FALSE, q>>
  ELSE IF Sub(s, q, Len(ws)) = ws THEN <<TRUE, q>>
  ELSE FindFrom(s, q + 1, ws)

--------------------------------------------------------------------------
(* windows *)
Win(a, off, len) == [a |-> a, off |-> off, len |-> len]
WinBytes(ar, w) == SubSeq(ar[w.a], w.off + 1, w.off + w.len)
RECURSIVE Cat(_, _)
Cat(ar, ws) == IF ws = <<>> THEN <<>> ELSE WinBytes(ar, Head(ws)) \o Cat(ar, Tail(ws))

\* window holding octet o (0-based): <<index, offset inside>>; <<0,0>> if none
RECURSIVE LocFrom(_, _, _)
LocFrom(ws, o, k) == IF k > Len(ws) THEN <<0, 0>>
                     ELSE IF o < ws[k].len THEN <<k, o>>
                     ELSE LocFrom(ws, o - ws[k].len, k + 1)
Loc(ws, o) == LocFrom(ws, o, 1)

Refs(H) == UNION {{<<h, i>> : i \in 1..Len(H[h])} : h \in DOMAIN H}
Owners(H, a) == Cardinality({p \in Refs(H) : H[p[1]][p[2]].a = a})
SoleHandle(H, h, a) == \A p \in Refs(H) : H[p[1]][p[2]].a = a => p[1] = h
GC(ar, H) == [a \in {H[p[1]][p[2]].a : p \in Refs(H)} |-> ar[a]]
NewArea(ar) == CHOOSE a \in 0..Cardinality(DOMAIN ar) :
                  a \notin DOMAIN ar /\ \A b \in 0..(a - 1) : b \in DOMAIN ar
Drop(f, S) == [x \in DOMAIN f \ S |-> f[x]]

\* cut window k in two at io (the second half is a new reference on the area)
SliceW(ws, k, io) ==
  LET w == ws[k] IN
  SubSeq(ws, 1, k - 1) \o <<Win(w.a, w.off, io), Win(w.a, w.off + io, w.len - io)>>
                       \o SubSeq(ws, k + 1, Len(ws))
InsertW(ws, o, gws) ==
  LET l == Loc(ws, o)
      s == SliceW(ws, l[1], l[2])
  IN SubSeq(s, 1, l[1]) \o gws \o SubSeq(s, l[1] + 1, Len(s))
RECURSIVE DelFrom(_, _, _, _)
DelFrom(ws, k, io, sz) ==
  LET w == ws[k] IN
  IF io = 0 THEN
    LET d == Min(sz, w.len)
        ws2 == [ws EXCEPT ![k] = Win(w.a, w.off + d, w.len - d)]
    IN IF sz - d = 0 THEN ws2 ELSE DelFrom(ws2, k + 1, 0, sz - d)
  ELSE IF io + sz < w.len THEN
    SubSeq(ws, 1, k - 1) \o <<Win(w.a, w.off, io),
                              Win(w.a, w.off + io + sz, w.len - io - sz)>>
                         \o SubSeq(ws, k + 1, Len(ws))
  ELSE
    LET d == w.len - io
        ws2 == [ws EXCEPT ![k] = Win(w.a, w.off, io)]
    IN IF sz - d = 0 THEN ws2 ELSE DelFrom(ws2, k + 1, 0, sz - d)
DeleteW(ws, o, sz) == LET l == Loc(ws, o) IN DelFrom(ws, l[1], l[2], sz)
TruncW(ws, t) ==
  IF t = 0 THEN <<Win(ws[1].a, ws[1].off, 0)>>
  ELSE LET l == Loc(ws, t - 1) IN
       SubSeq(ws, 1, l[1] - 1) \o <<Win(ws[l[1]].a, ws[l[1]].off, l[2] + 1)>>
RECURSIVE SumLen(_)
SumLen(ws) == IF ws = <<>> THEN 0 ELSE Head(ws).len + SumLen(Tail(ws))
ResizeW(ws, s, ns) ==
  LET ws1 == IF s + ns < SumLen(ws) THEN TruncW(ws, s + ns) ELSE ws
  IN IF s > 0 THEN DeleteW(ws1, 0, s) ELSE ws1
RECURSIVE SplRest(_, _, _)
SplRest(ws, j, rem) ==
  IF rem <= 0 \/ j > Len(ws) THEN <<>>
  ELSE LET n == Min(ws[j].len, rem) IN
       <<Win(ws[j].a, ws[j].off, n)>> \o SplRest(ws, j + 1, rem - n)
SpliceW(ws, o, sz) ==
  LET l == Loc(ws, o)
      w == ws[l[1]]
      n == Min(w.len - l[2], sz)
  IN <<Win(w.a, w.off + l[2], n)>> \o SplRest(ws, l[1] + 1, sz - n)

--------------------------------------------------------------------------
(* one call = one step *)
Rec(op, args, ib, ib2, res, n, b, nx, bx, u) ==
  [op |-> op, args |-> args, ib |-> ib, ib2 |-> ib2, res |-> res,
   n |-> n, b |-> b, nx |-> nx, bx |-> bx, u |-> u]

Commit(rec, acts, H2, AR2, ST2, FR2) ==
  /\ hs' = H2
  /\ areas' = GC(AR2, H2)
  /\ str' = ST2
  /\ fresh' = FR2
  /\ last' = rec
  /\ mayChange' = acts
  /\ step' = step + 1
  /\ hist' = IF KeepHist THEN Append(hist, rec) ELSE hist

\* structural call, in-domain, result res (value n)
Mut(op, args, res, n, acts, H2, AR2, ST2, FR2) ==
  Commit(Rec(op, args, <<>>, <<>>, res, n, <<>>, TRUE, TRUE, FALSE), acts, H2, AR2, ST2, FR2)
\* documented refusal: nothing changes
Refuse(op, args, res) ==
  Commit(Rec(op, args, <<>>, <<>>, res, -1, <<>>, TRUE, TRUE, FALSE), {}, hs, areas, str, fresh)
\* arguments without byte-string meaning: error and nothing changes, or success
\* and the handles in `gone` are read back and freed by the caller
Unspec(op, args, gone) ==
  \/ Commit(Rec(op, args, <<>>, <<>>, "err", -1, <<>>, TRUE, TRUE, TRUE), {}, hs, areas, str, fresh)
  \/ Commit(Rec(op, args, <<>>, <<>>, "okfree", -1, <<>>, TRUE, TRUE, TRUE), {},
            Drop(hs, gone), areas, Drop(str, gone), fresh \ gone)
\* observer: nothing changes
Obs(op, args, ib, ib2, res, n, b, nx, bx) ==
  Commit(Rec(op, args, ib, ib2, res, n, b, nx, bx, FALSE), {}, hs, areas, str, fresh)
ObsAny(op, args, ib, ib2) ==
  Commit(Rec(op, args, ib, ib2, "any", -1, <<>>, FALSE, FALSE, TRUE), {}, hs, areas, str, fresh)

Live == DOMAIN hs
Size(h) == Len(str[h])

--------------------------------------------------------------------------
(* structural calls *)
Alloc(d, bytes, room) ==
  /\ d \in Handles \ Live
  /\ LET a == NewArea(areas) IN
     Commit(Rec("alloc", <<d, Len(bytes)>>, bytes, <<>>, "ok", room, <<>>, TRUE, TRUE, FALSE), {},
            hs @@ (d :> <<Win(a, room, Len(bytes))>>),
            areas @@ (a :> Rep(Fill, room) \o bytes),
            str @@ (d :> bytes), fresh \cup {d})

Dup(d, h) ==
  /\ h \in Live /\ d \in Handles \ Live
  /\ Mut("dup", <<d, h>>, "ok", -1, {}, hs @@ (d :> hs[h]), areas, str @@ (d :> str[h]), fresh)

Splice(d, h, off, size) ==
  /\ h \in Live /\ d \in Handles \ Live
  /\ LET n == Size(h)  o == Norm(off, n)  sz == RangeSize(n, off, size) IN
     IF RangeDom(n, off, size)
     THEN Mut("splice", <<d, h, off, size>>, "ok", -1, {},
              hs @@ (d :> SpliceW(hs[h], o, sz)), areas,
              str @@ (d :> Sub(str[h], o, sz)), fresh)
     ELSE Unspec("splice", <<d, h, off, size>>, {})

Split(d, h, off) ==
  /\ h \in Live /\ d \in Handles \ Live
  /\ LET n == Size(h)  o == Norm(off, n) IN
     IF o >= 0 /\ o < n
     THEN LET l == Loc(hs[h], o)
              s == SliceW(hs[h], l[1], l[2])
          IN Mut("split", <<d, h, off>>, "ok", -1, {h},
                 [hs EXCEPT ![h] = SubSeq(s, 1, l[1])] @@ (d :> SubSeq(s, l[1] + 1, Len(s))),
                 areas,
                 [str EXCEPT ![h] = Sub(str[h], 0, o)] @@ (d :> Sub(str[h], o, n - o)),
                 fresh \ {h})
     ELSE Unspec("split", <<d, h, off>>, {h})

AppendBlk(h, g) ==
  /\ h \in Live /\ g \in Live /\ h # g
  /\ Mut("append", <<h, g>>, "ok", -1, {h},
         Drop([hs EXCEPT ![h] = hs[h] \o hs[g]], {g}), areas,
         Drop([str EXCEPT ![h] = str[h] \o str[g]], {g}), fresh \ {h, g})

Insert(h, off, g) ==
  /\ h \in Live /\ g \in Live /\ h # g
  /\ LET n == Size(h)  o == Norm(off, n) IN
     IF o >= 0 /\ o < n
     THEN Mut("insert", <<h, off, g>>, "ok", -1, {h},
              Drop([hs EXCEPT ![h] = InsertW(hs[h], o, hs[g])], {g}), areas,
              Drop([str EXCEPT ![h] = Sub(str[h], 0, o) \o str[g] \o Sub(str[h], o, n - o)], {g}),
              fresh \ {h, g})
     ELSE Unspec("insert", <<h, off, g>>, {h, g})

\* Bug = "s3delete": the refusal of an out-of-range delete has already
\* shrunk the windows (what the unfixed ubuf_block_delete does)
DeleteBroken(h, off, size) ==
  LET n == Size(h)  o == Norm(off, n) IN
  /\ Bug = "s3delete" /\ o > 0 /\ o < n /\ size # -1 /\ o + size > n
  /\ Commit(Rec("delete", <<h, off, size>>, <<>>, <<>>, "err", -1, <<>>, TRUE, TRUE, TRUE), {},
            [hs EXCEPT ![h] = TruncW(hs[h], o)], areas, str, fresh)

Delete(h, off, size) ==
  /\ h \in Live
  /\ LET n == Size(h)  o == Norm(off, n)  sz == RangeSize(n, off, size) IN
     IF RangeDom(n, off, size)
     THEN Mut("delete", <<h, off, size>>, "ok", -1, {h},
              [hs EXCEPT ![h] = DeleteW(hs[h], o, sz)], areas,
              [str EXCEPT ![h] = Sub(str[h], 0, o) \o Sub(str[h], o + sz, n - o - sz)],
              fresh \ {h})
     ELSE \/ Unspec("delete", <<h, off, size>>, {h})
          \/ DeleteBroken(h, off, size)

Truncate(h, t) ==
  /\ h \in Live /\ t >= 0
  /\ IF t <= Size(h)
     THEN Mut("truncate", <<h, t>>, "ok", -1, {h},
              [hs EXCEPT ![h] = TruncW(hs[h], t)], areas,
              [str EXCEPT ![h] = Sub(str[h], 0, t)], fresh \ {h})
     ELSE Unspec("truncate", <<h, t>>, {h})

Resize(h, skip, size) ==
  /\ h \in Live
  /\ LET n == Size(h)  s == Norm(skip, n)
         ns == IF size = -1 THEN n - s ELSE size IN
     IF ResizeDom(n, skip, size)
     THEN Mut("resize", <<h, skip, size>>, "ok", -1, {h},
              [hs EXCEPT ![h] = ResizeW(hs[h], s, ns)], areas,
              [str EXCEPT ![h] = Sub(str[h], s, ns)], fresh \ {h})
     ELSE Unspec("resize", <<h, skip, size>>, {h})

\* prepend uncovers the octets in front of the first window, if there is room
Prepend(h, k) ==
  /\ h \in Live /\ k >= 0
  /\ LET w == hs[h][1] IN
     IF k <= w.off
     THEN Mut("prepend", <<h, k>>, "ok", -1, {h},
              [hs EXCEPT ![h][1] = Win(w.a, w.off - k, w.len + k)], areas,
              [str EXCEPT ![h] = SubSeq(areas[w.a], w.off - k + 1, w.off) \o str[h]],
              fresh \ {h})
     ELSE Refuse("prepend", <<h, k>>, "err")

Copy(d, h, skip, size, room) ==
  /\ h \in Live /\ d \in Handles \ Live
  /\ IF CopyDom(Size(h), skip, size)
     THEN LET a == NewArea(areas)
              c == CopyStr(str[h], skip, size)
          IN Mut("copy", <<d, h, skip, size>>, "ok", room, {},
                 hs @@ (d :> <<Win(a, room, Len(c))>>),
                 areas @@ (a :> Rep(Fill, room) \o c),
                 str @@ (d :> c), fresh \cup {d})
     ELSE Unspec("copy", <<d, h, skip, size>>, {})

Merge(h, skip, size, room) ==
  /\ h \in Live
  /\ IF CopyDom(Size(h), skip, size)
     THEN LET a == NewArea(areas)
              c == CopyStr(str[h], skip, size)
          IN Mut("merge", <<h, skip, size>>, "ok", room, {h},
                 [hs EXCEPT ![h] = <<Win(a, room, Len(c))>>],
                 areas @@ (a :> Rep(Fill, room) \o c),
                 [str EXCEPT ![h] = c], fresh \cup {h})
     ELSE Unspec("merge", <<h, skip, size>>, {h})

Free(h) ==
  /\ h \in Live
  /\ Mut("free", <<h>>, "ok", -1, {}, Drop(hs, {h}), areas, Drop(str, {h}), fresh \ {h})

--------------------------------------------------------------------------
(* write mappings (C02) *)
\* no other window (of this or of another handle) covers octet p of area a
NoOtherCover(H, h, k, a, p) ==
  \A q \in Refs(H) : (q # <<h, k>> /\ H[q[1]][q[2]].a = a) =>
       ~(H[q[1]][q[2]].off <= p /\ p < H[q[1]][q[2]].off + H[q[1]][q[2]].len)
\* Strict: what ubuf_block_mem does.  Otherwise the weakest rule that keeps
\* the statement: a grant needs that no other handle has a window on the
\* area and that no other window at all covers the octet (TLC shows that
\* "no other handle" alone is not enough: dup, append the dup to its source,
\* write through one window changes two octets of the byte string); a
\* refusal needs that the area has more than one window.
GrantAllowed(h, k, a, p, grant) ==
  IF Bug = "nosingle" THEN grant
  ELSE IF Strict THEN grant = (Owners(hs, a) = 1)
  ELSE IF grant THEN SoleHandle(hs, h, a) /\ NoOtherCover(hs, h, k, a, p) ELSE Owners(hs, a) > 1

\* op = "wmap" (map and unmap) or "poke" (map, store v, unmap).
\* An offset outside the block has no byte-string meaning (class Unspecified):
\* the call is refused (err / busy) and nothing changes, or it reports success
\* and the handle is read back and freed by the caller.
Write(op, h, off, v, grant) ==
  /\ h \in Live
  /\ LET n == Size(h)  o == Norm(off, n)
         args == IF op = "poke" THEN <<h, off, v>> ELSE <<h, off>> IN
     IF o >= 0 /\ o < n
     THEN LET l == Loc(hs[h], o)
              w == hs[h][l[1]] IN
          /\ GrantAllowed(h, l[1], w.a, w.off + l[2], grant)
          /\ IF ~grant THEN Refuse(op, args, "busy")
             ELSE IF op = "wmap" THEN Refuse(op, args, "ok")
             ELSE Mut(op, args, "ok", -1, {h}, hs,
                      [areas EXCEPT ![w.a][w.off + l[2] + 1] = v],
                      [str EXCEPT ![h][o + 1] = v], fresh)
     ELSE /\ ~grant
          /\ \/ Unspec(op, args, {h})
             \/ Commit(Rec(op, args, <<>>, <<>>, "busy", -1, <<>>, TRUE, TRUE, TRUE), {},
                       hs, areas, str, fresh)

--------------------------------------------------------------------------
(* observers *)
ObsSize(h) ==
  /\ h \in Live
  /\ Obs("size", <<h>>, <<>>, <<>>, "ok", Size(h), <<>>, TRUE, TRUE)

\* op in read (walked to the end; n = number of pieces, not specified),
\* peek, extract, iovec (n = number of iovecs, not specified)
ObsRange(op, h, off, size) ==
  /\ h \in Live
  /\ LET n == Size(h)  o == Norm(off, n)  sz == RangeSize(n, off, size) IN
     IF RangeDom(n, off, size)
     THEN Obs(op, <<h, off, size>>, <<>>, <<>>, "ok", -1, Sub(str[h], o, sz), FALSE, TRUE)
     ELSE ObsAny(op, <<h, off, size>>, <<>>, <<>>)

\* one ubuf_block_read: a prefix of the range, up to the end of the segment;
\* the model's own segmentation is binding only for a fresh block
ObsRd1(h, off, size) ==
  /\ h \in Live
  /\ LET n == Size(h)  o == Norm(off, n)  sz == RangeSize(n, off, size) IN
     IF RangeDom(n, off, size)
     THEN LET l == Loc(hs[h], o)
              lin == hs[h][l[1]].len - l[2]
          IN Obs("rd1", <<h, off, size>>, <<>>, <<>>, "ok", -1,
                 Sub(str[h], o, Min(sz, lin)), FALSE, h \in fresh)
     ELSE ObsAny("rd1", <<h, off, size>>, <<>>, <<>>)

ObsSlin(h, off) ==
  /\ h \in Live
  /\ LET n == Size(h)  o == Norm(off, n) IN
     IF o >= 0 /\ o < n
     THEN LET l == Loc(hs[h], o) IN
          Obs("slin", <<h, off>>, <<>>, <<>>, "ok", hs[h][l[1]].len - l[2], <<>>, h \in fresh, TRUE)
     ELSE ObsAny("slin", <<h, off>>, <<>>, <<>>)

ObsScan(h, start, w) ==
  /\ h \in Live /\ start >= 0
  /\ IF start <= Size(h)
     THEN LET p == ScanFrom(str[h], start, w) IN
          Obs("scan", <<h, start, w>>, <<>>, <<>>, IF p < Size(h) THEN "ok" ELSE "err", p, <<>>, TRUE, TRUE)
     ELSE ObsAny("scan", <<h, start, w>>, <<>>, <<>>)

ObsFind(h, start, ws) ==
  /\ h \in Live /\ start >= 0 /\ Len(ws) >= 2
  /\ IF start <= Size(h)
     THEN LET r == FindFrom(str[h], start, ws) IN
          Obs("find", <<h, start>>, ws, <<>>, IF r[1] THEN "ok" ELSE "err", r[2], <<>>, TRUE, TRUE)
     ELSE ObsAny("find", <<h, start>>, ws, <<>>)

ObsCompare(h, off, g) ==
  /\ h \in Live /\ g \in Live /\ off >= 0
  /\ Obs("compare", <<h, off, g>>, <<>>, <<>>,
         IF off + Size(g) <= Size(h) /\ Sub(str[h], off, Size(g)) = str[g] THEN "ok" ELSE "err",
         -1, <<>>, TRUE, TRUE)

ObsEqual(h, g) ==
  /\ h \in Live /\ g \in Live
  /\ Obs("equal", <<h, g>>, <<>>, <<>>, IF str[h] = str[g] THEN "ok" ELSE "err", -1, <<>>, TRUE, TRUE)

ObsMatch(h, filter, mask) ==
  /\ h \in Live /\ Len(filter) = Len(mask)
  /\ Obs("match", <<h>>, filter, mask,
         IF /\ Len(filter) <= Size(h)
            /\ \A i \in 1..Len(filter) : BitAnd(str[h][i], mask[i]) = filter[i]
         THEN "ok" ELSE "err", -1, <<>>, TRUE, TRUE)

--------------------------------------------------------------------------
Init ==
  /\ areas = <<>> /\ hs = <<>> /\ str = <<>> /\ fresh = {}
  /\ last = Rec("init", <<>>, <<>>, <<>>, "ok", -1, <<>>, TRUE, TRUE, FALSE)
  /\ mayChange = {} /\ step = 0 /\ hist = <<>>

--------------------------------------------------------------------------
(* properties *)
TypeOK ==
  /\ DOMAIN hs \subseteq Handles /\ DOMAIN str = DOMAIN hs /\ fresh \subseteq DOMAIN hs
  /\ \A p \in Refs(hs) : LET w == hs[p[1]][p[2]] IN
        w.a \in DOMAIN areas /\ w.off >= 0 /\ w.len >= 0 /\ w.off + w.len <= Len(areas[w.a])
  /\ \A h \in DOMAIN hs : Len(hs[h]) >= 1
  /\ \A a \in DOMAIN areas : Owners(hs, a) >= 1                    \* no area leaked

\* C03: the windows of a handle always spell the byte string it stands for
ByteString == \A h \in DOMAIN hs : Cat(areas, hs[h]) = str[h]

\* C03: a freshly allocated block is one contiguous segment
FreshSingle == \A h \in fresh : Len(hs[h]) = 1

\* C02: a call through one handle changes no other handle's content
Isolation ==
  [][\A g \in DOMAIN hs \cap DOMAIN hs' :
        g \notin mayChange' => Cat(areas', hs'[g]) = Cat(areas, hs[g])]_vars

\* C02: a granted write mapping implies a single owner (of the area under
\* the mapped octet, judged in the state in which the mapping was asked).
\* An action property: it does not depend on the VIEW of the exhaustive runs.
MultiHandle(H, a) == \E p, q \in Refs(H) : /\ H[p[1]][p[2]].a = a /\ H[q[1]][q[2]].a = a
                                           /\ p[1] # q[1]
SharedArea(H, a) == IF Strict THEN Owners(H, a) > 1 ELSE MultiHandle(H, a)
WriteOnlySingle ==
  [][(last'.op \in {"wmap", "poke"} /\ last'.res = "ok" /\ ~last'.u) =>
        LET h == last'.args[1]
            o == Norm(last'.args[2], Size(h))
            l == Loc(hs[h], o)
        IN ~SharedArea(hs, hs[h][l[1]].a)]_vars

\* C02: cutting / inserting / resizing / re-segmenting never writes memory
\* (in particular never an area with more than one owner)
Structural == {"dup", "splice", "split", "append", "insert", "delete", "truncate",
               "resize", "prepend", "free", "wmap"}
StructuralOpsDontWrite ==
  [][last'.op # "poke" =>
        \A a \in DOMAIN areas \cap DOMAIN areas' : areas'[a] = areas[a]]_vars
SharedNeverWritten ==
  [][\A a \in DOMAIN areas \cap DOMAIN areas' :
        SharedArea(hs, a) => areas'[a] = areas[a]]_vars

\* C03: a call that reports an error leaves every size and content unchanged
ErrLeavesUnchanged ==
  [][last'.res \in {"err", "busy"} =>
        /\ DOMAIN hs' = DOMAIN hs
        /\ \A g \in DOMAIN hs : Cat(areas', hs'[g]) = Cat(areas, hs[g])]_vars
=============================================================================
