SPECIFICATION Spec
CONSTANTS
  NP = 1
  NS = 2
  Variant = "ok"
  EmitEdges = TRUE
  OptModes = {TRUE, FALSE}
VIEW View
INVARIANTS TypeOK ReadyFirst DeadOnce DeadLast FlowDefBeforeData NoDataWhileRejected NoError LinkAgrees
CHECK_DEADLOCK FALSE
