-------------------------------- MODULE Ubits --------------------------------
(***************************************************************************)
(* C18 - bit-level writers and readers are inverse and stay within bounds. *)
(*                                                                         *)
(* PART A (abstract).  The written stream is a sequence of bits `abits`.   *)
(*   Put(w, v)  appends the w low bits of v, most significant first.       *)
(*   Clean      pads to an octet boundary; octets produced = ceil(bits/8); *)
(*              if that exceeds the capacity the ONLY allowed outcome is   *)
(*              the overflow indication (NOSPC); no octet outside          *)
(*              [buf, buf+cap) is ever written.                            *)
(*   Read(w)    over a stream of octets returns the next w bits, or the    *)
(*              overflow indication when fewer than w bits are left.       *)
(*   Reading back what was written with the same widths returns the same   *)
(*   fields (Inverse).                                                     *)
(*                                                                         *)
(* PART B (detailed).  Transcription, with machine-word semantics, of      *)
(*   ubits_put / ubits_clean / ubits_get            (include/upipe/ubits.h)*)
(*   ubuf_block_stream_get / fill_bits / show_bits / skip_bits             *)
(*                                      (include/upipe/ubuf_block_stream.h)*)
(* A 32-bit word is a sequence of 32 bits, index 1 = bit 31.  A shift      *)
(* whose count is not in 0..31 is NOT given a value: the action raises the *)
(* flag `ub` (undefined behaviour) and the behaviour stops; a failed       *)
(* assert() of the C code is treated the same way.                         *)
(*                                                                         *)
(* TLC checks the detailed part against the abstract one:                  *)
(*   RefInv        flushed octets ++ valid cache bits = abits              *)
(*   CleanOK       NOSPC <=> ceil(bits/8) > cap; end pointer; octets       *)
(*   InBounds      no access outside the buffer given                      *)
(*   OvSound       the writer's overflow flag is never raised spuriously   *)
(*   ReadOK        every value returned by a reader is the abstract slice; *)
(*                 overflow exactly when the data run out                  *)
(*   ReaderRefInv  cache of the readers = the next bits of the stream      *)
(*   Inverse       read-back = the fields written                          *)
(*   NoUB          no undefined shift, no failed assert                    *)
(*                                                                         *)
(* Mode  "W" writer only, TLC chooses capacity and fields (VIEW ViewW      *)
(*           hides the history: the flushed prefix and the field list)     *)
(*       "R" readers only over textured memories, TLC chooses the size,    *)
(*           the widths and (lazily) the segmentation                      *)
(*       "E" end to end: plan fields, choose capacity, write, clean, read  *)
(*           back with both readers; emits BEH lines for the replayer      *)
(* Variant "ok"   shift by `available` guarded (what the property needs)   *)
(*       "s5"     ubits_put as found in the tree (unguarded shift)         *)
(*       "neg_*"  deliberately broken variants (negative configurations)   *)
(***************************************************************************)
EXTENDS Naturals, Integers, Sequences, FiniteSets, TLC, Json

CONSTANTS Mode, Variant,
          Widths,      \* field widths TLC may choose
          Kinds,       \* value patterns: "ones" | "alt" | "zero" | "one"
          MaxFields,   \* fields per behaviour
          MaxCap,      \* mode W: capacities 0..MaxCap
          MaxSize,     \* mode R: memory sizes 0..MaxSize
          MaxSeg,      \* longest segment the lazy segmentation may choose
          Pats,        \* mode R: memory textures
          NearCap      \* mode E: only capacities >= ceil(bits/8) - 2 (for -simulate)

MaxShow == 24          \* most bits requested from the block stream at once

VARIABLES phase,       \* "plan" "put" "rinit" "read" "done" "ub"
          fields,      \* history: fields planned / written  [w, k]
          np,          \* fields written so far
          cap, abits,  \* abstract writer: capacity, bits written
          wbits, wavail, wpos, wov, mem, cres, wend,   \* ubits writer
          rd, rsize, rpos, ri, lastw, lastv, lastov,   \* reading pass (abstract pos rpos)
          cb, ca, cp, rov,                             \* reader cache / available / octet position / overflow
          sleft, sdead, spc, sparts, sacc, curw,       \* block stream only
          ub, oob

wvars == <<wbits, wavail, wpos, wov, mem, cres, wend>>
rvars == <<rd, rsize, rpos, ri, lastw, lastv, lastov, cb, ca, cp, rov>>
svars == <<sleft, sdead, spc, sparts, sacc, curw>>
vars  == <<phase, fields, np, cap, abits, wvars, rvars, svars, ub, oob>>

---------------------------------------------------------------------------
(* bits, octets, words *)
Zeros(n) == [i \in 1..n |-> 0]
W0 == Zeros(32)
Pow2(n) == 2 ^ n
NBits(n, v) == [i \in 1..n |-> (v \div Pow2(n - i)) % 2]     \* n-bit big-endian
RECURSIVE BitsVal(_)
BitsVal(bs) == IF Len(bs) = 0 THEN 0
               ELSE 2 * BitsVal(SubSeq(bs, 1, Len(bs) - 1)) + bs[Len(bs)]
Min(a, b) == IF a < b THEN a ELSE b

ShOK(n) == n \in 0..31                      \* defined shift counts of a 32-bit type
Shl(x, n) == [i \in 1..32 |-> IF i + n <= 32 THEN x[i + n] ELSE 0]
Shr(x, n) == [i \in 1..32 |-> IF i - n >= 1 THEN x[i - n] ELSE 0]
Or(x, y)  == [i \in 1..32 |-> IF x[i] = 1 \/ y[i] = 1 THEN 1 ELSE 0]
And(x, y) == [i \in 1..32 |-> IF x[i] = 1 /\ y[i] = 1 THEN 1 ELSE 0]
Mask(n)   == [i \in 1..32 |-> IF i > 32 - n THEN 1 ELSE 0]    \* (1 << n) - 1
Hi16(x) == BitsVal(SubSeq(x, 1, 16))
Lo16(x) == BitsVal(SubSeq(x, 17, 32))
Add32(x, y) == LET l == Lo16(x) + Lo16(y)
                   h == Hi16(x) + Hi16(y) + (l \div 65536)
               IN NBits(16, h % 65536) \o NBits(16, l % 65536)
ByteOf(x, k) == BitsVal(SubSeq(x, 8 * k + 1, 8 * k + 8))      \* k = 0: bits 31..24
ByteW(o) == Zeros(24) \o NBits(8, o)
Low(w, x) == SubSeq(x, 33 - w, 32)                             \* the w low bits, MSB first
ZeroExt(bs) == Zeros(32 - Len(bs)) \o bs

PatWord(k) == CASE k = "ones" -> [i \in 1..32 |-> 1]
                [] k = "alt"  -> [i \in 1..32 |-> i % 2]       \* 0xAAAAAAAA
                [] k = "one"  -> Zeros(31) \o <<1>>
                [] OTHER      -> W0
\* the value handed to ubits_put: the caller contract is value < 2^w
FieldWord(w, k) == ZeroExt(Low(w, PatWord(k)))

---------------------------------------------------------------------------
(* PART A - abstract operators *)
Need(bs) == (Len(bs) + 7) \div 8
Pad(bs)  == bs \o Zeros((8 - (Len(bs) % 8)) % 8)
PackBytes(bs) == [j \in 1..(Len(bs) \div 8) |-> BitsVal(SubSeq(bs, 8 * j - 7, 8 * j))]
RECURSIVE BytesBits(_)
BytesBits(m) == IF Len(m) = 0 THEN <<>>
                ELSE BytesBits(SubSeq(m, 1, Len(m) - 1)) \o NBits(8, m[Len(m)])
APut(bs, w, x) == bs \o Low(w, x)
ANospc == Need(abits) > cap
\* octets acceptable as the result of Clean: right number, right bits; the
\* value of the padding bits is not part of the statement
ABytesOK(m) == /\ Len(m) = Need(abits)
               /\ SubSeq(BytesBits(m), 1, Len(abits)) = abits
\* abstract reader over a stream of bits S: next w bits at position p
ACanRead(S, p, w) == p + w <= Len(S)
ASlice(S, p, w)   == SubSeq(S, p + 1, p + w)

RStream == BytesBits(SubSeq(mem, 1, rsize))     \* what the reader was given

---------------------------------------------------------------------------
(* PART B - ubits writer (ubits.h) *)
Store(m, p, o) == IF p >= 0 /\ p < cap THEN [m EXCEPT ![p + 1] = o] ELSE m
PutBoundFails == IF Variant = "neg_bound" THEN wpos + 3 > cap    \* off by one
                                          ELSE wpos + 4 > cap    \* buffer + 4 > buffer_end
Guarded == Variant # "s5"

\* ubits_put, branch  nb < available
PutCacheRes(w, x) ==
  [b |-> Or(Shl(wbits, w), x), a |-> wavail - w, ub |-> ~ShOK(w)]
\* ubits_put, flushing branch
PutFlushRes(w, x) ==
  LET sh   == IF wavail = 32 /\ Guarded THEN W0 ELSE Shl(wbits, wavail)  \* s->bits <<= s->available
      word == Or(sh, Shr(x, w - wavail))                                 \* |= value >> (nb - available)
      m1 == Store(mem, wpos, ByteOf(word, 0))
      m2 == Store(m1, wpos + 1, ByteOf(word, 1))
      m3 == Store(m2, wpos + 2, ByteOf(word, 2))
      m4 == Store(m3, wpos + 3, ByteOf(word, 3))
  IN [b |-> x, a |-> wavail + 32 - w, m |-> m4, oob |-> wpos + 4 > cap,
      ub |-> (~Guarded /\ ~ShOK(wavail)) \/ ~ShOK(w - wavail)]

CleanCond(a) == IF Variant = "neg_clean" THEN a <= 24 ELSE a < 32
RECURSIVE CleanLoop(_, _, _, _)
CleanLoop(b, a, p, m) ==
  IF ~CleanCond(a) THEN [r |-> "ok", b |-> b, a |-> a, p |-> p, m |-> m]
  ELSE IF p + 1 > cap THEN [r |-> "nospc", b |-> b, a |-> a, p |-> p, m |-> m]
  ELSE CleanLoop(Shl(b, 8), a + 8, p + 1, Store(m, p, ByteOf(b, 0)))
CleanRes ==
  IF wov THEN [r |-> "nospc", b |-> wbits, a |-> wavail, p |-> wpos, m |-> mem]
  ELSE CleanLoop(IF wavail < 32 THEN Shl(wbits, wavail) ELSE wbits, wavail, wpos, mem)

---------------------------------------------------------------------------
(* PART B - ubits reader (ubits_get) *)
MemAt(p) == IF p >= 0 /\ p < rsize /\ p < Len(mem) THEN mem[p + 1] ELSE 0
OrSet(x, S) == [i \in 1..32 |-> IF x[i] = 1 \/ \E y \in S : y[i] = 1 THEN 1 ELSE 0]

GGetRes(nb) ==
  LET refill == ca = 0
      fail1  == refill /\ cp = rsize
      b1 == IF refill /\ ~fail1 THEN ByteW(MemAt(cp)) ELSE cb
      a1 == IF refill THEN 8 ELSE ca
      p1 == IF refill THEN cp + 1 ELSE cp
  IN IF fail1
     THEN [cb |-> cb, ca |-> ca, cp |-> cp, ov |-> TRUE, v |-> W0, ub |-> FALSE, top |-> cp - 1]
     ELSE IF nb <= a1
     THEN LET a2 == a1 - nb
          IN [cb |-> b1, ca |-> a2, cp |-> p1, ov |-> rov,
              v |-> And(Shr(b1, a2), Mask(nb)),
              ub |-> ~ShOK(a2) \/ ~ShOK(nb), top |-> p1 - 1]
     ELSE LET n2 == nb - a1
              kept == IF Variant = "neg_get" THEN b1 ELSE And(b1, Mask(a1))
              val0 == Shl(kept, n2)
              ubA == ~ShOK(a1) \/ ~ShOK(n2)
              short == p1 + ((n2 + 7) \div 8) > rsize
          IN IF short
             THEN [cb |-> b1, ca |-> 0, cp |-> p1, ov |-> TRUE, v |-> W0, ub |-> ubA, top |-> p1 - 1]
             ELSE LET full == n2 \div 8
                      val1 == OrSet(val0, {Shl(ByteW(MemAt(p1 + k)), n2 - 8 * k - 8) : k \in 0..(full - 1)})
                      n3 == n2 % 8
                      p2 == p1 + full
                  IN IF n3 = 0
                     THEN [cb |-> b1, ca |-> 0, cp |-> p2, ov |-> rov, v |-> val1, ub |-> ubA, top |-> p2 - 1]
                     ELSE LET bw == ByteW(MemAt(p2))
                              a3 == 8 - n3
                          IN [cb |-> bw, ca |-> a3, cp |-> p2 + 1, ov |-> rov,
                              v |-> Or(val1, Shr(bw, a3)), ub |-> ubA \/ ~ShOK(a3), top |-> p2]

---------------------------------------------------------------------------
(* driver *)
RECURSIVE TotalW(_)
TotalW(fs) == IF Len(fs) = 0 THEN 0 ELSE fs[1].w + TotalW(Tail(fs))
Parts(w) == IF w <= MaxShow THEN <<w>> ELSE <<w - 16, 16>>
Readers == {"rget", "sget"}
Pattern(p, n) == [i \in 1..n |->
                    CASE p = "tex"  -> (i * 37 + 11) % 256
                      [] p = "xet"  -> 255 - ((i * 37 + 11) % 256)
                      [] p = "ones" -> 255
                      [] OTHER      -> 0]

ReaderIdle == /\ rd = "none" /\ rsize = 0 /\ rpos = 0 /\ ri = 0 /\ lastw = 0
              /\ lastv = <<>> /\ lastov = FALSE /\ cb = W0 /\ ca = 0 /\ cp = 0
              /\ rov = FALSE /\ sleft = 0 /\ sdead = FALSE /\ spc = "idle"
              /\ sparts = <<>> /\ sacc = <<>> /\ curw = 0
WriterStart == /\ wbits = W0 /\ wavail = 32 /\ wpos = 0 /\ wov = FALSE
               /\ cres = "none" /\ wend = 0

InitW == /\ Mode = "W" /\ phase = "put" /\ cap \in 0..MaxCap
         /\ mem = [i \in 1..cap |-> -1] /\ fields = <<>> /\ np = 0 /\ abits = <<>>
         /\ WriterStart /\ ReaderIdle
InitE == /\ Mode = "E" /\ phase = "plan" /\ cap = 0 /\ mem = <<>>
         /\ fields = <<>> /\ np = 0 /\ abits = <<>> /\ WriterStart /\ ReaderIdle
InitR == /\ Mode = "R"
         /\ \E p \in Pats, n \in 0..MaxSize, r \in Readers :
              /\ mem = Pattern(p, n) /\ cap = n /\ rsize = n /\ rd = r
              /\ abits = BytesBits(Pattern(p, n))
              \* ubuf_block_stream_init fails when there is nothing to map
              /\ phase = IF r = "sget" /\ n = 0 THEN "done" ELSE "read"
         /\ fields = <<>> /\ np = 0 /\ WriterStart
         /\ rpos = 0 /\ ri = 0 /\ lastw = 0 /\ lastv = <<>> /\ lastov = FALSE
         /\ cb = W0 /\ ca = 0 /\ cp = 0 /\ rov = FALSE /\ sleft = 0 /\ sdead = FALSE
         /\ spc = "idle" /\ sparts = <<>> /\ sacc = <<>> /\ curw = 0
Init == (InitW \/ InitE \/ InitR) /\ ub = FALSE /\ oob = FALSE

Trap == /\ ub' = TRUE /\ phase' = "ub"
        /\ UNCHANGED <<fields, np, cap, abits, wvars, rvars, svars, oob>>

\* ---- mode E: plan the fields, then the capacity
Plan(w, k) == /\ Mode = "E" /\ phase = "plan" /\ Len(fields) < MaxFields
              /\ fields' = Append(fields, [w |-> w, k |-> k])
              /\ UNCHANGED <<phase, np, cap, abits, wvars, rvars, svars, ub, oob>>
StartCap(c) == /\ Mode = "E" /\ phase = "plan"
               /\ c <= ((TotalW(fields) + 7) \div 8) + 1
               /\ NearCap => c + 2 >= (TotalW(fields) + 7) \div 8
               /\ cap' = c /\ mem' = [i \in 1..c |-> -1] /\ phase' = "put"
               /\ UNCHANGED <<fields, np, abits, wbits, wavail, wpos, wov, cres, wend,
                              rvars, svars, ub, oob>>

\* ---- ubits_put (the three paths are separate actions for the coverage guard)
PutGuard(w, k) ==
  /\ phase = "put"
  /\ IF Mode = "W" THEN Len(fields) < MaxFields
                   ELSE np < Len(fields) /\ fields[np + 1] = [w |-> w, k |-> k]
PutCommon(w, k) ==
  /\ fields' = IF Mode = "W" THEN Append(fields, [w |-> w, k |-> k]) ELSE fields
  /\ np' = np + 1
  /\ abits' = APut(abits, w, FieldWord(w, k))
PutCache(w, k) ==
  /\ PutGuard(w, k) /\ w < wavail
  /\ LET r == PutCacheRes(w, FieldWord(w, k)) IN
     IF r.ub THEN Trap
     ELSE /\ PutCommon(w, k)
          /\ wbits' = r.b /\ wavail' = r.a
          /\ UNCHANGED <<phase, cap, wpos, wov, mem, cres, wend, rvars, svars, ub, oob>>
PutOvf(w, k) ==
  /\ PutGuard(w, k) /\ w >= wavail /\ PutBoundFails
  /\ PutCommon(w, k)
  /\ wov' = TRUE
  /\ UNCHANGED <<phase, cap, wbits, wavail, wpos, mem, cres, wend, rvars, svars, ub, oob>>
PutFlush(w, k) ==
  /\ PutGuard(w, k) /\ w >= wavail /\ ~PutBoundFails
  /\ LET r == PutFlushRes(w, FieldWord(w, k)) IN
     IF r.ub THEN Trap
     ELSE /\ PutCommon(w, k)
          /\ wbits' = r.b /\ wavail' = r.a /\ wpos' = wpos + 4 /\ mem' = r.m
          /\ oob' = (oob \/ r.oob)
          /\ UNCHANGED <<phase, cap, wov, cres, wend, rvars, svars, ub>>
Put(w, k) == PutCache(w, k) \/ PutOvf(w, k) \/ PutFlush(w, k)

\* ---- ubits_clean
CleanGuard == /\ phase = "put"
              /\ Mode = "E" => np = Len(fields)
CleanOk == /\ CleanGuard
           /\ LET r == CleanRes IN
              /\ r.r = "ok"
              /\ cres' = "ok" /\ wend' = r.p /\ wpos' = r.p /\ wbits' = r.b
              /\ wavail' = r.a /\ mem' = r.m
           /\ phase' = IF Mode = "E" THEN "rinit" ELSE "done"
           /\ UNCHANGED <<fields, np, cap, abits, wov, rvars, svars, ub, oob>>
CleanNospc == /\ CleanGuard
              /\ LET r == CleanRes IN
                 /\ r.r = "nospc"
                 /\ cres' = "nospc" /\ wpos' = r.p /\ wbits' = r.b /\ wavail' = r.a
                 /\ mem' = r.m
              /\ phase' = "done"
              /\ UNCHANGED <<fields, np, cap, abits, wov, wend, rvars, svars, ub, oob>>

\* ---- reading passes (mode E: ubits_get first, then the block stream)
RStart == /\ Mode = "E" /\ phase = "rinit"
          /\ rd' = IF rd = "none" THEN "rget" ELSE "sget"
          /\ rsize' = wend /\ rpos' = 0 /\ ri' = 0 /\ lastw' = 0 /\ lastv' = <<>>
          /\ lastov' = FALSE /\ cb' = W0 /\ ca' = 0 /\ cp' = 0 /\ rov' = FALSE
          /\ sleft' = 0 /\ sdead' = FALSE /\ spc' = "idle" /\ sparts' = <<>>
          /\ sacc' = <<>> /\ curw' = 0
          \* a block of size 0 cannot be mapped: ubuf_block_stream_init fails
          /\ phase' = IF rd # "none" /\ wend = 0 THEN "done" ELSE "read"
          /\ UNCHANGED <<fields, np, cap, abits, wvars, ub, oob>>

\* widths the driver may read next: mode E = the fields written, then 8 more
\* bits (past the end: must overflow); mode R = anything
NextW == IF rov THEN {}
         ELSE IF Mode = "R" THEN (IF ri < MaxFields THEN Widths ELSE {})
         ELSE IF ri < Len(fields) THEN {fields[ri + 1].w}
         ELSE IF ri = Len(fields) THEN {8} ELSE {}

GReadCommon(w, r) ==
  /\ cb' = r.cb /\ ca' = r.ca /\ cp' = r.cp /\ rov' = r.ov
  /\ lastw' = w /\ lastv' = r.v /\ lastov' = r.ov      \* the whole 32-bit return value
  /\ rpos' = rpos + w /\ ri' = ri + 1
  /\ oob' = (oob \/ r.top >= rsize)
  /\ UNCHANGED <<phase, fields, np, cap, abits, wvars, rd, rsize, svars, ub>>
GReadOk(w) == /\ phase = "read" /\ rd = "rget" /\ w \in NextW
              /\ LET r == GGetRes(w) IN
                 IF r.ub THEN Trap ELSE ~r.ov /\ GReadCommon(w, r)
GReadOvf(w) == /\ phase = "read" /\ rd = "rget" /\ w \in NextW
               /\ LET r == GGetRes(w) IN
                  IF r.ub THEN Trap ELSE r.ov /\ GReadCommon(w, r)

\* block stream: one field = one or two (fill, show, skip) rounds
SBegin(w) == /\ phase = "read" /\ rd = "sget" /\ spc = "idle" /\ w \in NextW
             /\ spc' = "fill" /\ sparts' = Parts(w) /\ sacc' = <<>> /\ curw' = w
             /\ UNCHANGED <<phase, fields, np, cap, abits, wvars, rvars, sleft, sdead, ub, oob>>

\* one iteration of ubuf_block_stream_fill_bits_inner, with
\* ubuf_block_stream_get inlined; the size of the next segment is chosen
\* here (all segmentations, lazily)
SegChoices == IF sleft = 0 /\ ~sdead /\ cp < rsize
              THEN 1..Min(MaxSeg, rsize - cp) ELSE {0}
SFetch(s) ==
  LET needseg == sleft = 0
      fail    == needseg /\ (sdead \/ cp >= rsize)
      pos1    == IF needseg /\ Variant = "neg_seg" /\ cp > 0 THEN cp + 1 ELSE cp
      octet   == IF fail THEN 0 ELSE MemAt(pos1)
  IN /\ cb' = Add32(cb, Shl(ByteW(octet), 24 - ca))     \* bits += octet << (24 - available)
     /\ ca' = ca + 8
     /\ cp' = IF fail THEN cp ELSE pos1 + 1
     /\ sleft' = IF fail THEN 0 ELSE (IF needseg THEN s ELSE sleft) - 1
     /\ sdead' = (sdead \/ fail)
     /\ rov' = (rov \/ fail)
     /\ oob' = (oob \/ (~fail /\ pos1 >= rsize))
SFillCommon == /\ phase = "read" /\ rd = "sget" /\ spc = "fill" /\ ca < Head(sparts)
SFillData == /\ SFillCommon
             /\ IF ~ShOK(24 - ca) \/ ca + 8 > 32 THEN Trap     \* shift count / assert(available <= 32)
                ELSE /\ \E s \in SegChoices : SFetch(s)
                     /\ ~rov'
                     /\ UNCHANGED <<phase, fields, np, cap, abits, wvars, rd, rsize, rpos, ri,
                                    lastw, lastv, lastov, spc, sparts, sacc, curw, ub>>
SFillPastEnd == /\ SFillCommon
                /\ IF ~ShOK(24 - ca) \/ ca + 8 > 32 THEN Trap
                   ELSE /\ \E s \in SegChoices : SFetch(s)
                        /\ rov'
                        /\ UNCHANGED <<phase, fields, np, cap, abits, wvars, rd, rsize, rpos, ri,
                                       lastw, lastv, lastov, spc, sparts, sacc, curw, ub>>
\* show_bits + skip_bits of the current part
SShowSkip ==
  /\ phase = "read" /\ rd = "sget" /\ spc = "fill" /\ ca >= Head(sparts)
  /\ LET nb == Head(sparts) IN
     IF ~ShOK(32 - nb) \/ ~ShOK(nb) \/ nb > ca THEN Trap   \* bits >> (32 - nb); assert(nb <= available); bits <<= nb
     ELSE LET v == Shr(cb, 32 - nb)
              acc == sacc \o Low(nb, v)
              last == Len(sparts) = 1
          IN /\ cb' = Shl(cb, nb) /\ ca' = ca - nb
             /\ sparts' = Tail(sparts) /\ sacc' = acc
             /\ IF last
                THEN /\ spc' = "idle" /\ lastw' = curw /\ lastv' = ZeroExt(acc) /\ lastov' = rov
                     /\ rpos' = rpos + curw /\ ri' = ri + 1
                ELSE UNCHANGED <<spc, lastw, lastv, lastov, rpos, ri>>
             /\ UNCHANGED <<phase, fields, np, cap, abits, wvars, rd, rsize, cp, rov,
                            sleft, sdead, curw, ub, oob>>

REnd == /\ phase = "read" /\ spc = "idle" /\ NextW = {}
        /\ phase' = IF Mode = "E" /\ rd = "rget" THEN "rinit" ELSE "done"
        /\ UNCHANGED <<fields, np, cap, abits, wvars, rvars, svars, ub, oob>>

Next == \/ \E w \in Widths, k \in Kinds : Plan(w, k) \/ Put(w, k)
        \/ \E c \in 0..(4 * MaxFields + 1) : StartCap(c)
        \/ CleanOk \/ CleanNospc
        \/ RStart
        \/ \E w \in Widths \cup {8} : GReadOk(w) \/ GReadOvf(w) \/ SBegin(w)
        \/ SFillData \/ SFillPastEnd \/ SShowSkip
        \/ REnd
Spec == Init /\ [][Next]_vars

---------------------------------------------------------------------------
(* properties *)
NoUB     == ~ub
InBounds == ~oob
\* refinement: flushed octets ++ valid cache bits = abstract bit sequence
RefInv == (phase = "put" /\ ~wov) =>
            /\ wavail \in 1..32
            /\ 8 * wpos + (32 - wavail) = Len(abits)
            /\ wpos <= cap
            /\ BytesBits(SubSeq(mem, 1, wpos)) \o SubSeq(wbits, wavail + 1, 32) = abits
OvSound == wov => Len(abits) > 8 * cap
CleanOK == /\ cres = "ok" => /\ ~ANospc /\ wend = Need(abits)
                             /\ ABytesOK(SubSeq(mem, 1, wend))
                             \* zero padding, as the code does it (detailed level)
                             /\ SubSeq(mem, 1, wend) = PackBytes(Pad(abits))
           /\ cres = "nospc" => ANospc
\* nothing beyond the capacity, nothing beyond what was produced
Untouched == \A i \in 1..Len(mem) : (i > wpos /\ cres # "nospc" /\ ~wov) => mem[i] = -1

ReadOK == (phase \in {"read", "rinit", "done"} /\ lastw > 0) =>
             IF ACanRead(RStream, rpos - lastw, lastw)
             THEN ~lastov /\ lastv = ZeroExt(ASlice(RStream, rpos - lastw, lastw))
             ELSE lastov
ReaderRefInv ==
  (phase = "read" /\ spc = "idle" /\ ~rov) =>
     /\ 8 * cp - ca = rpos
     /\ cp <= rsize
     /\ rd = "rget" => /\ ca \in 0..8
                       /\ SubSeq(cb, 33 - ca, 32) = ASlice(RStream, rpos, ca)
     /\ rd = "sget" => /\ ca \in 0..32
                       /\ cb = ASlice(RStream, rpos, ca) \o Zeros(32 - ca)
\* what was written is read back (both levels at once: lastv comes from the
\* detailed readers over the octets the detailed writer produced)
Inverse == (Mode = "E" /\ lastw > 0 /\ ri <= Len(fields) /\ ri > 0) =>
              /\ ~lastov
              /\ lastv = FieldWord(fields[ri].w, fields[ri].k)
TypeOK == /\ phase \in {"plan", "put", "rinit", "read", "done", "ub"}
          /\ wavail \in 0..64 /\ ca \in 0..40

\* VIEW for mode W: hides the history (field list, flushed prefix of mem and
\* abits); what is left determines every future step and the truth of the
\* invariants relative to the hidden, already checked, prefix.  Room that can
\* no longer be exhausted (4 octets per remaining field + 4 for Clean) is
\* saturated; once the overflow flag is up the code never writes again
\* (wpos is frozen, every flush fails the same bound test), so the cache
\* content is hidden too.
RoomCap == 4 * (MaxFields - Len(fields)) + 4
ViewW == IF wov /\ phase # "ub"
         THEN <<phase, Len(fields), "ov", wavail, cap - wpos, cres, ub, oob,
                Len(abits) > 8 * cap>>
         ELSE <<phase, Len(fields), wbits, wavail, wov, Min(cap - wpos, RoomCap), cres, ub, oob,
                Len(abits) - 8 * wpos,
                IF 8 * wpos <= Len(abits) THEN SubSeq(abits, 8 * wpos + 1, Len(abits)) ELSE <<>>,
                IF cres = "ok" THEN wend - wpos ELSE 0>>

---------------------------------------------------------------------------
(* behaviours for the replayer (mode E) *)
FieldVal(i) == FieldWord(fields[i].w, fields[i].k)
Beh == [fields |-> [i \in 1..Len(fields) |-> <<fields[i].w, Hi16(FieldVal(i)), Lo16(FieldVal(i))>>],
        cap    |-> cap,
        nospc  |-> IF ANospc THEN 1 ELSE 0,
        end    |-> Need(abits),
        nbits  |-> Len(abits),
        bytes  |-> PackBytes(Pad(abits)),
        reads  |-> [i \in 1..Len(fields) |-> <<Hi16(FieldVal(i)), Lo16(FieldVal(i)), 0>>],
        past   |-> 1]       \* 8 more bits after the last field: overflow
Emit == (Mode = "E" /\ phase = "done") => PrintT(<<"BEH", ToJson(Beh)>>)
=============================================================================
