\* merger, -simulate: small sizes, <= 4 sections, octets emitted
SPECIFICATION Spec
CONSTANTS
  Variant = "ok"
  Palette <- PalSmallD
  MaxSecs = 4
  MaxRuns = 3
  MaxPay = 24
  AllCuts = TRUE
  Stuffs = {0, 1, 2, 5}
  Damage = {"disc", "drop", "bad"}
  MidStart = TRUE
  Record = TRUE
  Small = TRUE
INVARIANT WellFormed NoGarbage NoLoss Exact SyncAgree NextShape Emit
CHECK_DEADLOCK FALSE
