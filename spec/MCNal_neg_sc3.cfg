\* NEGATIVE: 3-octet start codes removed as 4: must violate Refines
SPECIFICATION Spec
CONSTANTS
  Variant = "neg_sc3"
  Sizes = {1, 2}
  MaxNals = 2
  MaxConv = 1
  Encs = {"annexb", "len1", "len2", "len4", "nalu"}
  Sc3 = TRUE
  BigOnce = FALSE
INVARIANT EmitCex TypeOK PayloadsKept OverflowErr RoundTrip Stable Refines ErrAgree NoTrap
VIEW View
CHECK_DEADLOCK FALSE
