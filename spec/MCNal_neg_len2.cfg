\* NEGATIVE: 2-octet prefix accepts 65536: must violate ErrAgree/Refines
SPECIFICATION Spec
CONSTANTS
  Variant = "neg_len2"
  Sizes = {1, 65535, 65536}
  MaxNals = 1
  MaxConv = 1
  Encs = {"annexb", "len1", "len2", "len4", "nalu"}
  Sc3 = FALSE
  BigOnce = FALSE
INVARIANT EmitCex TypeOK PayloadsKept OverflowErr RoundTrip Stable Refines ErrAgree NoTrap
VIEW View
CHECK_DEADLOCK FALSE
