\* simulation: random behaviours of larger instances
SPECIFICATION Spec
CONSTANTS
  ModeSet = {"agg", "chunk", "sync", "check"}
  AggMtuSet = {5, 7}
  InSizeSet = {0, 2, 3}
  ChunkMtuSet = {5, 7, 9}
  AlignSet = {1, 2, 3, 4}
  PSizeSet = {3, 4}
  NSyncSet = {2, 3}
  CheckPSizeSet = {2, 3, 4}
  LenAgg = 24
  LenChunk = 24
  LenSync = 16
  LenCheck = 16
  BufAgg = 8
  BufOther = 6
  MaxEmpty = 2
  MaxDisc = 2
  Twin = "free"
  EarlyB = FALSE
  Variant = "ok"
INVARIANT Subsequence WholePackets Conservation UnitSize CutInvariance ReleaseTerminates AggSane NoOverrun UnitsAreSlices FlushHeadSync EmitBeh
CHECK_DEADLOCK FALSE
