\* merger, exhaustive: <= 3 sections of 3..7 octets (+ 0xff body, corrupt headers), every cut position, <= 2 pieces per payload, stuffing, mid-stream start, one damage; no history
SPECIFICATION Spec
CONSTANTS
  Variant = "ok"
  Palette <- PalSmallD
  MaxSecs = 3
  MaxRuns = 2
  MaxPay = 24
  AllCuts = TRUE
  Stuffs = {0, 1, 2}
  Damage = {"disc", "drop", "bad"}
  MidStart = TRUE
  Record = FALSE
  Small = TRUE
INVARIANT WellFormed NoGarbage NoLoss Exact SyncAgree NextShape
CHECK_DEADLOCK FALSE
