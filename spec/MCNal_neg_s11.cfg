\* NEGATIVE: the loop as found in the tree (stored offsets lag by one NAL): must violate Refines
SPECIFICATION Spec
CONSTANTS
  Variant = "s11"
  Sizes = {1, 2}
  MaxNals = 2
  MaxConv = 2
  Encs = {"annexb", "len1", "len2", "len4", "nalu"}
  Sc3 = FALSE
  BigOnce = FALSE
INVARIANT EmitCex TypeOK PayloadsKept OverflowErr RoundTrip Stable Refines ErrAgree NoTrap
VIEW View
CHECK_DEADLOCK FALSE
