\* C12 quick tier, in-thread scenarios A and B and queue scenario R (at most 2 queue requests, channels <= 2): exhaustive, every transition printed for the replay
SPECIFICATION Spec
CONSTANTS
  Scenarios <- ScnQuick
  Variant = "ok"
  EmitEdges = TRUE
  Idle = FALSE
  MaxGen = 2
  MaxChan = 2
  MaxPath = 0
CONSTRAINT Bound
VIEW ViewCore
INVARIANT TypeOK PathInv OneEntry
PROPERTY StepNoCallbackAfterUnregister StepNoSinkFreedWithRegs StepReachesProvide StepReachesRunA StepReachesProbe
CHECK_DEADLOCK FALSE
