\* C13 negative configuration: deliberately broken variant fire_when_blocked, TLC must reject it
SPECIFICATION Spec
CONSTANTS
  Blockers = {1, 2, 3}
  Kinds = {"idler", "fd", "timer", "oneshot"}
  Variant = "fire_when_blocked"
  EmitEdges = FALSE
INVARIANT TypeOK ActiveIff ExpiredOnlyOneShot FreedIsFinal FreeNotifiesAll
INVARIANT NoCallbackWhenInactive PollFiresWhenActive GetStatusReturns
CHECK_DEADLOCK FALSE
