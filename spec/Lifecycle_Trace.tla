--------------------------- MODULE Lifecycle_Trace ---------------------------
(***************************************************************************)
(* C01 - validation of executions recorded from the REAL code              *)
(* (harness/pipe_driver.c + harness/pd_ext_c01.c under ASan/UBSan/LSan)    *)
(* against the abstract object table of Lifecycle.tla.  One TLC state per  *)
(* trace line; executions are separated by Reset {hid}.  An event that     *)
(* Why() refuses is recorded in bad as <<hid, line, sentence>> and the     *)
(* rest of that execution is skipped, so one run judges thousands of       *)
(* executions and reports every rejected one.                              *)
(*                                                                         *)
(* Events (see Lifecycle.tla): Init Use Rel Destroy End Adopt Alloc Free   *)
(* Take Give Audit Quiescent; San {kind} (sanitizer report) and Lost have  *)
(* no action.  Object ids are the strings printed by the harness: oK       *)
(* (urefcount number K of the process), uK / bK / dK / mK (uref, ubuf,     *)
(* udict, umem buffer).                                                    *)
(***************************************************************************)
EXTENDS Lifecycle, Json, IOUtils

Tr == ndJsonDeserialize(IOEnv.TRACE)

VARIABLES l,      \* next line of Tr
          T,      \* object table of the current execution
          skip,   \* the current execution was rejected: skip to the next Reset
          cur,    \* hid of the current execution
          bad     \* rejected executions
tvars == <<l, T, skip, cur, bad>>

TStep ==
  /\ l <= Len(Tr) /\ l' = l + 1
  /\ LET ev == Tr[l] IN
     IF ev.e = "Reset"
     THEN T' = <<>> /\ skip' = FALSE /\ cur' = ev.hid /\ bad' = bad
     ELSE IF skip THEN UNCHANGED <<T, skip, cur, bad>>
     ELSE LET w == Why(T, ev) IN
          IF w = "ok"
          THEN /\ T' = IF ev.e \in {"End", "Free"} /\ Has(T, ev.o) THEN Prune(Step(T, ev), ev.o)
                                                               ELSE Step(T, ev)
               /\ UNCHANGED <<skip, cur, bad>>
          ELSE skip' = TRUE /\ bad' = bad \cup {<<cur, l, w>>} /\ UNCHANGED <<T, cur>>
TInit == l = 1 /\ T = <<>> /\ skip = FALSE /\ cur = 0 /\ bad = {}
TSpec == TInit /\ [][TStep]_tvars

\* The four sentences are the guards of Why(); in addition, at every observation
\* point (Audit, Quiescent) the whole table is audited (dead objects are pruned from T:
\* an object id is never reused, so "not in T" means "never created or destroyed").
AtObservation == l > 1 /\ Tr[l - 1].e \in {"Audit", "Quiescent"}
RcIsHolders == AtObservation => HoldersWithinRc(T)
NoUseAfterDestroy == AtObservation => NoHolderOfDead(T)

Report == (l = Len(Tr) + 1) => PrintT(<<"TRACE_BAD", bad>>)
Accepted == LET d == TLCGet("stats").diameter IN
            IF d - 1 = Len(Tr) THEN PrintT(<<"TRACE_ACCEPTED", Len(Tr)>>)
                               ELSE PrintT(<<"TRACE_REJECTED_AT", d>>)
=============================================================================
