--------------------------- MODULE BlockBuf_Trace ---------------------------
(***************************************************************************)
(* C03 / C02 - validation of recorded executions of the real ubuf_block /  *)
(* uref_block API (harness/replay_block.c) against BlockBuf.tla.           *)
(*                                                                         *)
(* One TLC state per trace line.  Every line is one call with its result:  *)
(*   {"e": op, "a": [int args], "ib": [octets], "ib2": [octets],           *)
(*    "r": result word, "n": number (-1 if none), "b": [octets],           *)
(*    "ps": [probe sizes], "pe": [probe extract ok 1/0], "pb": [[octets]]} *)
(* A line is accepted iff the BlockBuf action with the logged arguments    *)
(* has a successor whose predicted result equals the logged one (where the *)
(* specification is exact) or lies in the permitted set (where it is       *)
(* permissive: pieces of a segmented read, size_linear of a segmented      *)
(* block, calls with arguments outside the byte-string domain, refusal of  *)
(* a write mapping while the area has several windows, refusal of a        *)
(* prepend).  A sanitizer report / crash is logged as {"e":"crash"}, which *)
(* no action accepts.  Executions are concatenated, separated by Reset     *)
(* lines carrying the manager configuration (prepend, align).              *)
(*                                                                         *)
(* Tolerant = FALSE: TLC stops at the first line no action accepts         *)
(* (Accepted prints TRACE_REJECTED_AT).  Tolerant = TRUE (used to localise *)
(* a rejection among many short executions in one run): the rejected line  *)
(* is recorded in bad, the rest of that execution is skipped, and Report   *)
(* prints TRACE_BAD at the end.                                            *)
(***************************************************************************)
EXTENDS BlockBuf, Json, IOUtils

CONSTANT Tolerant

Tr == ndJsonDeserialize(IOEnv.TRACE)

VARIABLES l,       \* next line of Tr
          pre,     \* manager prepend of the current execution
          align,   \* manager align of the current execution
          skip,    \* Tolerant: the current execution was rejected
          cur,     \* Tolerant: id of the current execution
          bad      \* Tolerant: {<<execution id, rejected line>>}

tvars == <<vars, l, pre, align, skip, cur, bad>>
THandles == 0..31

E == Tr[l]
A(i) == Tr[l].a[i]
IsEv(e) == /\ l <= Len(Tr) /\ ~skip /\ Tr[l].e = e /\ l' = l + 1
           /\ UNCHANGED <<pre, align, skip, cur, bad>>

\* a result that was read back (after a call outside the domain that
\* reported success) must be self-consistent: size() octets can be extracted
Consistent == \A i \in 1..Len(E.ps) : E.pe[i] = 1 /\ E.ps[i] = Len(E.pb[i])

Acc ==
  /\ last'.res = "any" \/ last'.res = E.r
  /\ (last'.res # "any" /\ last'.nx) => last'.n = E.n
  /\ (last'.res # "any" /\ last'.bx) => last'.b = E.b
  /\ E.r = "okfree" => Consistent

RoomOK(room) == room >= pre /\ room <= pre + align

TReset ==
  /\ l <= Len(Tr) /\ Tr[l].e = "Reset" /\ l' = l + 1
  /\ pre' = Tr[l].pre /\ align' = Tr[l].align
  /\ skip' = FALSE /\ bad' = bad
  /\ cur' = IF "hid" \in DOMAIN Tr[l] THEN Tr[l].hid ELSE 0
  /\ areas' = <<>> /\ hs' = <<>> /\ str' = <<>> /\ fresh' = {}
  /\ last' = Rec("init", <<>>, <<>>, <<>>, "ok", -1, <<>>, TRUE, TRUE, FALSE)
  /\ mayChange' = {} /\ step' = 0 /\ hist' = <<>>

TAlloc == IsEv("alloc") /\ E.r = "ok" /\ RoomOK(E.n) /\ Alloc(A(1), E.ib, E.n) /\ Acc
TDup == IsEv("dup") /\ Dup(A(1), A(2)) /\ Acc
TSplice == IsEv("splice") /\ Splice(A(1), A(2), A(3), A(4)) /\ Acc
TSplit == IsEv("split") /\ Split(A(1), A(2), A(3)) /\ Acc
TCopy == /\ IsEv("copy")
         /\ LET room == IF E.r = "ok" THEN E.n ELSE pre IN
            RoomOK(room) /\ Copy(A(1), A(2), A(3), A(4), room)
         /\ Acc
TMerge == /\ IsEv("merge")
          /\ LET room == IF E.r = "ok" THEN E.n ELSE pre IN
             RoomOK(room) /\ Merge(A(1), A(2), A(3), room)
          /\ Acc
TAppend == IsEv("append") /\ AppendBlk(A(1), A(2)) /\ Acc
TInsert == IsEv("insert") /\ Insert(A(1), A(2), A(3)) /\ Acc
TDelete == IsEv("delete") /\ Delete(A(1), A(2), A(3)) /\ Acc
TTruncate == IsEv("truncate") /\ Truncate(A(1), A(2)) /\ Acc
TResize == IsEv("resize") /\ Resize(A(1), A(2), A(3)) /\ Acc
\* the statement does not say when prepend must succeed: a refusal that changes
\* nothing is always accepted; a success only if the room exists
TPrepend == /\ IsEv("prepend")
            /\ \/ Prepend(A(1), A(2))
               \/ E.r = "err" /\ A(1) \in Live /\ Refuse("prepend", <<A(1), A(2)>>, "err")
            /\ Acc
TFree == IsEv("free") /\ Free(A(1)) /\ Acc
TWmap == IsEv("wmap") /\ (\E gr \in BOOLEAN : Write("wmap", A(1), A(2), 0, gr)) /\ Acc
TPoke == IsEv("poke") /\ (\E gr \in BOOLEAN : Write("poke", A(1), A(2), A(3), gr)) /\ Acc

TSize == IsEv("size") /\ ObsSize(A(1)) /\ Acc
TRange == \E op \in {"read", "peek", "extract", "iovec"} :
             IsEv(op) /\ ObsRange(op, A(1), A(2), A(3)) /\ Acc
\* one read call on a segmented block: a non-empty prefix of the range
TRd1 == /\ IsEv("rd1") /\ ObsRd1(A(1), A(2), A(3)) /\ Acc
        /\ (last'.res = "ok" /\ ~last'.bx) =>
              LET n == Size(A(1))
                  want == Sub(str[A(1)], Norm(A(2), n), RangeSize(n, A(2), A(3)))
              IN /\ Len(E.b) <= Len(want)
                 /\ E.b = SubSeq(want, 1, Len(E.b))
                 /\ Len(want) > 0 => Len(E.b) > 0
\* size_linear on a segmented block: between 1 and what is left
TSlin == /\ IsEv("slin") /\ ObsSlin(A(1), A(2)) /\ Acc
         /\ (last'.res = "ok" /\ ~last'.nx) =>
               (E.n >= 1 /\ E.n <= Size(A(1)) - Norm(A(2), Size(A(1))))
TScan == IsEv("scan") /\ ObsScan(A(1), A(2), A(3)) /\ Acc
TFind == IsEv("find") /\ ObsFind(A(1), A(2), E.ib) /\ Acc
TCompare == IsEv("compare") /\ ObsCompare(A(1), A(2), A(3)) /\ Acc
TEqual == IsEv("equal") /\ ObsEqual(A(1), A(2)) /\ Acc
TMatch == IsEv("match") /\ ObsMatch(A(1), E.ib, E.ib2) /\ Acc
\* final audit: size and the whole content through extract
TAudit == /\ IsEv("audit")
          /\ IF A(1) \in Live
             THEN Obs("audit", <<A(1)>>, <<>>, <<>>, "ok", Size(A(1)), str[A(1)], TRUE, TRUE)
             ELSE Obs("audit", <<A(1)>>, <<>>, <<>>, "none", -1, <<>>, TRUE, TRUE)
          /\ Acc

TCall == \/ TAlloc \/ TDup \/ TSplice \/ TSplit \/ TCopy \/ TMerge \/ TAppend
         \/ TInsert \/ TDelete \/ TTruncate \/ TResize \/ TPrepend \/ TFree \/ TWmap \/ TPoke
         \/ TSize \/ TRange \/ TRd1 \/ TSlin \/ TScan \/ TFind \/ TCompare \/ TEqual
         \/ TMatch \/ TAudit

\* Tolerant: no action accepts the line - note it, skip the rest of the execution
TRejectHere == /\ Tolerant /\ ~skip /\ l <= Len(Tr) /\ Tr[l].e # "Reset"
               /\ ~ENABLED TCall
               /\ skip' = TRUE /\ bad' = bad \cup {<<cur, l>>} /\ l' = l + 1
               /\ UNCHANGED <<vars, pre, align, cur>>
TSkip == /\ skip /\ l <= Len(Tr) /\ Tr[l].e # "Reset" /\ l' = l + 1
         /\ UNCHANGED <<vars, pre, align, skip, cur, bad>>

TInit == /\ l = 1 /\ pre = 0 /\ align = 0 /\ skip = FALSE /\ cur = 0 /\ bad = {} /\ Init
TNext == TReset \/ TCall \/ TRejectHere \/ TSkip
TSpec == TInit /\ [][TNext]_tvars

Accepted == LET d == TLCGet("stats").diameter IN
            IF d - 1 = Len(Tr) THEN PrintT(<<"TRACE_ACCEPTED", Len(Tr)>>)
                               ELSE PrintT(<<"TRACE_REJECTED_AT", d>>)
Report == (l = Len(Tr) + 1) => PrintT(<<"TRACE_BAD", bad>>)
=============================================================================
