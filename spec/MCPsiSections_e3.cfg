\* merger, emission (thorough): every behaviour with <= 2 sections from the tiny palette incl. corrupt headers, every cut position, one damage
SPECIFICATION Spec
CONSTANTS
  Variant = "ok"
  Palette <- PalTinyD
  MaxSecs = 2
  MaxRuns = 2
  MaxPay = 16
  AllCuts = TRUE
  Stuffs = {0}
  Damage = {"disc", "drop", "bad"}
  MidStart = FALSE
  Record = TRUE
  Small = TRUE
INVARIANT WellFormed NoGarbage NoLoss Exact SyncAgree NextShape Emit
CHECK_DEADLOCK FALSE
