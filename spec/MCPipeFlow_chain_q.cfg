SPECIFICATION Spec
CONSTANTS
 Setups <- S_chain
 Acts <- A_chain
 Bufs <- B_size
 MaxSteps = 4
 MaxIn = 2
 Variant = "ok"
 CheckEpi = TRUE
INVARIANT ExactlyOnce
INVARIANT InOrder
INVARIANT ContentOK
INVARIANT DupAll
INVARIANT NoLeak
INVARIANT EpilogueClean
INVARIANT DrainedOK
PROPERTY FlushFrees
VIEW view
CHECK_DEADLOCK FALSE
