SPECIFICATION Spec
CONSTANTS
  NU = 2
  NB = 2
  Variant = "attachleak"
  MaxCmds = 5
  MinCmds = 0
  EmitBeh = FALSE
INVARIANTS QuiescentClean
VIEW View
POSTCONDITION Cov
CHECK_DEADLOCK FALSE
