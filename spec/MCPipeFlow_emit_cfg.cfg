SPECIFICATION Spec
CONSTANTS
 Setups <- S_cfg
 Acts <- A_cfg
 Bufs <- B_two
 MaxSteps = 3
 MaxIn = 2
 Variant = "ok"
 CheckEpi = FALSE
INVARIANT Emit
CHECK_DEADLOCK FALSE
