\* exhaustive geometry evaluation (quick): every geometry class, alloc / one resize / cross-section of mapping requests
CONSTANTS
  Geos = {"wide"}
  GeoSet <- PicGeoSet
  Handles = {0}
  MaxOps = 3
  MaxResize = 1
  Variant = "none"
  Record = FALSE
SPECIFICATION Spec
VIEW View
INVARIANT WindowsInCanvas Inside InjectiveMap CanvasInjective GranularityP MapIsWindowCell AllocGranular WriteOnlySingle
PROPERTY CropPreserves StructuralOpsDontWrite
CHECK_DEADLOCK FALSE
