SPECIFICATION TSpec
INVARIANT AusSound Report
POSTCONDITION Accepted
CHECK_DEADLOCK FALSE
