SPECIFICATION Spec
CONSTANTS
  Flavour = "sink"
  IL = 1
  OL = 1
  Mx = FALSE
  Prog <- P_Aicr
  SrcProg <- S_none
  Variant = "code"
  FreeLen = 0
  Eager = FALSE
  FreeToks <- T_in
INVARIANT InOrderOnce FlowDefFirst EndLast Confinement HoldNotDrop FreedOnce
VIEW view
CHECK_DEADLOCK FALSE
