SPECIFICATION TSpec
CONSTANTS
  Handles <- THandles
  Fill = 14
  Strict = FALSE
  KeepHist = FALSE
  Bug = "none"
  Tolerant = FALSE
INVARIANT TypeOK ByteString
PROPERTY Isolation WriteOnlySingle StructuralOpsDontWrite SharedNeverWritten ErrLeavesUnchanged
POSTCONDITION Accepted
CHECK_DEADLOCK FALSE
