SPECIFICATION TSpec
CONSTANTS
  Handles <- THandles
  Fill = 14
  Strict = FALSE
  KeepHist = FALSE
  Bug = "none"
INVARIANT TypeOK ByteString WriteOnlySingle
PROPERTY Isolation StructuralOpsDontWrite SharedNeverWritten ErrLeavesUnchanged
POSTCONDITION Accepted
CHECK_DEADLOCK FALSE
