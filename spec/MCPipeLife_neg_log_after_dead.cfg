SPECIFICATION Spec
CONSTANTS
  NP = 1
  NS = 2
  Variant = "log_after_dead"
  EmitEdges = FALSE
  OptModes = {TRUE, FALSE}
VIEW View
INVARIANTS TypeOK ReadyFirst DeadOnce DeadLast FlowDefBeforeData NoDataWhileRejected
CHECK_DEADLOCK FALSE
