SPECIFICATION Spec
CONSTANTS
 Setups <- S_sync
 Acts <- A_sync
 Bufs <- B_two
 MaxSteps = 3
 MaxIn = 2
 Variant = "ok"
 CheckEpi = FALSE
INVARIANT Emit
CHECK_DEADLOCK FALSE
