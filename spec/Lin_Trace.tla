------------------------------ MODULE Lin_Trace ------------------------------
(***************************************************************************)
(* C07 - abstract sequential specification of the bounded FIFO / LIFO /    *)
(* pool and the linearizability judgement of recorded histories of the     *)
(* real ufifo / ulifo / upool (harness/sched_ring.c).                      *)
(*                                                                         *)
(* A history is a sequence of Inv / Ret events in real-time order.  The    *)
(* module tracks the SET of abstract configurations that some placement of *)
(* linearization points inside the operation intervals seen so far can     *)
(* produce (powerset construction): the history is linearizable iff the    *)
(* set never becomes empty.  One TLC state per trace line.                 *)
(*                                                                         *)
(* Relaxed failure rules, exactly as the property states them:             *)
(*   pop  = nothing  only if the structure is empty at the lin. point      *)
(*   push = full     only if stored + (other) operations in progress >= N  *)
(* Executions are concatenated, separated by Reset events which carry the  *)
(* kind ("fifo" | "lifo" | "bag") and the capacity.                        *)
(***************************************************************************)
EXTENDS Naturals, Integers, Sequences, FiniteSets, TLC, Json, IOUtils

Tr == ndJsonDeserialize(IOEnv.TRACE)

VARIABLES l,      \* next line of Tr
          S,      \* set of possible configurations [q |-> Seq, p |-> pending ops]
          kind, cap

vars == <<l, S, kind, cap>>

Threads == 0..7
None == [op |-> "none", v |-> 0, done |-> FALSE, res |-> 0]

NPending(c, t) == Cardinality({u \in Threads : u # t /\ c.p[u].op # "none"})

\* successors of configuration c by linearizing the pending operation of t
LinOne(c, t) ==
  LET o == c.p[t] IN
  IF o.op = "none" \/ o.done THEN {}
  ELSE IF o.op \in {"push", "free"} THEN
      (IF Len(c.q) < cap
       THEN {[q |-> Append(c.q, o.v), p |-> [c.p EXCEPT ![t] = [o EXCEPT !.done = TRUE, !.res = 1]]]}
       ELSE {})
      \cup
      (IF Len(c.q) + NPending(c, t) >= cap
       THEN {[q |-> c.q, p |-> [c.p EXCEPT ![t] = [o EXCEPT !.done = TRUE, !.res = 0]]]}
       ELSE {})
  ELSE \* pop / alloc
      IF c.q = <<>>
      THEN {[q |-> c.q, p |-> [c.p EXCEPT ![t] = [o EXCEPT !.done = TRUE, !.res = 0]]]}
      ELSE IF kind = "fifo"
      THEN {[q |-> Tail(c.q), p |-> [c.p EXCEPT ![t] = [o EXCEPT !.done = TRUE, !.res = Head(c.q)]]]}
      ELSE IF kind = "lifo"
      THEN {[q |-> SubSeq(c.q, 1, Len(c.q) - 1),
             p |-> [c.p EXCEPT ![t] = [o EXCEPT !.done = TRUE, !.res = c.q[Len(c.q)]]]]}
      ELSE \* bag: any stored element
           {[q |-> SubSeq(c.q, 1, i - 1) \o SubSeq(c.q, i + 1, Len(c.q)),
             p |-> [c.p EXCEPT ![t] = [o EXCEPT !.done = TRUE, !.res = c.q[i]]]] : i \in 1..Len(c.q)}

RECURSIVE Close(_)
Close(X) == LET Y == X \cup UNION {LinOne(c, t) : c \in X, t \in Threads}
            IN IF Y = X THEN X ELSE Close(Y)

IsEv(e) == l <= Len(Tr) /\ Tr[l].e = e /\ l' = l + 1

TReset == /\ IsEv("Reset")
          /\ kind' = Tr[l].kind /\ cap' = Tr[l].cap
          /\ S' = {[q |-> <<>>, p |-> [t \in Threads |-> None]]}

TInv == /\ IsEv("Inv")
        /\ LET t == Tr[l].t IN
           /\ \A c \in S : c.p[t].op = "none"
           /\ S' = {[c EXCEPT !.p[t] = [op |-> Tr[l].op, v |-> Tr[l].v, done |-> FALSE, res |-> 0]] : c \in S}
        /\ UNCHANGED <<kind, cap>>

\* the logged result: for the pool, a fresh object (negative id) means the
\* pool looked empty (res 0); a recycled one is the element itself.
Logged(ev) == IF ev.op = "alloc" /\ ev.v < 0 THEN 0 ELSE ev.v

TRet == /\ IsEv("Ret")
        /\ LET t == Tr[l].t
               C == Close(S)
               OK == {c \in C : c.p[t].op = Tr[l].op /\ c.p[t].done /\ c.p[t].res = Logged(Tr[l])}
           IN /\ OK # {}
              /\ S' = {[c EXCEPT !.p[t] = None] : c \in OK}
        /\ UNCHANGED <<kind, cap>>

TInit == l = 1 /\ S = {[q |-> <<>>, p |-> [t \in Threads |-> None]]} /\ kind = "fifo" /\ cap = 1
TNext == TReset \/ TInv \/ TRet
TSpec == TInit /\ [][TNext]_vars

\* --- property invariants evaluated in every state of every history --------
\* no element invented / duplicated: every possible configuration stores
\* distinct elements and never more than the capacity
NoDupNoOverflow == \A c \in S : /\ Len(c.q) <= cap
                                /\ \A i, j \in 1..Len(c.q) : i # j => c.q[i] # c.q[j]
Linearizable == S # {}

Accepted == LET d == TLCGet("stats").diameter IN
            IF d - 1 = Len(Tr) THEN PrintT(<<"TRACE_ACCEPTED", Len(Tr)>>)
                               ELSE PrintT(<<"TRACE_REJECTED_AT", d>>)
=============================================================================
