--------------------------- MODULE Requests_Trace ---------------------------
(***************************************************************************)
(* C12 - validation of executions recorded from the real code              *)
(* (harness/pipe_driver.c + harness/pd_ext_c12.c) against Requests.        *)
(*                                                                         *)
(* One TLC state per trace line.  {"e":"Reset","cfg":{...}} starts an      *)
(* execution in the scenario it carries (the record printed by TLC for the *)
(* exhaustive run; sets arrive as arrays).  A line                         *)
(*   {"e":<op>,"a":..,"b":..,"evs":[[..],..]}                              *)
(* is consumed iff the action of Requests for <op> is enabled and predicts *)
(* the same registrations / unregistrations at the sinks, call-backs of    *)
(* the original requests and sink releases as were observed (compared as   *)
(* multisets: the statement does not order them; proxy depths, the         *)
(* provide_request events seen by probes and return codes are details and  *)
(* are not compared here).  On a mismatch TLC prints what it expected.     *)
(***************************************************************************)
EXTENDS MCRequests, IOUtils

Tr == ndJsonDeserialize(IOEnv.TRACE)

VARIABLE l
tvars == <<vars, l>>

TE == Tr[l]
IsEv(e) == l <= Len(Tr) /\ Tr[l].e = e /\ l' = l + 1

SetOf(a) == {a[i] : i \in DOMAIN a}

\* the scenario of a Reset line; in a recorded execution every pipe and sink
\* may be released (canrel only bounds the exhaustive runs)
CfgOf(c0) ==
  LET c == IF "oneshot" \in DOMAIN c0 THEN [c0 EXCEPT !.oneshot = SetOf(@)] ELSE c0 IN
  [c EXCEPT !.entry = SetOf(@),
            !.icpt = [n \in DOMAIN @ |-> SetOf(@[n])],
            !.prov = [n \in DOMAIN @ |-> SetOf(@[n])],
            !.fprov = [n \in DOMAIN @ |-> SetOf(@[n])],
            !.canrel = [n \in DOMAIN @ |-> c.kind[n] \in {"fwd", "sink"} /\ c.hnd0[n]]]

\* what is compared: registrations at sinks, call-backs, sink releases
VP(e) == CASE e[1] \in {"sreg", "sunreg"} -> <<e[1], e[2], e[3]>>
           [] e[1] = "cb" -> <<"cb", e[2], e[3]>>
           [] e[1] = "freed" -> <<"freed", e[2], ToString(e[3])>>
           [] OTHER -> <<>>
VSeq(s) == SelectSeq([i \in DOMAIN s |-> VP(s[i])], LAMBDA x : x # <<>>)
Count(s, x) == Cardinality({i \in DOMAIN s : s[i] = x})
SameBag(a, b) == /\ Len(a) = Len(b)
                 /\ \A x \in SetOf(a) \cup SetOf(b) : Count(a, x) = Count(b, x)

Match == \/ SameBag(VSeq(evs'), TE.evs)
         \/ (PrintT(<<"MISMATCH", l, ToJson([expected |-> VSeq(evs'), observed |-> TE.evs])>>) /\ FALSE)

TReset ==
  /\ IsEv("Reset")
  /\ LET c == CfgOf(TE.cfg) IN
     /\ cfg' = c
     /\ out' = Start(c).out /\ lst' = Start(c).lst /\ sreg' = Start(c).sreg
     /\ reg' = Start(c).reg /\ hnd' = Start(c).hnd /\ alive' = Start(c).alive
  /\ qlist' = <<>> /\ chD' = <<>> /\ chU' = <<>> /\ ngen' = 0 /\ lost' = {} /\ zomb' = {}
  /\ cmd' = C("new", NONE, NONE) /\ evs' = <<>> /\ ret' = 0
  /\ pre' = [chU |-> <<>>, qlist |-> <<>>]
  /\ path' = <<>>

TReg     == IsEv("reg") /\ Reg(TE.a, TE.b) /\ Match
TUnreg   == IsEv("unreg") /\ reg[TE.b] = TE.a /\ Unreg(TE.b) /\ Match
TRequire == IsEv("require") /\ cfg.owner[TE.b] = TE.a /\ Require(TE.b) /\ Match
TOut     == IsEv("out") /\ SetOut(TE.a, TE.b) /\ Match
TProvide == IsEv("provide") /\ Provide(TE.a, TE.b) /\ Match
TRel     == IsEv("rel") /\ Rel(TE.a) /\ Match
TAttach  == IsEv("attach") /\ Attach(TE.a) /\ Match
TLoop    == IsEv("loop") /\ (IF TE.a = "A" THEN RunA ELSE RunB) /\ Match

TInit == l = 1 /\ InitWith(CHOOSE c \in Scenarios : TRUE)
TNext == TReset \/ TReg \/ TUnreg \/ TRequire \/ TOut \/ TProvide \/ TRel \/ TAttach \/ TLoop
TSpec == TInit /\ [][TNext]_tvars

Accepted == LET d == TLCGet("stats").diameter IN
            IF d - 1 = Len(Tr) THEN PrintT(<<"TRACE_ACCEPTED", Len(Tr)>>)
                               ELSE PrintT(<<"TRACE_REJECTED_AT", d>>)
=============================================================================
