SPECIFICATION Spec
CONSTANTS
  ProgA <- P_full
  WRelAt = 0
  Variant = "code"
INVARIANT CmdInOrderOnce EventsInOrder AllExecuted 
VIEW view
CHECK_DEADLOCK FALSE
