\* single pass over many short executions: rejected lines are recorded (TRACE_BAD) instead of stopping
SPECIFICATION TSpec
CONSTANTS
  Handles <- THandles
  Fill = 14
  Strict = FALSE
  KeepHist = FALSE
  Bug = "none"
  Tolerant = TRUE
INVARIANT TypeOK ByteString Report
PROPERTY Isolation WriteOnlySingle StructuralOpsDontWrite SharedNeverWritten ErrLeavesUnchanged
POSTCONDITION Accepted
CHECK_DEADLOCK FALSE
