SPECIFICATION Spec
CONSTANTS
  NU = 2
  NB = 2
  Variant = "ok"
  MaxCmds = 4
  MinCmds = 0
  EmitBeh = TRUE
INVARIANTS RcIsHolders DestroyOnce NoUseAfterDestroy QuiescentClean Sane Emit
POSTCONDITION Cov
CHECK_DEADLOCK FALSE
