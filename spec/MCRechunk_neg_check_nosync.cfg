\* NEGATIVE: sync octet not tested: UnitSize must be violated
SPECIFICATION Spec
CONSTANTS
  ModeSet = {"check"}
  AggMtuSet = {3, 4}
  InSizeSet = {0, 2}
  ChunkMtuSet = {3, 5}
  AlignSet = {1, 2, 3}
  PSizeSet = {3}
  NSyncSet = {2}
  CheckPSizeSet = {2}
  LenAgg = 1
  LenChunk = 1
  LenSync = 1
  LenCheck = 4
  BufAgg = 5
  BufOther = 99
  MaxEmpty = 1
  MaxDisc = 0
  Twin = "none"
  EarlyB = FALSE
  Variant = "check_nosync"
VIEW View
INVARIANT Subsequence WholePackets Conservation UnitSize CutInvariance ReleaseTerminates AggSane NoOverrun UnitsAreSlices FlushHeadSync
CHECK_DEADLOCK FALSE
