SPECIFICATION Spec
CONSTANTS
  L = 2
  NPush <- N_2_2
  NCons = 1
  Drain = FALSE
  M = 8
  Variant = "code"
INVARIANT Occupancy NoLostWakeup

VIEW view
CHECK_DEADLOCK FALSE
