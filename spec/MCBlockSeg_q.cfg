\* detailed model, quick: one block, calls that move or use the cache with arguments inside the block, 3 calls deep (readers are calls like any other)
SPECIFICATION MCSpec
CONSTANTS
  Handles = {0, 1}
  Fill = 14
  Strict = TRUE
  KeepHist = FALSE
  Bug = "none"
  Pre = 2
  MaxLen = 6
  MaxWins = 5
  Depth = 3
  Pats = "a"
  InitSet = "one"
  ObsLast = FALSE
  Rand = FALSE
  Dom = "in"
  Ops = {"dup", "split", "insert", "delete", "truncate", "prepend", "rd1", "slin"}
INVARIANT TypeOK SegTypeOK ByteString FreshSingle TotalOK CacheSound EndSound
PROPERTY NoBad Isolation ErrLeavesUnchanged StructuralOpsDontWrite
CONSTRAINT Bounded
VIEW sview
CHECK_DEADLOCK FALSE
