SPECIFICATION Spec
CONSTANTS
 Setups <- S_dupchain
 Acts <- A_dupchain
 Bufs <- B_size
 MaxSteps = 3
 MaxIn = 2
 Variant = "ok"
 CheckEpi = TRUE
INVARIANT ExactlyOnce
INVARIANT InOrder
INVARIANT ContentOK
INVARIANT DupAll
INVARIANT NoLeak
INVARIANT EpilogueClean
INVARIANT DrainedOK
PROPERTY FlushFrees
VIEW view
CHECK_DEADLOCK FALSE
