SPECIFICATION Spec
CONSTANTS
  Threads = {0, 1}
  Mgrs = {"m0", "m1"}
  MaxDepth = 3
  MaxSteps = 7
  Variant = "bool"
INVARIANTS TypeOK NoAnswerWhileFrozen OwnManagerOtherwise
CHECK_DEADLOCK FALSE
