------------------------- MODULE UbufMgrReq_Trace -------------------------
(***************************************************************************)
(* C12 - single-pass validation of recorded executions of a pipe made of    *)
(* UPIPE_HELPER_UBUF_MGR (harness/replay_ubufreq.c) against UbufMgrReq.tla. *)
(* Events: Reset(hid) / Require(f, evs) / Provide(m, f, evs, hm, hf) with   *)
(* evs = what the request holder and the check call-back saw, hm / hf =     *)
(* what the helper holds after the call.                                    *)
(***************************************************************************)
EXTENDS Naturals, Sequences, TLC, Json, IOUtils
Tr == ndJsonDeserialize(IOEnv.TRACE)
Mgrs == {"m0", "m1", "m2"}
Fmts == {"f0", "f1", "f2", "f3"}
Variant == "code"
MaxSteps == 1000000
VARIABLES reg, hm, hf, last, obs, steps
M == INSTANCE UbufMgrReq
VARIABLES l, skip, cur, bad
mvars == <<reg, hm, hf, last, obs, steps>>
vars == <<l, mvars, skip, cur, bad>>
ToSet(s) == {s[k] : k \in 1..Len(s)}
Act(ev) ==
  /\ CASE ev.e = "Require" -> M!Require(ev.f)
       [] ev.e = "Provide" -> M!Provide(ev.m, ev.f) /\ hm' = ev.hm /\ hf' = ev.hf
       [] OTHER -> FALSE
  /\ obs' = ToSet(ev.evs)
  /\ steps' = steps + 1
  /\ M!Holds'
TStep ==
  /\ l <= Len(Tr) /\ l' = l + 1
  /\ LET ev == Tr[l] IN
     IF ev.e = "Reset"
     THEN /\ reg' = FALSE /\ hm' = M!None /\ hf' = M!None /\ last' = <<M!None, M!None>> /\ obs' = {} /\ steps' = 0
          /\ skip' = FALSE /\ cur' = ev.hid /\ bad' = bad
     ELSE IF skip THEN UNCHANGED <<mvars, skip, cur, bad>>
     ELSE IF ENABLED Act(ev) THEN Act(ev) /\ UNCHANGED <<skip, cur, bad>>
     ELSE skip' = TRUE /\ bad' = bad \cup {<<cur, l>>} /\ UNCHANGED <<mvars, cur>>
TInit == /\ l = 1 /\ reg = FALSE /\ hm = M!None /\ hf = M!None /\ last = <<M!None, M!None>> /\ obs = {} /\ steps = 0
         /\ skip = FALSE /\ cur = 0 /\ bad = {}
TSpec == TInit /\ [][TStep]_vars
Report == (l = Len(Tr) + 1) => PrintT(<<"TRACE_BAD", bad>>)
Accepted == LET d == TLCGet("stats").diameter IN
            IF d - 1 = Len(Tr) THEN PrintT(<<"TRACE_ACCEPTED", Len(Tr)>>)
                               ELSE PrintT(<<"TRACE_REJECTED_AT", d>>)
=============================================================================
