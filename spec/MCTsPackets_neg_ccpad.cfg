SPECIFICATION Spec
CONSTANTS
  Mode = "R"
  Variant = "neg_ccpad"
  MaxPkts = 0
  Pays = {}
  AfKinds = {}
  Deltas = {1}
  FirstCcs = {14}
  MaxAus = 2
  AuSizes = {1, 174, 360}
  TsKs = {"none", "pts", "both"}
  Stamps = {4, 13}
  Gaps = {3}
  FlagKinds = {"-", "rd"}
  Pads = {FALSE, TRUE}
  Cuts = {}
  HdrPads = {0}
  MayLose = FALSE
  Scale = 3
  Mod = 4
  MaxDelay = 6
INVARIANT CcRuleEnc PacketizeOK RoundTrip InOrder

CHECK_DEADLOCK FALSE
