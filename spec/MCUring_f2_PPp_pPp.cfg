SPECIFICATION Spec
CONSTANTS
  N = 2
  Kind = "fifo"
  Prog <- P_PPp_pPp
  HeadCmp = "tagindex"
INVARIANT NoErr StructureOK TypeOK
VIEW view
CHECK_DEADLOCK FALSE
