---------------------------- MODULE PipeFlowData ----------------------------
(***************************************************************************)
(* C05 - buffers and the DOCUMENTED CHANGE of every one-to-one pipe kind   *)
(* (kindFn).  A buffer is an id, a payload (sequence of octets) and the    *)
(* attributes the pipes under test may touch:                              *)
(*   hid            the buffer carries its id in attribute x.id            *)
(*   sys/prog/orig  dates <<type, value>>, type in "-","pts","dts","cr"    *)
(*   dpd/cdd/rcd    dts->pts, cr->dts, rap->cr delays (-1 = unset)         *)
(*   tag            string attribute x.tag ("-" = absent)                  *)
(*   disc           discontinuity flag                                     *)
(* Everything observable is compared as STRINGS (Fmt): the harness prints  *)
(* the same fields, python never interprets them.                          *)
(***************************************************************************)
EXTENDS Naturals, Integers, Sequences, TLC

NoDate == <<"-", 0>>
NMIN == -2          \* NODEMUX_CLOCK_MIN (UINT32_MAX), not representable: printed as a string

\* payload octet i (1-based) of the buffer with this id
Octet(id, i) == (id * 16 + i - 1) % 256

MkBuf(id, t) ==
    [id |-> id, pl |-> TLCEval([i \in 1..t.sz |-> Octet(id, i)]), hid |-> t.hid,
     sys |-> t.sys, prog |-> t.prog, orig |-> t.orig, dpd |-> t.dpd, cdd |-> t.cdd, rcd |-> -1,
     tag |-> t.tag, disc |-> t.disc]

\* ---- formatting (strings) ---------------------------------------------------
HD == <<"0","1","2","3","4","5","6","7","8","9","a","b","c","d","e","f">>
HexByte(x) == HD[(x \div 16) + 1] \o HD[(x % 16) + 1]
RECURSIVE HexSeq(_)
HexSeq(s) == IF s = <<>> THEN "" ELSE HexByte(Head(s)) \o HexSeq(Tail(s))
Hex(s) == IF s = <<>> THEN "-" ELSE HexSeq(s)
NumStr(v) == IF v = NMIN THEN "4294967295" ELSE ToString(v)
DateStr(d) == IF d[1] = "-" THEN "-" ELSE d[1] \o ":" \o NumStr(d[2])
OptStr(v) == IF v < 0 THEN "-" ELSE ToString(v)
FdStr(f) == IF f = "-" THEN "none" ELSE "block." \o f \o "."
\* what a sink prints when it receives b
Fmt(s, b, fd, held) ==
    [s |-> s, id |-> IF b.hid THEN ToString(b.id) ELSE "-", size |-> ToString(Len(b.pl)),
     hex |-> Hex(b.pl), fd |-> FdStr(fd), sys |-> DateStr(b.sys), prog |-> DateStr(b.prog),
     orig |-> DateStr(b.orig), dpd |-> OptStr(b.dpd), cdd |-> OptStr(b.cdd), rcd |-> OptStr(b.rcd),
     tag |-> b.tag, disc |-> ToString(b.disc), held |-> IF held THEN "1" ELSE "0"]

\* ---- date algebra used by the clock pipes (uref_clock.h) ---------------------
\* uref_clock_set_date_<dom>: records a delay when the stored date moves to a later stage
SetDate(b, dom, t, v) ==
    LET cur == b[dom]
        b1 == IF cur[1] = "cr"
              THEN IF t = "pts" /\ b.dpd >= 0 THEN [b EXCEPT !.cdd = v - b.dpd - cur[2]]
                   ELSE IF t = "dts" THEN [b EXCEPT !.cdd = v - cur[2]] ELSE b
              ELSE IF cur[1] = "dts" /\ t = "pts" THEN [b EXCEPT !.dpd = v - cur[2]] ELSE b
    IN [b1 EXCEPT ![dom] = IF t = "-" THEN NoDate ELSE <<t, v>>]
\* uref_clock_get_cr_sys, -1 when it cannot be derived
CrSys(b) == CASE b.sys[1] = "cr"  -> b.sys[2]
              [] b.sys[1] = "dts" -> IF b.cdd >= 0 THEN b.sys[2] - b.cdd ELSE -1
              [] b.sys[1] = "pts" -> IF b.dpd >= 0 /\ b.cdd >= 0 THEN b.sys[2] - b.dpd - b.cdd ELSE -1
              [] OTHER -> -1
AddDate(d, x) == IF d[1] = "-" THEN d ELSE <<d[1], d[2] + x>>

\* ---- kindFn: the documented change of each one-to-one kind -------------------
\* P = configuration of the pipe: a, b (numbers), tg (tag of the dictionary), ini
\* result: [fw |-> forwarded?, b |-> buffer as emitted]
Swap16(pl) == TLCEval([i \in 1..Len(pl) |-> IF i % 2 = 1 THEN (IF i < Len(pl) THEN pl[i + 1] ELSE pl[i])
                                                          ELSE pl[i - 1]])
KindFn(k, P, b) ==
    CASE k \in {"idem", "setflowdef"} -> [fw |-> TRUE, b |-> b]
      [] k = "setattr" -> [fw |-> TRUE, b |-> IF P.tg = "none" THEN b ELSE [b EXCEPT !.tag = P.tg]]
      [] k = "puref" -> [fw |-> ~(b.hid /\ P.b = b.id), b |-> b]
      [] k = "skip" -> [fw |-> TRUE, b |-> [b EXCEPT !.pl = SubSeq(b.pl, P.a + 1, Len(b.pl))]]
      [] k = "htons" -> [fw |-> TRUE, b |-> [b EXCEPT !.pl = Swap16(b.pl)]]
      [] k = "delay" -> [fw |-> TRUE, b |-> [b EXCEPT !.sys = AddDate(b.sys, P.a), !.prog = AddDate(b.prog, P.a),
                                                       !.orig = AddDate(b.orig, P.a)]]
      [] k = "match_attr" -> [fw |-> (P.a < 0) \/ (b.hid /\ b.id >= P.a /\ b.id <= P.b), b |-> b]
      [] k = "setrap" -> [fw |-> TRUE,
                          b |-> IF P.a >= 0 /\ CrSys(b) >= 0 /\ P.a <= CrSys(b)
                                THEN [b EXCEPT !.rcd = CrSys(b) - P.a] ELSE b]
      [] k = "noclock" -> [fw |-> TRUE, b |-> SetDate(b, "sys", b.prog[1], b.prog[2])]
      [] k = "nodemux" -> [fw |-> TRUE, b |-> IF P.ini THEN b ELSE SetDate(b, "prog", "dts", NMIN)]
      [] OTHER -> [fw |-> TRUE, b |-> b]

\* the arguments for which the documentation says what happens (the generators
\* stay inside; outside the specification is silent and nothing is generated)
InDomain(k, P, b) ==
    CASE k = "skip" -> P.a <= Len(b.pl)
      [] k = "delay" -> P.a >= 0
      [] k = "noclock" -> (b.sys[1] = "-") \/ (b.sys[1] = b.prog[1] /\ b.prog[1] # "-")
      [] k = "nodemux" -> b.prog[1] = "-"
      [] k = "setrap" -> (b.sys[1] = "-") \/ (b.sys[1] = "cr")
                         \/ (b.sys[1] = "dts" /\ (b.cdd < 0 \/ b.cdd <= b.sys[2]))
                         \/ (b.sys[1] = "pts" /\ (b.dpd < 0 \/ b.cdd < 0 \/ b.dpd + b.cdd <= b.sys[2]))
      [] OTHER -> TRUE
=============================================================================
