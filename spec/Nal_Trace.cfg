SPECIFICATION TSpec
INVARIANT FrameSound StreamSound Report
POSTCONDITION Accepted
CHECK_DEADLOCK FALSE
