SPECIFICATION Spec
CONSTANTS
 Setups <- S_nodemux
 Acts <- A_sync
 Bufs <- B_one
 MaxSteps = 3
 MaxIn = 2
 Variant = "ok"
 CheckEpi = FALSE
INVARIANT Emit
CHECK_DEADLOCK FALSE
