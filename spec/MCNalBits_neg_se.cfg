\* NEGATIVE: sign of se inverted: must violate ReadOK
SPECIFICATION Spec
CONSTANTS
  Mode = "G"
  Variant = "neg_se"
  Leads = {0}
  Ks = {0, 1, 2}
  K2s = {0}
  Reps = {"min", "max", "alt"}
  Kinds = {"se"}
  Alphabet = {0}
  MaxLen = 0
INVARIANT TypeOK NoUB CodecInverse EscInverse ReadOK OvSound
VIEW View
CHECK_DEADLOCK FALSE
