\* mode E for -simulate: <= 5 fields, more value patterns; emits BEH lines
SPECIFICATION Spec
CONSTANTS
  Mode = "E"
  Variant = "ok"
  Widths = {1, 7, 8, 9, 24, 31, 32}
  Kinds = {"ones", "alt", "zero", "one"}
  MaxFields = 5
  MaxCap = 0
  MaxSize = 0
  MaxSeg = 4
  Pats = {"tex"}
  NearCap = TRUE
INVARIANT TypeOK NoUB InBounds RefInv OvSound CleanOK Untouched ReadOK ReaderRefInv Inverse Emit
CHECK_DEADLOCK FALSE
