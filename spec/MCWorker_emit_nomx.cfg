SPECIFICATION Spec
CONSTANTS
  Flavour = "sink"
  IL = 1
  OL = 1
  Mx = FALSE
  Prog <- P_Aicr
  SrcProg <- S_none
  Variant = "code"
  FreeLen = 6
  Eager = FALSE
  FreeToks <- T_in
INVARIANT InOrderOnce FlowDefFirst EndLast Confinement HoldNotDrop FreedOnce Emit

CHECK_DEADLOCK FALSE
