\* C20 trace validation: executions recorded from the real pipes (twin runs A/B/C merged per command)
SPECIFICATION TSpec
CONSTANTS
  Acc = {}
  Rej = {}
  Default = "?"
  Garbage = "777777"
  Unknown = "?"
  MaxLen = 0
  MaxIn = 0
  Variant = "ok"
  EmitBeh = FALSE
INVARIANT GetReturnsLast GetterNeutral RejectNeutral SameAnswers
POSTCONDITION Accepted
CHECK_DEADLOCK FALSE
