SPECIFICATION FairSpec
CONSTANTS
  L = 1
  NPush <- N_2
  NCons = 1
  Drain = FALSE
  M = 8
  Variant = "code"
INVARIANT Occupancy NoLostWakeup
PROPERTY AllDelivered
VIEW view
CHECK_DEADLOCK FALSE
