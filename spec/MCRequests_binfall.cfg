\* C12: model of what the control functions of the repository's bin pipes do with an unanswered
\* request (fall-through to the last inner pipe).  TLC is expected to find a call-back after
\* unregistration; the counterexample (CEX line) is replayed on the real upipe_ts_align.
SPECIFICATION Spec
CONSTANTS
  Scenarios <- ScnBin
  Variant = "binfall"
  EmitEdges = FALSE
  Idle = FALSE
  MaxGen = 2
  MaxChan = 2
  MaxPath = 6
CONSTRAINT Bound
INVARIANT CexNoCallbackAfterUnregister
CHECK_DEADLOCK FALSE
