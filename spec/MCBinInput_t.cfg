SPECIFICATION Spec
CONSTANTS
  Reqs = {"r0", "r1", "r2"}
  Inners = {"i0", "i1", "i2"}
  AnsChoices = {{}, {"i1"}}
  ProbeChoices = {TRUE, FALSE}
  Variant = "code"
  MaxSteps = 8
INVARIANTS TypeOK Placement NoDeadWithRegs
PROPERTY NoStaleAnswer
CHECK_DEADLOCK FALSE
