SPECIFICATION Spec
CONSTANTS
  L = 1
  Prog <- P_Aifir
  FreeLen = 7
  Variant = "code"
INVARIANT InOrderOnce FlowDefFirst HoldNotDrop SourceEndLast
VIEW view
CHECK_DEADLOCK FALSE
