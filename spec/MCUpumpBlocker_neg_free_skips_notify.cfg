\* C13 negative configuration: deliberately broken variant free_skips_notify, TLC must reject it
SPECIFICATION Spec
CONSTANTS
  Blockers = {1, 2, 3}
  Kinds = {"idler", "fd", "timer", "oneshot"}
  Variant = "free_skips_notify"
  EmitEdges = FALSE
INVARIANT TypeOK ActiveIff ExpiredOnlyOneShot FreedIsFinal FreeNotifiesAll
INVARIANT NoCallbackWhenInactive PollFiresWhenActive GetStatusReturns
CHECK_DEADLOCK FALSE
