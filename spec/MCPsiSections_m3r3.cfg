\* merger, exhaustive (thorough): as m3 with <= 3 pieces per payload (tail + whole section + head)
SPECIFICATION Spec
CONSTANTS
  Variant = "ok"
  Palette <- PalSmallD
  MaxSecs = 3
  MaxRuns = 3
  MaxPay = 24
  AllCuts = TRUE
  Stuffs = {0, 1, 2}
  Damage = {"disc", "drop", "bad"}
  MidStart = TRUE
  Record = FALSE
  Small = TRUE
INVARIANT WellFormed NoGarbage NoLoss Exact SyncAgree NextShape
CHECK_DEADLOCK FALSE
