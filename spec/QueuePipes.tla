----------------------------- MODULE QueuePipes -----------------------------
(***************************************************************************)
(* C06 - detailed model of upipe_queue_sink.c / upipe_queue_source.c at    *)
(* the granularity of one pipe entry point or one pump call-back.          *)
(*                                                                         *)
(* The uqueue is the bounded FIFO established by C07/C08 (single producer, *)
(* single consumer here).  Items are flow definitions <<"fd", f>> and      *)
(* buffers <<"buf", id, f>> (f = the flow definition in force when the     *)
(* buffer was sent: ghost).  The producer side has the flow definition,    *)
(* the flow_def_sent flag and the spool of the input helper; the release   *)
(* of the queue sink sends SOURCE_END through the out-of-band queue, which  *)
(* the consumer handles by draining the data queue first.                  *)
(*                                                                         *)
(* Script: the producer thread executes Prog, a sequence over              *)
(*   "A","B" (set_flow_def), "i" (input next buffer), "f" (flush),         *)
(*   "r" (release the queue sink);                                         *)
(* the producer's loop (Watcher), the consumer's loop (Worker, Oob) are    *)
(* free to run at any time.                                                *)
(* Variant = "code" | "s12" (flush keeps flow_def_sent: the defect S12)    *)
(***************************************************************************)
EXTENDS Naturals, Sequences, FiniteSets, TLC, Json

CONSTANTS L, Prog, Variant,
          FreeLen   \* > 0: the producer program is ANY sequence of at most FreeLen steps (Prog ignored)
VARIABLES ip, flowDef, fdSent, spool, q, oob, released, selfRef,   \* producer side + queues
          outFd, delivered, ended,                                   \* consumer side
          nextId, sent, flushed,                                     \* ghosts
          hist
vars == <<ip, flowDef, fdSent, spool, q, oob, released, selfRef, outFd, delivered, ended, nextId, sent, flushed, hist>>
view == <<ip, flowDef, fdSent, spool, q, oob, released, selfRef, outFd, delivered, ended, nextId, sent, flushed>>

None == "none"
Init == /\ ip = 1 /\ flowDef = None /\ fdSent = FALSE /\ spool = <<>> /\ q = <<>> /\ oob = <<>>
        /\ released = FALSE /\ selfRef = FALSE
        /\ outFd = None /\ delivered = <<>> /\ ended = FALSE
        /\ nextId = 1 /\ sent = <<>> /\ flushed = {} /\ hist = <<>>

H(tok) == hist' = Append(hist, tok)

\* upipe_qsink_input of one item (recursive call for the flow definition is
\* unfolded by the caller): spool if something is already held, else push,
\* else stall (hold + take a self reference + start the watcher)
Put(sp, qq, x) == IF sp # <<>> THEN <<Append(sp, x), qq>>
                  ELSE IF Len(qq) < L THEN <<sp, Append(qq, x)>>
                  ELSE <<Append(sp, x), qq>>

\* ---- producer thread: program steps ----------------------------------------
CanStep == ~released /\ ip <= (IF FreeLen > 0 THEN FreeLen ELSE Len(Prog))
Is(o) == IF FreeLen > 0 THEN TRUE ELSE Prog[ip] = o
SetFd == /\ CanStep
         /\ \E f \in {"A", "B"} : Is(f) /\ flowDef' = f /\ H(f)
         /\ fdSent' = FALSE /\ ip' = ip + 1
         /\ UNCHANGED <<spool, q, oob, released, selfRef, outFd, delivered, ended, nextId, sent, flushed>>
\* (the application must set a flow definition before the first buffer: doc/rules)
Input == /\ CanStep /\ Is("i") /\ flowDef # None
         /\ LET b == <<"buf", nextId, flowDef>>
                withFd == ~fdSent /\ flowDef # None
                s1 == IF withFd THEN Put(spool, q, <<"fd", flowDef>>) ELSE <<spool, q>>
                s2 == Put(s1[1], s1[2], b)
            IN /\ spool' = s2[1] /\ q' = s2[2]
               /\ fdSent' = (fdSent \/ withFd)
               /\ selfRef' = (selfRef \/ s2[1] # <<>>)
         /\ sent' = Append(sent, <<nextId, flowDef>>) /\ nextId' = nextId + 1
         /\ ip' = ip + 1 /\ H("i")
         /\ UNCHANGED <<flowDef, oob, released, outFd, delivered, ended, flushed>>
Flush == /\ CanStep /\ Is("f")
         /\ spool' = <<>> /\ selfRef' = FALSE
         /\ flushed' = flushed \cup {spool[k][2] : k \in {j \in 1..Len(spool) : spool[j][1] = "buf"}}
         \* the fixed code forgets that the flow definition was sent when the
         \* spool (which may hold it) is dropped
         /\ fdSent' = IF Variant = "s12" THEN fdSent
                      ELSE IF spool # <<>> THEN FALSE ELSE fdSent
         /\ ip' = ip + 1 /\ H("f")
         /\ UNCHANGED <<flowDef, q, oob, released, outFd, delivered, ended, nextId, sent>>
\* the application drops its reference; the pipe dies (SOURCE_END sent) when
\* the self reference of a stalled sink is gone too
Release == /\ CanStep /\ Is("r")
           /\ released' = TRUE /\ ip' = ip + 1 /\ H("r")
           /\ oob' = IF selfRef THEN oob ELSE Append(oob, "end")
           /\ UNCHANGED <<flowDef, fdSent, spool, q, selfRef, outFd, delivered, ended, nextId, sent, flushed>>
\* ---- producer thread: watcher call-back (push event readable, pump started)
RECURSIVE Drain(_, _)
Drain(sp, qq) == IF sp = <<>> \/ Len(qq) >= L THEN <<sp, qq>> ELSE Drain(Tail(sp), Append(qq, Head(sp)))
Watcher == /\ selfRef /\ spool # <<>> /\ Len(q) < L
           /\ LET d == Drain(spool, q) IN
              /\ spool' = d[1] /\ q' = d[2]
              /\ selfRef' = (d[1] # <<>>)
              /\ oob' = IF d[1] = <<>> /\ released THEN Append(oob, "end") ELSE oob
           /\ H("w")
           /\ UNCHANGED <<ip, flowDef, fdSent, released, outFd, delivered, ended, nextId, sent, flushed>>
\* ---- consumer thread ---------------------------------------------------------
Take(x, fd, del) == IF x[1] = "fd" THEN <<x[2], del>> ELSE <<fd, Append(del, <<x[2], x[3], fd>>)>>
Worker == /\ q # <<>> /\ ~ended
          /\ LET r == Take(Head(q), outFd, delivered) IN outFd' = r[1] /\ delivered' = r[2]
          /\ q' = Tail(q) /\ H("c")
          /\ UNCHANGED <<ip, flowDef, fdSent, spool, oob, released, selfRef, ended, nextId, sent, flushed>>
RECURSIVE TakeAll(_, _, _)
TakeAll(qq, fd, del) == IF qq = <<>> THEN <<fd, del>>
                        ELSE LET r == Take(Head(qq), fd, del) IN TakeAll(Tail(qq), r[1], r[2])
Oob == /\ oob # <<>> /\ ~ended
       /\ LET r == TakeAll(q, outFd, delivered) IN outFd' = r[1] /\ delivered' = r[2]
       /\ q' = <<>> /\ oob' = Tail(oob) /\ ended' = TRUE /\ H("o")
       /\ UNCHANGED <<ip, flowDef, fdSent, spool, released, selfRef, nextId, sent, flushed>>

Next == SetFd \/ Input \/ Flush \/ Release \/ Watcher \/ Worker \/ Oob
Spec == Init /\ [][Next]_vars
FairSpec == Spec /\ WF_vars(Next)

\* ---- properties ----------------------------------------------------------------
Ids(s) == [k \in 1..Len(s) |-> s[k][1]]
RECURSIVE IsSubseq(_, _)
IsSubseq(a, b) == IF a = <<>> THEN TRUE ELSE IF b = <<>> THEN FALSE
                  ELSE IF Head(a) = Head(b) THEN IsSubseq(Tail(a), Tail(b)) ELSE IsSubseq(a, Tail(b))
\* exactly once, in order: delivered ids are a subsequence of the sent ids and
\* the skipped ones were flushed by the application
InOrderOnce == /\ IsSubseq(Ids(delivered), Ids(sent))
               /\ \A k \in 1..Len(delivered) : \A j \in 1..Len(delivered) : k # j => delivered[k][1] # delivered[j][1]
\* each buffer is delivered under the flow definition it was sent with
FlowDefFirst == \A k \in 1..Len(delivered) : delivered[k][2] = delivered[k][3]
\* nothing is dropped except by flush: at the end everything sent was delivered or flushed
Quiescent == ~ENABLED Next
HoldNotDrop == Quiescent => \A k \in 1..Len(sent) : sent[k][1] \in {delivered[j][1] : j \in 1..Len(delivered)} \cup flushed
SourceEndLast == (Quiescent /\ released) => ended
Emit == Quiescent => PrintT(<<"BEH", ToJson([script |-> hist, delivered |-> delivered, ended |-> ended])>>)
=============================================================================
