SPECIFICATION TSpec
CONSTANTS
  NP = 6
  NS = 3
INVARIANT Report
POSTCONDITION Accepted
CHECK_DEADLOCK FALSE
