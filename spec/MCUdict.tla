------------------------------ MODULE MCUdict ------------------------------
(***************************************************************************)
(* Model-checking wrapper of Udict.tla (C10).                              *)
(*  - bounded driver: every API call is an action chosen by TLC, observers *)
(*    (Get, Cmp, Iterate) included; MaxDepth calls per behaviour;          *)
(*  - hist: the calls with the results the specification predicts, emitted *)
(*    with the BEH idiom (EmitDone) together with a final audit, replayed  *)
(*    on the real code by checks/c10.py;                                   *)
(*  - log: an independent, log-structured formulation of "the value last   *)
(*    stored": per dictionary the sequence of writes (key, value or        *)
(*    tombstone); LastStored compares it with the map on every transition. *)
(* Key sets and value sets live here because cfg files cannot hold         *)
(* records.                                                                *)
(***************************************************************************)
EXTENDS Udict, Json

CONSTANTS MaxDepth,
          Keys,        \* set of keys explored (K_* below)
          Ops          \* subset of {"alloc","set","seta","get","del","dup","import","copy","cmp","iter","free"}

VARIABLES hist, log, n

vars == <<dict, live, last, hist, log, n>>

K(name, type) == [n |-> name, t |-> type]

\* value tokens per base type: an empty one, small ones (two of the same
\* size for the variable-size types: replacement in place), and a symbolic
\* large one materialised by the harness (60000 octets)
V(b) == CASE b = "opaque"         -> {"o0.0", "o3.1", "o3.2", "o60000.1"}
          [] b = "string"         -> {"s0.0", "s3.1", "s3.2", "s60000.1"}
          [] b = "void"           -> {"v"}
          [] b = "bool"           -> {"b0", "b1"}
          [] b = "small_unsigned" -> {"su0", "su1", "su255"}
          [] b = "small_int"      -> {"si0", "si-128", "si127"}
          [] b = "unsigned"       -> {"u0", "u1", "u18446744073709551615"}
          [] b = "int"            -> {"i0", "i-9223372036854775807", "i9223372036854775807"}
          [] b = "rational"       -> {"r0/0", "r-1/18446744073709551615", "r30000/1001"}
          [] b = "float"          -> {"f0000000000000000", "fbff8000000000000", "f7fefffffffffffff"}

\* --- key sets ------------------------------------------------------------
\* "a" is a prefix of "ab"; "f.def" is the textual name of shorthand FLOW_DEF
K_str == {K("a", "string"), K("ab", "string"), K(NoName, "FLOW_DEF"), K("f.def", "string")}
K_opq == {K("a", "opaque"), K("ab", "opaque"), K(NoName, "PIC_CEA_708"), K("a", "string")}
K_num == {K("a", "unsigned"), K("ab", "unsigned"), K(NoName, "FLOW_ID"), K("a", "int"), K("a", "float")}
K_sml == {K("a", "void"), K("ab", "void"), K(NoName, "FLOW_ERROR"), K("a", "bool"), K(NoName, "PIC_OVERSCAN"),
          K("a", "small_unsigned"), K(NoName, "FLOW_LANGUAGES"), K("a", "small_int")}
K_rat == {K("a", "rational"), K("ab", "rational"), K(NoName, "CLOCK_RATE"), K("a", "void"), K("ab", "string")}
K_mix == {K("a", "string"), K("ab", "opaque"), K(NoName, "FLOW_ID"), K("a", "void")}
K_two == {K("a", "string"), K("ab", "string")}
\* every type once (named), every base type that has a shorthand once more, prefixes
K_all == {K("a", b) : b \in BaseTypes} \cup {K("ab", "string"), K("ab", "opaque"), K("ab", "unsigned"),
          K("f.def", "string"), K("f.name", "string"), K("f.headers", "opaque"), K("f.lowdelay", "void"),
          K("f.lang[0]", "string"),
          K(NoName, "FLOW_DEF"), K(NoName, "FLOW_ID"), K(NoName, "FLOW_ERROR"), K(NoName, "FLOW_RAWDEF"),
          K(NoName, "FLOW_LANGUAGES"), K(NoName, "CLOCK_RATE"), K(NoName, "PIC_OVERSCAN"),
          K(NoName, "PIC_CEA_708"), K(NoName, "PIC_BAR_DATA"), K(NoName, "PIC_NUM"), K(NoName, "PIC_SAR"),
          K(NoName, "PIC_AFD"), K(NoName, "BLOCK_END"), K(NoName, "PIC_VIDEO_FORMAT")}

MCPrefixOf(a, b) == <<a, b>> \in {<<"a", "ab">>}

O_all == {"alloc", "set", "seta", "get", "del", "dup", "import", "copy", "cmp", "iter", "free"}
O_nocopy == O_all \ {"copy"}

Aliasable(k, k2) == BaseOf(k.t) = BaseOf(k2.t) /\ BaseOf(k.t) \in {"string", "opaque"}

-----------------------------------------------------------------------------
\* write log: sequence of <<key, value-or-Tomb>>
Tomb == "tomb"
Latest(lg, k) == LET I == {i \in 1..Len(lg) : lg[i][1] = k}
                 IN IF I = {} THEN Absent
                    ELSE LET m == CHOOSE i \in I : \A j \in I : j <= i
                         IN IF lg[m][2] = Tomb THEN Absent ELSE lg[m][2]
\* the entries of lg that are the latest write of their key and not a tombstone
LiveEntries(lg) == SelectSeq([i \in 1..Len(lg) |-> <<lg[i][1], lg[i][2], i>>],
                             LAMBDA e : /\ e[2] # Tomb
                                        /\ \A j \in (e[3] + 1)..Len(lg) : lg[j][1] # e[1])
Strip(s) == [i \in 1..Len(s) |-> <<s[i][1], s[i][2]>>]
ToTomb(v) == IF v = Absent THEN Tomb ELSE v

Step == /\ n < MaxDepth
        /\ n' = n + 1
        /\ hist' = Append(hist, last')

MAlloc == "alloc" \in Ops /\ \E d \in Dicts :
            Alloc(d) /\ log' = [log EXCEPT ![d] = <<>>] /\ Step
MSet == "set" \in Ops /\ \E d \in live, k \in Keys : \E v \in V(BaseOf(k.t)) :
            Set(d, k, v) /\ log' = [log EXCEPT ![d] = Append(@, <<k, v>>)] /\ Step
MSetAlias == "seta" \in Ops /\ \E d \in live, k \in Keys, k2 \in Keys :
            /\ Aliasable(k, k2)
            /\ SetAlias(d, k, k2)
            /\ log' = [log EXCEPT ![d] = IF Latest(@, k2) = Absent THEN @
                                         ELSE Append(@, <<k, Latest(@, k2)>>)]
            /\ Step
MGet == "get" \in Ops /\ \E d \in live, k \in Keys :
            Get(d, k) /\ UNCHANGED log /\ Step
MDelete == "del" \in Ops /\ \E d \in live, k \in Keys :
            Delete(d, k) /\ log' = [log EXCEPT ![d] = IF Latest(@, k) = Absent THEN @
                                                      ELSE Append(@, <<k, Tomb>>)] /\ Step
MDup == "dup" \in Ops /\ \E d \in live, e \in Dicts \ live :
            Dup(d, e) /\ log' = [log EXCEPT ![e] = log[d]] /\ Step
MImport == "import" \in Ops /\ \E d \in live, s \in live :
            Import(d, s) /\ log' = [log EXCEPT ![d] = @ \o Strip(LiveEntries(log[s]))] /\ Step
MCopy == "copy" \in Ops /\ \E d \in live, s \in live, k \in Keys :
            Copy(d, s, k) /\ log' = [log EXCEPT ![d] = Append(@, <<k, ToTomb(Latest(log[s], k))>>)] /\ Step
MCmp == "cmp" \in Ops /\ \E d \in live, e \in live :
            Cmp(d, e) /\ UNCHANGED log /\ Step
MIterate == "iter" \in Ops /\ \E d \in live :
            Iterate(d) /\ UNCHANGED log /\ Step
MFree == "free" \in Ops /\ \E d \in live :
            Free(d) /\ log' = [log EXCEPT ![d] = <<>>] /\ Step

MCInit == Init /\ hist = <<>> /\ n = 0 /\ log = [d \in Dicts |-> <<>>]
\* closing step: a single successor, so that a simulated behaviour is emitted once
MFin == n = MaxDepth /\ n' = n + 1 /\ UNCHANGED <<dict, live, last, hist, log>>
MCNext == MAlloc \/ MSet \/ MSetAlias \/ MGet \/ MDelete \/ MDup \/ MImport \/ MCopy
          \/ MCmp \/ MIterate \/ MFree \/ MFin
Spec == MCInit /\ [][MCNext]_vars

-----------------------------------------------------------------------------
\* "looking up a (name, type) pair returns exactly the value last stored
\* under it": the map agrees with the write log, after every transition
LogAgrees == \A d \in Dicts : \A k \in Keys : Lookup(dict[d], k) = Latest(log[d], k)
LastStored == [][LogAgrees']_vars

DepthBound == n <= MaxDepth + 1
HideHistory == <<dict, live, n>>

\* BEH idiom: the behaviour with predicted results, plus a final audit of
\* everything observable (all lookups, iteration, all comparisons)
Audit == [gets  |-> {[d |-> d, k |-> k, res |-> Lookup(dict[d], k)] : d \in live, k \in Keys},
          iters |-> {[d |-> d, res |-> DOMAIN dict[d]] : d \in live},
          cmps  |-> {[d |-> d, s |-> e, res |-> CmpRes(d, e)] : d \in live, e \in live}]
Done == n = MaxDepth + 1
EmitDone == Done => PrintT(<<"BEH", ToJson([h |-> hist, audit |-> Audit])>>)
=============================================================================
