\* NEGATIVE: previous octet fetched at au_size - 5 (distance of the one-octet NAL header of H.264)
SPECIFICATION Spec
CONSTANTS
  Variant = "neg_prev5"
  Alphabet = {0, 1}
  MaxLen = 7
  NoLead3 = TRUE
  EmitMax = 7
INVARIANT EmitCex TypeOK ChunkInvariant Monotone NoTrap
VIEW View
CHECK_DEADLOCK FALSE
