------------------------------ MODULE PicGeom ------------------------------
(***************************************************************************)
(* C19 (and the picture / sound part of C02).                              *)
(*                                                                         *)
(* Abstract specification of picture and sound buffers of Upipe            *)
(* (ubuf_pic_mem / ubuf_sound_mem) and of the block views of their planes  *)
(* (UBUF_BLOCK_MEM_ALLOC_FROM_PIC / _SOUND):                               *)
(*                                                                         *)
(*  - a manager GEOMETRY is a record                                       *)
(*      [kind, mp, planes = << [hsub, vsub, mps] .. >>,                    *)
(*       hmpre, hmapp (macropixels), vpre, vapp (lines), align, aoff,      *)
(*       basemod]                                                          *)
(*    (sound: kind = "sound", mp = 1, every plane [1, 1, sample_size],     *)
(*     no margins: a sound buffer of N samples is a one-line picture of N  *)
(*     pixels whose planes are the channel planes; packed sound is one     *)
(*     plane whose sample size is channels * octets);                      *)
(*  - an allocation creates an AREA with a canvas of                       *)
(*    (hmpre+hmsize+hmapp) x (vpre+vsize+vapp) macropixels x lines; the    *)
(*    memory of plane p is the offset set AllocSet(g,c,p);                 *)
(*  - a buffer (handle) is a WINDOW                                        *)
(*    [hmpre, hmsize, hmapp, vpre, vsize, vapp] over the canvas of its     *)
(*    area; dup shares the area; a block VIEW of plane p of a buffer is a  *)
(*    further owner of the area, frozen on the window the buffer had;      *)
(*  - Cells(g,c,w,p,r) maps each visible (macro)pixel of an accepted       *)
(*    mapping request r = [ho, vo, hs, vs] (pixels / lines; -1 = to the    *)
(*    end, negative offsets = from the end) to its octet range with the    *)
(*    SPECIFIED formula  origin + line * stride + column * mps;            *)
(*  - pixel values are identified by canvas coordinate: the content of an  *)
(*    area is the list of the writes performed on it (fills of a whole     *)
(*    window, pokes of one cell, pokes of one octet through a view), each  *)
(*    remembering the canvas cells it touched.                             *)
(*                                                                         *)
(* Properties (C19): WindowsInCanvas, Inside, InjectiveMap,                *)
(* CanvasInjective, GranularityP, MapIsWindowCell, AllocGranular, DupSees  *)
(* (invariants), CropPreserves (action property).                          *)
(* Properties (C02): WriteOnlySingle (invariant), Isolation,               *)
(* StructuralOpsDontWrite (action properties).                             *)
(*                                                                         *)
(* The same Do-actions are used by the exhaustive configurations          *)
(* (MCPicGeom*.cfg, MCSoundGeom*.cfg), by the behaviour generator          *)
(* (Record = TRUE: hist holds the calls and the predicted results) and by  *)
(* the trace validation module PicGeom_Trace.tla.                          *)
(***************************************************************************)
EXTENDS Naturals, Integers, Sequences, FiniteSets, TLC, Json

CONSTANTS Geos,       \* tags of the geometry sets explored (see MCPicGeom.tla / MCSoundGeom.tla)
          GeoSet(_),  \* tag -> set of geometries (records); evaluated lazily
          Handles,    \* buffer handles
          MaxOps,     \* length of a behaviour
          MaxResize,  \* length of a resize chain
          Variant,    \* "none", or the name of a deliberately broken variant
          Record      \* TRUE: behaviour generator (hist is recorded)

VARIABLES geo,      \* geometry of the manager
          win,      \* handle -> window
          area,     \* handle -> area id (0 = handle unused)
          view,     \* handle -> block view [p, w, stride, size] (p = 0: a buffer)
          canv,     \* area id -> canvas [hm, v]
          content,  \* area id -> sequence of writes
          nextk,    \* next write id
          last,     \* last operation with its (predicted) result
          hist,     \* recorded behaviour
          nops, nrs, pick

vars == <<geo, win, area, view, canv, content, nextk, last, hist, nops, nrs, pick>>

-----------------------------------------------------------------------------
(* geometry *)
NPl(g) == Len(g.planes)
PlaneIds(g) == 1..NPl(g)
HGran(g, p) == g.mp * g.planes[p].hsub     \* pixels
VGran(g, p) == g.planes[p].vsub            \* lines
Divides(d, n) == n % d = 0
AlignUp(n, a) == IF a = 0 THEN n ELSE ((n + a - 1) \div a) * a

NoWin == [hmpre |-> 0, hmsize |-> 0, hmapp |-> 0, vpre |-> 0, vsize |-> 0, vapp |-> 0]
NoView == [p |-> 0, w |-> NoWin, stride |-> 0, size |-> 0]

(* memory layout of an area with canvas c: one allocation per plane *)
Stride(g, c, p) == AlignUp((c.hm \div g.planes[p].hsub) * g.planes[p].mps, g.align)
NLines(g, c, p) == (IF Variant = "size_no_vappend" THEN c.v - g.vapp ELSE c.v)
                       \div g.planes[p].vsub
PlaneSize(g, c, p) == NLines(g, c, p) * Stride(g, c, p) + g.align
RECURSIVE PlaneBase(_, _, _)
PlaneBase(g, c, p) == IF p = 1 THEN 0
                      ELSE PlaneBase(g, c, p - 1) + PlaneSize(g, c, p - 1)
AreaSize(g, c) == PlaneBase(g, c, NPl(g)) + PlaneSize(g, c, NPl(g))
AllocSet(g, c, p) == PlaneBase(g, c, p) .. (PlaneBase(g, c, p) + PlaneSize(g, c, p) - 1)
Origin(g, c, p) ==
  LET b == PlaneBase(g, c, p)
      k == ((g.aoff + g.hmpre) \div g.planes[p].hsub) * g.planes[p].mps
  IN IF g.align = 0 THEN b
     ELSE b + g.align - ((g.basemod + b + g.align + k) % g.align)

(* windows and mapping requests *)
WinW(g, w) == w.hmsize * g.mp                 \* visible width in pixels
NormOff(o, total) == IF o < 0 THEN total + o ELSE o
MapNorm(g, w, r) ==
  LET W == WinW(g, w)
      ho == NormOff(r.ho, W)
      vo == NormOff(r.vo, w.vsize)
  IN [ho |-> ho, vo |-> vo,
      hs |-> IF r.hs = -1 THEN W - ho ELSE r.hs,
      vs |-> IF r.vs = -1 THEN w.vsize - vo ELSE r.vs]

InWindow(g, w, n) == /\ n.ho >= 0 /\ n.vo >= 0 /\ n.hs >= 0 /\ n.vs >= 0
                     /\ n.ho + n.hs <= WinW(g, w) /\ n.vo + n.vs <= w.vsize
Granular(g, p, n) == /\ Divides(HGran(g, p), n.ho) /\ Divides(VGran(g, p), n.vo)
                     /\ (Variant = "accept_offgran"
                         \/ (Divides(HGran(g, p), n.hs) /\ Divides(VGran(g, p), n.vs)))
MapValid(g, w, p, r) == LET n == MapNorm(g, w, r)
                        IN (Variant = "map_no_range" \/ InWindow(g, w, n)) /\ Granular(g, p, n)

\* "either": the statement is silent (empty window); "refused": busy or invalid
MapVerdict(g, w, p, r, shared, mode) ==
  LET n == MapNorm(g, w, r)
      empty == n.hs = 0 \/ n.vs = 0
  IN IF mode = "w" /\ shared /\ Variant # "cow_off"
     THEN (IF MapValid(g, w, p, r) /\ ~empty THEN "busy" ELSE "refused")
     ELSE IF ~MapValid(g, w, p, r) THEN "invalid"
     ELSE IF empty THEN "either" ELSE "ok"

Compat(pred, got) == \/ pred = got
                     \/ pred = "either" /\ got \in {"ok", "invalid", "null"}
                     \/ pred = "refused" /\ got \in {"busy", "invalid"}

(* cells of a request: canvas coordinates of the first cell, numbers of
   columns and lines in plane units *)
HSubUsed(g, p) == IF Variant = "map_wrong_hsub" THEN g.planes[1].hsub ELSE g.planes[p].hsub
CX0(g, w, p, n) == (w.hmpre + n.ho \div g.mp) \div HSubUsed(g, p)
CY0(g, w, p, n) == ((IF Variant = "map_no_vpre" THEN 0 ELSE w.vpre) + n.vo) \div g.planes[p].vsub
NC(g, p, n) == n.hs \div HGran(g, p)
NL(g, p, n) == n.vs \div VGran(g, p)
CellOff(g, c, p, cx, cy) == Origin(g, c, p) + cy * Stride(g, c, p) + cx * g.planes[p].mps
CellRange(g, c, p, cx, cy) == CellOff(g, c, p, cx, cy) .. (CellOff(g, c, p, cx, cy) + g.planes[p].mps - 1)
Cells(g, c, w, p, r) ==
  LET n == MapNorm(g, w, r)
  IN UNION { CellRange(g, c, p, CX0(g, w, p, n) + i, CY0(g, w, p, n) + j) :
             i \in 0..(NC(g, p, n) - 1), j \in 0..(NL(g, p, n) - 1) }
Full == [ho |-> 0, vo |-> 0, hs |-> -1, vs |-> -1]

(* picture resize: q = [hskip, vskip, hsize, vsize] *)
RNorm(g, w, q) == [hskip |-> q.hskip, vskip |-> q.vskip,
                   nh |-> IF q.hsize = -1 THEN WinW(g, w) - q.hskip ELSE q.hsize,
                   nv |-> IF q.vsize = -1 THEN w.vsize - q.vskip ELSE q.vsize]
RGranular(g, n) == \A p \in PlaneIds(g) :
                     /\ Divides(HGran(g, p), n.hskip) /\ Divides(HGran(g, p), n.nh)
                     /\ Divides(VGran(g, p), n.vskip) /\ Divides(VGran(g, p), n.nv)
RWin(g, w, n) ==
  LET hm0 == w.hmpre + n.hskip \div g.mp
      v0 == IF Variant = "resize_no_vpre" THEN w.vpre ELSE w.vpre + n.vskip
  IN [hmpre |-> hm0, hmsize |-> n.nh \div g.mp,
      hmapp |-> (w.hmpre + w.hmsize + w.hmapp) - hm0 - n.nh \div g.mp,
      vpre |-> v0, vsize |-> n.nv,
      vapp |-> (w.vpre + w.vsize + w.vapp) - (w.vpre + n.vskip) - n.nv]
RInside(g, w, n) == LET x == RWin(g, w, n)
                    IN x.hmpre >= 0 /\ x.hmapp >= 0 /\ w.vpre + n.vskip >= 0 /\ x.vapp >= 0
RNoop(g, w, n) == n.hskip = 0 /\ n.vskip = 0 /\ n.nh = WinW(g, w) /\ n.nv = w.vsize
ResizeVerdict(g, w, q) ==
  LET n == RNorm(g, w, q)
  IN IF RNoop(g, w, n) THEN "ok"
     ELSE IF n.nh <= 0 \/ n.nv <= 0 \/ ~RGranular(g, n) THEN "invalid"
     ELSE IF ~RInside(g, w, n) THEN "invalid"
     ELSE IF \/ n.hskip > WinW(g, w) \/ n.vskip > w.vsize
             \/ n.nh < -n.hskip \/ n.nv < -n.vskip
          THEN "either"      \* new window disjoint from the old one: silent
     ELSE "ok"

(* sound resize: q = [off, size]; negative offsets count from the end *)
SRNorm(w, q) == LET o == NormOff(q.off, w.hmsize)
                IN [off |-> o, size |-> IF q.size = -1 THEN w.hmsize - o ELSE q.size]
SResizeVerdict(w, q) ==
  LET n == SRNorm(w, q)
  IN IF n.off < 0 \/ n.size < 0 \/ n.off + n.size > w.hmsize THEN "invalid"
     ELSE IF n.size = 0 THEN "either" ELSE "ok"
SRWin(w, n) == [w EXCEPT !.hmpre = IF Variant = "sresize_keep_base" THEN w.hmpre ELSE w.hmpre + n.off,
                         !.hmsize = n.size,
                         !.hmapp = w.hmapp + w.hmsize - n.off - n.size]

AllocVerdict(g, W, H) ==
  IF g.kind = "sound" THEN (IF W >= 1 /\ H = 1 THEN "ok" ELSE IF W = 0 /\ H = 1 THEN "either" ELSE "null")
  ELSE IF W <= 0 \/ H <= 0 THEN "null"
  ELSE IF \A p \in PlaneIds(g) :
            /\ (Variant = "alloc_offgran" \/ Divides(HGran(g, p), W))
            /\ Divides(VGran(g, p), H)
       THEN "ok" ELSE "null"

(* content: value of octet b of the cell (cx, cy) of plane p of an area = what
   the last write that touched it put there *)
PX0(g, w, p) == w.hmpre \div g.planes[p].hsub
PY0(g, w, p) == w.vpre \div g.planes[p].vsub
PNC(g, w, p) == w.hmsize \div g.planes[p].hsub
PNL(g, w, p) == w.vsize \div g.planes[p].vsub
Covers(g, w, p, cx, cy) == /\ cx >= PX0(g, w, p) /\ cx < PX0(g, w, p) + PNC(g, w, p)
                           /\ cy >= PY0(g, w, p) /\ cy < PY0(g, w, p) + PNL(g, w, p)
\* octet written by write k at cell (i, j) of its window, octet b of plane p
\* (harness: code())
Code(k, p, i, j, b) == ((i + 1) * 37 + (j + 1) * 101 + (p - 1) * 59 + b * 17 + k * 73) % 251
RECURSIVE ByteAtI(_, _, _, _, _, _, _)
ByteAtI(g, ps, idx, p, cx, cy, b) ==
  IF idx = 0 THEN -1
  ELSE LET e == ps[idx] IN
       IF e.t = "fill" /\ Covers(g, e.w, p, cx, cy)
       THEN Code(e.k, p, cx - PX0(g, e.w, p), cy - PY0(g, e.w, p), b)
       ELSE IF e.t = "poke" /\ e.p = p /\ e.cx = cx /\ e.cy = cy
       THEN Code(e.k, p, 0, 0, b)
       ELSE IF e.t = "octet" /\ e.p = p /\ e.cx = cx /\ e.cy = cy /\ e.b = b
       THEN e.v
       \* the picture was made by ubuf_pic_replace: cell (i, j) of its window nw holds what cell
       \* (i + sx, j + sy) of the window ow of the old picture held, where the two windows overlap
       ELSE IF e.t = "copy" /\ Covers(g, e.nw, p, cx, cy) /\
               Covers(g, e.ow, p, cx - PX0(g, e.nw, p) + e.sx[p] + PX0(g, e.ow, p),
                                  cy - PY0(g, e.nw, p) + e.sy[p] + PY0(g, e.ow, p))
       THEN ByteAtI(g, e.ps, Len(e.ps), p, cx - PX0(g, e.nw, p) + e.sx[p] + PX0(g, e.ow, p),
                    cy - PY0(g, e.nw, p) + e.sy[p] + PY0(g, e.ow, p), b)
       ELSE ByteAtI(g, ps, idx - 1, p, cx, cy, b)
\* -1 = never written
ByteAt(g, ps, p, cx, cy, b) == ByteAtI(g, ps, Len(ps), p, cx, cy, b)
\* octets visible through window w in plane p, line by line
PlaneBytes(g, ps, w, p) ==
  LET nc == PNC(g, w, p)
      m == g.planes[p].mps
  IN [idx \in 1..(nc * PNL(g, w, p) * m) |->
        LET cell == (idx - 1) \div m
        IN ByteAt(g, ps, p, PX0(g, w, p) + (cell % nc), PY0(g, w, p) + (cell \div nc), (idx - 1) % m)]
Visible(g, ps, w) == [p \in PlaneIds(g) |-> PlaneBytes(g, ps, w, p)]

(* block view x = [p, w, stride, size] of a plane: octet i of the block is
   octet (i % stride) of line (i \div stride) of the window; octets beyond
   the visible cells of a line (margins, alignment) are not specified *)
VLine(x, i) == IF x.stride = 0 THEN 0 ELSE i \div x.stride
VCol(x, i) == IF x.stride = 0 THEN i ELSE i % x.stride
ViewInWindow(g, x, i) == /\ i >= 0 /\ i < x.size
                         /\ VLine(x, i) < PNL(g, x.w, x.p)
                         /\ VCol(x, i) < PNC(g, x.w, x.p) * g.planes[x.p].mps
ViewByte(g, ps, x, i) ==
  IF ~ViewInWindow(g, x, i) THEN -1
  ELSE ByteAt(g, ps, x.p, PX0(g, x.w, x.p) + VCol(x, i) \div g.planes[x.p].mps,
              PY0(g, x.w, x.p) + VLine(x, i), VCol(x, i) % g.planes[x.p].mps)
ViewBytes(g, ps, x) == [idx \in 1..x.size |-> ViewByte(g, ps, x, idx - 1)]

-----------------------------------------------------------------------------
(* actions; res = the outcome applied (the predicted verdict, or in trace
   validation the logged one when the statement is silent) *)
Live(h) == area[h] # 0
IsView(h) == view[h].p # 0
IsBuf(h) == Live(h) /\ ~IsView(h)
Owners(a) == Cardinality({x \in Handles : area[x] = a})
\* what the (possibly broken) write-permission rule counts
CountedOwners(a) == Cardinality({x \in Handles : area[x] = a /\ (Variant = "view_not_owner" => ~IsView(x))})
Shared(h) == CountedOwners(area[h]) > 1
FullWin(g, W, H) == [hmpre |-> g.hmpre, hmsize |-> W \div g.mp, hmapp |-> g.hmapp,
                     vpre |-> g.vpre, vsize |-> H, vapp |-> g.vapp]
Sees(h) == IF IsView(h) THEN ViewBytes(geo, content[area[h]], view[h])
           ELSE Visible(geo, content[area[h]], win[h])

DoAlloc(h, W, H, res) ==
  /\ ~Live(h)
  /\ Compat(AllocVerdict(geo, W, H), res)
  /\ IF res = "ok"
     THEN /\ canv' = Append(canv, [hm |-> W \div geo.mp + geo.hmpre + geo.hmapp,
                                   v |-> H + geo.vpre + geo.vapp])
          /\ content' = Append(content, <<>>)
          /\ area' = [area EXCEPT ![h] = Len(canv) + 1]
          /\ win' = [win EXCEPT ![h] = FullWin(geo, W, H)]
     ELSE UNCHANGED <<canv, content, area, win>>
  /\ last' = [op |-> IF geo.kind = "sound" THEN "salloc" ELSE "alloc", h |-> h, W |-> W, H |-> H, res |-> res,
              size |-> IF res = "ok" THEN AreaSize(geo, [hm |-> W \div geo.mp + geo.hmpre + geo.hmapp,
                                                          v |-> H + geo.vpre + geo.vapp]) ELSE 0]
  /\ UNCHANGED <<geo, nextk, view>>

DoDup(h, s) ==
  /\ ~Live(h) /\ Live(s)
  /\ area' = [area EXCEPT ![h] = area[s]]
  /\ win' = [win EXCEPT ![h] = win[s]]
  /\ view' = [view EXCEPT ![h] = view[s]]
  /\ last' = [op |-> "dup", h |-> h, src |-> s, res |-> "ok"]
  /\ UNCHANGED <<geo, canv, content, nextk>>

DoFree(h) ==
  /\ Live(h)
  /\ area' = [area EXCEPT ![h] = 0]
  /\ win' = [win EXCEPT ![h] = NoWin]
  /\ view' = [view EXCEPT ![h] = NoView]
  /\ last' = [op |-> "free", h |-> h, res |-> "ok",
              \* the memory goes with its last owner
              released |-> IF Owners(area[h]) = 1 THEN 1 ELSE 0]
  /\ UNCHANGED <<geo, canv, content, nextk>>

DoResize(h, q, res) ==
  /\ IsBuf(h) /\ geo.kind = "pic"
  /\ Compat(ResizeVerdict(geo, win[h], q), res)
  /\ win' = [win EXCEPT ![h] = IF res = "ok" THEN RWin(geo, win[h], RNorm(geo, win[h], q)) ELSE @]
  /\ last' = [op |-> "resize", h |-> h, q |-> q, res |-> res,
              W |-> WinW(geo, win'[h]), H |-> win'[h].vsize]
  /\ UNCHANGED <<geo, area, view, canv, content, nextk>>

\* ubuf_pic_replace(mgr, &ubuf, hskip, vskip, hsize, vsize): the crop / extension of DoResize done by COPY
\* into a newly allocated picture of the new size (so it also works beyond the margins); the old picture is
\* released.  Every pixel that stays visible keeps its value.
ReplaceVerdict(g, w, q) ==
  LET n == RNorm(g, w, q)
  IN IF n.nh <= 0 \/ n.nv <= 0 \/ ~RGranular(g, n) THEN "refused"
     ELSE IF \/ n.hskip >= WinW(g, w) \/ n.vskip >= w.vsize
             \/ n.nh <= -n.hskip \/ n.nv <= -n.vskip
          THEN "either"      \* nothing of the old picture stays visible: silent
     ELSE "ok"
DoReplace(h, q, res) ==
  /\ IsBuf(h) /\ geo.kind = "pic"
  /\ Compat(ReplaceVerdict(geo, win[h], q), res)
  /\ IF res = "ok"
     THEN LET n == RNorm(geo, win[h], q)
              nw == FullWin(geo, n.nh, n.nv)
              ev == [t |-> "copy", nw |-> nw, ow |-> win[h], ps |-> content[area[h]],
                     sx |-> [p \in PlaneIds(geo) |-> n.hskip \div HGran(geo, p)],
                     sy |-> [p \in PlaneIds(geo) |-> n.vskip \div VGran(geo, p)]]
          IN /\ canv' = Append(canv, [hm |-> n.nh \div geo.mp + geo.hmpre + geo.hmapp,
                                        v |-> n.nv + geo.vpre + geo.vapp])
             /\ content' = Append(content, <<ev>>)
             /\ area' = [area EXCEPT ![h] = Len(canv) + 1]
             /\ win' = [win EXCEPT ![h] = nw]
     ELSE UNCHANGED <<canv, content, area, win>>
  /\ last' = [op |-> "replace", h |-> h, q |-> q, res |-> res,
              W |-> WinW(geo, win'[h]), H |-> win'[h].vsize,
              size |-> IF res = "ok" THEN AreaSize(geo, canv'[Len(canv')]) ELSE 0]
  /\ UNCHANGED <<geo, view, nextk>>

DoSResize(h, q, res) ==
  /\ IsBuf(h) /\ geo.kind = "sound"
  /\ Compat(SResizeVerdict(win[h], q), res)
  /\ win' = [win EXCEPT ![h] = IF res = "ok" THEN SRWin(win[h], SRNorm(win[h], q)) ELSE @]
  /\ last' = [op |-> "sresize", h |-> h, q |-> q, res |-> res, W |-> win'[h].hmsize, H |-> 1]
  /\ UNCHANGED <<geo, area, view, canv, content, nextk>>

\* mapping (observer): r = [ho, vo, hs, vs]; sound: vo = 0, vs = -1
DoMap(h, p, r, mode, res) ==
  /\ IsBuf(h) /\ p \in PlaneIds(geo)
  /\ Compat(MapVerdict(geo, win[h], p, r, Shared(h), mode), res)
  /\ LET n == MapNorm(geo, win[h], r)
         c == canv[area[h]]
     IN last' = [op |-> IF geo.kind = "sound" THEN "smap" ELSE "map", h |-> h, p |-> p, r |-> r, mode |-> mode,
                 res |-> res, w |-> win[h], a |-> area[h], owners |-> Owners(area[h]),
                 \* window-relative cell of the first mapped cell, numbers of columns / lines
                 ci |-> IF res = "ok" THEN n.ho \div HGran(geo, p) ELSE 0,
                 cj |-> IF res = "ok" THEN n.vo \div VGran(geo, p) ELSE 0,
                 nc |-> IF res = "ok" THEN NC(geo, p, n) ELSE 0,
                 nl |-> IF res = "ok" THEN NL(geo, p, n) ELSE 0,
                 \* layout prediction (detailed: a different layout is model drift)
                 off |-> IF res = "ok" THEN CellOff(geo, c, p, CX0(geo, win[h], p, n), CY0(geo, win[h], p, n)) ELSE 0,
                 stride |-> Stride(geo, c, p)]
  /\ UNCHANGED <<geo, win, area, view, canv, content, nextk>>

WriteVerdict(h) == IF Shared(h) /\ Variant # "cow_off" THEN "busy" ELSE "ok"

\* write a position code through a write mapping of the whole window
DoFill(h, k, res) ==
  /\ IsBuf(h)
  /\ Compat(WriteVerdict(h), res)
  /\ content' = IF res = "ok"
                THEN [content EXCEPT ![area[h]] = Append(@, [t |-> "fill", k |-> k, w |-> win[h]])]
                ELSE content
  /\ nextk' = IF res = "ok" /\ k >= nextk THEN k + 1 ELSE nextk
  /\ last' = [op |-> "fill", h |-> h, k |-> k, res |-> res, owners |-> Owners(area[h])]
  /\ UNCHANGED <<geo, win, area, view, canv>>

\* write one cell (pixel x, line y of the window) through its own write mapping
PokeReq(g, p, x, y) == [ho |-> x, vo |-> y, hs |-> HGran(g, p), vs |-> VGran(g, p)]
DoPoke(h, p, x, y, k, res) ==
  /\ IsBuf(h) /\ p \in PlaneIds(geo)
  /\ Compat(MapVerdict(geo, win[h], p, PokeReq(geo, p, x, y), Shared(h), "w"), res)
  /\ LET n == MapNorm(geo, win[h], PokeReq(geo, p, x, y))
     IN content' = IF res = "ok"
                   THEN [content EXCEPT ![area[h]] =
                           Append(@, [t |-> "poke", k |-> k, p |-> p,
                                      cx |-> CX0(geo, win[h], p, n), cy |-> CY0(geo, win[h], p, n)])]
                   ELSE content
  /\ nextk' = IF res = "ok" /\ k >= nextk THEN k + 1 ELSE nextk
  /\ last' = [op |-> "poke", h |-> h, p |-> p, x |-> x, y |-> y, k |-> k, res |-> res,
              owners |-> Owners(area[h])]
  /\ UNCHANGED <<geo, win, area, view, canv>>

\* read everything back (observer)
DoCheck(h) ==
  /\ IsBuf(h)
  /\ last' = [op |-> "check", h |-> h, res |-> "ok",
              bytes |-> Visible(geo, content[area[h]], win[h])]
  /\ UNCHANGED <<geo, win, area, view, canv, content, nextk>>

\* block view of plane p of buffer s (x: the view; in trace validation stride and
\* size are the logged ones, the generator predicts them from the layout)
PredView(s, p) ==
  LET c == canv[area[s]]
  IN [p |-> p, w |-> win[s],
      stride |-> IF geo.kind = "sound" THEN 0 ELSE Stride(geo, c, p),
      \* from the first to the last visible octet
      size |-> IF geo.kind = "sound" \/ PNL(geo, win[s], p) = 0 THEN PNC(geo, win[s], p) * geo.planes[p].mps
               ELSE Stride(geo, c, p) * (PNL(geo, win[s], p) - 1) + PNC(geo, win[s], p) * geo.planes[p].mps]
DoView(h, s, x, res) ==
  /\ ~Live(h) /\ IsBuf(s) /\ x.p \in PlaneIds(geo) /\ x.w = win[s]
  /\ res \in {"ok", "null"}
  /\ IF res = "ok"
     THEN /\ area' = [area EXCEPT ![h] = area[s]]
          /\ view' = [view EXCEPT ![h] = x]
     ELSE UNCHANGED <<area, view>>
  /\ last' = [op |-> "view", h |-> h, src |-> s, p |-> x.p, res |-> res, a |-> area[s],
              stride |-> x.stride, size |-> x.size,
              off |-> CellOff(geo, canv[area[s]], x.p, PX0(geo, win[s], x.p), PY0(geo, win[s], x.p))]
  /\ UNCHANGED <<geo, win, canv, content, nextk>>

DoBRead(h) ==
  /\ Live(h) /\ IsView(h)
  /\ last' = [op |-> "bread", h |-> h, res |-> "ok",
              bytes |-> ViewBytes(geo, content[area[h]], view[h])]
  /\ UNCHANGED <<geo, win, area, view, canv, content, nextk>>

\* write octet i of the block through a write mapping of that octet
DoBPoke(h, i, v, res) ==
  /\ Live(h) /\ IsView(h) /\ ViewInWindow(geo, view[h], i)
  /\ Compat(WriteVerdict(h), res)
  /\ LET x == view[h]
     IN content' = IF res = "ok"
                   THEN [content EXCEPT ![area[h]] =
                           Append(@, [t |-> "octet", p |-> x.p,
                                      cx |-> PX0(geo, x.w, x.p) + VCol(x, i) \div geo.planes[x.p].mps,
                                      cy |-> PY0(geo, x.w, x.p) + VLine(x, i),
                                      b |-> VCol(x, i) % geo.planes[x.p].mps, v |-> v])]
                   ELSE content
  /\ nextk' = IF res = "ok" THEN nextk + 1 ELSE nextk
  /\ last' = [op |-> "bpoke", h |-> h, i |-> i, v |-> v, res |-> res, owners |-> Owners(area[h])]
  /\ UNCHANGED <<geo, win, area, view, canv>>

-----------------------------------------------------------------------------
(* state machines *)
NoGeo == [kind |-> "none"]
Init == /\ geo \in UNION {GeoSet(t) : t \in Geos}
        /\ win = [h \in Handles |-> NoWin]
        /\ area = [h \in Handles |-> 0]
        /\ view = [h \in Handles |-> NoView]
        /\ canv = <<>> /\ content = <<>> /\ nextk = 1
        /\ last = [op |-> "init", res |-> "ok"]
        /\ hist = <<>> /\ nops = 0 /\ nrs = 0 /\ pick = ""

MapModes == IF Cardinality(Handles) > 1 THEN {"r", "w"} ELSE {"r"}
\* requests whose outcome the statement fixes (the generator does not emit
\* the silent ones; trace validation accepts either outcome for them)
Decided(v) == v \in {"ok", "invalid", "busy", "null"}

OpAlloc == \E h \in Handles, d \in geo.req.allocs :
             /\ Decided(AllocVerdict(geo, d[1], d[2]))
             /\ DoAlloc(h, d[1], d[2], AllocVerdict(geo, d[1], d[2])) /\ UNCHANGED nrs
OpDup == \E h, s \in Handles : DoDup(h, s) /\ UNCHANGED nrs
OpFree == \E h \in Handles : DoFree(h) /\ UNCHANGED nrs
OpResize == /\ nrs < MaxResize
            /\ nrs' = nrs + 1
            /\ IF geo.kind = "sound"
               THEN \E h \in Handles, q \in geo.req.resizes :
                      /\ IsBuf(h) /\ Decided(SResizeVerdict(win[h], q))
                      /\ DoSResize(h, q, SResizeVerdict(win[h], q))
               ELSE \E h \in Handles, q \in geo.req.resizes :
                      /\ IsBuf(h) /\ Decided(ResizeVerdict(geo, win[h], q))
                      /\ DoResize(h, q, ResizeVerdict(geo, win[h], q))
OpMap == \E h \in Handles, p \in PlaneIds(geo), r \in geo.req.maps, m \in MapModes :
           /\ IsBuf(h) /\ Decided(MapVerdict(geo, win[h], p, r, Shared(h), m))
           /\ DoMap(h, p, r, m, MapVerdict(geo, win[h], p, r, Shared(h), m))
           /\ UNCHANGED nrs
OpFill == \E h \in Handles :
            /\ IsBuf(h) /\ nextk <= geo.req.fills
            /\ DoFill(h, nextk, WriteVerdict(h))
            /\ UNCHANGED nrs
OpPoke == \E h \in Handles, p \in PlaneIds(geo), d \in geo.req.pokes :
            /\ IsBuf(h) /\ nextk <= geo.req.fills
            /\ Decided(MapVerdict(geo, win[h], p, PokeReq(geo, p, d[1], d[2]), Shared(h), "w"))
            /\ DoPoke(h, p, d[1], d[2], nextk,
                      MapVerdict(geo, win[h], p, PokeReq(geo, p, d[1], d[2]), Shared(h), "w"))
            /\ UNCHANGED nrs
OpCheck == \E h \in Handles : DoCheck(h) /\ UNCHANGED nrs
OpView == \E h, s \in Handles, p \in PlaneIds(geo) :
            /\ IsBuf(s) /\ DoView(h, s, PredView(s, p), "ok") /\ UNCHANGED nrs
OpBRead == \E h \in Handles : DoBRead(h) /\ UNCHANGED nrs
OpBPoke == \E h \in Handles, i \in geo.req.bpokes :
             /\ Live(h) /\ IsView(h) /\ nextk <= geo.req.fills
             /\ DoBPoke(h, i, 200 + nextk, WriteVerdict(h))
             /\ UNCHANGED nrs

Op(k) == CASE k = "alloc" -> OpAlloc [] k = "dup" -> OpDup [] k = "free" -> OpFree
           [] k = "resize" -> OpResize [] k = "map" -> OpMap [] k = "fill" -> OpFill
           [] k = "check" -> OpCheck [] k = "poke" -> OpPoke [] k = "view" -> OpView
           [] k = "bread" -> OpBRead [] k = "bpoke" -> OpBPoke

\* exhaustive exploration; observers (map, check, bread) do not change the
\* buffers: their states are leaves (continuing from them adds nothing)
McStep(k) == /\ nops < MaxOps
             /\ k \in geo.req.kinds
             /\ last.op \notin {"map", "smap", "check", "bread"}
             /\ nops' = nops + 1
             /\ UNCHANGED <<hist, pick>>
Alloc == McStep("alloc") /\ OpAlloc
Dup == McStep("dup") /\ OpDup
Free == McStep("free") /\ OpFree
Resize == McStep("resize") /\ OpResize
Map == McStep("map") /\ OpMap
Fill == McStep("fill") /\ OpFill
Poke == McStep("poke") /\ OpPoke
Check == McStep("check") /\ OpCheck
MkView == McStep("view") /\ OpView
BRead == McStep("bread") /\ OpBRead
BPoke == McStep("bpoke") /\ OpBPoke
McNext == Alloc \/ Dup \/ Free \/ Resize \/ Map \/ Fill \/ Poke \/ Check \/ MkView \/ BRead \/ BPoke

\* behaviour generator: the kind of operation is drawn first (balances the
\* random walk), then its arguments
Choose == /\ nops < MaxOps /\ pick = "" /\ pick' \in geo.req.kinds
          /\ UNCHANGED <<geo, win, area, view, canv, content, nextk, last, hist, nops, nrs>>
Perform == /\ nops < MaxOps /\ pick # "" /\ Op(pick) /\ pick' = ""
           /\ hist' = Append(hist, last') /\ nops' = nops + 1
Skip == /\ nops < MaxOps /\ pick # "" /\ pick' = ""
        /\ UNCHANGED <<geo, win, area, view, canv, content, nextk, last, hist, nops, nrs>>
\* the behaviour is complete: one more step, so that it is emitted once (the
\* simulator evaluates invariants on every candidate successor)
Finish == /\ nops = MaxOps /\ pick = "" /\ pick' = "done"
          /\ UNCHANGED <<geo, win, area, view, canv, content, nextk, last, hist, nops, nrs>>
DrvNext == Choose \/ Perform \/ Skip \/ Finish

Spec == Init /\ [][McNext]_vars
DrvSpec == Init /\ [][DrvNext]_vars

\* the state without the bookkeeping counters; the arguments of a resize are
\* irrelevant once it is done (CropPreserves is checked on the transition)
View == <<geo, win, area, view, canv, content, nextk,
          IF last.op \in {"resize", "sresize"} THEN [op |-> "resize"] ELSE last,
          nrs, nops = MaxOps>>

GeoOut(g) == [kind |-> g.kind, name |-> g.name, mp |-> g.mp, planes |-> g.planes,
              hmpre |-> g.hmpre, hmapp |-> g.hmapp, vpre |-> g.vpre, vapp |-> g.vapp,
              align |-> g.align, aoff |-> g.aoff, basemod |-> g.basemod]
\* final audit of a behaviour: everything every live handle sees
Final == [h \in Handles |-> IF ~Live(h) THEN [k |-> "none"]
                            ELSE IF IsView(h) THEN [k |-> "view", bytes |-> Sees(h)]
                            ELSE [k |-> "buf", bytes |-> Sees(h)]]
Emit == (Record /\ pick = "done") =>
          PrintT(<<"BEH", ToJson([geo |-> GeoOut(geo), ops |-> hist, final |-> Final])>>)

-----------------------------------------------------------------------------
(* properties *)
WindowsInCanvas ==
  \A h \in Handles : Live(h) =>
    LET w == IF IsView(h) THEN view[h].w ELSE win[h]
        c == canv[area[h]]
    IN /\ w.hmpre >= 0 /\ w.hmsize >= 0 /\ w.hmapp >= 0 /\ w.vpre >= 0 /\ w.vsize >= 0 /\ w.vapp >= 0
       /\ w.hmpre + w.hmsize + w.hmapp = c.hm /\ w.vpre + w.vsize + w.vapp = c.v

IsMap == last.op \in {"map", "smap"}
\* an accepted mapping lies inside the memory of its plane
Inside == (IsMap /\ last.res = "ok") =>
            Cells(geo, canv[last.a], last.w, last.p, last.r) \subseteq AllocSet(geo, canv[last.a], last.p)
\* distinct cells of an accepted mapping have disjoint octet ranges
InjectiveMap == (IsMap /\ last.res = "ok") =>
                  Cardinality(Cells(geo, canv[last.a], last.w, last.p, last.r))
                    = last.nc * last.nl * geo.planes[last.p].mps
\* all cells of all planes of a whole canvas are pairwise disjoint and inside
CanvasCells(g, c, p) == { CellRange(g, c, p, cx, cy) :
                          cx \in 0..(c.hm \div g.planes[p].hsub - 1),
                          cy \in 0..(c.v \div g.planes[p].vsub - 1) }
CanvasInjective ==
  (last.op \in {"alloc", "salloc"} /\ last.res = "ok") =>
    LET c == canv[Len(canv)]
        all == UNION {CanvasCells(geo, c, p) : p \in PlaneIds(geo)}
    IN /\ \A x, y \in all : x # y => x \cap y = {}
       /\ \A p \in PlaneIds(geo) : \A x \in CanvasCells(geo, c, p) : x \subseteq AllocSet(geo, c, p)
       /\ \A p, q \in PlaneIds(geo) : p # q => AllocSet(geo, c, p) \cap AllocSet(geo, c, q) = {}
\* accepted => multiple of the granularity and inside the window
GranularityP ==
  (IsMap /\ last.res = "ok") =>
    LET n == MapNorm(geo, last.w, last.r)
    IN /\ Divides(HGran(geo, last.p), n.ho) /\ Divides(HGran(geo, last.p), n.hs)
       /\ Divides(VGran(geo, last.p), n.vo) /\ Divides(VGran(geo, last.p), n.vs)
       /\ n.ho >= 0 /\ n.vo >= 0 /\ n.ho + n.hs <= WinW(geo, last.w) /\ n.vo + n.vs <= last.w.vsize
\* the cell (i, j) of an accepted mapping is the window cell (ci + i, cj + j),
\* i.e. the canvas cell the content model (pixel identity) talks about
MapIsWindowCell ==
  (IsMap /\ last.res = "ok") =>
    LET n == MapNorm(geo, last.w, last.r)
    IN /\ CX0(geo, last.w, last.p, n) = PX0(geo, last.w, last.p) + last.ci
       /\ CY0(geo, last.w, last.p, n) = PY0(geo, last.w, last.p) + last.cj
       /\ last.ci + last.nc <= PNC(geo, last.w, last.p)
       /\ last.cj + last.nl <= PNL(geo, last.w, last.p)
AllocGranular ==
  (last.op = "alloc" /\ last.res = "ok") =>
    \A p \in PlaneIds(geo) : Divides(HGran(geo, p), last.W) /\ Divides(VGran(geo, p), last.H)
\* C02: a writable mapping only while the memory has a single owner
WriteOnlySingle ==
  /\ (IsMap /\ last.mode = "w" /\ last.res = "ok") => last.owners = 1
  /\ (last.op \in {"fill", "poke", "bpoke"} /\ last.res = "ok") => last.owners = 1
\* a duplicate sees what its source sees
DupSees == last.op = "dup" => Sees(last.h) = Sees(last.src)

\* cropping / extending keeps every pixel that stays visible: window cell
\* (i, j) after Resize(hskip, vskip, ..) is the former cell (i + hskip, j + vskip)
CropPreserves ==
  [][(last'.op \in {"resize", "sresize"} /\ last'.res = "ok") =>
       LET h == last'.h
           dx(p) == IF last'.op = "sresize" THEN SRNorm(win[h], last'.q).off
                    ELSE last'.q.hskip \div HGran(geo, p)
           dy(p) == IF last'.op = "sresize" THEN 0 ELSE last'.q.vskip \div VGran(geo, p)
       IN \A p \in PlaneIds(geo) :
            \A i \in 0..(PNC(geo, win'[h], p) - 1), j \in 0..(PNL(geo, win'[h], p) - 1) :
              (i + dx(p) \in 0..(PNC(geo, win[h], p) - 1) /\ j + dy(p) \in 0..(PNL(geo, win[h], p) - 1)) =>
                \A b \in 0..(geo.planes[p].mps - 1) :
                  ByteAt(geo, content'[area'[h]], p, PX0(geo, win'[h], p) + i, PY0(geo, win'[h], p) + j, b)
                    = ByteAt(geo, content[area[h]], p, PX0(geo, win[h], p) + i + dx(p), PY0(geo, win[h], p) + j + dy(p), b)]_vars
\* C02: what a handle sees changes only by a write through that very handle
Isolation ==
  [][content' = content \/ \A h \in Handles :
       (Live(h) /\ area'[h] = area[h] /\ win'[h] = win[h] /\ view'[h] = view[h]) =>
         \/ (IF IsView(h) THEN ViewBytes(geo, content'[area[h]], view[h])
                          ELSE Visible(geo, content'[area[h]], win[h])) = Sees(h)
         \/ (last'.op \in {"fill", "poke", "bpoke"} /\ last'.h = h)]_vars
\* C02: cut / resize / dup / view / free / map never modify memory
StructuralOpsDontWrite ==
  [][last'.op \notin {"fill", "poke", "bpoke"} => \A a \in 1..Len(content) : content'[a] = content[a]]_vars
=============================================================================
