\* merger, emission (spec -> code): every behaviour with <= 2 sections of 3..5 octets incl. corrupt headers, every cut position, one damage
SPECIFICATION Spec
CONSTANTS
  Variant = "ok"
  Palette <- PalMicroD
  MaxSecs = 2
  MaxRuns = 2
  MaxPay = 16
  AllCuts = TRUE
  Stuffs = {0}
  Damage = {"disc", "drop", "bad"}
  MidStart = FALSE
  Record = TRUE
  Small = TRUE
INVARIANT WellFormed NoGarbage NoLoss Exact SyncAgree NextShape Emit
CHECK_DEADLOCK FALSE
