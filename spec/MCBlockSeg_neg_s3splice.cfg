\* NEGATIVE (s3splice re-introduced): TLC must find a behaviour whose observable result is not the byte-string one; it is printed and replayed on the real code
SPECIFICATION MCSpec
CONSTANTS
  Handles = {0, 1, 2}
  Fill = 14
  Strict = TRUE
  KeepHist = TRUE
  Bug = "s3splice"
  Pre = 2
  MaxLen = 6
  MaxWins = 5
  Depth = 3
  Pats = "a"
  InitSet = "two"
  ObsLast = FALSE
  Rand = FALSE
  Dom = "all"
  Ops = {"splice", "extract", "size"}
INVARIANT NegEmit
CONSTRAINT Bounded
VIEW nview
CHECK_DEADLOCK FALSE
