SPECIFICATION Spec
CONSTANTS
 Setups <- S_dupchain
 Acts <- A_dupchain
 Bufs <- B_size
 MaxSteps = 3
 MaxIn = 2
 Variant = "ok"
 CheckEpi = FALSE
INVARIANT Emit
CHECK_DEADLOCK FALSE
