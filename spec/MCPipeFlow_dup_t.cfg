SPECIFICATION Spec
CONSTANTS
 Setups <- S_dup
 Acts <- A_dup
 Bufs <- B_one
 MaxSteps = 8
 MaxIn = 3
 Variant = "ok"
 CheckEpi = TRUE
INVARIANT ExactlyOnce
INVARIANT InOrder
INVARIANT ContentOK
INVARIANT DupAll
INVARIANT NoLeak
INVARIANT EpilogueClean
INVARIANT DrainedOK
PROPERTY FlushFrees
VIEW view
CHECK_DEADLOCK FALSE
