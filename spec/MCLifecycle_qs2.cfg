SPECIFICATION Spec
CONSTANTS
  TopoName = "qs"
  Variant = "ok"
  QLen = 2
  MaxHeld = 2
  MaxCmds = 0
  MinCmds = 0
  EmitBeh = FALSE
INVARIANTS RcIsHolders DestroyOnce NoUseAfterDestroy QuiescentClean Sane
PROPERTY DestroyOnceStep
VIEW View
POSTCONDITION Cov
CHECK_DEADLOCK FALSE
