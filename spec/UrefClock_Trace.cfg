SPECIFICATION TSpec
CONSTANTS
  W = 64
  PaletteName = "edge"
  MaxSteps = 0
  Variant = "ok"
  Record = FALSE
  AddAtUnset = "either"
INVARIANT TypeOK Algebra
PROPERTY RebasePreserves SetReadsBack RapNotAfterCr
POSTCONDITION Accepted
CHECK_DEADLOCK FALSE
