SPECIFICATION Spec
CONSTANTS
  Prog <- P_UR_R
  Variant = "code"
INVARIANT DestroyAtMostOnce NotWhileHeld DestroyedAtEnd CounterIsHeld
VIEW view
CHECK_DEADLOCK FALSE
