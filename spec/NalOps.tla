------------------------------- MODULE NalOps -------------------------------
(***************************************************************************)
(* C17 - constant-level operators shared by Nal.tla (conversion between    *)
(* NAL encapsulations), NalBits.tla (exp-Golomb / emulation prevention)    *)
(* and Nal_Trace.tla (validation of executions of the real code).          *)
(*                                                                         *)
(* OCTET STRINGS.  Frames reach 65 536+ octets (a payload that overflows a *)
(* 2-octet length prefix), so an octet string is a sequence of RUNS        *)
(*     [b |-> first octet, n |-> length >= 1]                              *)
(* a run denoting  b, b+1, b+2, ... (modulo 251 after the first octet).    *)
(* A literal octet is a run of length 1.  The payload of NAL number k is   *)
(* the run starting at Pat(k); the harness fills the real buffers with the *)
(* same texture and prints what it finds in the same notation (a codec,    *)
(* not an oracle).  RNorm gives the unique normal form (maximal runs), so  *)
(* two strings are equal iff their normal forms are equal.                 *)
(*                                                                         *)
(* FRAMES.  A frame is [S: octets, offs: stored NAL offsets, enc].         *)
(* offs[k] is the offset of NAL k+1 (attribute h26x.n[k-1] of the uref);   *)
(* the first NAL starts at 0 and has no attribute                          *)
(* (uref_h26x_iterate_nal).  Encapsulations:                               *)
(*   "annexb"  start code 00 00 01 or 00 00 00 01 before every NAL         *)
(*   "len1" "len2" "len4"  big-endian length prefix                        *)
(*   "nalu"    nothing: NAL units delimited by the stored offsets only     *)
(***************************************************************************)
EXTENDS Naturals, Integers, Sequences, FiniteSets, TLC

M == 251
Min(a, b) == IF a < b THEN a ELSE b
Max(a, b) == IF a > b THEN a ELSE b

---------------------------------------------------------------------------
(* octet strings as runs *)
Run(b, n)  == [b |-> b, n |-> n]
Runs(b, n) == IF n <= 0 THEN <<>> ELSE <<Run(b, n)>>
Nth(b, j)  == IF j = 0 THEN b ELSE (b + j) % M           \* octet j of a run starting with b
Lit(bs)    == [i \in 1..Len(bs) |-> Run(bs[i], 1)]

RECURSIVE RLen(_)
RLen(S) == IF Len(S) = 0 THEN 0 ELSE S[1].n + RLen(Tail(S))

RECURSIVE RDrop(_, _)
RDrop(S, k) == IF k <= 0 \/ Len(S) = 0 THEN S
               ELSE IF k >= S[1].n THEN RDrop(Tail(S), k - S[1].n)
               ELSE <<Run(Nth(S[1].b, k), S[1].n - k)>> \o Tail(S)
RECURSIVE RTake(_, _)
RTake(S, k) == IF k <= 0 \/ Len(S) = 0 THEN <<>>
               ELSE IF k >= S[1].n THEN <<S[1]>> \o RTake(Tail(S), k - S[1].n)
               ELSE <<Run(S[1].b, k)>>
RSub(S, from, n) == RTake(RDrop(S, from), n)
\* octet at offset i (0-based); -1 outside
RByte(S, i) == LET d == RDrop(S, i) IN IF i < 0 \/ Len(d) = 0 THEN -1 ELSE d[1].b

\* normal form: no empty run, maximal runs
RECURSIVE RNorm(_)
RNorm(S) == IF Len(S) = 0 THEN <<>>
            ELSE IF S[1].n <= 0 THEN RNorm(Tail(S))
            ELSE IF Len(S) = 1 THEN S
            ELSE IF S[2].n <= 0 THEN RNorm(<<S[1]>> \o Tail(Tail(S)))
            ELSE IF S[2].b = Nth(S[1].b, S[1].n)
                 THEN RNorm(<<Run(S[1].b, S[1].n + S[2].n)>> \o Tail(Tail(S)))
                 ELSE <<S[1]>> \o RNorm(Tail(S))
REq(A, B) == RNorm(A) = RNorm(B)
\* events carry runs as pairs <<b, n>>
OfPairs(ps) == [i \in 1..Len(ps) |-> Run(ps[i][1], ps[i][2])]
ToPairs(S)  == [i \in 1..Len(S) |-> <<S[i].b, S[i].n>>]

---------------------------------------------------------------------------
(* encapsulations *)
EncsAll == {"annexb", "len1", "len2", "len4", "nalu"}
IsLen(enc) == enc \in {"len1", "len2", "len4"}
LenW(enc) == CASE enc = "len1" -> 1 [] enc = "len2" -> 2 [] OTHER -> 4
\* largest payload a prefix can announce (len4: UINT32_MAX, beyond any frame here)
MaxPay(enc) == CASE enc = "len1" -> 255 [] enc = "len2" -> 65535 [] OTHER -> 2147483647
BE(w, v) == [i \in 1..w |-> (v \div (256 ^ (w - i))) % 256]
Pat(k) == (k * 53 + 17) % M                         \* first octet of the payload of NAL k
PayloadOf(k, n) == Runs(Pat(k), n)

PrefixLen(enc, sc) == CASE enc = "annexb" -> sc [] IsLen(enc) -> LenW(enc) [] OTHER -> 0
Prefix(enc, n, sc) == CASE enc = "annexb" -> Lit(IF sc = 3 THEN <<0, 0, 1>> ELSE <<0, 0, 0, 1>>)
                        [] IsLen(enc)     -> Lit(BE(LenW(enc), n))
                        [] OTHER          -> <<>>

\* Ser: P = sequence of payloads (octet strings), scs = start-code sizes
RECURSIVE SerP(_, _, _)
SerP(P, enc, scs) == IF Len(P) = 0 THEN <<>>
                     ELSE Prefix(enc, RLen(P[1]), scs[1]) \o P[1] \o SerP(Tail(P), enc, Tail(scs))
RECURSIVE EndOf(_, _, _, _)
EndOf(P, enc, scs, k) == IF k = 0 THEN 0      \* offset of the end of NAL k
                         ELSE EndOf(P, enc, scs, k - 1) + PrefixLen(enc, scs[k]) + RLen(P[k])
OffsP(P, enc, scs) == [k \in 1..(Len(P) - 1) |-> EndOf(P, enc, scs, k)]
All4(P) == [i \in 1..Len(P) |-> 4]
Representable(P, enc) == \A i \in 1..Len(P) : RLen(P[i]) <= MaxPay(enc)
MkFrame(P, enc, scs) == [S |-> RNorm(SerP(P, enc, scs)), offs |-> OffsP(P, enc, scs), enc |-> enc]

\* the NAL units of a frame as uref_h26x_iterate_nal delimits them: one per
\* stored offset, then a last one if octets are left
Units(f) ==
  LET n == Len(f.offs)
      st(k) == IF k = 1 THEN 0 ELSE f.offs[k - 1]
      last == IF n = 0 THEN 0 ELSE f.offs[n]
      tot == RLen(f.S)
      stored == [k \in 1..n |-> <<st(k), f.offs[k] - st(k)>>]
  IN IF tot > last THEN Append(stored, <<last, tot - last>>) ELSE stored
\* stored offsets make sense for the octets: increasing, inside the buffer
OffsSane(f) == /\ \A k \in 1..Len(f.offs) : f.offs[k] >= (IF k = 1 THEN 0 ELSE f.offs[k - 1])
               /\ Len(f.offs) > 0 => f.offs[Len(f.offs)] <= RLen(f.S)

\* size of the prefix found at the beginning of a unit; -1 = not in this encapsulation
FoundPrefix(u, enc) ==
  CASE enc = "annexb" -> IF RLen(u) >= 3 /\ RByte(u, 0) = 0 /\ RByte(u, 1) = 0
                         THEN (IF RByte(u, 2) = 1 THEN 3
                               ELSE IF RLen(u) >= 4 /\ RByte(u, 2) = 0 /\ RByte(u, 3) = 1 THEN 4 ELSE -1)
                         ELSE -1
    [] IsLen(enc)     -> LET w == LenW(enc) IN
                         IF RLen(u) >= w /\
                            (RLen(u) - w) = (IF w = 1 THEN RByte(u, 0)
                                             ELSE IF w = 2 THEN 256 * RByte(u, 0) + RByte(u, 1)
                                             ELSE IF RByte(u, 0) > 127 THEN -1
                                             ELSE 16777216 * RByte(u, 0) + 65536 * RByte(u, 1)
                                                  + 256 * RByte(u, 2) + RByte(u, 3))
                         THEN w ELSE -1
    [] OTHER          -> 0
\* Parse: the payloads of a frame; WellFormed when every unit carries a valid prefix
UnitStr(f, k) == RSub(f.S, Units(f)[k][1], Units(f)[k][2])
WellFormed(f) == /\ OffsSane(f)
                 /\ \A k \in 1..Len(Units(f)) : FoundPrefix(UnitStr(f, k), f.enc) >= 0
Parse(f) == [k \in 1..Len(Units(f)) |->
               RNorm(RDrop(UnitStr(f, k), FoundPrefix(UnitStr(f, k), f.enc)))]

Err == [S |-> <<>>, offs |-> <<>>, enc |-> "err"]
\* Convert(x, out) = Ser(Parse(x), out), or Err when a payload overflows the prefix;
\* an identity conversion leaves the frame alone (3-octet start codes stay)
Convert(f, out) ==
  IF out = f.enc THEN f
  ELSE LET P == Parse(f) IN
       IF ~Representable(P, out) THEN Err ELSE MkFrame(P, out, All4(P))
\* an empty NAL unit is not a NAL unit (ITU-T H.264 7.3.1: at least the header
\* octet): frames holding one are outside the statement (handled permissively)
Degenerate(f) == \E k \in 1..Len(Units(f)) :
                    Units(f)[k][2] - Max(0, FoundPrefix(UnitStr(f, k), f.enc)) <= 0

---------------------------------------------------------------------------
(* bits, 32-bit words (index 1 = most significant) *)
Zeros(n) == [i \in 1..n |-> 0]
Ones(n)  == [i \in 1..n |-> 1]
NBits(n, v) == [i \in 1..n |-> (v \div (2 ^ (n - i))) % 2]
RECURSIVE BitsVal(_)
BitsVal(bs) == IF Len(bs) = 0 THEN 0
               ELSE 2 * BitsVal(SubSeq(bs, 1, Len(bs) - 1)) + bs[Len(bs)]
W0 == Zeros(32)
Word(hi, lo) == NBits(16, hi) \o NBits(16, lo)
Hi16(x) == BitsVal(SubSeq(x, 1, 16))
Lo16(x) == BitsVal(SubSeq(x, 17, 32))
ZeroExt(bs) == Zeros(32 - Len(bs)) \o bs
Front(bs) == SubSeq(bs, 1, Len(bs) - 1)
RECURSIVE Inc(_)      \* + 1 modulo 2^Len
Inc(bs) == IF Len(bs) = 0 THEN <<>>
           ELSE IF bs[Len(bs)] = 0 THEN Front(bs) \o <<1>> ELSE Inc(Front(bs)) \o <<0>>
RECURSIVE Dec(_)      \* - 1 modulo 2^Len
Dec(bs) == IF Len(bs) = 0 THEN <<>>
           ELSE IF bs[Len(bs)] = 1 THEN Front(bs) \o <<0>> ELSE Dec(Front(bs)) \o <<1>>
RECURSIVE Strip(_)    \* without leading zeros
Strip(bs) == IF Len(bs) = 0 \/ bs[1] = 1 THEN bs ELSE Strip(Tail(bs))
Shl1(x) == Tail(x) \o <<0>>
Shr1(x) == <<0>> \o Front(x)

RECURSIVE BytesBits(_)
BytesBits(m) == IF Len(m) = 0 THEN <<>>
                ELSE BytesBits(SubSeq(m, 1, Len(m) - 1)) \o NBits(8, m[Len(m)])
PackBytes(bs) == [j \in 1..(Len(bs) \div 8) |-> BitsVal(SubSeq(bs, 8 * j - 7, 8 * j))]
\* rbsp_trailing_bits: a stop bit, then zeros up to the octet boundary
Trail(bs) == LET t == bs \o <<1>> IN t \o Zeros((8 - (Len(t) % 8)) % 8)

---------------------------------------------------------------------------
(* exp-Golomb: the REFERENCE ENCODER and the decoder (ITU-T H.264 9.1) *)
\* ue(v), v a 32-bit word other than 2^32-1: k zeros, then the k+1 bits of v+1
UeCode(v) == LET B == Strip(Inc(v)) IN Zeros(Len(B) - 1) \o B
UeDomain(v) == v # Ones(32)
\* se(v): v > 0 -> ue(2v - 1), v <= 0 -> ue(-2v); v = [neg, m] sign and magnitude (m < 2^31)
SeToUe(neg, m) == IF neg = 0 /\ m # W0 THEN Dec(Shl1(m)) ELSE Shl1(m)
UeToSe(u) == IF u[32] = 1 THEN [neg |-> 0, m |-> Shr1(Inc(u))]
             ELSE [neg |-> IF u = W0 THEN 0 ELSE 1, m |-> Shr1(u)]
SeCode(neg, m) == UeCode(SeToUe(neg, m))
SeDomain(neg, m) == m[1] = 0 /\ (neg = 1 => m # W0)

RECURSIVE LeadZ(_, _)   \* zeros from position p (0-based) up to the first 1 or the end
LeadZ(S, p) == IF p >= Len(S) \/ S[p + 1] = 1 THEN 0 ELSE 1 + LeadZ(S, p + 1)
\* decoding at bit position p of the bit string S
UeDecode(S, p) ==
  LET k == LeadZ(S, p) IN
  IF k > 31 \/ p + 2 * k + 1 > Len(S) THEN [ok |-> FALSE, v |-> W0, len |-> 0]
  ELSE [ok |-> TRUE, v |-> Dec(ZeroExt(SubSeq(S, p + k + 1, p + 2 * k + 1))), len |-> 2 * k + 1]

---------------------------------------------------------------------------
(* emulation prevention (ITU-T H.264 7.4.1): the REFERENCE ENCODER inserts *)
(* 03 before an octet <= 3 that follows two zero octets; the decoder drops *)
(* every 03 that follows two zero octets                                   *)
RECURSIVE Esc(_, _)
Esc(bs, z) == IF Len(bs) = 0 THEN <<>>
              ELSE IF z >= 2 /\ bs[1] <= 3 THEN <<3>> \o Esc(bs, 0)
              ELSE <<bs[1]>> \o Esc(Tail(bs), IF bs[1] = 0 THEN z + 1 ELSE 0)
Escape(bs) == Esc(bs, 0)
RECURSIVE Unesc(_, _)
Unesc(bs, z) == IF Len(bs) = 0 THEN <<>>
                ELSE IF z >= 2 /\ bs[1] = 3 THEN Unesc(Tail(bs), 0)
                ELSE <<bs[1]>> \o Unesc(Tail(bs), IF bs[1] = 0 THEN z + 1 ELSE 0)
Unescape(bs) == Unesc(bs, 0)
\* no start-code emulation: never two zeros followed by an octet <= 2, and a
\* 03 after two zeros is followed by nothing or an octet <= 3
NoEmulation(bs) == \A i \in 3..Len(bs) : (bs[i - 2] = 0 /\ bs[i - 1] = 0) => bs[i] >= 3

\* fields of a raw byte sequence payload: [t |-> "u", w, v] | [t |-> "ue", v] | [t |-> "se", neg, m]
FieldBits(f) == CASE f.t = "u"  -> SubSeq(f.v, 33 - f.w, 32)
                  [] f.t = "ue" -> UeCode(f.v)
                  [] OTHER      -> SeCode(f.neg, f.m)
RECURSIVE FieldsBits(_)
FieldsBits(fs) == IF Len(fs) = 0 THEN <<>> ELSE FieldBits(fs[1]) \o FieldsBits(Tail(fs))
\* what the reference encoder writes for a list of fields
EncodeRbsp(fs) == Escape(PackBytes(Trail(FieldsBits(fs))))
=============================================================================
