SPECIFICATION Spec
CONSTANTS
  L = 1
  Prog <- P_AiBiAir
  FreeLen = 0
  Variant = "code"
INVARIANT InOrderOnce FlowDefFirst HoldNotDrop SourceEndLast 
VIEW view
CHECK_DEADLOCK FALSE
