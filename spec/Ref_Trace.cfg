SPECIFICATION TSpec
INVARIANT AtMostOnce
POSTCONDITION Accepted
CHECK_DEADLOCK FALSE
