\* emission, thorough: one block; two structural calls inside the block; then one read of 1 octet
SPECIFICATION MCSpec
CONSTANTS
  Handles = {0, 1, 2}
  Fill = 14
  Strict = TRUE
  KeepHist = TRUE
  Bug = "none"
  Pre = 2
  MaxLen = 8
  MaxWins = 6
  Depth = 3
  PatSet = "c02"
  InitSet = "one"
  ObsLast = TRUE
  Rand = FALSE
  Letters = {0, 1}
  LastOps = {"rd1", "size"}
  LastSz = {1}
  Dom = "in"
  Ops = {"dup", "splice", "split", "append", "insert", "delete", "truncate", "resize", "prepend", "rd1", "size"}
INVARIANT Emit
CONSTRAINT Bounded
CHECK_DEADLOCK FALSE
