SPECIFICATION Spec
CONSTANTS
  Flavour = "lin"
  IL = 1
  OL = 1
  Mx = TRUE
  Prog <- P_oAiBiir
  SrcProg <- S_none
  Variant = "earlyfree"
  FreeLen = 0
  Eager = FALSE
  FreeToks <- T_lin
INVARIANT InOrderOnce FlowDefFirst EndLast Confinement HoldNotDrop FreedOnce
VIEW view
CHECK_DEADLOCK FALSE
