\* behaviour generator (simulation): calls and predicted results, replayed on the real code
CONSTANTS
  Geos = {"drv"}
  GeoSet <- PicGeoSet
  Handles = {0, 1, 2}
  MaxOps = 14
  MaxResize = 4
  Variant = "none"
  Record = TRUE
SPECIFICATION DrvSpec
INVARIANT Emit
CHECK_DEADLOCK FALSE
