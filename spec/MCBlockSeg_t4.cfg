\* detailed model, thorough: one block, arguments inside the block, 5 calls deep
SPECIFICATION MCSpec
CONSTANTS
  Handles = {0, 1, 2}
  Fill = 14
  Strict = TRUE
  KeepHist = FALSE
  Bug = "none"
  Pre = 2
  MaxLen = 7
  MaxWins = 5
  Depth = 5
  Pats = "a"
  InitSet = "one"
  ObsLast = FALSE
  Rand = FALSE
  Dom = "in"
  Ops = {"dup", "split", "append", "insert", "delete", "truncate", "prepend", "rd1", "slin"}
INVARIANT TypeOK SegTypeOK ByteString FreshSingle TotalOK CacheSound EndSound
PROPERTY NoBad Isolation ErrLeavesUnchanged StructuralOpsDontWrite
CONSTRAINT Bounded
VIEW sview
CHECK_DEADLOCK FALSE
