\* content and copy-on-write: alloc / dup / view / free / resize / fill / poke / map r,w / check / bread / bpoke (sound; thorough: three handles, 5 operations)
CONSTANTS
  Geos = {"cow_full"}
  GeoSet <- SndGeoSet
  Handles = {0, 1, 2}
  MaxOps = 5
  MaxResize = 1
  Variant = "none"
  Record = FALSE
SPECIFICATION Spec
VIEW View
INVARIANT WindowsInCanvas Inside InjectiveMap CanvasInjective GranularityP MapIsWindowCell AllocGranular WriteOnlySingle DupSees
PROPERTY CropPreserves StructuralOpsDontWrite Isolation
CHECK_DEADLOCK FALSE
