\* merger, emission (spec -> code): every behaviour with <= 2 sections from the tiny palette, every cut position, stuffing, no damage; history kept, one BEH line per behaviour with the octets
SPECIFICATION Spec
CONSTANTS
  Variant = "ok"
  Palette <- PalMini
  MaxSecs = 2
  MaxRuns = 2
  MaxPay = 16
  AllCuts = TRUE
  Stuffs = {0, 1}
  Damage = {}
  MidStart = FALSE
  Record = TRUE
  Small = TRUE
INVARIANT WellFormed NoGarbage NoLoss Exact SyncAgree NextShape Emit
CHECK_DEADLOCK FALSE
