SPECIFICATION Spec
CONSTANTS
  Prog <- P_URR_URR_URR
  Variant = "code"
INVARIANT DestroyAtMostOnce NotWhileHeld DestroyedAtEnd CounterIsHeld
VIEW view
CHECK_DEADLOCK FALSE
