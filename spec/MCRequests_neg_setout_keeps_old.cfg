\* C12 NEGATIVE: set_output does not withdraw the requests from the old output
SPECIFICATION Spec
CONSTANTS
  Scenarios <- ScnOnlyA
  Variant = "setout_keeps_old"
  EmitEdges = FALSE
  Idle = FALSE
  MaxGen = 2
  MaxChan = 2
  MaxPath = 0
CONSTRAINT Bound
VIEW ViewCore
INVARIANT TypeOK PathInv OneEntry
PROPERTY StepNoCallbackAfterUnregister StepNoSinkFreedWithRegs StepReachesProvide StepReachesRunA StepReachesProbe
CHECK_DEADLOCK FALSE
