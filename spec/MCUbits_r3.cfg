\* mode R (ubits_get and ubuf_block_stream fill/show/skip vs abstract slices), exhaustive: <= 3 reads, memories 0..9 octets of 2 textures, lazy segmentation with segments of 1..3 octets
SPECIFICATION Spec
CONSTANTS
  Mode = "R"
  Variant = "ok"
  Widths = {1, 7, 8, 9, 24, 31, 32}
  Kinds = {"ones", "alt", "zero"}
  MaxFields = 3
  MaxCap = 0
  MaxSize = 9
  MaxSeg = 3
  Pats = {"tex", "xet"}
  NearCap = FALSE
INVARIANT TypeOK NoUB InBounds ReadOK ReaderRefInv
CHECK_DEADLOCK FALSE
