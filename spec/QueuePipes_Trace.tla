-------------------------- MODULE QueuePipes_Trace --------------------------
(***************************************************************************)
(* C06 - abstract specification of "buffers cross threads exactly once, in *)
(* order, preceded by their flow definition" and single-pass validation of *)
(* traces recorded from the real upipe_qsink / upipe_qsrc pipes running on *)
(* two mock event loops (harness/sched_queue.c).                           *)
(*  Reset(L)                new pair of pipes                              *)
(*  SetFd(f) Send(id) Flush Release      producer-side calls (thread tp)   *)
(*  FdOut(f,th) Deliver(id,th) SourceEnd(th)   observed downstream of qsrc *)
(*  Enter(pipe,th)          a pipe of the consumer side was entered        *)
(*  Quiescent               nobody runnable                                *)
(* Properties: InOrderOnce, FlowDefFirst, SourceEndLast, HoldNotDrop,      *)
(* Confinement (consumer-side pipes are entered on the consumer thread     *)
(* only).                                                                  *)
(***************************************************************************)
EXTENDS Naturals, Sequences, FiniteSets, TLC, Json, IOUtils
Tr == ndJsonDeserialize(IOEnv.TRACE)
VARIABLES l, curFd, sent, pending, flushable, outFd, released, ended, tc, skip, cur, bad
st == <<curFd, sent, pending, flushable, outFd, released, ended, tc>>
vars == <<l, st, skip, cur, bad>>
None == "none"
\* sent: function id -> flow def under which it was sent; pending: sequence of
\* ids sent and neither delivered nor skipped; flushable: ids that a Flush may
\* have dropped (sent before the flush and not yet delivered)
InSeq(x, s) == \E k \in 1..Len(s) : s[k] = x
Index(x, s) == CHOOSE k \in 1..Len(s) : s[k] = x

Guard(ev) ==
  CASE ev.e = "SetFd" -> ~released
    [] ev.e = "Send" -> ~released
    [] ev.e = "Flush" -> ~released
    [] ev.e = "Release" -> ~released
    [] ev.e = "FdOut" -> ev.th = tc /\ ~ended
    \* in order, exactly once: id is pending and everything skipped before it is flushable;
    \* FlowDefFirst: the consumer's current definition is the one the buffer was sent with
    [] ev.e = "Deliver" -> /\ ev.th = tc /\ ~ended
                           /\ InSeq(ev.id, pending)
                           /\ \A k \in 1..(Index(ev.id, pending) - 1) : pending[k] \in flushable
                           /\ outFd = sent[ev.id]
    [] ev.e = "SourceEnd" -> ev.th = tc /\ released /\ ~ended        \* SourceEndLast (nothing after it: ~ended above)
    [] ev.e = "Enter" -> ev.th = tc                                    \* Confinement
    \* HoldNotDrop: what was not delivered was flushed by the application
    [] ev.e = "Quiescent" -> /\ \A k \in 1..Len(pending) : pending[k] \in flushable
                             /\ (released => ended)
    [] OTHER -> FALSE

Effect(ev) ==
  CASE ev.e = "SetFd" -> curFd' = ev.f /\ UNCHANGED <<sent, pending, flushable, outFd, released, ended, tc>>
    [] ev.e = "Send" -> /\ sent' = [x \in DOMAIN sent \cup {ev.id} |-> IF x = ev.id THEN curFd ELSE sent[x]]
                        /\ pending' = Append(pending, ev.id)
                        /\ UNCHANGED <<curFd, flushable, outFd, released, ended, tc>>
    [] ev.e = "Flush" -> flushable' = flushable \cup {pending[k] : k \in 1..Len(pending)}
                         /\ UNCHANGED <<curFd, sent, pending, outFd, released, ended, tc>>
    [] ev.e = "Release" -> released' = TRUE /\ UNCHANGED <<curFd, sent, pending, flushable, outFd, ended, tc>>
    [] ev.e = "FdOut" -> outFd' = ev.f /\ UNCHANGED <<curFd, sent, pending, flushable, released, ended, tc>>
    [] ev.e = "Deliver" -> /\ pending' = SubSeq(pending, Index(ev.id, pending) + 1, Len(pending))
                           /\ UNCHANGED <<curFd, sent, flushable, outFd, released, ended, tc>>
    [] ev.e = "SourceEnd" -> ended' = TRUE /\ UNCHANGED <<curFd, sent, pending, flushable, outFd, released, tc>>
    [] OTHER -> UNCHANGED st

TStep ==
  /\ l <= Len(Tr) /\ l' = l + 1
  /\ LET ev == Tr[l] IN
     IF ev.e = "Reset"
     THEN /\ curFd' = None /\ sent' = <<>> /\ pending' = <<>> /\ flushable' = {} /\ outFd' = None
          /\ released' = FALSE /\ ended' = FALSE /\ tc' = ev.tc
          /\ skip' = FALSE /\ cur' = ev.hid /\ bad' = bad
     ELSE IF skip THEN UNCHANGED <<st, skip, cur, bad>>
     ELSE IF Guard(ev) THEN Effect(ev) /\ UNCHANGED <<skip, cur, bad>>
     ELSE skip' = TRUE /\ bad' = bad \cup {<<cur, l>>} /\ UNCHANGED <<st, cur>>
TInit == /\ l = 1 /\ curFd = None /\ sent = <<>> /\ pending = <<>> /\ flushable = {} /\ outFd = None
         /\ released = FALSE /\ ended = FALSE /\ tc = 1 /\ skip = FALSE /\ cur = 0 /\ bad = {}
TSpec == TInit /\ [][TStep]_vars
Report == (l = Len(Tr) + 1) => PrintT(<<"TRACE_BAD", bad>>)
Accepted == LET d == TLCGet("stats").diameter IN
            IF d - 1 = Len(Tr) THEN PrintT(<<"TRACE_ACCEPTED", Len(Tr)>>)
                               ELSE PrintT(<<"TRACE_REJECTED_AT", d>>)
=============================================================================
