SPECIFICATION TSpec
CONSTANTS
  Handles <- THandles
  Fill = 14
  Strict = FALSE
  KeepHist = FALSE
  Bug = "none"
  Tolerant = FALSE
POSTCONDITION Accepted
CHECK_DEADLOCK FALSE
