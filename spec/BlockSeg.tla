------------------------------ MODULE BlockSeg ------------------------------
(***************************************************************************)
(* C03 - detailed model: transcription of include/upipe/ubuf_block.h and   *)
(* ubuf_block_common.h.  A block is a chain of segments hs[h] (window on a *)
(* memory area: a, off, len) plus, in the head, meta[h]:                   *)
(*   tot  total_size                                                       *)
(*   ci   cached_ubuf  (index of the segment in the chain)                 *)
(*   co   cached_offset (an integer: a negative value stands for the huge  *)
(*        size_t the C code computes from a negative int)                  *)
(*   ce   cached_end_ubuf (index)                                          *)
(* Every call is transcribed statement by statement (ubuf_block_get with   *)
(* its cache, slice, append with the cached tail, insert, delete,          *)
(* truncate, resize, prepend, splice, split, dup, copy/merge, write and    *)
(* the readers built on ubuf_block_read).  The ghost str[h] is the byte    *)
(* string of BlockBuf.tla, updated by byte-string arithmetic only.         *)
(* TLC checks that the transcription refines the byte-string semantics:    *)
(*   ByteString, TotalOK, CacheSound, EndSound (state invariants) and      *)
(*   NoBad (action property: every result equals the byte-string result,   *)
(*   an error changes nothing, out-of-range arguments are refused).        *)
(* Bug = "none" is the algorithm with the four proposed fixes; the other   *)
(* values re-introduce what the repository does today:                     *)
(*   "s2prepend"  prepend shifts cached_offset although the head is cached *)
(*   "s14getneg"  get caches the offset before normalising a negative one  *)
(*   "s3delete"   delete/resize walk off the chain after shrinking         *)
(*   "s3splice"   splice accepts a range longer than the block             *)
(*   "asis"       all of them                                              *)
(***************************************************************************)
EXTENDS BlockBuf

VARIABLES meta,    \* live handle -> [tot, ci, co, ce]
          bad      \* ghost: "" or the observable requirement the last call broke

svars == <<vars, meta, bad>>
sview == <<areas, hs, str, fresh, meta>>

Has(b) == Bug = b \/ Bug = "asis"
Meta0(t) == [tot |-> t, ci |-> 1, co |-> 0, ce |-> 1]
StartOf(ws, k) == SumLen(SubSeq(ws, 1, k - 1))
Shift(j, k, d) == IF j > k THEN j + d ELSE j
ShiftM(m, k, d) == [m EXCEPT !.ci = Shift(m.ci, k, d), !.ce = Shift(m.ce, k, d)]
SegBytes(ar, w, o, cnt) == SubSeq(ar[w.a], w.off + o + 1, w.off + o + cnt)

--------------------------------------------------------------------------
(* ubuf_block_get *)
RECURSIVE Walk(_, _, _)
Walk(ws, k, o) == IF k < 1 \/ k > Len(ws) THEN <<0, 0>>
                  ELSE IF o >= ws[k].len THEN Walk(ws, k + 1, o - ws[k].len)
                  ELSE <<k, o>>

\* size = -2 stands for size_p == NULL
GetW(ws, m, off, size) ==
  LET o1 == IF off < 0 THEN off + m.tot ELSE off
      sz == IF size = -1 THEN m.tot - o1 ELSE size
      saved == IF Has("s14getneg") THEN off ELSE o1
      st == IF m.co >= 0 /\ m.co <= o1 THEN <<m.ci, o1 - m.co>> ELSE <<1, o1>>
      w == IF o1 < 0 THEN <<0, 0>> ELSE Walk(ws, st[1], st[2])
  IN [ok |-> w[1] # 0, k |-> w[1], o |-> w[2], sz |-> sz, o1 |-> o1,
      m |-> IF w[1] # 0 THEN [m EXCEPT !.ci = w[1], !.co = saved - w[2]] ELSE m]

\* one ubuf_block_read
ReadW(ar, ws, m, off, size) ==
  LET g == GetW(ws, m, off, size) IN
  IF ~g.ok THEN [ok |-> FALSE, b |-> <<>>, m |-> m]
  ELSE LET w == ws[g.k]
           cnt == IF g.sz > w.len - g.o THEN w.len - g.o ELSE g.sz
       IN [ok |-> TRUE, b |-> SegBytes(ar, w, g.o, cnt), m |-> g.m]

\* ubuf_block_extract after ubuf_block_check_size
RECURSIVE ExtractW(_, _, _, _, _, _)
ExtractW(ar, ws, m, off, size, acc) ==
  IF size <= 0 THEN [ok |-> TRUE, b |-> acc, m |-> m]
  ELSE LET r == ReadW(ar, ws, m, off, size) IN
       IF ~r.ok THEN [ok |-> FALSE, b |-> acc, m |-> r.m]
       ELSE IF Len(r.b) = 0 THEN [ok |-> FALSE, b |-> acc, m |-> r.m]   \* cannot happen (get skips empty segments)
       ELSE ExtractW(ar, ws, r.m, off + Len(r.b), size - Len(r.b), acc \o r.b)
CheckSize(m, off, size) == IF size # -1 THEN size ELSE IF off < 0 THEN -off ELSE m.tot - off

\* ubuf_block_scan: <<found, position, meta>>
RECURSIVE ScanW(_, _, _, _, _)
ScanW(ar, ws, m, pos, word) ==
  LET r == ReadW(ar, ws, m, pos, -1) IN
  IF ~r.ok THEN <<FALSE, pos, r.m>>
  ELSE LET hit == {i \in 1..Len(r.b) : r.b[i] = word} IN
       IF hit # {} THEN <<TRUE, pos + (CHOOSE i \in hit : \A j \in hit : i <= j) - 1, r.m>>
       ELSE IF Len(r.b) = 0 THEN <<FALSE, pos, r.m>>
       ELSE ScanW(ar, ws, r.m, pos + Len(r.b), word)

--------------------------------------------------------------------------
(* chain surgery *)
\* ubuf_block_delete's loop from segment k, offset o: <<completed, chain>>
RECURSIVE DelC(_, _, _, _)
DelC(ws, k, o, sz) ==
  IF k > Len(ws) THEN <<FALSE, ws>>
  ELSE LET w == ws[k] IN
    IF o = 0 THEN
      LET d == Min(sz, w.len)
          ws2 == [ws EXCEPT ![k] = Win(w.a, w.off + d, w.len - d)]
      IN IF sz - d = 0 THEN <<TRUE, ws2>> ELSE DelC(ws2, k + 1, 0, sz - d)
    ELSE IF o + sz < w.len THEN
      <<TRUE, SubSeq(ws, 1, k - 1) \o <<Win(w.a, w.off, o), Win(w.a, w.off + o + sz, w.len - o - sz)>>
                                   \o SubSeq(ws, k + 1, Len(ws))>>
    ELSE
      LET d == w.len - o
          ws2 == [ws EXCEPT ![k] = Win(w.a, w.off, o)]
      IN IF sz - d = 0 THEN <<TRUE, ws2>> ELSE DelC(ws2, k + 1, 0, sz - d)

\* ubuf_block_delete on (chain, meta): [res, ws, m]
DelF(ws, m, off, size) ==
  LET o1 == IF off < 0 THEN off + m.tot ELSE off IN
  IF ~Has("s3delete") /\ size # -1 /\ o1 + size > m.tot
  THEN [res |-> "err", ws |-> ws, m |-> m]
  ELSE LET g == GetW(ws, m, off, size) IN
    IF ~g.ok THEN [res |-> "err", ws |-> ws, m |-> m]
    ELSE LET r == DelC(ws, g.k, g.o, g.sz)
             sliced == g.o > 0 /\ g.o + g.sz < ws[g.k].len
             m1 == IF sliced THEN ShiftM(g.m, g.k, 1) ELSE g.m
         IN IF r[1] THEN [res |-> "ok", ws |-> r[2], m |-> [m1 EXCEPT !.tot = m.tot - g.sz]]
            ELSE [res |-> "err", ws |-> r[2], m |-> m1]

\* ubuf_block_truncate
TruncF(ws, m, t) ==
  IF t = 0 THEN [res |-> "ok", ws |-> <<Win(ws[1].a, ws[1].off, 0)>>, m |-> Meta0(0)]
  ELSE LET g == GetW(ws, m, t - 1, -2) IN
    IF ~g.ok THEN [res |-> "err", ws |-> ws, m |-> m]
    ELSE [res |-> "ok",
          ws |-> SubSeq(ws, 1, g.k - 1) \o <<Win(ws[g.k].a, ws[g.k].off, g.o + 1)>>,
          m |-> [tot |-> t, ci |-> 1, co |-> 0, ce |-> g.k]]

\* ubuf_block_resize
ResizeF(ws, m, skip, size) ==
  LET off == IF skip < 0 THEN skip + m.tot ELSE skip IN
  IF off < 0 THEN [res |-> "err", ws |-> ws, m |-> m]
  ELSE IF ~Has("s3delete") /\ off > m.tot THEN [res |-> "err", ws |-> ws, m |-> m]
  ELSE IF size # -1 /\ size + off > m.tot THEN [res |-> "err", ws |-> ws, m |-> m]
  ELSE LET t == IF size # -1 /\ size + off < m.tot THEN TruncF(ws, m, size + off)
                ELSE [res |-> "ok", ws |-> ws, m |-> m]
       IN IF t.res # "ok" THEN t
          ELSE IF off > 0 THEN DelF(t.ws, t.m, 0, off) ELSE t

\* ubuf_block_common_splice from segment k, offset o
SpliceC(ws, k, o, sz) ==
  LET w == ws[k]
      n == Min(w.len - o, sz)
  IN <<Win(w.a, w.off + o, n)>> \o SplRest(ws, k + 1, sz - n)

--------------------------------------------------------------------------
(* one call = one step; want = what the byte-string semantics gives *)
NoWant == [chk |-> FALSE, res |-> "", n |-> -1, b |-> <<>>]
Want(res, n, b) == [chk |-> TRUE, res |-> res, n |-> n, b |-> b]

Changed(H2, AR2, M2) ==
  \/ DOMAIN H2 # DOMAIN hs
  \/ \E g \in DOMAIN hs : Cat(AR2, H2[g]) # Cat(areas, hs[g]) \/ M2[g].tot # meta[g].tot

BadOf(rec, want, H2, AR2, M2, mut) ==
  IF rec.res \in {"err", "busy"} /\ Changed(H2, AR2, M2) THEN "errchanged"
  ELSE IF mut /\ rec.u /\ rec.res = "ok" THEN "oor_accepted"
  ELSE IF want.chk /\ ~rec.u /\ (rec.res # want.res \/ rec.n # want.n \/ rec.b # want.b) THEN "exact"
  ELSE ""

SegCommit(rec, want, mut, acts, H2, AR2, ST2, FR2, M2) ==
  /\ Commit(rec, acts, H2, AR2, ST2, FR2)
  /\ meta' = M2
  /\ bad' = BadOf(rec, want, H2, AR2, M2, mut)

R(op, args, ib, res, n, b, u) == Rec(op, args, ib, <<>>, res, n, b, TRUE, TRUE, u)

\* a mutator through h whose transcription gave r = [res, ws, m]; in the
\* byte-string domain the ghost becomes s2
MutH(op, args, h, r, dom, s2) ==
  LET ok == r.res = "ok" IN
  SegCommit(R(op, args, <<>>, r.res, -1, <<>>, ~dom), Want("ok", -1, <<>>), TRUE, {h},
            [hs EXCEPT ![h] = r.ws], areas,
            IF ok /\ dom THEN [str EXCEPT ![h] = s2] ELSE str,
            fresh \ {h}, [meta EXCEPT ![h] = r.m])

SAlloc(d, bytes, room) ==
  /\ d \in Handles \ Live
  /\ LET a == NewArea(areas) IN
     SegCommit(R("alloc", <<d, Len(bytes)>>, bytes, "ok", room, <<>>, FALSE), NoWant, TRUE, {},
               hs @@ (d :> <<Win(a, room, Len(bytes))>>), areas @@ (a :> Rep(Fill, room) \o bytes),
               str @@ (d :> bytes), fresh \cup {d}, meta @@ (d :> Meta0(Len(bytes))))

SDup(d, h) ==
  /\ h \in Live /\ d \in Handles \ Live
  /\ SegCommit(R("dup", <<d, h>>, <<>>, "ok", -1, <<>>, FALSE), NoWant, TRUE, {},
               hs @@ (d :> hs[h]), areas, str @@ (d :> str[h]), fresh,
               meta @@ (d :> Meta0(meta[h].tot)))

SFree(h) ==
  /\ h \in Live
  /\ SegCommit(R("free", <<h>>, <<>>, "ok", -1, <<>>, FALSE), NoWant, TRUE, {},
               Drop(hs, {h}), areas, Drop(str, {h}), fresh \ {h}, Drop(meta, {h}))

SAppend(h, g) ==
  /\ h \in Live /\ g \in Live /\ h # g
  /\ SegCommit(R("append", <<h, g>>, <<>>, "ok", -1, <<>>, FALSE), NoWant, TRUE, {h},
               Drop([hs EXCEPT ![h] = hs[h] \o hs[g]], {g}), areas,
               Drop([str EXCEPT ![h] = str[h] \o str[g]], {g}), fresh \ {h, g},
               Drop([meta EXCEPT ![h] = [@ EXCEPT !.tot = @ + meta[g].tot, !.ce = Len(hs[h]) + 1]], {g}))

SInsert(h, off, g) ==
  /\ h \in Live /\ g \in Live /\ h # g
  /\ LET n == Size(h)  o == Norm(off, n)  dom == o >= 0 /\ o < n
         x == GetW(hs[h], meta[h], off, -2)
         args == <<h, off, g>>
     IN IF ~x.ok
        THEN SegCommit(R("insert", args, <<>>, "err", -1, <<>>, ~dom), Want("ok", -1, <<>>), TRUE, {},
                       hs, areas, str, fresh, meta)
        ELSE LET s == SliceW(hs[h], x.k, x.o)
                 m1 == ShiftM(x.m, x.k, 1)
                 ws2 == SubSeq(s, 1, x.k) \o hs[g] \o SubSeq(s, x.k + 1, Len(s))
                 m2 == [m1 EXCEPT !.tot = @ + meta[g].tot, !.ce = Shift(m1.ce, x.k, Len(hs[g]))]
             IN SegCommit(R("insert", args, <<>>, "ok", -1, <<>>, ~dom), Want("ok", -1, <<>>), TRUE, {h},
                          Drop([hs EXCEPT ![h] = ws2], {g}), areas,
                          Drop(IF dom THEN [str EXCEPT ![h] = Sub(str[h], 0, o) \o str[g] \o Sub(str[h], o, n - o)]
                                      ELSE str, {g}),
                          fresh \ {h, g}, Drop([meta EXCEPT ![h] = m2], {g}))

SDelete(h, off, size) ==
  /\ h \in Live
  /\ LET n == Size(h)  o == Norm(off, n)  sz == RangeSize(n, off, size)
         dom == RangeDom(n, off, size)
     IN MutH("delete", <<h, off, size>>, h, DelF(hs[h], meta[h], off, size), dom,
             Sub(str[h], 0, o) \o Sub(str[h], o + sz, n - o - sz))

STruncate(h, t) ==
  /\ h \in Live /\ t >= 0
  /\ MutH("truncate", <<h, t>>, h, TruncF(hs[h], meta[h], t), t <= Size(h), Sub(str[h], 0, t))

SResize(h, skip, size) ==
  /\ h \in Live
  /\ LET n == Size(h)  s == Norm(skip, n)  ns == IF size = -1 THEN n - s ELSE size IN
     MutH("resize", <<h, skip, size>>, h, ResizeF(hs[h], meta[h], skip, size),
          ResizeDom(n, skip, size), Sub(str[h], s, ns))

SPrepend(h, k) ==
  /\ h \in Live /\ k >= 0
  /\ LET w == hs[h][1]  m == meta[h] IN
     IF k > w.off
     THEN SegCommit(R("prepend", <<h, k>>, <<>>, "err", -1, <<>>, FALSE), Want("err", -1, <<>>), TRUE, {},
                    hs, areas, str, fresh, meta)
     ELSE SegCommit(R("prepend", <<h, k>>, <<>>, "ok", -1, <<>>, FALSE), Want("ok", -1, <<>>), TRUE, {h},
                    [hs EXCEPT ![h][1] = Win(w.a, w.off - k, w.len + k)], areas,
                    [str EXCEPT ![h] = SubSeq(areas[w.a], w.off - k + 1, w.off) \o str[h]],
                    fresh \ {h},
                    [meta EXCEPT ![h] = [m EXCEPT !.tot = @ + k,
                                                  !.co = IF Has("s2prepend") \/ m.ci # 1 THEN @ + k ELSE @]])

SSplice(d, h, off, size) ==
  /\ h \in Live /\ d \in Handles \ Live
  /\ LET n == Size(h)  o == Norm(off, n)  sz == RangeSize(n, off, size)
         dom == RangeDom(n, off, size)
         m == meta[h]
         o1 == IF off < 0 THEN off + m.tot ELSE off
         early == ~Has("s3splice") /\ size # -1 /\ o1 + size > m.tot
         x == GetW(hs[h], m, off, size)
         args == <<d, h, off, size>>
     IN IF early \/ ~x.ok
        THEN SegCommit(R("splice", args, <<>>, "err", -1, <<>>, ~dom), Want("ok", -1, <<>>), TRUE, {},
                       hs, areas, str, fresh, IF early THEN meta ELSE [meta EXCEPT ![h] = x.m])
        ELSE SegCommit(R("splice", args, <<>>, "ok", -1, <<>>, ~dom), Want("ok", -1, <<>>), TRUE, {},
                       hs @@ (d :> SpliceC(hs[h], x.k, x.o, x.sz)), areas,
                       str @@ (d :> IF dom THEN Sub(str[h], o, sz) ELSE <<>>), fresh,
                       [meta EXCEPT ![h] = x.m] @@ (d :> Meta0(x.sz)))

SSplit(d, h, off) ==
  /\ h \in Live /\ d \in Handles \ Live
  /\ LET n == Size(h)  o == Norm(off, n)  dom == o >= 0 /\ o < n
         x == GetW(hs[h], meta[h], off, -2)
         args == <<d, h, off>>
     IN IF ~x.ok
        THEN SegCommit(R("split", args, <<>>, "err", -1, <<>>, ~dom), Want("ok", -1, <<>>), TRUE, {},
                       hs, areas, str, fresh, meta)
        ELSE LET s == SliceW(hs[h], x.k, x.o)
                 mh == [x.m EXCEPT !.tot = x.o1, !.ce = x.k]
             IN SegCommit(R("split", args, <<>>, "ok", -1, <<>>, ~dom), Want("ok", -1, <<>>), TRUE, {h},
                          [hs EXCEPT ![h] = SubSeq(s, 1, x.k)] @@ (d :> SubSeq(s, x.k + 1, Len(s))), areas,
                          IF dom THEN [str EXCEPT ![h] = Sub(str[h], 0, o)] @@ (d :> Sub(str[h], o, n - o))
                                 ELSE str @@ (d :> <<>>),
                          fresh \ {h},
                          [meta EXCEPT ![h] = mh] @@ (d :> Meta0(meta[h].tot - x.o1)))

\* ubuf_block_copy / ubuf_block_merge (merge: d = h)
SCopy(op, d, h, skip, size, room) ==
  /\ h \in Live /\ (op = "copy" => d \in Handles \ Live) /\ (op = "merge" => d = h)
  /\ LET m == meta[h]
         dom == CopyDom(Size(h), skip, size)
         args == IF op = "copy" THEN <<d, h, skip, size>> ELSE <<h, skip, size>>
         ns == IF size = -1 THEN m.tot - skip ELSE size
         eo == IF skip < 0 THEN -skip ELSE 0
         es == IF skip < 0 THEN 0 ELSE skip
         esz == Min(ns - eo, m.tot - es)
         refused == skip > m.tot \/ ns < -skip \/ ns < 0 \/ eo >= ns
         x == IF refused THEN [ok |-> FALSE, b |-> <<>>, m |-> m]
              ELSE ExtractW(areas, hs[h], m, es, CheckSize(m, es, esz), <<>>)
         a == NewArea(areas)
     IN IF ~x.ok
        THEN SegCommit(R(op, args, <<>>, "err", -1, <<>>, ~dom), Want("ok", room, <<>>), TRUE, {},
                       hs, areas, str, fresh, [meta EXCEPT ![h] = x.m])
        ELSE LET c == Rep(Fill, eo) \o x.b \o Rep(Fill, ns - eo - Len(x.b))
                 H1 == IF op = "copy" THEN hs @@ (d :> <<Win(a, room, ns)>>)
                                      ELSE [hs EXCEPT ![h] = <<Win(a, room, ns)>>]
                 S1 == IF ~dom THEN (IF op = "copy" THEN str @@ (d :> c) ELSE [str EXCEPT ![h] = c])
                       ELSE IF op = "copy" THEN str @@ (d :> CopyStr(str[h], skip, size))
                       ELSE [str EXCEPT ![h] = CopyStr(str[h], skip, size)]
                 M1 == IF op = "copy" THEN [meta EXCEPT ![h] = x.m] @@ (d :> Meta0(ns))
                                      ELSE [meta EXCEPT ![h] = Meta0(ns)]
             IN SegCommit(R(op, args, <<>>, "ok", room, <<>>, ~dom), Want("ok", room, <<>>), TRUE,
                          IF op = "merge" THEN {h} ELSE {},
                          H1, areas @@ (a :> Rep(Fill, room) \o c), S1, fresh \cup {d}, M1)

\* ubuf_block_write of one octet (+ store + unmap)
SWrite(op, h, off, v) ==
  /\ h \in Live
  /\ LET n == Size(h)  o == Norm(off, n)  dom == o >= 0 /\ o < n
         args == IF op = "poke" THEN <<h, off, v>> ELSE <<h, off>>
         x == GetW(hs[h], meta[h], off, 1)
         M1 == [meta EXCEPT ![h] = x.m]
     IN IF ~x.ok
        THEN SegCommit(R(op, args, <<>>, "err", -1, <<>>, ~dom), Want("err", -1, <<>>), TRUE, {},
                       hs, areas, str, fresh, meta)
        ELSE LET w == hs[h][x.k]
                 single == Owners(hs, w.a) = 1
                 exp == IF dom /\ Owners(hs, hs[h][Loc(hs[h], o)[1]].a) = 1 THEN "ok" ELSE "busy"
             IN IF ~single
                THEN SegCommit(R(op, args, <<>>, "busy", -1, <<>>, ~dom), Want(exp, -1, <<>>), FALSE, {},
                               hs, areas, str, fresh, M1)
                ELSE SegCommit(R(op, args, <<>>, "ok", -1, <<>>, ~dom), Want(exp, -1, <<>>), TRUE, {h},
                               hs,
                               IF op = "poke" THEN [areas EXCEPT ![w.a][w.off + x.o + 1] = v] ELSE areas,
                               IF op = "poke" /\ dom THEN [str EXCEPT ![h][o + 1] = v] ELSE str,
                               fresh, M1)

--------------------------------------------------------------------------
(* readers *)
SObs(op, args, ib, res, n, b, u, want, M2) ==
  SegCommit(R(op, args, ib, res, n, b, u), want, FALSE, {}, hs, areas, str, fresh, M2)

SSize(h) ==
  /\ h \in Live
  /\ SObs("size", <<h>>, <<>>, "ok", meta[h].tot, <<>>, FALSE, Want("ok", Size(h), <<>>), meta)

SRd1(h, off, size) ==
  /\ h \in Live
  /\ LET n == Size(h)  o == Norm(off, n)  sz == RangeSize(n, off, size)
         dom == RangeDom(n, off, size)
         r == ReadW(areas, hs[h], meta[h], off, size)
         \* byte-string semantics: a non-empty prefix of the range (all of it on one segment)
         pre == IF dom THEN Sub(str[h], o, Len(r.b)) ELSE <<>>
         okp == dom /\ r.ok /\ Len(r.b) <= sz /\ (sz > 0 => Len(r.b) > 0)
     IN SObs("rd1", <<h, off, size>>, <<>>, IF r.ok THEN "ok" ELSE "err", -1, r.b, ~dom,
             IF okp THEN Want("ok", -1, pre) ELSE Want("ok", -1, <<-1>>), [meta EXCEPT ![h] = r.m])

SSlin(h, off) ==
  /\ h \in Live
  /\ LET n == Size(h)  o == Norm(off, n)  dom == o >= 0 /\ o < n
         x == GetW(hs[h], meta[h], off, -2)
         v == IF x.ok THEN hs[h][x.k].len - x.o ELSE -1
     IN SObs("slin", <<h, off>>, <<>>, IF x.ok THEN "ok" ELSE "err", v, <<>>, ~dom,
             \* byte-string semantics: between 1 and what is left
             IF dom /\ x.ok /\ v >= 1 /\ v <= n - o THEN Want("ok", v, <<>>) ELSE Want("ok", -2, <<>>),
             [meta EXCEPT ![h] = x.m])

SExtract(h, off, size) ==
  /\ h \in Live
  /\ LET n == Size(h)  o == Norm(off, n)  sz == RangeSize(n, off, size)
         dom == RangeDom(n, off, size)
         r == ExtractW(areas, hs[h], meta[h], off, CheckSize(meta[h], off, size), <<>>)
     IN SObs("extract", <<h, off, size>>, <<>>, IF r.ok THEN "ok" ELSE "err", -1,
             IF r.ok THEN r.b ELSE <<>>, ~dom,
             Want("ok", -1, IF dom THEN Sub(str[h], o, sz) ELSE <<>>), [meta EXCEPT ![h] = r.m])

SScan(h, start, w) ==
  /\ h \in Live /\ start >= 0
  /\ LET dom == start <= Size(h)
         r == ScanW(areas, hs[h], meta[h], start, w)
         p == IF dom THEN ScanFrom(str[h], start, w) ELSE 0
     IN SObs("scan", <<h, start, w>>, <<>>, IF r[1] THEN "ok" ELSE "err", r[2], <<>>, ~dom,
             Want(IF dom /\ p < Size(h) THEN "ok" ELSE "err", p, <<>>), [meta EXCEPT ![h] = r[3]])

--------------------------------------------------------------------------
SInit == Init /\ meta = <<>> /\ bad = ""

(* properties *)
SegTypeOK ==
  /\ DOMAIN meta = DOMAIN hs
  /\ \A h \in DOMAIN hs : meta[h].ci >= 1 /\ meta[h].ce >= 1

\* total_size is the length of the chain and of the byte string
TotalOK == \A h \in DOMAIN hs : meta[h].tot = SumLen(hs[h]) /\ meta[h].tot = Len(str[h])

\* the cached segment is on the chain and the cached offset, when usable,
\* is the true offset of that segment
CacheSound == \A h \in DOMAIN hs :
  /\ meta[h].ci <= Len(hs[h])
  /\ meta[h].co >= 0 => meta[h].co = StartOf(hs[h], meta[h].ci)

\* the cached tail is on the chain
EndSound == \A h \in DOMAIN hs : meta[h].ce <= Len(hs[h])

\* every result is the byte-string result, an error changes nothing,
\* arguments outside the byte-string domain are refused
NoBad == [][bad' = ""]_svars
=============================================================================
