\* quick: ts_sync, packet sizes 3-4, 2-3 sync words, second cutting canonical
SPECIFICATION Spec
CONSTANTS
  ModeSet = {"sync"}
  AggMtuSet = {3, 4}
  InSizeSet = {0, 2}
  ChunkMtuSet = {3, 5}
  AlignSet = {1, 2, 3}
  PSizeSet = {3, 4}
  NSyncSet = {2, 3}
  CheckPSizeSet = {2, 3}
  LenAgg = 1
  LenChunk = 1
  LenSync = 7
  LenCheck = 1
  BufAgg = 5
  BufOther = 99
  MaxEmpty = 1
  MaxDisc = 0
  Twin = "canon"
  EarlyB = FALSE
  Variant = "ok"
VIEW View
INVARIANT Subsequence WholePackets Conservation UnitSize CutInvariance ReleaseTerminates AggSane NoOverrun UnitsAreSlices FlushHeadSync
CHECK_DEADLOCK FALSE
