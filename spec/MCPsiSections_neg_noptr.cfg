\* NEGATIVE: the pointer field is not used when synchronising: TLC must reject
SPECIFICATION Spec
CONSTANTS
  Variant = "neg_noptr"
  Palette <- PalTiny
  MaxSecs = 2
  MaxRuns = 2
  MaxPay = 24
  AllCuts = TRUE
  Stuffs = {0, 1}
  Damage = {"disc"}
  MidStart = TRUE
  Record = TRUE
  Small = TRUE
INVARIANT EmitBad WellFormed NoGarbage NoLoss Exact
CHECK_DEADLOCK FALSE
