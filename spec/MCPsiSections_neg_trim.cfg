\* NEGATIVE: the input buffer is trimmed by the section size, forgetting what next_uref already held: TLC must reject
SPECIFICATION Spec
CONSTANTS
  Variant = "neg_trim"
  Palette <- PalTiny
  MaxSecs = 2
  MaxRuns = 2
  MaxPay = 24
  AllCuts = TRUE
  Stuffs = {0, 1}
  Damage = {}
  MidStart = FALSE
  Record = TRUE
  Small = TRUE
INVARIANT EmitBad WellFormed NoGarbage NoLoss Exact
CHECK_DEADLOCK FALSE
