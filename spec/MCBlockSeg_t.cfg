\* detailed model, thorough: one block, 2 handles, every call with every offset and size, 3 calls deep
SPECIFICATION MCSpec
CONSTANTS
  Handles = {0, 1}
  Fill = 14
  Strict = TRUE
  KeepHist = FALSE
  Bug = "none"
  Pre = 2
  MaxLen = 6
  MaxWins = 4
  Depth = 3
  Pats = "a"
  InitSet = "one"
  ObsLast = FALSE
  Rand = FALSE
  Dom = "all"
  Ops = {"dup", "splice", "split", "append", "insert", "delete", "truncate", "resize", "prepend", "free", "copy", "merge", "poke", "alloc", "size", "rd1", "slin", "extract", "scan"}
INVARIANT TypeOK SegTypeOK ByteString FreshSingle TotalOK CacheSound EndSound
PROPERTY NoBad Isolation ErrLeavesUnchanged StructuralOpsDontWrite
CONSTRAINT Bounded
VIEW sview
CHECK_DEADLOCK FALSE
