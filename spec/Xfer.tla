-------------------------------- MODULE Xfer --------------------------------
(***************************************************************************)
(* C06 - detailed model of upipe_transfer.c: the application thread (A)    *)
(* sends commands for a transferred pipe through the manager's queue, the  *)
(* worker thread (W) executes them on the remote pipe; events thrown by    *)
(* the remote pipe travel back through the per-pipe queue and are thrown   *)
(* again on the application thread.  Lifetime is part of the model: the    *)
(* manager (with its queue and event descriptors) is freed by W when it    *)
(* pops the DETACH message, which the last upipe_mgr_release sends.        *)
(*                                                                         *)
(* uqueue_push is split as in Uqueue.tla: Publish (the message becomes     *)
(* visible in the FIFO), Count (fetch_add on the counter), Signal (write   *)
(* of event_pop when the counter was 0).  The queue memory must be alive   *)
(* for every one of these steps: NoStepOnDeadQueue.                        *)
(* ProgA: sequence over "attach","cmd","release","mgrrel" executed by A.   *)
(* W holds its own manager reference and releases it at WRelAt (0: before  *)
(* anything, k: after having executed k commands, 99: never).              *)
(* Variant = "code" | "handshake" (hypothetical fix: W frees the manager   *)
(* only when no push is in progress)                                        *)
(***************************************************************************)
EXTENDS Naturals, Sequences, FiniteSets, TLC, Json

CONSTANTS ProgA, WRelAt, Variant
VARIABLES ipA, pcA, cur,        \* A: program index, push phase ("idle","count","signal"), message being pushed
          q, counter, evPop,    \* manager queue (A -> W)
          mgrRc, mgrAlive,      \* manager refcount / memory alive
          wRel, executed,       \* W released its manager reference; commands executed by W (sequence)
          evq, forwarded,       \* events thrown by the remote pipe, waiting / forwarded on A
          sentOk,               \* ghost: commands accepted by the queue
          badTouch,             \* ghost: a step of a push touched freed manager memory
          hist
vars == <<ipA, pcA, cur, q, counter, evPop, mgrRc, mgrAlive, wRel, executed, evq, forwarded, sentOk, badTouch, hist>>
view == <<ipA, pcA, cur, q, counter, evPop, mgrRc, mgrAlive, wRel, executed, evq, forwarded, sentOk, badTouch>>

Init == /\ ipA = 1 /\ pcA = "idle" /\ cur = "none"
        /\ q = <<>> /\ counter = 0 /\ evPop = FALSE
        /\ mgrRc = 3 /\ mgrAlive = TRUE       \* creator (A), W, and the xfer pipe itself (upipe_init uses the manager)
        /\ wRel = FALSE /\ executed = <<>>
        /\ evq = <<>> /\ forwarded = <<>> /\ sentOk = <<>> /\ badTouch = FALSE /\ hist = <<>>

H(x) == hist' = Append(hist, x)
\* ---- A: start a push of message m (Publish step) ---------------------------
Publish(m) == /\ q' = Append(q, m) /\ cur' = m /\ pcA' = "count"
              /\ badTouch' = (badTouch \/ ~mgrAlive)
AStep == /\ pcA = "idle" /\ ipA <= Len(ProgA)
         /\ LET op == ProgA[ipA] IN
            IF op = "mgrrel"
            THEN \* upipe_mgr_release by the application
                 IF mgrRc = 1
                 THEN /\ mgrRc' = 0 /\ Publish("detach") /\ sentOk' = sentOk /\ H("A:mgrrel:detach")
                 ELSE /\ mgrRc' = mgrRc - 1 /\ H("A:mgrrel") /\ UNCHANGED <<q, cur, pcA, badTouch, sentOk>>
            ELSE /\ Publish(op) /\ sentOk' = Append(sentOk, op) /\ H("A:" \o op) /\ UNCHANGED mgrRc
         /\ ipA' = ipA + 1
         /\ UNCHANGED <<counter, evPop, mgrAlive, wRel, executed, evq, forwarded>>
ACount == /\ pcA = "count"
          /\ badTouch' = (badTouch \/ ~mgrAlive)
          /\ counter' = counter + 1
          /\ pcA' = IF counter = 0 THEN "signal" ELSE "idle"
          /\ H("A:count")
          /\ UNCHANGED <<ipA, cur, q, evPop, mgrRc, mgrAlive, wRel, executed, evq, forwarded, sentOk>>
ASignal == /\ pcA = "signal"
           /\ badTouch' = (badTouch \/ ~mgrAlive)
           /\ evPop' = TRUE /\ pcA' = "idle" /\ H("A:signal")
           /\ UNCHANGED <<ipA, cur, q, counter, mgrRc, mgrAlive, wRel, executed, evq, forwarded, sentOk>>
\* A's event loop: forward one event of the remote pipe on the application
\* thread; the DEAD event of the remote pipe frees the xfer pipe, which drops
\* its manager reference (possibly the last one: DETACH is then pushed by A)
AForward == /\ pcA = "idle" /\ evq # <<>>
            /\ forwarded' = Append(forwarded, Head(evq)) /\ evq' = Tail(evq)
            /\ IF Head(evq) = 0      \* dead
               THEN IF mgrRc = 1
                    THEN mgrRc' = 0 /\ Publish("detach") /\ H("A:forward:dead:detach")
                    ELSE mgrRc' = mgrRc - 1 /\ H("A:forward:dead") /\ UNCHANGED <<q, cur, pcA, badTouch>>
               ELSE H("A:forward") /\ UNCHANGED <<q, cur, pcA, badTouch, mgrRc>>
            /\ UNCHANGED <<ipA, counter, evPop, mgrAlive, wRel, executed, sentOk>>
\* ---- W ------------------------------------------------------------------------
\* W drops its own manager reference (after attaching its loop)
WRelease == /\ ~wRel /\ mgrAlive /\ (WRelAt # 99) /\ Len(executed) >= WRelAt
            /\ wRel' = TRUE
            /\ IF mgrRc = 1
               THEN /\ mgrRc' = 0 /\ q' = Append(q, "detach") /\ counter' = counter + 1
                    /\ evPop' = TRUE            \* W's own push is sequential on W
               ELSE /\ mgrRc' = mgrRc - 1 /\ UNCHANGED <<q, counter, evPop>>
            /\ H("W:mgrrel")
            /\ UNCHANGED <<ipA, pcA, cur, mgrAlive, executed, evq, forwarded, sentOk, badTouch>>
\* the manager's pump: pops one message (the real worker loops; one per step is finer)
\* the FIFO pop does not depend on the counter: a published message can be popped
\* before its sender has counted it
WPop == /\ mgrAlive /\ q # <<>>
        /\ LET m == Head(q) IN
           /\ q' = Tail(q)
           /\ counter' = IF counter > 0 THEN counter - 1 ELSE counter   \* advisory
           /\ IF m = "detach"
              THEN /\ (Variant = "handshake" => pcA = "idle")
                   /\ mgrAlive' = FALSE /\ UNCHANGED <<executed, evq>>
              ELSE /\ executed' = Append(executed, m)
                   \* "cmd" makes the remote pipe throw an event; "release" frees it (DEAD = 0 travels back)
                   /\ evq' = IF m = "cmd" THEN Append(evq, Len(executed) + 1)
                             ELSE IF m = "release" THEN Append(evq, 0) ELSE evq
                   /\ UNCHANGED mgrAlive
           /\ H("W:pop:" \o m)
        /\ evPop' = evPop
        /\ UNCHANGED <<ipA, pcA, cur, mgrRc, wRel, forwarded, sentOk, badTouch>>

Next == AStep \/ ACount \/ ASignal \/ AForward \/ WRelease \/ WPop
Spec == Init /\ [][Next]_vars

\* ---- properties ------------------------------------------------------------------
IsPrefix(a, b) == Len(a) <= Len(b) /\ \A k \in 1..Len(a) : a[k] = b[k]
\* commands are executed on W in the order they were accepted, each once
CmdInOrderOnce == IsPrefix(executed, sentOk)
\* events are forwarded on A in the order thrown, each once
EventsInOrder == \A k \in 1..Len(forwarded) : forwarded[k] <= Len(executed)
\* every step of a push happens on live manager memory
NoStepOnDeadQueue == ~badTouch
Quiescent == ~ENABLED Next
AllExecuted == (Quiescent /\ mgrAlive) => executed = sentOk
=============================================================================
