SPECIFICATION Spec
CONSTANTS
  NU = 2
  NB = 2
  Variant = "dupnoshare"
  MaxCmds = 5
  MinCmds = 0
  EmitBeh = FALSE
INVARIANTS RcIsHolders
VIEW View
POSTCONDITION Cov
CHECK_DEADLOCK FALSE
