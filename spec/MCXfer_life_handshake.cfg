SPECIFICATION Spec
CONSTANTS
  ProgA <- P_full
  WRelAt = 0
  Variant = "handshake"
INVARIANT CmdInOrderOnce EventsInOrder AllExecuted NoStepOnDeadQueue
VIEW view
CHECK_DEADLOCK FALSE
