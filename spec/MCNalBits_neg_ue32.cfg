\* NEGATIVE: codes longer than 24 bits fetched in one go: must violate NoUB
SPECIFICATION Spec
CONSTANTS
  Mode = "G"
  Variant = "neg_ue32"
  Leads = {0, 1, 7}
  Ks = {0, 1, 2, 3, 4, 5, 6, 7, 8, 9, 10, 11, 12, 13, 14, 15, 16, 17, 18, 19, 20, 21, 22, 23, 24, 25, 26, 27, 28, 29, 30, 31}
  K2s = {0}
  Reps = {"min", "max", "alt"}
  Kinds = {"ue"}
  Alphabet = {0}
  MaxLen = 0
INVARIANT TypeOK NoUB CodecInverse EscInverse ReadOK OvSound
VIEW View
CHECK_DEADLOCK FALSE
