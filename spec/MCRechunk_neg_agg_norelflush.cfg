\* NEGATIVE: release forgets the pending aggregate: Conservation must be violated
SPECIFICATION Spec
CONSTANTS
  ModeSet = {"agg"}
  AggMtuSet = {4}
  InSizeSet = {0}
  ChunkMtuSet = {3, 5}
  AlignSet = {1, 2, 3}
  PSizeSet = {3}
  NSyncSet = {2}
  CheckPSizeSet = {2, 3}
  LenAgg = 6
  LenChunk = 1
  LenSync = 1
  LenCheck = 1
  BufAgg = 4
  BufOther = 99
  MaxEmpty = 1
  MaxDisc = 0
  Twin = "free"
  EarlyB = FALSE
  Variant = "agg_norelflush"
VIEW View
INVARIANT Subsequence WholePackets Conservation UnitSize CutInvariance ReleaseTerminates AggSane NoOverrun UnitsAreSlices FlushHeadSync
CHECK_DEADLOCK FALSE
