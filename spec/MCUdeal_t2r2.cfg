SPECIFICATION Spec
CONSTANTS
  Aborters = {}
  NT = 2
  Rounds = 2
  Variant = "code"
INVARIANT Mutex NoLostHandOver

VIEW view
CHECK_DEADLOCK FALSE
