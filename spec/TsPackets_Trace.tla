-------------------------- MODULE TsPackets_Trace --------------------------
(***************************************************************************)
(* C15 - validation of recorded executions of the REAL pipes               *)
(*   upipe_ts_decaps, upipe_ts_pes_decaps, upipe_ts_pes_encaps,            *)
(*   upipe_ts_encaps (harness/replay_ts.c) against the ABSTRACT part of    *)
(* TsPackets.tla (AClass / ANeed / ANext are taken from that module by     *)
(* INSTANCE).  One TLC state per trace line; executions start with Reset   *)
(* and end with End.                                                       *)
(*                                                                         *)
(* mode "D"  packets -> ts_decaps -> sink                                  *)
(*   Pkt  {size,sync,tei,pusi,pid,scr,afc,cc,af,disc,rai,pcrf,plen,pay}    *)
(*        the fields given to the reference serializer; pay = digest of    *)
(*        the payload octets it wrote                                      *)
(*   Raw  {size}      arbitrary octets (corrupt packet)                    *)
(*   Out  {n,pay,start,disc,rap,suf}  one buffer received by the sink;     *)
(*        suf = 1: its octets are consecutive octets of the packet fed     *)
(* mode "F"  packets -> ts_pid_filter -> ts_decaps -> sink: as mode D for  *)
(*           the packets whose PID is enabled (AddPid / DelPid {pid}), the *)
(*           others must vanish.  An output of ts_split is judged the same *)
(*           way (its PID enabled from the start).                         *)
(* mode "P"  PES chunks -> ts_pes_decaps -> sink                           *)
(*   Pes  {b,ptsf,dtsf,pts,dts,pd}  a PES packet built by the reference    *)
(*        serializer (b = payload octets, pts/dts = 33-bit values as three *)
(*        16-bit limbs) and fed in chunks                                  *)
(* mode "Q"  access units -> ts_pes_encaps -> ts_pes_decaps -> sink        *)
(* mode "E"  access units -> ts_encaps -> (splice) -> ts_decaps ->         *)
(*           ts_pes_decaps -> sink                                         *)
(*   Au   {b,ptsf,dtsf,pts,dts,rap,disc}   pts/dts in 27 MHz units as      *)
(*        [q2,q1,q0,r]: value = (q2*2^32 + q1*2^16 + q0)*300 + r           *)
(*   Ts   {size,sync,tei,pusi,pid,afc,cc,af,...,plen}  a packet emitted by *)
(*        ts_encaps as read by the reference parser                        *)
(*   POut {b,start,disc,rap,dtsf,dts,delf,del}  one buffer received by the *)
(*        sink: octets, markers, dts_orig and dts_pts_delay as [q2,q1,q0,r]*)
(* mode "X"  corrupt input only: nothing but memory safety is required     *)
(* San    a sanitizer report / failed assertion: no action accepts it      *)
(*                                                                         *)
(* Where the statement is silent the module is permissive: packets that    *)
(* are not well formed, everything after one until the decapsulator has    *)
(* delivered a payload again, flags nobody asked for, PTS - DTS > 60 s.    *)
(***************************************************************************)
EXTENDS Naturals, Integers, Sequences, TLC, Json, IOUtils

Tr == ndJsonDeserialize(IOEnv.TRACE)

VARIABLES l,       \* next line of Tr
          mode,    \* "idle" | "D" | "P" | "Q" | "E" | "X"
          a,       \* abstract decapsulator state (mode D)
          cur,     \* mode D: the packet just fed and what is expected for it
          sync,    \* mode D: the abstract state is known
          q,       \* modes P, Q, E: units announced and not yet started at the sink
          cu,      \* unit being received
          got,     \* its octets received so far
          enc      \* mode E: [pid, cc] configured PID and last counter; mode F: pids enabled
vars == <<l, mode, a, cur, sync, q, cu, got, enc>>

T == INSTANCE TsPackets WITH
       Mode <- "T", Variant <- "ok", MaxPkts <- 0, Pays <- {}, AfKinds <- {}, Deltas <- {},
       FirstCcs <- {}, MaxAus <- 0, AuSizes <- {}, TsKs <- {}, Stamps <- {}, Gaps <- {},
       FlagKinds <- {}, Pads <- {}, Scale <- 300, Mod <- 1, MaxDelay <- 0, Cuts <- {},
       HdrPads <- {}, MayLose <- FALSE,
       n <- 0, ds <- 0, as <- a, last <- 0, hist <- <<>>, r <- 0

B(x) == x = 1
IsEv(e) == l <= Len(Tr) /\ Tr[l].e = e /\ l' = l + 1

---------------------------------------------------------------------------
(* 33-bit values as <<x2, x1, x0>>, 16-bit limbs *)
Low33(v) == <<v[1] % 2, v[2], v[3]>>
Sub33(x, y) ==       \* (x - y) mod 2^33
  LET d0 == x[3] - y[3]
      b0 == IF d0 < 0 THEN 1 ELSE 0
      d1 == x[2] - y[2] - b0
      b1 == IF d1 < 0 THEN 1 ELSE 0
      d2 == x[1] - y[1] - b1
  IN <<(d2 + 2) % 2, d1 + 65536 * b1, d0 + 65536 * b0>>
MaxDelay90 == 5400000          \* 60 s at 90 kHz (MAX_DELAY / 300)
Within60s(d) == d[1] = 0 /\ d[2] * 65536 + d[3] <= MaxDelay90
IsPrefix(s, t) == Len(s) <= Len(t) /\ SubSeq(t, 1, Len(s)) = s

---------------------------------------------------------------------------
(* mode D *)
PktOf(e) == [cc |-> e.cc, pusi |-> B(e.pusi), afc |-> e.afc, af |-> e.af, disc |-> B(e.disc),
             rai |-> B(e.rai), pcr |-> B(e.pcrf), pay |-> e.pay]
\* a packet the statement speaks about
WF(e) == /\ e.size = 188 /\ e.sync = 71 /\ e.tei = 0 /\ e.scr = 0
         /\ T!WellFormed(PktOf(e))
         /\ e.plen = T!PLen(PktOf(e))
Cur0 == [on |-> FALSE, wf |-> FALSE, p |-> T!Pkt0, cls |-> "any", need |-> FALSE, got |-> FALSE,
         fil |-> FALSE]
\* the expectation for the previous packet is closed when the next event of
\* the input side arrives: a payload that had to be delivered must have been
Closable == ~(cur.on /\ ~cur.got /\ cur.cls = "out")
Closed == IF cur.on /\ ~cur.got /\ cur.wf /\ sync /\ ~cur.fil THEN T!ANext(a, cur.p, T!NoOut) ELSE a

\* encapsulation side.  al = FALSE: the access units are NOT aligned with the PES packets (mode E, align=0): the
\* octets of an access unit that do not fill a TS packet travel at the head of the next PES.  Then the statement
\* is about the STREAM: allb = every access unit octet given so far, starts[k] = offset of access unit k in it,
\* us[k] = its dates, pos = octets that came out, k = PES packets begun
Enc0 == [pid |-> 0, cc |-> 0, pids |-> {}, al |-> TRUE, allb |-> <<>>, starts |-> <<>>, us |-> <<>>, pos |-> 0, k |-> 0]
Cu0 == [on |-> FALSE, b |-> <<>>, tsf |-> FALSE, D |-> <<0, 0, 0>>, del |-> <<0, 0, 0>>,
        rap |-> -1, disc |-> 0]

TReset == /\ IsEv("Reset") /\ mode = "idle"
          /\ mode' = Tr[l].mode
          /\ a' = T!AInit /\ cur' = Cur0 /\ sync' = TRUE
          /\ q' = <<>> /\ cu' = Cu0 /\ got' = <<>>
          /\ enc' = IF Tr[l].mode = "E" THEN [Enc0 EXCEPT !.pid = Tr[l].pid, !.cc = Tr[l].cc, !.al = (Tr[l].al = 1)]
                                         ELSE Enc0

TPkt == /\ IsEv("Pkt") /\ mode \in {"D", "F"} /\ Closable
        /\ LET e  == Tr[l]
               wf == WF(e)
               a1 == Closed
               fil == mode = "F" /\ e.pid \notin enc.pids      \* not for this output: must vanish
           IN /\ a' = a1
              /\ sync' = (sync /\ (wf \/ fil))
              /\ cur' = [on |-> TRUE, wf |-> wf, p |-> IF wf THEN PktOf(e) ELSE T!Pkt0,
                         cls |-> IF fil THEN "none"
                                 ELSE IF wf /\ sync THEN T!AClass(a1, PktOf(e)) ELSE "any",
                         need |-> ~fil /\ wf /\ sync /\ T!ANeed(a1, PktOf(e)),
                         got |-> FALSE, fil |-> fil]
        /\ UNCHANGED <<mode, q, cu, got, enc>>

TPid == /\ (IsEv("AddPid") \/ IsEv("DelPid")) /\ mode = "F" /\ Closable
        /\ a' = Closed /\ cur' = Cur0
        /\ enc' = [enc EXCEPT !.pids = IF Tr[l].e = "AddPid" THEN @ \cup {Tr[l].pid} ELSE @ \ {Tr[l].pid}]
        /\ UNCHANGED <<mode, sync, q, cu, got>>

TRaw == /\ IsEv("Raw") /\ mode \in {"D", "F", "P", "X"} /\ (mode \in {"D", "F"} => Closable)
        /\ a' = a /\ sync' = FALSE
        /\ cur' = [Cur0 EXCEPT !.on = TRUE]
        /\ UNCHANGED <<mode, q, cu, got, enc>>

TOut == /\ IsEv("Out") /\ mode \in {"D", "F"}
        /\ cur.on /\ ~cur.got /\ cur.cls \in {"out", "any"}
        /\ LET e == Tr[l]
               o == [pay |-> <<e.pay, e.n>>, disc |-> B(e.disc), rap |-> B(e.rap), start |-> B(e.start)]
           IN /\ e.suf = 1                                   \* octets taken from the packet
              /\ cur.cls = "out" =>
                   /\ o.pay = T!PayId(cur.p)                 \* PayloadExact
                   /\ o.start = cur.p.pusi                   \* Markers
                   /\ o.rap = (T!HasFlags(cur.p) /\ cur.p.rai)
                   /\ (cur.need => o.disc)                   \* CcRule
              /\ IF cur.wf /\ sync THEN a' = T!ANext(a, cur.p, o) /\ sync' = sync
                 ELSE IF cur.wf /\ o.pay = T!PayId(cur.p)
                 THEN /\ a' = [last |-> cur.p.cc, lastPay |-> o.pay, lastHdr |-> T!Hdr(cur.p),
                               pend |-> FALSE, dupd |-> FALSE, prevOrig |-> TRUE]
                      /\ sync' = TRUE
                 ELSE a' = a /\ sync' = sync
              /\ cur' = [cur EXCEPT !.got = TRUE]
        /\ UNCHANGED <<mode, q, cu, got, enc>>

---------------------------------------------------------------------------
(* modes P, Q, E: units expected at the sink *)
\* expected 33-bit DTS, PTS - DTS, as the PES header can carry them
UnitOf(b, ptsf, dtsf, pts33, dts33, rap, disc) ==
  LET D == IF dtsf THEN dts33 ELSE pts33 IN
  [on |-> TRUE, b |-> b, tsf |-> ptsf, D |-> D, del |-> Sub33(pts33, D), rap |-> rap, disc |-> disc]

TPes == /\ IsEv("Pes") /\ mode = "P"
        /\ LET e == Tr[l] IN
           \* (a padding_stream packet - pd = 1 - carries nothing: whatever its length and however it is cut,
           \* none of its octets comes out)
           q' = IF e.pd = 1 THEN q
                ELSE Append(q, UnitOf(e.b, B(e.ptsf), B(e.dtsf), Low33(e.pts), Low33(e.dts), -1, 0))
        /\ UNCHANGED <<mode, a, cur, sync, cu, got, enc>>

TAu == /\ IsEv("Au") /\ mode \in {"Q", "E"}
       /\ LET e == Tr[l]
              u == UnitOf(e.b, B(e.ptsf), B(e.dtsf),
                          Low33(<<e.pts[1], e.pts[2], e.pts[3]>>),
                          Low33(<<e.dts[1], e.dts[2], e.dts[3]>>), e.rap, e.disc)
          IN /\ Len(e.b) > 0
             /\ B(e.dtsf) => B(e.ptsf)
             /\ IF mode = "E" /\ ~enc.al
                THEN /\ enc' = [enc EXCEPT !.allb = @ \o e.b, !.starts = Append(@, Len(enc.allb)),
                                           !.us = Append(@, [u EXCEPT !.b = <<>>])]
                     /\ q' = q
                ELSE q' = Append(q, u) /\ enc' = enc
       /\ UNCHANGED <<mode, a, cur, sync, cu, got>>

\* a packet emitted by ts_encaps (reference parser)
TTs == /\ IsEv("Ts") /\ mode = "E"
       /\ LET e  == Tr[l]
              hp == e.afc \in {1, 3}
          IN /\ e.size = 188 /\ e.sync = 71 /\ e.pid = enc.pid /\ e.tei = 0
             /\ e.afc \in {1, 2, 3}
             /\ (e.afc = 2 => e.af = 183) /\ (e.afc = 3 => e.af \in 0..182)
             /\ (B(e.pusi) => hp)
             /\ e.cc = IF hp THEN (enc.cc + 1) % 16 ELSE enc.cc        \* CcRule, encapsulation side
             /\ enc' = [enc EXCEPT !.cc = e.cc]
       /\ UNCHANGED <<mode, a, cur, sync, q, cu, got>>

Complete == IF cu.on THEN got = cu.b ELSE TRUE
DatesOK(e, u) ==
    /\ (u.rap # -1 => e.rap = u.rap)
    /\ (u.disc = 1 => e.disc = 1)
    /\ IF u.tsf
       THEN /\ e.dtsf = 1
            /\ e.dts = <<u.D[1], u.D[2], u.D[3], 0>>
            /\ Within60s(u.del) =>
                 /\ e.delf = 1
                 /\ e.del = <<u.del[1], u.del[2], u.del[3], 0>>
       ELSE e.dtsf = 0
TPOut == /\ IsEv("POut") /\ mode \in {"P", "Q", "E"} /\ sync /\ enc.al
         /\ LET e == Tr[l] IN
            IF B(e.start)
            THEN /\ Complete /\ Len(q) > 0
                 /\ LET u == Head(q) IN
                    /\ IsPrefix(e.b, u.b)
                    /\ DatesOK(e, u)
                    /\ cu' = u /\ q' = Tail(q) /\ got' = e.b
            ELSE /\ cu.on /\ IsPrefix(got \o e.b, cu.b)
                 /\ got' = got \o e.b /\ UNCHANGED <<q, cu>>
         /\ UNCHANGED <<mode, a, cur, sync, enc>>
\* access units not aligned with the PES packets: the octets come out as one stream, in order, nothing added; the
\* k-th PES carries the dates of the k-th access unit and begins at most one TS payload (184 octets: what a packet without adaptation field carries) before it
TPOutN == /\ IsEv("POut") /\ mode = "E" /\ sync /\ ~enc.al
          /\ LET e == Tr[l]
                 n == Len(e.b)
             IN /\ enc.pos + n <= Len(enc.allb)
                /\ SubSeq(enc.allb, enc.pos + 1, enc.pos + n) = e.b
                /\ IF B(e.start)
                   THEN /\ enc.k < Len(enc.us)
                        /\ DatesOK(e, enc.us[enc.k + 1])
                        /\ enc.pos <= enc.starts[enc.k + 1] /\ enc.starts[enc.k + 1] - enc.pos <= 184
                        /\ enc' = [enc EXCEPT !.pos = @ + n, !.k = @ + 1]
                   ELSE enc.k > 0 /\ enc' = [enc EXCEPT !.pos = @ + n]
          /\ UNCHANGED <<mode, a, cur, sync, q, cu, got>>

\* after corrupt input, and in mode X: anything but a sanitizer report
TAny == /\ \/ IsEv("POut") /\ (mode = "X" \/ ~sync)
           \/ IsEv("Out") /\ mode = "X"
           \/ IsEv("Pkt") /\ mode = "X"
           \/ IsEv("Pes") /\ mode = "X"
        /\ UNCHANGED <<mode, a, cur, sync, q, cu, got, enc>>

\* a buffer whose octets cannot be read (the block layer refused them): only
\* after corrupt input
TBroken == /\ IsEv("Broken") /\ (mode = "X" \/ ~sync)
           /\ UNCHANGED <<mode, a, cur, sync, q, cu, got, enc>>

TEnd == /\ IsEv("End") /\ mode # "idle"
        /\ (mode \in {"D", "F"} => Closable)
        /\ ((mode \in {"P", "Q", "E"} /\ sync) => Complete /\ q = <<>>)
        /\ ((mode = "E" /\ sync /\ ~enc.al) => enc.pos = Len(enc.allb) /\ enc.k = Len(enc.us))
        /\ mode' = "idle"
        /\ UNCHANGED <<a, cur, sync, q, cu, got, enc>>

TInit == /\ l = 1 /\ mode = "idle" /\ a = T!AInit /\ cur = Cur0 /\ sync = TRUE
         /\ q = <<>> /\ cu = Cu0 /\ got = <<>> /\ enc = Enc0
TNext == TReset \/ TPkt \/ TPid \/ TRaw \/ TOut \/ TPes \/ TAu \/ TTs \/ TPOut \/ TPOutN \/ TAny \/ TBroken \/ TEnd
TSpec == TInit /\ [][TNext]_vars

\* property invariants, evaluated in every state of every execution
\* never more octets than the unit has
NoExcess == (mode \in {"P", "Q", "E"} /\ sync /\ cu.on) => IsPrefix(got, cu.b)
DupOnce  == cur.cls = "none" => ~cur.got

Accepted == LET d == TLCGet("stats").diameter IN
            IF d - 1 = Len(Tr) THEN PrintT(<<"TRACE_ACCEPTED", Len(Tr)>>)
                               ELSE PrintT(<<"TRACE_REJECTED_AT", d>>)
=============================================================================
