SPECIFICATION TSpec
INVARIANT MergerSafe MergerComplete SplitDeliver JoinForward
POSTCONDITION Accepted
CHECK_DEADLOCK FALSE
