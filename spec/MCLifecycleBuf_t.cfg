SPECIFICATION Spec
CONSTANTS
  NU = 3
  NB = 2
  Variant = "ok"
  MaxCmds = 6
  MinCmds = 0
  EmitBeh = FALSE
INVARIANTS RcIsHolders DestroyOnce NoUseAfterDestroy QuiescentClean Sane
VIEW View
POSTCONDITION Cov
CHECK_DEADLOCK FALSE
