\* C20 trace validation, single pass over many executions: no INVARIANT, every failing (execution, line, invariant) is collected and printed (TRACE_BAD)
SPECIFICATION TSpec
CONSTANTS
  Acc = {}
  Rej = {}
  Default = "?"
  Garbage = "777777"
  Unknown = "?"
  MaxLen = 0
  MaxIn = 0
  Variant = "ok"
  EmitBeh = FALSE
INVARIANT Report
POSTCONDITION Accepted
CHECK_DEADLOCK FALSE
