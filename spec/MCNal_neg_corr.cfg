\* NEGATIVE: running correction of the stored offsets not applied: must violate Refines/NoTrap
SPECIFICATION Spec
CONSTANTS
  Variant = "neg_corr"
  Sizes = {1, 2}
  MaxNals = 3
  MaxConv = 1
  Encs = {"annexb", "len1", "len2", "len4", "nalu"}
  Sc3 = FALSE
  BigOnce = FALSE
INVARIANT EmitCex TypeOK PayloadsKept OverflowErr RoundTrip Stable Refines ErrAgree NoTrap
VIEW View
CHECK_DEADLOCK FALSE
