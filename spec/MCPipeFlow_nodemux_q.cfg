SPECIFICATION Spec
CONSTANTS
 Setups <- S_nodemux
 Acts <- A_sync
 Bufs <- B_one
 MaxSteps = 3
 MaxIn = 2
 Variant = "ok"
 CheckEpi = TRUE
INVARIANT ExactlyOnce
INVARIANT InOrder
INVARIANT ContentOK
INVARIANT DupAll
INVARIANT NoLeak
INVARIANT EpilogueClean
INVARIANT DrainedOK
PROPERTY FlushFrees
VIEW view
CHECK_DEADLOCK FALSE
