SPECIFICATION Spec
CONSTANTS
  L = 1
  Prog <- P_Aifir
  FreeLen = 6
  Variant = "s12"
INVARIANT InOrderOnce FlowDefFirst HoldNotDrop SourceEndLast
VIEW view
CHECK_DEADLOCK FALSE
