\* C12 NEGATIVE: an unregistration refused by the full queue leaves the proxy in the list of the queue sink
SPECIFICATION Spec
CONSTANTS
  Scenarios <- ScnFull
  Variant = "unreg_full_keeps"
  EmitEdges = FALSE
  Idle = FALSE
  MaxGen = 2
  MaxChan = 2
  MaxPath = 0
CONSTRAINT Bound
VIEW ViewCore
INVARIANT TypeOK
PROPERTY StepNoCallbackAfterUnregister
CHECK_DEADLOCK FALSE
