---------------------------- MODULE Worker_Trace ----------------------------
(***************************************************************************)
(* C06, worker pipes - abstract specification of a worker pipe             *)
(* (upipe_wlin / upipe_wsink / upipe_wsrc: [input ->] queue -> remote pipe *)
(* living in the worker thread -> queue [-> output]) and single-pass       *)
(* validation of traces recorded from the real pipes                       *)
(* (harness/sched_worker.c).  ta / tw = application / worker thread.       *)
(*                                                                         *)
(*  application calls on the worker pipe (thread ta):                      *)
(*    SetFd(f) Send(id) SetOut(s) Freeze/FreezeRet(ok) Thaw/ThawRet(ok)    *)
(*    Ctl/CtlRet(ok) (a command only the remote pipe knows) Release        *)
(*  Lock(th) Unlock(th)      the mutex protecting the worker's event loop  *)
(*  REnter(k,th,..) RLeave(th)   the remote pipe is entered / left         *)
(*       k = input(id) flowdef(f) control attach setout getout request     *)
(*           idler free                                                     *)
(*  RSetFd(f) RSend(id)      the remote pipe emits on its output           *)
(*  Throw(ev,th) Forward(ev,th)  event thrown by the remote pipe / caught  *)
(*                           by the application's probe on the worker pipe *)
(*  OutFd(f,s,th) Out(id,s,th)   received by the application's sink s      *)
(*  Dead(p,th) MgrFree(th)   end of life of the pipes / transfer manager   *)
(*  Touch(what) DoubleFree   a hooked access into freed memory / 2nd free  *)
(*  Join(th)                 pthread stage: the worker thread has ended and was  *)
(*                           joined (by the application's loop)                 *)
(*  Quiescent(live)          nobody runnable; live = blocks allocated by   *)
(*                           the code under test and not freed             *)
(*                                                                         *)
(* Sentences of the statement:                                             *)
(*  InOrderOnce   REnter input / Out take the head of what is pending      *)
(*  FlowDefFirst  ... under the flow definition in force when it was sent  *)
(*  EndLast       the remote pipe is freed only after the last buffer      *)
(*                reached it; the worker pipe dies only after the last     *)
(*                buffer reached the output                                *)
(*  HoldNotDrop   at quiescence nothing is pending                         *)
(*  Confinement   the remote pipe is entered on tw (holding the loop's     *)
(*                mutex if there is one), or on ta while ta holds the      *)
(*                mutex (frozen) or before the transfer; never by two      *)
(*                threads at once                                          *)
(*  EventsAtHome  Forward on ta, a subsequence of the events thrown        *)
(*  FreedOnce     after release: remote freed, worker pipe dead on ta,     *)
(*                manager freed, nothing left allocated, nothing freed     *)
(*                twice, nothing used after it was freed                   *)
(***************************************************************************)
EXTENDS Naturals, Integers, Sequences, FiniteSets, TLC, Json, IOUtils
Tr == ndJsonDeserialize(IOEnv.TRACE)
VARIABLES l, fl, mx, ta, tw, transferred, holder, insTh, insDepth,
          curFd, sentFd, pendIn, rFd, rOutFd, emFd, pendOut, curSink, sinkFd,
          pendEv, released, remoteFreed, handleDead, mgrFreed, deadIn, deadOut,
          ctl, appFrz, joined, skip, cur, bad
st == <<fl, mx, ta, tw, transferred, holder, insTh, insDepth, curFd, sentFd, pendIn, rFd, rOutFd, emFd,
        pendOut, curSink, sinkFd, pendEv, released, remoteFreed, handleDead, mgrFreed, deadIn, deadOut, ctl, appFrz, joined>>
vars == <<l, st, skip, cur, bad>>
None == "none"

Has(ev, k) == k \in DOMAIN ev
Upd(f, k, v) == [x \in DOMAIN f \cup {k} |-> IF x = k THEN v ELSE f[x]]
\* position of the first occurrence of x in s, 0 if absent
Pos(x, s) == IF \E k \in 1..Len(s) : s[k] = x THEN CHOOSE k \in 1..Len(s) : s[k] = x /\ \A j \in 1..(k - 1) : s[j] # x ELSE 0
HasIn == fl # "src"
HasOut == fl # "sink"

\* Confinement
Conf(th) == /\ (insTh = -1 \/ insTh = th)
            /\ IF th = tw THEN (mx = 1 => holder = tw)
               ELSE th = ta /\ (~transferred \/ holder = ta)
\* before the transfer the application only walks the chain of outputs of the pipe it hands over

REnterGuard(ev) ==
  /\ Conf(ev.th) /\ ~remoteFreed
  /\ CASE ev.k = "input" -> /\ pendIn # <<>> /\ ev.id = Head(pendIn)          \* InOrderOnce
                            /\ rFd = sentFd[ev.id]                             \* FlowDefFirst
      [] ev.k = "control" -> ctl # -1 /\ ev.th = ta
      [] ev.k = "idler" -> ev.th = tw
      [] ev.k = "free" -> released /\ pendIn = <<>>                            \* EndLast (input side)
      [] ev.k = "getout" -> TRUE
      [] OTHER -> ev.th = tw \/ holder = ta       \* attach, setout, request: commands sent through the transfer manager

\* a thread that has been joined does nothing any more (pthread stage: the worker thread of
\* upipe_pthread_xfer_mgr_alloc is joined by the application's loop once it has ended)
Guard0(ev) ==
  CASE ev.e \in {"Alloc", "Transferred", "Disp", "EndScript", "WBlocked", "SetFdFail", "SetOutRet"} -> TRUE
    [] ev.e \in {"SetFd", "Send", "SetOut", "Freeze", "Thaw", "Release"} -> ~released
    [] ev.e = "Ctl" -> ~released /\ ctl = -1
    \* a control command the bin does not know is executed on the remote pipe, once, iff it reports success
    [] ev.e = "CtlRet" -> ctl # -1 /\ (ev.ok <=> ctl = 1) /\ (mx = 1 => ev.ok)
    [] ev.e = "FreezeRet" -> (ev.ok <=> holder = ta) /\ (mx = 1 => ev.ok)
    [] ev.e = "ThawRet" -> holder # ta
    [] ev.e = "Lock" -> holder = -1
    \* an application that froze the worker's loop keeps it frozen until it thaws it itself
    [] ev.e = "Unlock" -> holder = ev.th /\ (ev.th = ta => ~appFrz)
    [] ev.e = "REnter" -> REnterGuard(ev)
    [] ev.e = "RLeave" -> insTh = ev.th /\ insDepth > 0
    [] ev.e \in {"RSetFd", "RSend", "Throw"} -> insTh = ev.th
    [] ev.e = "RLoop" -> ev.loop = ev.th /\ ev.th = tw
    \* EventsAtHome
    [] ev.e = "Forward" -> ev.th = ta /\ Pos(ev.ev, pendEv) # 0 /\ ~handleDead
    [] ev.e = "OutFd" -> ev.th = ta /\ ev.s = curSink /\ ~handleDead
    [] ev.e = "Out" -> /\ ev.th = ta /\ ev.s = curSink /\ ~handleDead
                       /\ pendOut # <<>> /\ ev.id = Head(pendOut)              \* InOrderOnce
                       /\ sinkFd[ev.s] = emFd[ev.id]                           \* FlowDefFirst
    [] ev.e = "Dead" -> CASE ev.p = "handle" -> /\ ev.th = ta /\ released /\ ~handleDead
                                                /\ (curSink # -1 => pendOut = <<>>)   \* EndLast (output side)
                          [] ev.p = "in_qsrc" -> ev.th = tw /\ ~deadIn
                          [] ev.p = "out_qsink" -> ev.th = tw /\ ~deadOut
                          [] OTHER -> FALSE
    [] ev.e = "MgrFree" -> ev.th = tw /\ ~mgrFreed
    \* the worker thread ends only after its loop has nothing left to watch: the transfer manager is gone,
    \* nobody is inside the remote pipe, the mutex is not left locked by the dead thread
    [] ev.e = "Join" -> ev.th = ta /\ ~joined /\ mgrFreed /\ insTh = -1 /\ holder # tw
    \* HoldNotDrop + FreedOnce (an application that froze the worker for ever is not judged)
    [] ev.e = "Quiescent" -> \/ holder = ta /\ appFrz
                             \/ /\ holder = -1
                                /\ pendIn = <<>> /\ (curSink # -1 => pendOut = <<>>)
                                /\ insTh = -1 /\ ev.inside = 0 /\ ctl = -1
                                /\ released => /\ remoteFreed /\ handleDead /\ mgrFreed
                                               /\ (HasIn => deadIn) /\ (HasOut => deadOut)
                                               /\ ev.live = 0
                                               /\ (Has(ev, "thread") => joined)
    [] OTHER -> FALSE       \* Touch, DoubleFree, Fatal, Crash, Hang, LockBusy, Untransferred

Guard(ev) == ((Has(ev, "th") /\ ev.th = tw) => ~joined) /\ Guard0(ev)

U(vs) == UNCHANGED vs
Effect(ev) ==
  CASE ev.e = "Transferred" -> transferred' = TRUE /\ U(<<joined, fl, mx, ta, tw, holder, insTh, insDepth, curFd, sentFd, pendIn, rFd, rOutFd, emFd, pendOut, curSink, sinkFd, pendEv, released, remoteFreed, handleDead, mgrFreed, deadIn, deadOut, ctl, appFrz>>)
    [] ev.e = "SetFd" -> curFd' = ev.f /\ U(<<joined, fl, mx, ta, tw, transferred, holder, insTh, insDepth, sentFd, pendIn, rFd, rOutFd, emFd, pendOut, curSink, sinkFd, pendEv, released, remoteFreed, handleDead, mgrFreed, deadIn, deadOut, ctl, appFrz>>)
    [] ev.e = "Send" -> sentFd' = Upd(sentFd, ev.id, curFd) /\ pendIn' = Append(pendIn, ev.id)
                        /\ U(<<joined, fl, mx, ta, tw, transferred, holder, insTh, insDepth, curFd, rFd, rOutFd, emFd, pendOut, curSink, sinkFd, pendEv, released, remoteFreed, handleDead, mgrFreed, deadIn, deadOut, ctl, appFrz>>)
    \* a new output must be told the flow definition again before it gets a buffer
    [] ev.e = "SetOut" -> curSink' = ev.s /\ sinkFd' = [sinkFd EXCEPT ![ev.s] = None]
                          /\ U(<<joined, fl, mx, ta, tw, transferred, holder, insTh, insDepth, curFd, sentFd, pendIn, rFd, rOutFd, emFd, pendOut, pendEv, released, remoteFreed, handleDead, mgrFreed, deadIn, deadOut, ctl, appFrz>>)
    [] ev.e = "Release" -> released' = TRUE /\ U(<<joined, fl, mx, ta, tw, transferred, holder, insTh, insDepth, curFd, sentFd, pendIn, rFd, rOutFd, emFd, pendOut, curSink, sinkFd, pendEv, remoteFreed, handleDead, mgrFreed, deadIn, deadOut, ctl, appFrz>>)
    [] ev.e = "Ctl" -> ctl' = 0 /\ U(<<joined, fl, mx, ta, tw, transferred, holder, insTh, insDepth, curFd, sentFd, pendIn, rFd, rOutFd, emFd, pendOut, curSink, sinkFd, pendEv, released, remoteFreed, handleDead, mgrFreed, deadIn, deadOut, appFrz>>)
    [] ev.e = "CtlRet" -> ctl' = -1 /\ U(<<joined, fl, mx, ta, tw, transferred, holder, insTh, insDepth, curFd, sentFd, pendIn, rFd, rOutFd, emFd, pendOut, curSink, sinkFd, pendEv, released, remoteFreed, handleDead, mgrFreed, deadIn, deadOut, appFrz>>)
    [] ev.e = "FreezeRet" -> appFrz' = ev.ok /\ U(<<joined, fl, mx, ta, tw, transferred, holder, insTh, insDepth, curFd, sentFd, pendIn, rFd, rOutFd, emFd, pendOut, curSink, sinkFd, pendEv, released, remoteFreed, handleDead, mgrFreed, deadIn, deadOut, ctl>>)
    [] ev.e = "Thaw" -> appFrz' = FALSE /\ U(<<joined, fl, mx, ta, tw, transferred, holder, insTh, insDepth, curFd, sentFd, pendIn, rFd, rOutFd, emFd, pendOut, curSink, sinkFd, pendEv, released, remoteFreed, handleDead, mgrFreed, deadIn, deadOut, ctl>>)
    [] ev.e = "Lock" -> holder' = ev.th /\ U(<<joined, fl, mx, ta, tw, transferred, insTh, insDepth, curFd, sentFd, pendIn, rFd, rOutFd, emFd, pendOut, curSink, sinkFd, pendEv, released, remoteFreed, handleDead, mgrFreed, deadIn, deadOut, ctl, appFrz>>)
    [] ev.e = "Unlock" -> holder' = -1 /\ U(<<joined, fl, mx, ta, tw, transferred, insTh, insDepth, curFd, sentFd, pendIn, rFd, rOutFd, emFd, pendOut, curSink, sinkFd, pendEv, released, remoteFreed, handleDead, mgrFreed, deadIn, deadOut, ctl, appFrz>>)
    [] ev.e = "REnter" ->
         /\ insTh' = ev.th /\ insDepth' = insDepth + 1
         /\ pendIn' = IF ev.k = "input" THEN Tail(pendIn) ELSE pendIn
         /\ rFd' = IF ev.k = "flowdef" THEN ev.f ELSE rFd
         /\ ctl' = IF ev.k = "control" THEN ctl + 1 ELSE ctl
         /\ remoteFreed' = (ev.k = "free")
         /\ U(<<joined, fl, mx, ta, tw, transferred, holder, curFd, sentFd, rOutFd, emFd, pendOut, curSink, sinkFd, pendEv, released, handleDead, mgrFreed, deadIn, deadOut, appFrz>>)
    [] ev.e = "RLeave" -> /\ insDepth' = insDepth - 1 /\ insTh' = IF insDepth = 1 THEN -1 ELSE insTh
                          /\ U(<<joined, fl, mx, ta, tw, transferred, holder, curFd, sentFd, pendIn, rFd, rOutFd, emFd, pendOut, curSink, sinkFd, pendEv, released, remoteFreed, handleDead, mgrFreed, deadIn, deadOut, ctl, appFrz>>)
    [] ev.e = "RSetFd" -> rOutFd' = ev.f /\ U(<<joined, fl, mx, ta, tw, transferred, holder, insTh, insDepth, curFd, sentFd, pendIn, rFd, emFd, pendOut, curSink, sinkFd, pendEv, released, remoteFreed, handleDead, mgrFreed, deadIn, deadOut, ctl, appFrz>>)
    [] ev.e = "RSend" -> emFd' = Upd(emFd, ev.id, rOutFd) /\ pendOut' = Append(pendOut, ev.id)
                         /\ U(<<joined, fl, mx, ta, tw, transferred, holder, insTh, insDepth, curFd, sentFd, pendIn, rFd, rOutFd, curSink, sinkFd, pendEv, released, remoteFreed, handleDead, mgrFreed, deadIn, deadOut, ctl, appFrz>>)
    [] ev.e = "Throw" -> pendEv' = Append(pendEv, ev.ev) /\ U(<<joined, fl, mx, ta, tw, transferred, holder, insTh, insDepth, curFd, sentFd, pendIn, rFd, rOutFd, emFd, pendOut, curSink, sinkFd, released, remoteFreed, handleDead, mgrFreed, deadIn, deadOut, ctl, appFrz>>)
    [] ev.e = "Forward" -> pendEv' = SubSeq(pendEv, Pos(ev.ev, pendEv) + 1, Len(pendEv))
                           /\ U(<<joined, fl, mx, ta, tw, transferred, holder, insTh, insDepth, curFd, sentFd, pendIn, rFd, rOutFd, emFd, pendOut, curSink, sinkFd, released, remoteFreed, handleDead, mgrFreed, deadIn, deadOut, ctl, appFrz>>)
    [] ev.e = "OutFd" -> sinkFd' = [sinkFd EXCEPT ![ev.s] = ev.f] /\ U(<<joined, fl, mx, ta, tw, transferred, holder, insTh, insDepth, curFd, sentFd, pendIn, rFd, rOutFd, emFd, pendOut, curSink, pendEv, released, remoteFreed, handleDead, mgrFreed, deadIn, deadOut, ctl, appFrz>>)
    [] ev.e = "Out" -> pendOut' = Tail(pendOut) /\ U(<<joined, fl, mx, ta, tw, transferred, holder, insTh, insDepth, curFd, sentFd, pendIn, rFd, rOutFd, emFd, curSink, sinkFd, pendEv, released, remoteFreed, handleDead, mgrFreed, deadIn, deadOut, ctl, appFrz>>)
    [] ev.e = "Dead" -> /\ handleDead' = (handleDead \/ ev.p = "handle")
                        /\ deadIn' = (deadIn \/ ev.p = "in_qsrc")
                        /\ deadOut' = (deadOut \/ ev.p = "out_qsink")
                        /\ U(<<joined, fl, mx, ta, tw, transferred, holder, insTh, insDepth, curFd, sentFd, pendIn, rFd, rOutFd, emFd, pendOut, curSink, sinkFd, pendEv, released, remoteFreed, mgrFreed, ctl, appFrz>>)
    [] ev.e = "Join" -> joined' = TRUE /\ U(<<fl, mx, ta, tw, transferred, holder, insTh, insDepth, curFd, sentFd, pendIn, rFd, rOutFd, emFd, pendOut, curSink, sinkFd, pendEv, released, remoteFreed, handleDead, mgrFreed, deadIn, deadOut, ctl, appFrz>>)
    [] ev.e = "MgrFree" -> mgrFreed' = TRUE /\ U(<<joined, fl, mx, ta, tw, transferred, holder, insTh, insDepth, curFd, sentFd, pendIn, rFd, rOutFd, emFd, pendOut, curSink, sinkFd, pendEv, released, remoteFreed, handleDead, deadIn, deadOut, ctl, appFrz>>)
    [] OTHER -> UNCHANGED st

\* a use after free does not stop the judgement of the rest of the execution
Soft(ev) == ev.e = "Touch"

TStep ==
  /\ l <= Len(Tr) /\ l' = l + 1
  /\ LET ev == Tr[l] IN
     IF ev.e = "Reset"
     THEN /\ fl' = ev.fl /\ mx' = ev.mx /\ ta' = ev.ta /\ tw' = ev.tw /\ transferred' = FALSE /\ holder' = -1
          /\ insTh' = -1 /\ insDepth' = 0 /\ curFd' = None /\ sentFd' = <<>> /\ pendIn' = <<>> /\ rFd' = None
          /\ rOutFd' = None /\ emFd' = <<>> /\ pendOut' = <<>> /\ curSink' = -1 /\ sinkFd' = [s \in {0, 1} |-> None]
          /\ pendEv' = <<>> /\ released' = FALSE /\ remoteFreed' = FALSE /\ handleDead' = FALSE /\ mgrFreed' = FALSE
          /\ deadIn' = FALSE /\ deadOut' = FALSE /\ ctl' = -1 /\ appFrz' = FALSE /\ joined' = FALSE
          /\ skip' = FALSE /\ cur' = ev.hid /\ bad' = bad
     ELSE IF skip THEN UNCHANGED <<st, skip, cur, bad>>
     ELSE IF Guard(ev) THEN Effect(ev) /\ UNCHANGED <<skip, cur, bad>>
     ELSE IF Soft(ev) THEN bad' = bad \cup {<<cur, l>>} /\ UNCHANGED <<st, skip, cur>>
     ELSE skip' = TRUE /\ bad' = bad \cup {<<cur, l>>} /\ UNCHANGED <<st, cur>>
TInit == /\ l = 1 /\ fl = "lin" /\ mx = 1 /\ ta = 0 /\ tw = 1 /\ transferred = FALSE /\ holder = -1
         /\ insTh = -1 /\ insDepth = 0 /\ curFd = None /\ sentFd = <<>> /\ pendIn = <<>> /\ rFd = None
         /\ rOutFd = None /\ emFd = <<>> /\ pendOut = <<>> /\ curSink = -1 /\ sinkFd = [s \in {0, 1} |-> None]
         /\ pendEv = <<>> /\ released = FALSE /\ remoteFreed = FALSE /\ handleDead = FALSE /\ mgrFreed = FALSE
         /\ deadIn = FALSE /\ deadOut = FALSE /\ ctl = -1 /\ appFrz = FALSE /\ joined = FALSE
         /\ skip = FALSE /\ cur = 0 /\ bad = {}
TSpec == TInit /\ [][TStep]_vars
Report == (l = Len(Tr) + 1) => PrintT(<<"TRACE_BAD", bad>>)
Accepted == LET d == TLCGet("stats").diameter IN
            IF d - 1 = Len(Tr) THEN PrintT(<<"TRACE_ACCEPTED", Len(Tr)>>)
                               ELSE PrintT(<<"TRACE_REJECTED_AT", d>>)
=============================================================================
