SPECIFICATION TSpec
CONSTANTS
  Scenarios <- TraceBoot
  Variant = "ok"
  EmitEdges = FALSE
  Idle = TRUE
  MaxGen = 0
  MaxChan = 0
  MaxPath = 0
INVARIANT TypeOK PathInv NoCallbackAfterUnregister NoSinkFreedWithRegs
INVARIANT ReachesProvide ReachesRunA ReachesProbe
POSTCONDITION Accepted
CHECK_DEADLOCK FALSE
