\* C12 NEGATIVE: a dying pipe does not unregister what is left in its list
SPECIFICATION Spec
CONSTANTS
  Scenarios <- ScnOnlyD
  Variant = "death_keeps_regs"
  EmitEdges = FALSE
  Idle = FALSE
  MaxGen = 2
  MaxChan = 2
  MaxPath = 0
CONSTRAINT Bound
VIEW ViewCore
PROPERTY StepNoCallbackAfterUnregister StepNoSinkFreedWithRegs StepReachesProvide StepReachesRunA StepReachesProbe
CHECK_DEADLOCK FALSE
