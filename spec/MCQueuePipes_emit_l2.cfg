SPECIFICATION Spec
CONSTANTS
  L = 2
  Prog <- P_Aifir
  FreeLen = 6
  Variant = "code"
INVARIANT InOrderOnce FlowDefFirst HoldNotDrop SourceEndLast Emit
VIEW view
CHECK_DEADLOCK FALSE
