SPECIFICATION Spec
CONSTANTS
  NU = 2
  NB = 2
  Variant = "freetwice"
  MaxCmds = 5
  MinCmds = 0
  EmitBeh = FALSE
INVARIANTS DestroyOnce
VIEW View
POSTCONDITION Cov
CHECK_DEADLOCK FALSE
