SPECIFICATION Spec
CONSTANTS
  N = 1
  Kind = "fifo"
  Prog <- P_Pp_Pp
  HeadCmp = "tagindex"
INVARIANT NoErr StructureOK TypeOK
VIEW view
CHECK_DEADLOCK FALSE
