SPECIFICATION Spec
CONSTANTS
  Flavour = "src"
  IL = 1
  OL = 1
  Mx = TRUE
  Prog <- P_oOr
  SrcProg <- S_AiiBi
  Variant = "code"
  FreeLen = 5
  Eager = FALSE
  FreeToks <- T_src
INVARIANT InOrderOnce FlowDefFirst EndLast Confinement HoldNotDrop FreedOnce
VIEW view
CHECK_DEADLOCK FALSE
