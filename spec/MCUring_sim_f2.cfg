SPECIFICATION Spec
CONSTANTS
  N = 2
  Kind = "fifo"
  Prog <- P_PPp_pPp
  HeadCmp = "tagindex"
INVARIANT NoErr StructureOK EmitDone
CHECK_DEADLOCK FALSE
