SPECIFICATION Spec
CONSTANTS
  Dicts = {1, 2}
  Bug = "none"
  PrefixOf <- MCPrefixOf
  MaxDepth = 4
  Keys <- K_sml
  Ops <- O_all
INVARIANT TypeOK
PROPERTY DupIndependent GetReturnsLastSet CmpIffEqual IterateExactlyOnce LastStored
CONSTRAINT DepthBound
VIEW HideHistory
CHECK_DEADLOCK FALSE
