----------------------------- MODULE MCBlockBuf -----------------------------
(* Model-checking / behaviour-emitting driver for BlockBuf.tla (C02, C03). *)
EXTENDS BlockBuf, Json

CONSTANTS Pre,       \* room in front of freshly allocated data (manager prepend, align 0)
          MaxLen,    \* bound on the length of a block (state constraint)
          MaxWins,   \* bound on the number of windows of a handle (state constraint)
          Depth,     \* number of calls of a behaviour
          Ops,       \* names of the calls that are explored
          PatSet,    \* "small" | "c02" | "sim": contents of allocated blocks
          Letters,   \* octets used by poke / scan / find / match
          InitSet,   \* "none" | "one" | "two": blocks already allocated in the initial states
          ObsLast,   \* TRUE: observers only as the last call of a behaviour (exhaustive emission)
          Rand,      \* TRUE (simulation only): offsets / sizes / octets are drawn at random
                     \* (3 out of 4 inside the block) instead of enumerated
          LastOps,   \* if not empty: the last call of a behaviour is one of these
          LastSz,    \* if not empty: the sizes asked by the last call
          Dom        \* "all" | "in": "in" keeps offsets and sizes inside the block

AllocPats ==
  CASE PatSet = "small" -> {<<>>, <<0>>, <<0, 1>>, <<0, 1, 1>>}
    [] PatSet = "c02"   -> {<<0, 1>>, <<0, 1, 0>>}
    [] PatSet = "q"     -> {<<0, 1, 0>>}
    [] PatSet = "sw"    -> {<<0, 1, 0>>}
    [] PatSet = "sw2"   -> {<<0, 1, 0>>}
    [] PatSet = "sim"   -> {<<>>, <<1>>, <<0, 1>>, <<0, 1, 2>>, <<0, 1, 2, 0>>, <<1, 1, 0, 2, 1>>, <<2, 0, 1, 1, 0, 2>>}

NewH == CHOOSE d \in Handles \ Live : \A e \in Handles \ Live : d <= e
HasFree == Live # Handles
Pick(S) == IF Rand THEN {RandomElement(S)} ELSE S
Inside(n) == IF n = 0 THEN {0} ELSE (-n)..(n - 1)
IsLast == step = Depth - 1
Offs(h) == IF Rand
           THEN {IF Dom = "all" /\ RandomElement(1..4) = 1
                 THEN RandomElement((-(Size(h) + 2))..(Size(h) + 2))
                 ELSE RandomElement(Inside(Size(h)))}
           ELSE IF Dom = "in" THEN Inside(Size(h)) ELSE (-(Size(h) + 1))..(Size(h) + 1)
Szs(h) == IF (IsLast \/ (PatSet = "sw" /\ step = 1)) /\ LastSz # {} THEN LastSz
          ELSE IF Rand
          THEN {IF Dom = "all" /\ RandomElement(1..4) = 1 THEN RandomElement(-1..(Size(h) + 2))
                                           ELSE RandomElement(-1..((Size(h) + 1) \div 2))}
          ELSE IF Dom = "in" THEN -1..Size(h) ELSE -1..(Size(h) + 1)
\* Dom = "in": only (offset, size) pairs that designate a range of the block
InR(h, off, sz) == Dom = "in" => RangeDom(Size(h), off, sz)
InRz(h, sk, sz) == Dom = "in" => ResizeDom(Size(h), sk, sz)
InC(h, sk, sz) == Dom = "in" => CopyDom(Size(h), sk, sz)
Starts(h) == Pick(0..(Size(h) + 1))
\* PatSet = "sw" ("sandwich" emission): two blocks; the first call appends one to the other (a segmented
\* block), the second is a read of one octet somewhere (it moves the offset cache of the real code), then
\* any call, then the last read: defects that need a cache pointing into a later segment
SW == PatSet = "sw"
\* PatSet = "sw2" (C02): two blocks; a duplicate of one of them (the sibling that must stay intact), an append
\* (a segmented block whose later segment shares its area with the sibling), then any cutting / growing call
\* inside the block; the final content of EVERY handle is part of the behaviour
SW2 == PatSet = "sw2"
On(op) == /\ op \in Ops /\ ((IsLast /\ LastOps # {}) => op \in LastOps)
          /\ (SW /\ step = 0 => op = "append") /\ (SW /\ step = 1 => op = "rd1")
          /\ (SW2 /\ step = 0 => op = "dup") /\ (SW2 /\ step = 1 => op = "append")
ObsOn(op) == On(op) /\ (ObsLast => (IsLast \/ (SW /\ step = 1)))
FindWords == {<<a, b>> : a \in Letters, b \in Letters} \cup {<<0, 1, 1>>, <<1, 0, 1>>}
MatchArgs == {<<<<0>>, <<15>>>>, <<<<0, 1>>, <<15, 15>>>>, <<<<1>>, <<1>>>>, <<<<0, 0>>, <<0, 2>>>>,
              <<<<>>, <<>>>>, <<<<0, 1, 0>>, <<15, 1, 0>>>>}

\* last step of a behaviour: nothing happens (so that simulation emits exactly
\* the behaviour it walked, not every candidate last call)
Finish == /\ step = Depth /\ step' = Depth + 1
          /\ UNCHANGED <<areas, hs, str, fresh, last, mayChange, hist>>

CAlloc == step < Depth /\ On("alloc") /\ HasFree /\ \E p \in Pick(AllocPats) : Alloc(NewH, p, Pre)
CDup == step < Depth /\ \E h \in Live : On("dup") /\ HasFree /\ Dup(NewH, h)
CSplice == step < Depth /\ \E h \in Live : On("splice") /\ HasFree /\ \E off \in Offs(h), sz \in Szs(h) : InR(h, off, sz) /\ Splice(NewH, h, off, sz)
CSplit == step < Depth /\ \E h \in Live : On("split") /\ HasFree /\ \E off \in Offs(h) : Split(NewH, h, off)
CCopy == step < Depth /\ \E h \in Live : On("copy") /\ HasFree /\ \E sk \in Offs(h), sz \in Szs(h) : InC(h, sk, sz) /\ Copy(NewH, h, sk, sz, Pre)
CMerge == step < Depth /\ \E h \in Live : On("merge") /\ \E sk \in Offs(h), sz \in Szs(h) : InC(h, sk, sz) /\ Merge(h, sk, sz, Pre)
CAppend == step < Depth /\ \E h \in Live : On("append") /\ \E g \in Live \ {h} : AppendBlk(h, g)
CInsert == step < Depth /\ \E h \in Live : On("insert") /\ \E g \in Live \ {h}, off \in Offs(h) : Insert(h, off, g)
CDelete == step < Depth /\ \E h \in Live : On("delete") /\ \E off \in Offs(h), sz \in Szs(h) : InR(h, off, sz) /\ Delete(h, off, sz)
CTruncate == step < Depth /\ \E h \in Live : On("truncate") /\ \E t \in Starts(h) : Truncate(h, t)
CResize == step < Depth /\ \E h \in Live : On("resize") /\ \E sk \in Offs(h), sz \in Szs(h) : InRz(h, sk, sz) /\ Resize(h, sk, sz)
CPrepend == step < Depth /\ \E h \in Live : On("prepend") /\ \E k \in Pick(0..(Pre + 1)) : Prepend(h, k)
CWmap == step < Depth /\ \E h \in Live : On("wmap") /\ \E off \in Offs(h), gr \in BOOLEAN : Write("wmap", h, off, 0, gr)
CPoke == step < Depth /\ \E h \in Live : On("poke") /\ \E off \in Offs(h), v \in Pick(Letters), gr \in BOOLEAN : Write("poke", h, off, v, gr)
CFree == step < Depth /\ \E h \in Live : On("free") /\ Free(h)
CSize == step < Depth /\ \E h \in Live : ObsOn("size") /\ ObsSize(h)
CRange == step < Depth /\ \E h \in Live : \E op \in {"read", "peek", "extract", "iovec"} :
            ObsOn(op) /\ \E off \in Offs(h), sz \in Szs(h) : InR(h, off, sz) /\ ObsRange(op, h, off, sz)
CRd1 == step < Depth /\ \E h \in Live : ObsOn("rd1") /\ \E off \in Offs(h), sz \in Szs(h) : InR(h, off, sz) /\ ObsRd1(h, off, sz)
CSlin == step < Depth /\ \E h \in Live : ObsOn("slin") /\ \E off \in Offs(h) : ObsSlin(h, off)
CScan == step < Depth /\ \E h \in Live : ObsOn("scan") /\ \E st \in Starts(h), w \in Pick(Letters) : ObsScan(h, st, w)
CFind == step < Depth /\ \E h \in Live : ObsOn("find") /\ \E st \in Starts(h), ws \in Pick(FindWords) : ObsFind(h, st, ws)
CCompare == step < Depth /\ \E h \in Live : ObsOn("compare") /\ \E g \in Live, off \in Starts(h) : ObsCompare(h, off, g)
CEqual == step < Depth /\ \E h \in Live : ObsOn("equal") /\ \E g \in Live : ObsEqual(h, g)
CMatch == step < Depth /\ \E h \in Live : ObsOn("match") /\ \E fm \in Pick(MatchArgs) : ObsMatch(h, fm[1], fm[2])

Calls == CAlloc
         \/ CDup
         \/ CSplice
         \/ CSplit
         \/ CCopy
         \/ CMerge
         \/ CAppend
         \/ CInsert
         \/ CDelete
         \/ CTruncate
         \/ CResize
         \/ CPrepend
         \/ CWmap
         \/ CPoke
         \/ CFree
         \/ CSize
         \/ CRange
         \/ CRd1
         \/ CSlin
         \/ CScan
         \/ CFind
         \/ CCompare
         \/ CEqual
         \/ CMatch

\* initial states: some blocks already allocated (their alloc calls are in hist)
InitBlocks == CASE InitSet = "none" -> {<<>>}
                [] InitSet = "one"  -> {<<p>> : p \in AllocPats}
                [] InitSet = "two"  -> {<<p, q>> : p \in AllocPats, q \in AllocPats}
MCInit ==
  \E bl \in InitBlocks :
    LET H == 0..(Len(bl) - 1) IN
    /\ areas = [a \in H |-> Rep(Fill, Pre) \o bl[a + 1]]
    /\ hs = [h \in H |-> <<Win(h, Pre, Len(bl[h + 1]))>>]
    /\ str = [h \in H |-> bl[h + 1]]
    /\ fresh = H
    /\ last = Rec("init", <<>>, <<>>, <<>>, "ok", -1, <<>>, TRUE, TRUE, FALSE)
    /\ mayChange = {} /\ step = 0
    /\ hist = IF KeepHist
              THEN [i \in 1..Len(bl) |-> Rec("alloc", <<i - 1, Len(bl[i])>>, bl[i], <<>>, "ok", Pre,
                                             <<>>, TRUE, TRUE, FALSE)]
              ELSE <<>>

MCNext == CAlloc \/ CDup \/ CSplice \/ CSplit \/ CCopy \/ CMerge \/ CAppend \/ CInsert \/ CDelete \/ CTruncate \/ CResize \/ CPrepend \/ CWmap \/ CPoke \/ CFree \/ CSize \/ CRange \/ CRd1 \/ CSlin \/ CScan \/ CFind \/ CCompare \/ CEqual \/ CMatch \/ Finish
MCSpec == MCInit /\ [][MCNext]_vars

Bounded == \A h \in Live : Size(h) <= MaxLen /\ Len(hs[h]) <= MaxWins

NH == Cardinality(Handles)
Compact(r) == <<r.op, r.args, r.ib, r.ib2, r.res, r.n, r.b, r.nx, r.bx, r.u>>
Emit == step = Depth + 1 =>
  PrintT(<<"BEH", ToJson([hist |-> [i \in 1..Len(hist) |-> Compact(hist[i])],
                          fin |-> [i \in 1..NH |-> IF (i - 1) \in Live THEN str[i - 1] ELSE <<-1>>]])>>)
=============================================================================
