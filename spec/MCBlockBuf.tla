----------------------------- MODULE MCBlockBuf -----------------------------
(* Model-checking / behaviour-emitting driver for BlockBuf.tla (C02, C03). *)
EXTENDS BlockBuf, Json

CONSTANTS Pre,       \* room in front of freshly allocated data (manager prepend, align 0)
          MaxLen,    \* bound on the length of a block (state constraint)
          MaxWins,   \* bound on the number of windows of a handle (state constraint)
          Depth,     \* number of calls of a behaviour
          Ops,       \* names of the calls that are explored
          PatSet,    \* "small" | "c02" | "sim": contents of allocated blocks
          Letters,   \* octets used by poke / scan / find / match
          InitSet,   \* "none" | "one" | "two": blocks already allocated in the initial states
          ObsLast,   \* TRUE: observers only as the last call of a behaviour (exhaustive emission)
          Rand       \* TRUE (simulation only): offsets / sizes / octets are drawn at random
                     \* (3 out of 4 inside the block) instead of enumerated

AllocPats ==
  CASE PatSet = "small" -> {<<>>, <<0>>, <<0, 1>>, <<0, 1, 1>>}
    [] PatSet = "c02"   -> {<<0, 1>>, <<0, 1, 0>>}
    [] PatSet = "sim"   -> {<<>>, <<1>>, <<0, 1>>, <<0, 1, 2>>, <<0, 1, 2, 0>>, <<1, 1, 0, 2, 1>>, <<2, 0, 1, 1, 0, 2>>}

NewH == CHOOSE d \in Handles \ Live : \A e \in Handles \ Live : d <= e
HasFree == Live # Handles
Pick(S) == IF Rand THEN {RandomElement(S)} ELSE S
Inside(n) == IF n = 0 THEN {0} ELSE (-n)..(n - 1)
Offs(h) == IF Rand
           THEN {IF RandomElement(1..4) = 1 THEN RandomElement((-(Size(h) + 2))..(Size(h) + 2))
                                            ELSE RandomElement(Inside(Size(h)))}
           ELSE (-(Size(h) + 1))..(Size(h) + 1)
Szs(h) == IF Rand
          THEN {IF RandomElement(1..4) = 1 THEN RandomElement(-1..(Size(h) + 2))
                                           ELSE RandomElement(-1..((Size(h) + 1) \div 2))}
          ELSE -1..(Size(h) + 1)
Starts(h) == Pick(0..(Size(h) + 1))
On(op) == op \in Ops
ObsOn(op) == op \in Ops /\ (ObsLast => step = Depth - 1)
FindWords == {<<a, b>> : a \in Letters, b \in Letters} \cup {<<0, 1, 1>>, <<1, 0, 1>>}
MatchArgs == {<<<<0>>, <<15>>>>, <<<<0, 1>>, <<15, 15>>>>, <<<<1>>, <<1>>>>, <<<<0, 0>>, <<0, 2>>>>,
              <<<<>>, <<>>>>, <<<<0, 1, 0>>, <<15, 1, 0>>>>}

\* last step of a behaviour: nothing happens (so that simulation emits exactly
\* the behaviour it walked, not every candidate last call)
Finish == /\ step = Depth /\ step' = Depth + 1
          /\ UNCHANGED <<areas, hs, str, fresh, last, mayChange, hist>>

Calls ==
  /\ step < Depth
  /\ \/ On("alloc") /\ HasFree /\ \E p \in Pick(AllocPats) : Alloc(NewH, p, Pre)
     \/ \E h \in Live :
          \/ On("dup") /\ HasFree /\ Dup(NewH, h)
          \/ On("splice") /\ HasFree /\ \E off \in Offs(h), sz \in Szs(h) : Splice(NewH, h, off, sz)
          \/ On("split") /\ HasFree /\ \E off \in Offs(h) : Split(NewH, h, off)
          \/ On("copy") /\ HasFree /\ \E sk \in Offs(h), sz \in Szs(h) : Copy(NewH, h, sk, sz, Pre)
          \/ On("merge") /\ \E sk \in Offs(h), sz \in Szs(h) : Merge(h, sk, sz, Pre)
          \/ On("append") /\ \E g \in Live \ {h} : AppendBlk(h, g)
          \/ On("insert") /\ \E g \in Live \ {h}, off \in Offs(h) : Insert(h, off, g)
          \/ On("delete") /\ \E off \in Offs(h), sz \in Szs(h) : Delete(h, off, sz)
          \/ On("truncate") /\ \E t \in Starts(h) : Truncate(h, t)
          \/ On("resize") /\ \E sk \in Offs(h), sz \in Szs(h) : Resize(h, sk, sz)
          \/ On("prepend") /\ \E k \in Pick(0..(Pre + 1)) : Prepend(h, k)
          \/ On("wmap") /\ \E off \in Offs(h), gr \in BOOLEAN : Write("wmap", h, off, 0, gr)
          \/ On("poke") /\ \E off \in Offs(h), v \in Pick(Letters), gr \in BOOLEAN : Write("poke", h, off, v, gr)
          \/ On("free") /\ Free(h)
          \/ ObsOn("size") /\ ObsSize(h)
          \/ \E op \in {"read", "peek", "extract", "iovec"} :
                ObsOn(op) /\ \E off \in Offs(h), sz \in Szs(h) : ObsRange(op, h, off, sz)
          \/ ObsOn("rd1") /\ \E off \in Offs(h), sz \in Szs(h) : ObsRd1(h, off, sz)
          \/ ObsOn("slin") /\ \E off \in Offs(h) : ObsSlin(h, off)
          \/ ObsOn("scan") /\ \E st \in Starts(h), w \in Pick(Letters) : ObsScan(h, st, w)
          \/ ObsOn("find") /\ \E st \in Starts(h), ws \in Pick(FindWords) : ObsFind(h, st, ws)
          \/ ObsOn("compare") /\ \E g \in Live, off \in Starts(h) : ObsCompare(h, off, g)
          \/ ObsOn("equal") /\ \E g \in Live : ObsEqual(h, g)
          \/ ObsOn("match") /\ \E fm \in Pick(MatchArgs) : ObsMatch(h, fm[1], fm[2])

\* initial states: some blocks already allocated (their alloc calls are in hist)
InitBlocks == CASE InitSet = "none" -> {<<>>}
                [] InitSet = "one"  -> {<<p>> : p \in AllocPats}
                [] InitSet = "two"  -> {<<p, q>> : p \in AllocPats, q \in AllocPats}
MCInit ==
  \E bl \in InitBlocks :
    LET H == 0..(Len(bl) - 1) IN
    /\ areas = [a \in H |-> Rep(Fill, Pre) \o bl[a + 1]]
    /\ hs = [h \in H |-> <<Win(h, Pre, Len(bl[h + 1]))>>]
    /\ str = [h \in H |-> bl[h + 1]]
    /\ fresh = H
    /\ last = Rec("init", <<>>, <<>>, <<>>, "ok", -1, <<>>, TRUE, TRUE, FALSE)
    /\ mayChange = {} /\ step = 0
    /\ hist = IF KeepHist
              THEN [i \in 1..Len(bl) |-> Rec("alloc", <<i - 1, Len(bl[i])>>, bl[i], <<>>, "ok", Pre,
                                             <<>>, TRUE, TRUE, FALSE)]
              ELSE <<>>

MCNext == Calls \/ Finish
MCSpec == MCInit /\ [][MCNext]_vars

Bounded == \A h \in Live : Size(h) <= MaxLen /\ Len(hs[h]) <= MaxWins

NH == Cardinality(Handles)
Emit == step = Depth + 1 =>
  PrintT(<<"BEH", ToJson([hist |-> hist,
                          fin |-> [i \in 1..NH |-> IF (i - 1) \in Live THEN str[i - 1] ELSE <<-1>>]])>>)
=============================================================================
