SPECIFICATION Spec
CONSTANTS
  NP = 1
  NS = 2
  Variant = "no_reset_on_flow_change"
  EmitEdges = FALSE
  OptModes = {TRUE, FALSE}
VIEW View
INVARIANTS TypeOK ReadyFirst DeadOnce DeadLast FlowDefBeforeData NoDataWhileRejected
CHECK_DEADLOCK FALSE
