-------------------------- MODULE MCPsiSectionsRoute --------------------------
(* Model-checking wrapper of PsiSectionsRoute: palettes of sections and of  *)
(* filters (cfg files cannot hold records or tuples).                       *)
EXTENDS PsiSectionsRoute

D(k, len, tid, syn) == [k |-> k, len |-> len, tid |-> tid, syn |-> syn, ff |-> 0, bad |-> 0]
\* header only; short syntax; long syntax at its minimum; the 1024+3 octets
\* around the limit of the non-private tables; the private maximum
SecsS == {D(1, 3, 65, 0), D(2, 9, 66, 0), D(3, 12, 66, 1), D(4, 1027, 65, 0), D(5, 4096, 81, 1)}

F(id, fb, mb) == [id |-> id, n |-> Len(fb), fb |-> fb, mb |-> mb]
S3 == D(3, 12, 66, 1)
FilsS == { F(1, <<65>>, <<255>>),                      \* table_id = 0x41
           F(2, <<66, 128>>, <<255, 128>>),            \* table_id = 0x42 and long syntax
           F(3, <<0, 0, 0>>, <<0, 0, 0>>),             \* every section
           F(4, <<1>>, <<15>>),                        \* low nibble of table_id = 1 (0x41, 0x51)
           F(5, <<65>>, <<15>>),                       \* filter bits outside the mask: unspecified
           \* PSI_HEADER_SIZE_SYNTAX1 octets: table_id, syntax, table_id_extension of section 3
           F(6, <<66, 128, 0, ByteAt(S3, 3), ByteAt(S3, 4), 0, 0, 0>>, <<255, 128, 0, 255, 255, 0, 0, 0>>) }
FilsTiny == {f \in FilsS : f.id \in {1, 2, 3, 6}}
SecsTiny == {d \in SecsS : d.k \in {1, 2, 3}}
=============================================================================
