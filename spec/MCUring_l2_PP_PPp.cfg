SPECIFICATION Spec
CONSTANTS
  N = 2
  Kind = "lifo"
  Prog <- P_PP_PPp
  HeadCmp = "tagindex"
INVARIANT NoErr StructureOK TypeOK
VIEW view
CHECK_DEADLOCK FALSE
