SPECIFICATION Spec
CONSTANTS
  TopoName = "qs"
  Variant = "ok"
  QLen = 1
  MaxHeld = 2
  MaxCmds = 5
  MinCmds = 0
  EmitBeh = TRUE
INVARIANTS RcIsHolders DestroyOnce NoUseAfterDestroy QuiescentClean Sane Emit
POSTCONDITION Cov
CHECK_DEADLOCK FALSE
