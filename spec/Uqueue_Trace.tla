---------------------------- MODULE Uqueue_Trace ----------------------------
(***************************************************************************)
(* C08 - abstract specification of the event-driven bounded queue and      *)
(* validation of traces recorded from the real uqueue (real eventfds)      *)
(* under the deterministic scheduler (harness/sched_uqueue.c).             *)
(*                                                                         *)
(* Events in real-time order:                                              *)
(*   Reset(L, npush)     new queue of length L; producer p sends npush[p]  *)
(*   PushInv(t,v) PushRet(t,ok)   a call of uqueue_push                    *)
(*   PopInv(t)    PopRet(t,v)     a call of uqueue_pop (v = 0: nothing)    *)
(*   Sleep(t) Wake(t)    t returns to its event loop / is dispatched       *)
(*   Quiescent           the scheduler found no runnable thread: every     *)
(*                       thread is finished or asleep on a descriptor      *)
(*                       that is not readable                              *)
(* Properties judged on the real code:                                     *)
(*   Occupancy     the queue never holds more than L elements              *)
(*   NoLostWakeup  Quiescent only when nothing could make progress: every  *)
(*                 producer has delivered everything and the queue is      *)
(*                 empty (a consumer is always present)                    *)
(*   NoInvention   popped values were pushed, each at most once            *)
(***************************************************************************)
EXTENDS Naturals, Integers, Sequences, FiniteSets, TLC, Json, IOUtils

Tr == ndJsonDeserialize(IOEnv.TRACE)
Threads == 0..7
VARIABLES l, L, left, pushedOk, poppedOk, popsInProg, sent, got, asleep,
          skip, cur, bad      \* single-pass validation: rejected executions are recorded and skipped
st == <<L, left, pushedOk, poppedOk, popsInProg, sent, got, asleep>>
vars == <<l, st, skip, cur, bad>>

\* guard and effect of each event --------------------------------------------
Guard(ev) ==
  CASE ev.e = "PushInv" -> ev.t \notin asleep
    [] ev.e = "PushRet" -> (ev.ok => pushedOk + 1 - poppedOk - popsInProg <= L)          \* Occupancy
    [] ev.e = "PopInv" -> ev.t \notin asleep
    [] ev.e = "PopRet" -> (ev.v # 0 => (ev.v \in sent /\ ev.v \notin got))               \* NoInvention / no duplicate
    [] ev.e = "Sleep" -> TRUE
    [] ev.e = "Step" -> TRUE        \* a scheduling step of the harness (used by UqueueDet_Trace only)
    [] ev.e = "Wake" -> ev.t \in asleep
    [] ev.e = "Quiescent" -> /\ \A t \in Threads : left[t] = 0                           \* NoLostWakeup
                             /\ pushedOk = poppedOk /\ popsInProg = 0
    [] OTHER -> FALSE                                                                    \* Hang, Crash, unknown

Effect(ev) ==
  CASE ev.e = "PushInv" -> sent' = sent \cup {ev.v} /\ UNCHANGED <<L, left, pushedOk, poppedOk, popsInProg, got, asleep>>
    [] ev.e = "PushRet" -> /\ IF ev.ok THEN pushedOk' = pushedOk + 1 /\ left' = [left EXCEPT ![ev.t] = @ - 1]
                                       ELSE UNCHANGED <<pushedOk, left>>
                           /\ UNCHANGED <<L, poppedOk, popsInProg, sent, got, asleep>>
    [] ev.e = "PopInv" -> popsInProg' = popsInProg + 1 /\ UNCHANGED <<L, left, pushedOk, poppedOk, sent, got, asleep>>
    [] ev.e = "PopRet" -> /\ popsInProg' = popsInProg - 1
                          /\ IF ev.v # 0 THEN got' = got \cup {ev.v} /\ poppedOk' = poppedOk + 1
                                         ELSE UNCHANGED <<got, poppedOk>>
                          /\ UNCHANGED <<L, left, pushedOk, sent, asleep>>
    [] ev.e = "Sleep" -> asleep' = asleep \cup {ev.t} /\ UNCHANGED <<L, left, pushedOk, poppedOk, popsInProg, sent, got>>
    [] ev.e = "Wake" -> asleep' = asleep \ {ev.t} /\ UNCHANGED <<L, left, pushedOk, poppedOk, popsInProg, sent, got>>
    [] OTHER -> UNCHANGED st

TStep ==
  /\ l <= Len(Tr) /\ l' = l + 1
  /\ LET ev == Tr[l] IN
     IF ev.e = "Reset"
     THEN /\ L' = ev.L
          /\ left' = [t \in Threads |-> IF t < Len(ev.npush) THEN ev.npush[t + 1] ELSE 0]
          /\ pushedOk' = 0 /\ poppedOk' = 0 /\ popsInProg' = 0
          /\ sent' = {} /\ got' = {} /\ asleep' = {}
          /\ skip' = FALSE /\ cur' = ev.hid /\ bad' = bad
     ELSE IF skip THEN UNCHANGED <<st, skip, cur, bad>>
     ELSE IF Guard(ev) THEN Effect(ev) /\ UNCHANGED <<skip, cur, bad>>
     ELSE skip' = TRUE /\ bad' = bad \cup {<<cur, l>>} /\ UNCHANGED <<st, cur>>

TInit == /\ l = 1 /\ L = 1 /\ left = [t \in Threads |-> 0] /\ pushedOk = 0 /\ poppedOk = 0
         /\ popsInProg = 0 /\ sent = {} /\ got = {} /\ asleep = {}
         /\ skip = FALSE /\ cur = 0 /\ bad = {}
TNext == TStep
TSpec == TInit /\ [][TNext]_vars

Occupancy == pushedOk - poppedOk - popsInProg <= L
\* the whole file is always consumed; rejected executions are listed in bad
Report == (l = Len(Tr) + 1) => PrintT(<<"TRACE_BAD", bad>>)
Accepted == LET d == TLCGet("stats").diameter IN
            IF d - 1 = Len(Tr) THEN PrintT(<<"TRACE_ACCEPTED", Len(Tr)>>)
                               ELSE PrintT(<<"TRACE_REJECTED_AT", d>>)
=============================================================================
