SPECIFICATION Spec
CONSTANTS
  L = 1
  NPush <- N_2
  NCons = 1
  Drain = FALSE
  M = 8
  Variant = "nodoublecheck"
INVARIANT Occupancy NoLostWakeup

VIEW view
CHECK_DEADLOCK FALSE
