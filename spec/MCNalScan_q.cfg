\* quick: every string over {0,1,2} up to 5 octets that does not begin with 00 00 01, every cutting; emits BEH lines
SPECIFICATION Spec
CONSTANTS
  Variant = "ok"
  Alphabet = {0, 1, 2}
  MaxLen = 5
  NoLead3 = TRUE
INVARIANT Emit TypeOK ChunkInvariant Monotone NoTrap
VIEW View
CHECK_DEADLOCK FALSE
