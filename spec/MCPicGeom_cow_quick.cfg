\* content and copy-on-write (cow_quick): two handles; alloc / dup / free / resize / fill / map r,w / check
CONSTANTS
  Geos <- GS_cow_quick
  Handles = {0, 1}
  MaxOps = 5
  MaxResize = 2
  Variant = "none"
  Record = FALSE
SPECIFICATION Spec
VIEW View
INVARIANT WindowsInCanvas Inside InjectiveMap CanvasInjective GranularityP MapIsWindowCell AllocGranular WriteOnlySingle DupSees
PROPERTY CropPreserves Isolation StructuralOpsDontWrite
CHECK_DEADLOCK FALSE
