INIT TInit
NEXT TNext
INVARIANT TExactlyOnce
INVARIANT TInOrder
INVARIANT TContent
INVARIANT TDupAll
INVARIANT TNoLeak
POSTCONDITION Accepted
CHECK_DEADLOCK FALSE
