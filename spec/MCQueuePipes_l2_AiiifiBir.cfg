SPECIFICATION Spec
CONSTANTS
  L = 2
  Prog <- P_AiiifiBir
  FreeLen = 0
  Variant = "code"
INVARIANT InOrderOnce FlowDefFirst HoldNotDrop SourceEndLast 
VIEW view
CHECK_DEADLOCK FALSE
