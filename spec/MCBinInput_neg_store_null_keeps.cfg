SPECIFICATION Spec
CONSTANTS
  Reqs = {"r0", "r1"}
  Inners = {"i0", "i1"}
  AnsChoices = {{}, {"i1"}}
  ProbeChoices = {TRUE, FALSE}
  Variant = "store_null_keeps"
  MaxSteps = 9
INVARIANTS TypeOK Placement NoDeadWithRegs
PROPERTY NoStaleAnswer
CHECK_DEADLOCK FALSE
