\* joiner, -simulate: <= 6 additions/releases, 5 sections
SPECIFICATION Spec
CONSTANTS
  Mode = "J"
  Variant = "ok"
  SecPal <- SecsS
  FilPal <- FilsTiny
  Ports = {1, 2, 3}
  MaxOps = 6
  MaxIn = 5
  Record = TRUE
INVARIANT JoinForward Emit
CHECK_DEADLOCK FALSE
