SPECIFICATION Spec
CONSTANTS
  ProgA <- P_two
  WRelAt = 1
  Variant = "code"
INVARIANT CmdInOrderOnce EventsInOrder AllExecuted 
VIEW view
CHECK_DEADLOCK FALSE
