---------------------------- MODULE PipeLifeMon ----------------------------
(***************************************************************************)
(* C04 - pipes announce themselves, negotiate the flow, then send data.    *)
(*                                                                         *)
(* The ABSTRACT layer: what the statement says about the ordered sequence  *)
(* of observable occurrences around pipes under test and the recording     *)
(* sinks connected to their outputs, written as a monitor: a state m and a *)
(* total function MonStep(m, ev).  Nothing here depends on how a pipe is   *)
(* implemented.  The five sentences of the statement are the five names    *)
(* that can enter m.bad; the properties are "name \notin m.bad".           *)
(*                                                                         *)
(*   ReadyFirst           a pipe's first event other than a log message is *)
(*                        'ready'                                          *)
(*   DeadOnce             'dead' is thrown at most once; and (End) a pipe  *)
(*                        that was released by its only owner and whose    *)
(*                        type does not defer its destruction has thrown it*)
(*   DeadLast             after 'dead': no event of that pipe of ANY kind  *)
(*                        (log included), no set_flow_def / input /        *)
(*                        register_request / other control from it on the  *)
(*                        sink connected to its output                     *)
(*   FlowDefBeforeData    a buffer reaches a sink only if that sink has    *)
(*                        accepted the pipe's current flow definition      *)
(*                        since it was connected and since the flow        *)
(*                        definition last changed; and a buffer that says  *)
(*                        which flow it belongs to (fields fl, now, below) *)
(*                        and whose flow is still the one set on the input *)
(*                        only if the sink has accepted a definition of    *)
(*                        that flow since it was connected                 *)
(*   NoDataWhileRejected  no buffer reaches a sink whose last answer to    *)
(*                        this pipe's flow definition was a refusal        *)
(*                                                                         *)
(* Deliberately permissive where the statement is silent (DESIGN.md 6):    *)
(* log messages before 'ready'; a second 'ready'; after 'dead' a pipe may  *)
(* still unregister requests on its output and release references; a flow  *)
(* definition is "changed" only when the pipe says so (new_flow_def, or a  *)
(* different answer to get_flow_def; an equal dictionary is not a change); *)
(* setting the output that is already connected does not demand a new      *)
(* negotiation; occurrences on a sink that is not (or no longer) connected *)
(* to a pipe under test are ignored.                                       *)
(*                                                                         *)
(* Events (records; the model builds them with all fields - unused ones    *)
(* are 0 / "" / FALSE / <<>> - so that they can be mixed in one sequence;  *)
(* recorded traces carry only the fields that the event kind uses):        *)
(*   e = "New"     p                 allocation of pipe p begins           *)
(*       "Ev"      p k fd            event k of pipe p caught by its probe *)
(*                                   (k = "ready","dead","log",            *)
(*                                   "new_flow_def" with fd, or any other) *)
(*       "Out"     p s               output of p set to sink s (0 = none)  *)
(*                                   by the application or by a probe      *)
(*       "SinkFd"  s fd acc          sink s received set_flow_def(fd) and  *)
(*                                   accepted / refused it                 *)
(*                                   (fl = the identity of the flow that   *)
(*                                   this definition describes, "" = none  *)
(*                                   that the observer can name)           *)
(*       "SinkIn"  s fl now          sink s received a buffer (fl = the    *)
(*                                   identity of the flow that the buffer  *)
(*                                   belonged to when the application fed  *)
(*                                   it: the definition that its input     *)
(*                                   pipe had last accepted; "" = unknown: *)
(*                                   a buffer made by the pipe itself;     *)
(*                                   now = that definition is still the    *)
(*                                   last one the input pipe accepted)     *)
(*       "SinkReg" / "SinkCtl" s     register_request / other control      *)
(*       "SinkUnreg" s               unregister_request                    *)
(*       "GotFd"   p fd              upipe_get_flow_def(p) ("gets output   *)
(*                                   flow definition") answered fd ("none" *)
(*                                   = no flow definition); an observation *)
(*                                   chosen by the script like any command *)
(*       "Rel"     p                 the application released p            *)
(*       "End"     die               end of the execution: everything was  *)
(*                                   released, the loop has run; die = the *)
(*                                   pipes whose type destroys itself as   *)
(*                                   soon as nobody holds it               *)
(*       anything else               ("SetFd","In","Flush","Opt","Policy", *)
(*                                   "Loop","Drop",...) application side   *)
(*                                   commands: no effect on the monitor    *)
(***************************************************************************)
EXTENDS Naturals, Sequences, FiniteSets

CONSTANTS NP,   \* pipes under test are 1..NP
          NS    \* recording sinks are 1..NS

PipeIds == 1..NP
SinkIds == 1..NS

Props == {"ReadyFirst", "DeadOnce", "DeadLast", "FlowDefBeforeData", "NoDataWhileRejected"}

MonInit == [phase |-> [p \in PipeIds |-> "none"],   \* none, new, ready, dead
            conn  |-> [s \in SinkIds |-> 0],        \* pipe whose output is s
            link  |-> [s \in SinkIds |-> "none"],   \* none, ok, stale, rejected
            cur   |-> [p \in PipeIds |-> "?"],      \* flow definition last announced by p
            seen  |-> [s \in SinkIds |-> {}],       \* flows whose definition s accepted since it was connected
            bad   |-> {}]

Flag(m, prop) == [m EXCEPT !.bad = @ \cup {prop}]

\* ---- constructors -------------------------------------------------------
E(e, p, s, k, fd, acc, die) ==
  [e |-> e, p |-> p, s |-> s, k |-> k, fd |-> fd, acc |-> acc, die |-> die, fl |-> "", now |-> FALSE]
EvP(p, k, fd)       == E("Ev", p, 0, k, fd, FALSE, <<>>)
EvNew(p)            == E("New", p, 0, "", "", FALSE, <<>>)
EvOut(p, s)         == E("Out", p, s, "", "", FALSE, <<>>)
EvSinkFd(s, fd, a)  == [E("SinkFd", 0, s, "", fd, a, <<>>) EXCEPT !.fl = fd]
EvSinkIn(s, fl)     == [E("SinkIn", 0, s, "", "", FALSE, <<>>) EXCEPT !.fl = fl, !.now = TRUE]
EvGotFd(p, fd)      == E("GotFd", p, 0, "", fd, FALSE, <<>>)
EvRel(p)            == E("Rel", p, 0, "", "", FALSE, <<>>)
EvEnd(die)          == E("End", 0, 0, "", "", FALSE, die)
EvCmd(e, p, s)      == E(e, p, s, "", "", FALSE, <<>>)
EvDrop              == E("Drop", 0, 0, "", "", FALSE, <<>>)

\* ---- the monitor ----------------------------------------------------------
MonEv(m, p, k, fd) ==
  LET ph == m.phase[p] IN
  IF ph = "dead" THEN Flag(m, IF k = "dead" THEN "DeadOnce" ELSE "DeadLast")
  ELSE IF k = "log" THEN m
  ELSE IF k = "ready" THEN [m EXCEPT !.phase[p] = "ready"]
  ELSE LET m1 == IF ph # "ready" THEN Flag(m, "ReadyFirst") ELSE m IN
       CASE k = "dead" -> [m1 EXCEPT !.phase[p] = "dead"]
         [] k = "new_flow_def" ->
              [m1 EXCEPT !.cur[p] = fd,
                         !.link = [s \in SinkIds |-> IF m.conn[s] = p THEN "none" ELSE @[s]]]
         [] OTHER -> m1

\* the pipe reports an output flow definition that it never announced: the
\* flow definition has changed, the sinks must be told before the next buffer
MonGotFd(m, p, fd) ==
  IF fd = "none" \/ fd = m.cur[p] \/ m.phase[p] = "dead" THEN m
  ELSE [m EXCEPT !.cur[p] = fd,
                 !.link = [s \in SinkIds |-> IF m.conn[s] = p THEN "none" ELSE @[s]]]

MonOut(m, p, s) ==
  LET same == s # 0 /\ m.conn[s] = p IN
  [m EXCEPT !.conn = [t \in SinkIds |-> IF t = s THEN p ELSE IF @[t] = p THEN 0 ELSE @[t]],
            !.link = [t \in SinkIds |-> IF t = s THEN (IF same THEN @[t] ELSE "none")
                                        ELSE IF m.conn[t] = p THEN "none" ELSE @[t]],
            !.seen = [t \in SinkIds |-> IF t = s THEN (IF same THEN @[t] ELSE {})
                                        ELSE IF m.conn[t] = p THEN {} ELSE @[t]]]

\* the pipe that is talking to sink s, if it is one under test
Talker(m, s) == m.conn[s]

MonSinkFd(m, s, fd, acc, fl) ==
  LET p == Talker(m, s) IN
  IF p = 0 THEN m
  ELSE IF m.phase[p] = "dead" THEN Flag(m, "DeadLast")
  ELSE [m EXCEPT !.link[s] = IF ~acc THEN "rejected"
                             ELSE IF m.cur[p] = "?" \/ m.cur[p] = fd THEN "ok" ELSE "stale",
                 !.seen[s] = IF acc THEN @ \cup {fl} ELSE @]

\* A buffer of the flow that is set on the input RIGHT NOW, reaching a sink that
\* has not accepted a definition of that flow since it was connected, is read
\* with the wrong definition: the pipe changed flows without telling anybody.
\* Judged only when the observer can name the flows: the buffer carries an
\* identity and every definition that the sink accepted had one ("" = it cannot
\* - pipes that build their own buffers or their own definitions).  Buffers of
\* an OLDER flow (now = FALSE: the application has set another flow on the input
\* since it fed them) are not judged: pipes that hold, cut or gather buffers
\* present one definition at a time, the latest (DESIGN.md 6).
MonSinkIn(m, s, fl, now) ==
  LET p == Talker(m, s) IN
  IF p = 0 THEN m
  ELSE IF m.phase[p] = "dead" THEN Flag(m, "DeadLast")
  ELSE IF m.link[s] = "rejected" THEN Flag(m, "NoDataWhileRejected")
  ELSE IF m.link[s] # "ok" THEN Flag(m, "FlowDefBeforeData")
  ELSE IF now /\ fl # "" /\ "" \notin m.seen[s] /\ fl \notin m.seen[s] THEN Flag(m, "FlowDefBeforeData")
  ELSE m

MonSinkTouch(m, s) ==
  LET p == Talker(m, s) IN
  IF p # 0 /\ m.phase[p] = "dead" THEN Flag(m, "DeadLast") ELSE m

MonEnd(m, die) ==
  IF \E i \in DOMAIN die : die[i] \in PipeIds /\ m.phase[die[i]] \in {"new", "ready"}
  THEN Flag(m, "DeadOnce") ELSE m

MonStep(m, ev) ==
  CASE ev.e = "New"     -> [m EXCEPT !.phase[ev.p] = "new"]
    [] ev.e = "Ev"      -> MonEv(m, ev.p, ev.k, ev.fd)
    [] ev.e = "Out"     -> MonOut(m, ev.p, ev.s)
    [] ev.e = "GotFd"   -> MonGotFd(m, ev.p, ev.fd)
    [] ev.e = "SinkFd"  -> MonSinkFd(m, ev.s, ev.fd, ev.acc, ev.fl)
    [] ev.e = "SinkIn"  -> MonSinkIn(m, ev.s, ev.fl, ev.now)
    [] ev.e = "SinkReg" -> MonSinkTouch(m, ev.s)
    [] ev.e = "SinkCtl" -> MonSinkTouch(m, ev.s)
    [] ev.e = "End"     -> MonEnd(m, ev.die)
    [] OTHER            -> m

RECURSIVE MonRun(_, _)
MonRun(m, evs) == IF evs = <<>> THEN m ELSE MonRun(MonStep(m, Head(evs)), Tail(evs))
=============================================================================
