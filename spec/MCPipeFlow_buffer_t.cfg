SPECIFICATION Spec
CONSTANTS
 Setups <- S_buffer
 Acts <- A_buffer
 Bufs <- B_size
 MaxSteps = 9
 MaxIn = 4
 Variant = "ok"
 CheckEpi = TRUE
INVARIANT ExactlyOnce
INVARIANT InOrder
INVARIANT ContentOK
INVARIANT DupAll
INVARIANT NoLeak
INVARIANT EpilogueClean
INVARIANT DrainedOK
PROPERTY FlushFrees
VIEW view
CHECK_DEADLOCK FALSE
