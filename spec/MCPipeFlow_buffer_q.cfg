SPECIFICATION Spec
CONSTANTS
 Setups <- S_buffer
 Acts <- A_buffer
 Bufs <- B_size
 MaxSteps = 5
 MaxIn = 3
 Variant = "ok"
 CheckEpi = TRUE
INVARIANT ExactlyOnce
INVARIANT InOrder
INVARIANT ContentOK
INVARIANT DupAll
INVARIANT NoLeak
INVARIANT EpilogueClean
INVARIANT DrainedOK
PROPERTY FlushFrees
VIEW view
CHECK_DEADLOCK FALSE
