SPECIFICATION Spec
CONSTANTS
 Setups <- S_chain2
 Acts <- A_chain2
 Bufs <- B_size
 MaxSteps = 5
 MaxIn = 3
 Variant = "ok"
 CheckEpi = TRUE
INVARIANT ExactlyOnce
INVARIANT InOrder
INVARIANT ContentOK
INVARIANT DupAll
INVARIANT NoLeak
INVARIANT EpilogueClean
INVARIANT DrainedOK
PROPERTY FlushFrees
VIEW view
CHECK_DEADLOCK FALSE
