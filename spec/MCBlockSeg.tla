----------------------------- MODULE MCBlockSeg -----------------------------
(* Model-checking / behaviour-emitting driver for BlockSeg.tla (C03).      *)
EXTENDS BlockSeg, Json

CONSTANTS Pre,       \* room in front of freshly allocated data
          MaxLen, MaxWins, Depth,
          Ops,       \* calls explored
          Pats,      \* "a" | "b" | "c": contents of the blocks allocated in the initial states
          InitSet,   \* "one" | "two"
          ObsLast,   \* observers only as the last call of a behaviour
          Rand,      \* simulation: arguments drawn at random
          Dom        \* "all" | "in": "in" keeps offsets and sizes inside the block

AllocPats ==
  CASE Pats = "a" -> {<<0, 1>>, <<0, 1, 0>>}
    [] Pats = "b" -> {<<0>>, <<0, 1, 2>>}
    [] Pats = "c" -> {<<>>, <<1>>, <<0, 1>>, <<0, 1, 2>>, <<0, 1, 2, 0>>, <<1, 1, 0, 2, 1>>}

NewH == CHOOSE d \in Handles \ Live : \A e \in Handles \ Live : d <= e
HasFree == Live # Handles
Pick(S) == IF Rand THEN {RandomElement(S)} ELSE S
Inside(n) == IF n = 0 THEN {0} ELSE (-n)..(n - 1)
Offs(h) == IF Rand
           THEN {IF Dom = "all" /\ RandomElement(1..4) = 1
                 THEN RandomElement((-(Size(h) + 2))..(Size(h) + 2))
                 ELSE RandomElement(Inside(Size(h)))}
           ELSE IF Dom = "in" THEN Inside(Size(h)) ELSE (-(Size(h) + 1))..(Size(h) + 1)
Szs(h) == IF Rand
          THEN {IF Dom = "all" /\ RandomElement(1..4) = 1 THEN RandomElement(-1..(Size(h) + 2))
                                           ELSE RandomElement(-1..((Size(h) + 1) \div 2))}
          ELSE -1..(Size(h) + 1)
\* Dom = "in": only (offset, size) pairs that designate a range of the block
InR(h, off, sz) == Dom = "in" => RangeDom(Size(h), off, sz)
InRz(h, sk, sz) == Dom = "in" => ResizeDom(Size(h), sk, sz)
InC(h, sk, sz) == Dom = "in" => CopyDom(Size(h), sk, sz)
Starts(h) == Pick(0..(Size(h) + 1))
On(op) == op \in Ops
ObsOn(op) == op \in Ops /\ (ObsLast => step = Depth - 1)

Finish == /\ step = Depth /\ step' = Depth + 1
          /\ UNCHANGED <<areas, hs, str, fresh, last, mayChange, hist, meta, bad>>

CAlloc == step < Depth /\ On("alloc") /\ HasFree /\ \E p \in Pick(AllocPats) : SAlloc(NewH, p, Pre)
CDup == step < Depth /\ \E h \in Live : On("dup") /\ HasFree /\ SDup(NewH, h)
CSplice == step < Depth /\ \E h \in Live : On("splice") /\ HasFree /\ \E off \in Offs(h), sz \in Szs(h) : InR(h, off, sz) /\ SSplice(NewH, h, off, sz)
CSplit == step < Depth /\ \E h \in Live : On("split") /\ HasFree /\ \E off \in Offs(h) : SSplit(NewH, h, off)
CCopy == step < Depth /\ \E h \in Live : On("copy") /\ HasFree /\ \E sk \in Offs(h), sz \in Szs(h) : InC(h, sk, sz) /\ SCopy("copy", NewH, h, sk, sz, Pre)
CMerge == step < Depth /\ \E h \in Live : On("merge") /\ \E sk \in Offs(h), sz \in Szs(h) : InC(h, sk, sz) /\ SCopy("merge", h, h, sk, sz, Pre)
CAppend == step < Depth /\ \E h \in Live : On("append") /\ \E g \in Live \ {h} : SAppend(h, g)
CInsert == step < Depth /\ \E h \in Live : On("insert") /\ \E g \in Live \ {h}, off \in Offs(h) : SInsert(h, off, g)
CDelete == step < Depth /\ \E h \in Live : On("delete") /\ \E off \in Offs(h), sz \in Szs(h) : InR(h, off, sz) /\ SDelete(h, off, sz)
CTruncate == step < Depth /\ \E h \in Live : On("truncate") /\ \E t \in Starts(h) : STruncate(h, t)
CResize == step < Depth /\ \E h \in Live : On("resize") /\ \E sk \in Offs(h), sz \in Szs(h) : InRz(h, sk, sz) /\ SResize(h, sk, sz)
CPrepend == step < Depth /\ \E h \in Live : On("prepend") /\ \E k \in Pick(0..(Pre + 1)) : SPrepend(h, k)
CPoke == step < Depth /\ \E h \in Live : On("poke") /\ \E off \in Offs(h) : SWrite("poke", h, off, 3)
CFree == step < Depth /\ \E h \in Live : On("free") /\ SFree(h)
CSize == step < Depth /\ \E h \in Live : ObsOn("size") /\ SSize(h)
CRd1 == step < Depth /\ \E h \in Live : ObsOn("rd1") /\ \E off \in Offs(h), sz \in Pick({-1, 1, 2}) : InR(h, off, sz) /\ SRd1(h, off, sz)
CSlin == step < Depth /\ \E h \in Live : ObsOn("slin") /\ \E off \in Offs(h) : SSlin(h, off)
CExtract == step < Depth /\ \E h \in Live : ObsOn("extract") /\ \E off \in Offs(h), sz \in Szs(h) : InR(h, off, sz) /\ SExtract(h, off, sz)
CScan == step < Depth /\ \E h \in Live : ObsOn("scan") /\ \E st \in Starts(h), w \in Pick({0, 1}) : SScan(h, st, w)

Calls == CAlloc
         \/ CDup
         \/ CSplice
         \/ CSplit
         \/ CCopy
         \/ CMerge
         \/ CAppend
         \/ CInsert
         \/ CDelete
         \/ CTruncate
         \/ CResize
         \/ CPrepend
         \/ CPoke
         \/ CFree
         \/ CSize
         \/ CRd1
         \/ CSlin
         \/ CExtract
         \/ CScan

InitBlocks == CASE InitSet = "one" -> {<<p>> : p \in AllocPats}
                [] InitSet = "two" -> {<<p, q>> : p \in AllocPats, q \in AllocPats}
MCInit ==
  \E bl \in InitBlocks :
    LET H == 0..(Len(bl) - 1) IN
    /\ areas = [a \in H |-> Rep(Fill, Pre) \o bl[a + 1]]
    /\ hs = [h \in H |-> <<Win(h, Pre, Len(bl[h + 1]))>>]
    /\ str = [h \in H |-> bl[h + 1]]
    /\ meta = [h \in H |-> Meta0(Len(bl[h + 1]))]
    /\ fresh = H /\ bad = ""
    /\ last = Rec("init", <<>>, <<>>, <<>>, "ok", -1, <<>>, TRUE, TRUE, FALSE)
    /\ mayChange = {} /\ step = 0
    /\ hist = IF KeepHist
              THEN [i \in 1..Len(bl) |-> Rec("alloc", <<i - 1, Len(bl[i])>>, bl[i], <<>>, "ok", Pre,
                                             <<>>, TRUE, TRUE, FALSE)]
              ELSE <<>>

MCNext == CAlloc \/ CDup \/ CSplice \/ CSplit \/ CCopy \/ CMerge \/ CAppend \/ CInsert \/ CDelete \/ CTruncate \/ CResize \/ CPrepend \/ CPoke \/ CFree \/ CSize \/ CRd1 \/ CSlin \/ CExtract \/ CScan \/ Finish
MCSpec == MCInit /\ [][MCNext]_svars

Bounded == \A h \in Live : Size(h) <= MaxLen /\ Len(hs[h]) <= MaxWins

nview == <<areas, hs, str, fresh, meta, bad, step>>
NH == Cardinality(Handles)
Compact(r) == <<r.op, r.args, r.ib, r.ib2, r.res, r.n, r.b, r.nx, r.bx, r.u>>
Payload == [hist |-> [i \in 1..Len(hist) |-> Compact(hist[i])],
            fin |-> [i \in 1..NH |-> IF (i - 1) \in Live THEN str[i - 1] ELSE <<-1>>]]
Emit == step = Depth + 1 => PrintT(<<"BEH", ToJson(Payload)>>)
\* negative variants: print the behaviour that broke an observable requirement
\* (a ready-made test for the real code) and stop
NegEmit == bad # "" =>
  (PrintT(<<"CEX", ToJson([bad |-> bad, hist |-> [i \in 1..Len(hist) |-> Compact(hist[i])],
                           fin |-> [i \in 1..NH |-> <<-2>>]])>>) /\ FALSE)
=============================================================================
