----------------------------- MODULE Nal265Scan -----------------------------
(***************************************************************************)
(* C17 (stage 3) - the NAL boundaries the H.265 framer finds do not depend *)
(* on how the input is split into buffers.                                 *)
(*                                                                         *)
(* ABSTRACT.  Starts(s): the offsets of the NAL units of an Annex B octet  *)
(* string: every start code 00 00 01 that is followed by two octets (the   *)
(* NAL unit header of ITU-T H.265 7.3.1.2), with the zero octet before it  *)
(* if there is one.                                                        *)
(*                                                                         *)
(* DETAILED.  Transcription of                                             *)
(*   upipe_framers_mpeg_scan   (lib/upipe-framers/upipe_framers_common.c)  *)
(*   upipe_h265f_find and the offset bookkeeping of                        *)
(*   upipe_h265f_work_annexb   (lib/upipe-framers/upipe_h265_framer.c)     *)
(* over a stream that arrives in chunks (every chunk is one segment of the *)
(* block the framer scans).  What differs from the H.264 framer            *)
(* (NalScan.tla): one CALL of upipe_h265f_find is one step (it loops over  *)
(* the segments); a start code is reported only when the second octet of   *)
(* the header is there - otherwise the first header octet is given back to *)
(* the scanner (au_size - 1, scan context shifted right by one octet) and  *)
(* the call fails until more input arrives; the octet before the start     *)
(* code is p[-5] or the octet at au_size - 6 of the block.  work_annexb    *)
(* calls find until it fails, then waits for the next buffer.  TLC chooses *)
(* the chunk sizes lazily: all cuttings.                                   *)
(*   ChunkInvariant   at the end of the stream the offsets found are       *)
(*                    Starts(s) whatever the cutting                       *)
(*   Monotone         offsets are found in increasing order                *)
(*   NoTrap           au_size - start_size never wraps                     *)
(*                                                                         *)
(* Variant "ok"      the function with the guard `au_size < 6: there is no *)
(*                   octet before the start code'                          *)
(*   "lead"          the function as found in the tree: the octet `before' *)
(*                   a start code at offset 0 is fetched at offset -1,     *)
(*                   which counts from the END of the block                *)
(*   "neg_noback"    the first header octet is not given back              *)
(*   "neg_prev5"     previous octet fetched at au_size - 5 (the distance   *)
(*                   of the one-octet header of H.264)                     *)
(*   "neg_ctx"       scan context not carried from buffer to buffer        *)
(* Strings: Valid(s) - see below (the octets after a start code are a NAL   *)
(*   unit header).                                                         *)
(* NoLead3: TRUE = streams that begin with the 3-octet start code 00 00 01 *)
(*   are left out ("ok" and "lead" are then the same function).            *)
(* EmitMax: behaviours with at most this many chunks are printed (BEH).    *)
(***************************************************************************)
EXTENDS Naturals, Integers, Sequences, FiniteSets, TLC, Json

CONSTANTS Variant, Alphabet, MaxLen, NoLead3, EmitMax

VARIABLES s,        \* the whole stream
          fed,      \* octets given to the framer so far (end of the last chunk)
          au,       \* au_size: octets scanned so far
          ctx,      \* scan_context: the last four octets seen
          found,    \* offsets of the NAL units found
          cuts,     \* history: the chunk ends chosen
          calls,    \* history: every call of find: <<octets appended so far, result, au_size,
                    \*          scan context, start octet, previous octet>> (-1: not written)
          pend,     \* work_annexb has not yet seen find fail on the input so far
          phase,    \* "run" | "done" | "trap"
          acts      \* ghost: names of the actions taken (vacuity guard)
vars == <<s, fed, au, ctx, found, cuts, calls, pend, phase, acts>>

---------------------------------------------------------------------------
(* abstract *)
IsSc(bs, p) == bs[p] = 0 /\ bs[p + 1] = 0 /\ bs[p + 2] = 1
RECURSIVE ScanStarts(_, _)
ScanStarts(bs, p) ==
  IF p + 4 > Len(bs) THEN <<>>                      \* 00 00 01 and the two octets of the header
  ELSE IF IsSc(bs, p)
       THEN <<(IF p > 1 /\ bs[p - 1] = 0 THEN p - 2 ELSE p - 1)>> \o ScanStarts(bs, p + 5)
       ELSE ScanStarts(bs, p + 1)
Starts(bs) == ScanStarts(bs, 1)
(* the strings the statement speaks about: after a start code comes a NAL unit
   header (7.3.1.2) whose second octet is not zero (nuh_temporal_id_plus1 is
   not 0), and the payload of a NAL unit whose first header octet is 00
   (TRAIL_N, a slice segment) does not begin with 00 01 (the ue(v) code of
   slice_pic_parameter_set_id would have 14 leading zeros; the identifier is
   at most 63).  Outside these strings the framer - which does not pass the
   second header octet through the scanner - may see the header octet 00 and
   the payload octets 00 01 as a start code; nothing is claimed there. *)
RECURSIVE HeadersOK(_, _)
HeadersOK(bs, p) ==
  IF p + 4 > Len(bs) THEN TRUE
  ELSE IF IsSc(bs, p)
       THEN /\ bs[p + 4] # 0
            /\ ~(bs[p + 3] = 0 /\ p + 6 <= Len(bs) /\ bs[p + 5] = 0 /\ bs[p + 6] = 1)
            /\ HeadersOK(bs, p + 5)
       ELSE HeadersOK(bs, p + 1)
Valid(bs) == HeadersOK(bs, 1)

---------------------------------------------------------------------------
(* upipe_framers_mpeg_scan over buf (1-based sequence), context c (4 octets);
   returns the number p of octets consumed and the new context *)
Prologue == 3
RECURSIVE Pro(_, _, _, _)
Pro(buf, c, p, i) ==        \* the for loop: i octets still to do
  IF i = 0 THEN [p |-> p, c |-> c, ret |-> FALSE]
  ELSE LET hit == c[2] = 0 /\ c[3] = 0 /\ c[4] = 1         \* tmp == 0x100
           c1  == <<c[2], c[3], c[4], buf[p + 1]>>
       IN IF hit \/ p + 1 = Len(buf) THEN [p |-> p + 1, c |-> c1, ret |-> TRUE]
          ELSE Pro(buf, c1, p + 1, i - 1)
RECURSIVE Skip(_, _)
Skip(buf, p) ==             \* the while loop; buf[p] is p[-1]
  IF p >= Len(buf) THEN p
  ELSE IF buf[p] > 1 THEN Skip(buf, p + 3)
  ELSE IF buf[p - 1] # 0 THEN Skip(buf, p + 2)
  ELSE IF buf[p - 2] # 0 \/ buf[p] # 1 THEN Skip(buf, p + 1)
  ELSE p + 1
Scan(buf, c) ==
  LET a == Pro(buf, c, 0, Prologue) IN
  IF a.ret THEN [p |-> a.p, c |-> a.c]
  ELSE LET q == Skip(buf, a.p)
           p == IF q > Len(buf) THEN Len(buf) ELSE q
       IN [p |-> p, c |-> <<buf[p - 3], buf[p - 2], buf[p - 1], buf[p]>>]

---------------------------------------------------------------------------
Strings == UNION {[1..n -> Alphabet] : n \in 1..MaxLen}
Lead3(x) == Len(x) >= 3 /\ x[1] = 0 /\ x[2] = 0 /\ x[3] = 1
Init == /\ s \in Strings /\ Valid(s) /\ (NoLead3 => ~Lead3(s))
        /\ fed = 0 /\ au = 0 /\ ctx = <<255, 255, 255, 255>> /\ found = <<>> /\ cuts = <<>>
        /\ pend = FALSE /\ phase = "run" /\ acts = {} /\ calls = <<>>

\* a new input buffer arrives (upipe_h265f_append_uref_stream): work_annexb
\* will call find until it fails
Chunk(n) == /\ phase = "run" /\ ~pend /\ fed < Len(s) /\ n \in 1..(Len(s) - fed)
            /\ fed' = fed + n /\ cuts' = Append(cuts, fed + n) /\ pend' = TRUE
            /\ acts' = acts \cup {"Chunk"}
            /\ UNCHANGED <<s, au, ctx, found, calls, phase>>

\* end of the segment that holds offset a
SegEnd(a) == LET later == {i \in 1..Len(cuts) : cuts[i] > a} IN
             cuts[CHOOSE i \in later : \A j \in later : i <= j]
\* uref_block_extract(next_uref, x, 1, &prev): a negative offset counts from
\* the end of the block; 255 when there is no such octet
PrevFromBlock(x) == IF x >= 0 THEN s[x + 1]
                    ELSE IF Variant = "ok" THEN 255                 \* au_size < 6: not fetched
                    ELSE IF fed + x >= 0 THEN s[fed + x + 1]
                    ELSE 255
\* one call of upipe_h265f_find, from au_size = a with scan context c
RECURSIVE FindFrom(_, _)
FindFrom(a, c) ==
  IF a >= fed THEN [r |-> FALSE, au |-> a, c |-> c, start |-> -1, prev |-> -1, back |-> FALSE]
  ELSE LET end == SegEnd(a)
           buf == SubSeq(s, a + 1, end)
           r   == Scan(buf, IF Variant = "neg_ctx" THEN <<255, 255, 255, 255>> ELSE c)
           hit == r.c[1] = 0 /\ r.c[2] = 0 /\ r.c[3] = 1        \* (ctx & 0xffffff00) == 0x100
           a1  == a + r.p
       IN IF ~hit THEN FindFrom(end, r.c)
          ELSE IF a1 >= fed                 \* the second octet of the header has not arrived
               THEN IF Variant = "neg_noback"
                    THEN [r |-> FALSE, au |-> a1, c |-> r.c, start |-> -1, prev |-> -1, back |-> TRUE]
                    ELSE [r |-> FALSE, au |-> a1 - 1, c |-> <<0, r.c[1], r.c[2], r.c[3]>>,
                          start |-> -1, prev |-> -1, back |-> TRUE]
               ELSE LET a2 == a1 + 1
                        d  == IF Variant = "neg_prev5" THEN 5 ELSE 6
                        pv == IF r.p <= 6 THEN PrevFromBlock(a2 - d)     \* fetched from the block
                              ELSE buf[r.p - 4]                          \* p[-5]
                    IN [r |-> TRUE, au |-> a2, c |-> r.c, start |-> r.c[4], prev |-> pv, back |-> FALSE]
Call == FindFrom(au, ctx)
Rec(f) == <<fed, IF f.r THEN 1 ELSE 0, f.au, f.c, f.start, f.prev>>

\* find succeeds: the bookkeeping of work_annexb (au_size -= start_size; the
\* offset of the NAL unit; au_size += start_size)
FindHit == /\ phase = "run" /\ pend /\ Call.r
           /\ LET f == Call  ssz == IF f.prev = 0 THEN 6 ELSE 5 IN
              /\ IF f.au - ssz < 0 THEN phase' = "trap" /\ found' = found    \* au_size wraps
                 ELSE phase' = phase /\ found' = Append(found, f.au - ssz)
              /\ au' = f.au /\ ctx' = f.c /\ calls' = Append(calls, Rec(f))
           /\ acts' = acts \cup {"FindHit"}
           /\ UNCHANGED <<s, fed, cuts, pend>>
\* find fails: work_annexb waits for the next buffer
FindMiss == /\ phase = "run" /\ pend /\ ~Call.r
            /\ au' = Call.au /\ ctx' = Call.c /\ calls' = Append(calls, Rec(Call))
            /\ pend' = FALSE
            /\ acts' = acts \cup {IF Call.back THEN "GiveBack" ELSE "FindMiss"}
            /\ UNCHANGED <<s, fed, found, cuts, phase>>
Finish == /\ phase = "run" /\ ~pend /\ fed = Len(s)
          /\ phase' = "done" /\ acts' = acts \cup {"Finish"}
          /\ UNCHANGED <<s, fed, au, ctx, found, cuts, calls, pend>>

Next == (\E n \in 1..MaxLen : Chunk(n)) \/ FindHit \/ FindMiss \/ Finish
Spec == Init /\ [][Next]_vars
\* the ghost variables acts and calls are functions of the rest (the path is in cuts)
View == <<s, fed, au, ctx, found, cuts, pend, phase>>

---------------------------------------------------------------------------
ChunkInvariant == phase = "done" => found = Starts(s)
Monotone == \A i \in 1..(Len(found) - 1) : found[i] < found[i + 1]
NoTrap == phase # "trap"
TypeOK == phase \in {"run", "done", "trap"} /\ au <= fed /\ fed <= Len(s)

Beh == [stream |-> s, cuts |-> cuts, starts |-> found, calls |-> calls, acts |-> acts]
Emit == (phase = "done" /\ Len(cuts) <= EmitMax) => PrintT(<<"BEH", ToJson(Beh)>>)
EmitCex == (phase = "trap" \/ (phase = "done" /\ found # Starts(s))) => PrintT(<<"CEX", ToJson(Beh)>>)
=============================================================================
