----------------------------- MODULE Udeal_Trace -----------------------------
(***************************************************************************)
(* C08 - abstract specification of the exclusive-access dealer and          *)
(* single-pass validation of traces recorded from the real udeal            *)
(* (harness/sched_udeal.c).  Events: Reset(nt, rounds), Start(t), Enter(t), *)
(* Leave(t), Sleep(t), Wake(t), GrabFail(t), Abort(t) (a contender that is  *)
(* waiting gives up: udeal_abort), Quiescent.                               *)
(*   Mutex          Enter only when nobody holds                            *)
(*   NoLostHandOver Quiescent (nobody runnable) only when every contender   *)
(*                  has completed all its rounds                            *)
(***************************************************************************)
EXTENDS Naturals, Sequences, FiniteSets, TLC, Json, IOUtils
Tr == ndJsonDeserialize(IOEnv.TRACE)
Threads == 0..7
VARIABLES l, holder, todo, waiting, skip, cur, bad
st == <<holder, todo, waiting>>
vars == <<l, st, skip, cur, bad>>
None == 99

Guard(ev) ==
  CASE ev.e = "Start" -> todo[ev.t] > 0 /\ ev.t \notin waiting
    [] ev.e = "Enter" -> holder = None /\ ev.t \in waiting          \* Mutex
    [] ev.e = "Leave" -> holder = ev.t
    [] ev.e = "Sleep" -> TRUE
    [] ev.e = "Wake" -> ev.t \in waiting
    [] ev.e = "GrabFail" -> ev.t \in waiting
    [] ev.e = "Abort" -> ev.t \in waiting
    [] ev.e = "Quiescent" -> holder = None /\ waiting = {} /\ \A t \in Threads : todo[t] = 0
    [] OTHER -> FALSE
Effect(ev) ==
  CASE ev.e = "Start" -> waiting' = waiting \cup {ev.t} /\ UNCHANGED <<holder, todo>>
    [] ev.e = "Enter" -> holder' = ev.t /\ waiting' = waiting \ {ev.t} /\ UNCHANGED todo
    [] ev.e = "Leave" -> holder' = None /\ todo' = [todo EXCEPT ![ev.t] = @ - 1] /\ UNCHANGED waiting
    [] ev.e = "Abort" -> waiting' = waiting \ {ev.t} /\ todo' = [todo EXCEPT ![ev.t] = @ - 1] /\ UNCHANGED holder
    [] OTHER -> UNCHANGED st

TStep ==
  /\ l <= Len(Tr) /\ l' = l + 1
  /\ LET ev == Tr[l] IN
     IF ev.e = "Reset"
     THEN /\ holder' = None /\ waiting' = {}
          /\ todo' = [t \in Threads |-> IF t < ev.nt THEN ev.rounds ELSE 0]
          /\ skip' = FALSE /\ cur' = ev.hid /\ bad' = bad
     ELSE IF skip THEN UNCHANGED <<st, skip, cur, bad>>
     ELSE IF Guard(ev) THEN Effect(ev) /\ UNCHANGED <<skip, cur, bad>>
     ELSE skip' = TRUE /\ bad' = bad \cup {<<cur, l>>} /\ UNCHANGED <<st, cur>>
TInit == l = 1 /\ holder = None /\ todo = [t \in Threads |-> 0] /\ waiting = {} /\ skip = FALSE /\ cur = 0 /\ bad = {}
TSpec == TInit /\ [][TStep]_vars
Report == (l = Len(Tr) + 1) => PrintT(<<"TRACE_BAD", bad>>)
Accepted == LET d == TLCGet("stats").diameter IN
            IF d - 1 = Len(Tr) THEN PrintT(<<"TRACE_ACCEPTED", Len(Tr)>>)
                               ELSE PrintT(<<"TRACE_REJECTED_AT", d>>)
=============================================================================
