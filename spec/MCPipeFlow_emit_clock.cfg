SPECIFICATION Spec
CONSTANTS
 Setups <- S_clock
 Acts <- A_sync
 Bufs <- B_clk
 MaxSteps = 3
 MaxIn = 2
 Variant = "ok"
 CheckEpi = FALSE
INVARIANT Emit
CHECK_DEADLOCK FALSE
