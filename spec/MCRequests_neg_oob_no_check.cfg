\* C12 NEGATIVE: the queue sink delivers answers of requests that were unregistered meanwhile
SPECIFICATION Spec
CONSTANTS
  Scenarios <- ScnQuickQ
  Variant = "oob_no_check"
  EmitEdges = FALSE
  Idle = FALSE
  MaxGen = 2
  MaxChan = 2
  MaxPath = 0
CONSTRAINT Bound
VIEW ViewCore
INVARIANT TypeOK PathInv OneEntry
PROPERTY StepNoCallbackAfterUnregister StepNoSinkFreedWithRegs StepReachesProvide StepReachesRunA StepReachesProbe
CHECK_DEADLOCK FALSE
