\* NEGATIVE: only the first input is forwarded: TLC must reject
SPECIFICATION Spec
CONSTANTS
  Mode = "J"
  Variant = "neg_joinfirst"
  SecPal <- SecsTiny
  FilPal <- FilsTiny
  Ports = {1, 2, 3}
  MaxOps = 3
  MaxIn = 1
  Record = TRUE
INVARIANT EmitBad JoinForward
CHECK_DEADLOCK FALSE
