\* quick: the four pipes, every stream and every cutting within the bounds; twin runs with two arbitrary cuttings
SPECIFICATION Spec
CONSTANTS
  ModeSet = {"agg", "chunk", "sync", "check"}
  AggMtuSet = {3, 4}
  InSizeSet = {0, 2}
  ChunkMtuSet = {3, 5}
  AlignSet = {1, 2, 3}
  PSizeSet = {3}
  NSyncSet = {2}
  CheckPSizeSet = {2, 3}
  LenAgg = 9
  LenChunk = 10
  LenSync = 6
  LenCheck = 5
  BufAgg = 5
  BufOther = 99
  MaxEmpty = 1
  MaxDisc = 0
  Twin = "free"
  EarlyB = FALSE
  Variant = "ok"
VIEW View
INVARIANT Subsequence WholePackets Conservation UnitSize CutInvariance ReleaseTerminates AggSane NoOverrun UnitsAreSlices FlushHeadSync
CHECK_DEADLOCK FALSE
