SPECIFICATION Spec
CONSTANTS
  Mode = "R"
  Variant = "ok"
  MaxPkts = 0
  Pays = {}
  AfKinds = {}
  Deltas = {1}
  FirstCcs = {14}
  MaxAus = 2
  AuSizes = {174, 360}
  TsKs = {"none", "pts", "both"}
  Stamps = {13}
  Gaps = {3}
  FlagKinds = {"-", "rd"}
  Pads = {FALSE, TRUE}
  Cuts = {}
  HdrPads = {0}
  MayLose = FALSE
  Scale = 3
  Mod = 4
  MaxDelay = 6
INVARIANT CcRuleEnc PacketizeOK RoundTrip InOrder Emit

CHECK_DEADLOCK FALSE
