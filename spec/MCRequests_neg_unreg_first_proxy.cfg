\* C12 NEGATIVE: unregister frees the first proxy of the list instead of the request's
SPECIFICATION Spec
CONSTANTS
  Scenarios <- ScnOnlyA
  Variant = "unreg_first_proxy"
  EmitEdges = FALSE
  Idle = FALSE
  MaxGen = 2
  MaxChan = 2
  MaxPath = 0
CONSTRAINT Bound
VIEW ViewCore
INVARIANT TypeOK PathInv OneEntry
PROPERTY StepNoCallbackAfterUnregister StepNoSinkFreedWithRegs StepReachesProvide StepReachesRunA StepReachesProbe
CHECK_DEADLOCK FALSE
