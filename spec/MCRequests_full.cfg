\* C12: queue scenario T (out-of-band queues of one message): registrations and unregistrations refused by a full queue
SPECIFICATION Spec
CONSTANTS
  Scenarios <- ScnFull
  Variant = "ok"
  EmitEdges = FALSE
  Idle = FALSE
  MaxGen = 2
  MaxChan = 2
  MaxPath = 0
CONSTRAINT Bound
VIEW ViewCore
INVARIANT TypeOK PathInv OneEntry
PROPERTY StepNoCallbackAfterUnregister StepNoSinkFreedWithRegs StepReachesProvide StepReachesRunA StepReachesProbe
CHECK_DEADLOCK FALSE
