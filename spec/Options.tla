------------------------------ MODULE Options ------------------------------
(***************************************************************************)
(* C20 - getters report what setters stored and do not change the pipe.    *)
(*                                                                         *)
(* ONE option of ONE pipe.  The statement has three sentences:             *)
(*   (1) a getter called after an accepted setter returns the value that   *)
(*       was set                                     -> GetReturnsLast     *)
(*   (2) a rejected setter leaves the previous value in force              *)
(*                                   -> GetReturnsLast + RejectNeutral     *)
(*   (3) calling a getter never alters what the pipe does next             *)
(*                                                   -> GetterNeutral      *)
(*                                                                         *)
(* What a pipe "does" is only observable through what it emits (buffers    *)
(* and flow definitions reaching the recording sink, events), and what it  *)
(* emits is an unknown function of its configuration.  The specification   *)
(* therefore never predicts an output: (2) and (3) are stated on a TWIN    *)
(* RUN inside one behaviour.  The same script of set / input commands is   *)
(* given to three pipes allocated the same way:                            *)
(*     run A  the whole script, getters included                           *)
(*     run B  the script without its getter calls                          *)
(*     run C  the script without its getter calls and without the setter   *)
(*            calls that were rejected                                     *)
(* and the logs of everything emitted must stay equal: A = B is (3),       *)
(* B = C is "the previous value stays in force" of (2).                    *)
(*                                                                         *)
(* ABSTRACT LAYER (what the verdicts are taken from; the only part         *)
(* Options_Trace uses): variables last, out, cmd and the action schemas    *)
(* ASet / AGet / AIn whose parameters are the OBSERVED results (return     *)
(* codes, value returned, lines emitted by each run).  Whether a setter    *)
(* accepts a value is the implementation's decision (the statement is      *)
(* silent): the schema takes the return code as it comes.  The value of a  *)
(* fresh pipe is whatever the first getter says (last = Unknown until      *)
(* then).                                                                  *)
(*                                                                         *)
(* MODEL LAYER (exhaustive TLC runs, behaviours for the replay): a pipe    *)
(* is a record [shown, used, aux]: the field the getter reads, the field   *)
(* the data path reads (one and the same in a correct pipe, two in the     *)
(* broken variants) and some internal data-path state (bytes buffered,     *)
(* packets counted) that inputs advance and an accepted setter resets.     *)
(* Variant = "ok" is the behaviour the statement asks for; the other       *)
(* variants are the slips a getter / setter pair can contain and are used  *)
(* by the negative configurations:                                         *)
(*   get_writes_option   the getter assigns the caller's variable to the   *)
(*                       option instead of the reverse (upipe_skip.c)      *)
(*   get_no_write        the getter returns success without writing        *)
(*   get_resets_aux      the getter returns the right value but disturbs   *)
(*                       the data path (flushes, restarts a counter)       *)
(*   reject_stores       a rejected setter has already stored the value    *)
(*   reject_stores_used  a rejected setter stored the value in the field   *)
(*                       the data path uses (the getter still looks right) *)
(*   accept_drops        the setter reports success and stores nothing     *)
(***************************************************************************)
EXTENDS Naturals, Sequences, FiniteSets, TLC, Json

CONSTANTS Acc,       \* values the setter accepts          (model layer)
          Rej,       \* values the setter rejects          (model layer)
          Default,   \* value of a freshly allocated pipe  (model layer)
          Garbage,   \* content of the caller's variable before the getter is called
          Unknown,   \* "nothing known / not applicable" in the value domain
          MaxLen,    \* commands per script                (model layer)
          MaxIn,     \* inputs per script                  (model layer)
          Variant,   \* "ok" or the name of a broken variant
          EmitBeh    \* TRUE: print every complete script with the predicted results

VARIABLES last,   \* the value in force according to the statement: last accepted one
          out,    \* [run -> sequence of everything the run has emitted]
          cmd,    \* the last command and its observed results
          pipe,   \* model layer: [run -> [shown, used, aux]]
          n, nin, \* model layer: commands / inputs so far
          hist    \* model layer: the script with the predicted results

avars == <<last, out, cmd>>
vars == <<last, out, cmd, pipe, n, nin, hist>>

Runs == {"A", "B", "C"}
NoOut == [r \in Runs |-> <<>>]
C0 == [op |-> "new", v |-> Unknown, k |-> 0, ret |-> 0, retb |-> 0, retc |-> 0,
       res |-> Unknown, exp |-> Unknown]

(* ------------------------------------------------------------------------ *)
(* abstract layer                                                           *)
(* ------------------------------------------------------------------------ *)
\* the setter was called with v on runs A and B (and on C iff A accepted it):
\* it returned ret / retb / retc (retc = 0 when not called) and the runs
\* emitted o[r] meanwhile
ASet(v, ret, retb, retc, o) ==
  /\ last' = IF ret = 0 THEN v ELSE last
  /\ out' = [r \in Runs |-> out[r] \o o[r]]
  /\ cmd' = [C0 EXCEPT !.op = "set", !.v = v, !.ret = ret, !.retb = retb, !.retc = retc]

\* the getter was called on run A: it returned ret and (if ret = 0) wrote res;
\* run A emitted oa meanwhile
AGet(ret, res, oa) ==
  /\ last' = IF last = Unknown /\ ret = 0 THEN res ELSE last
  /\ out' = [out EXCEPT !.A = @ \o oa]
  /\ cmd' = [C0 EXCEPT !.op = "get", !.ret = ret,
                       !.res = IF ret = 0 THEN res ELSE Unknown, !.exp = last]

\* the k-th input (or the final release, op = "end") was given to the three runs
AIn(op, k, o) ==
  /\ last' = last
  /\ out' = [r \in Runs |-> out[r] \o o[r]]
  /\ cmd' = [C0 EXCEPT !.op = op, !.k = k]

AInit == last = Unknown /\ out = NoOut /\ cmd = C0

\* (1) + first half of (2): once a value is known to be in force, the getter
\* succeeds and returns it
GetReturnsLast == cmd.op = "get" /\ cmd.exp # Unknown => cmd.ret = 0 /\ cmd.res = cmd.exp
\* (3): the run with getters and the run without emit the same.  Compared
\* when both runs have been given the same non-getter command (a getter that
\* merely lets buffered data out a little earlier is not an alteration)
GetterNeutral == cmd.op # "get" => out.A = out.B
\* second half of (2): leaving the rejected setter calls out changes nothing
RejectNeutral == out.B = out.C
\* the twin runs are the same pipe given the same calls: same answers (a
\* setter answering differently after a getter was called is also (3))
SameAnswers == cmd.op = "set" => cmd.retb = cmd.ret /\ (cmd.ret = 0 => cmd.retc = 0)

(* ------------------------------------------------------------------------ *)
(* model layer                                                              *)
(* ------------------------------------------------------------------------ *)
Values == Acc \cup Rej
P0 == [shown |-> Default, used |-> Default, aux |-> 0]

SetPipe(p, v, acc) ==
  IF acc
  THEN IF Variant = "accept_drops" THEN p ELSE [shown |-> v, used |-> v, aux |-> 0]
  ELSE CASE Variant = "reject_stores"      -> [p EXCEPT !.shown = v, !.used = v]
         [] Variant = "reject_stores_used" -> [p EXCEPT !.used = v]
         [] OTHER                          -> p

GetPipe(p) ==
  CASE Variant = "get_writes_option" -> [p EXCEPT !.shown = Garbage, !.used = Garbage]
    [] Variant = "get_resets_aux"    -> [p EXCEPT !.aux = 0]
    [] OTHER                         -> p
GetRes(p) == IF Variant \in {"get_writes_option", "get_no_write"} THEN Garbage ELSE p.shown

\* what a pipe emits for input k depends on the input, on the value the data
\* path uses and on its internal state
Emits(p, k) == <<[k |-> k, used |-> p.used, aux |-> p.aux]>>

H(op, v, k, ret, res) == [op |-> op, v |-> v, k |-> k, ret |-> ret, res |-> res]

MSet(v) ==
  LET acc == v \in Acc
      ret == IF acc THEN 0 ELSE 1
  IN /\ n < MaxLen
     /\ pipe' = [r \in Runs |-> IF r = "C" /\ ~acc THEN pipe[r] ELSE SetPipe(pipe[r], v, acc)]
     /\ ASet(v, ret, ret, 0, NoOut)
     /\ n' = n + 1 /\ nin' = nin
     /\ hist' = IF EmitBeh THEN Append(hist, H("set", v, 0, ret, Unknown)) ELSE hist

MGet ==
  /\ n < MaxLen
  /\ pipe' = [pipe EXCEPT !.A = GetPipe(@)]
  /\ AGet(0, GetRes(pipe.A), <<>>)
  /\ n' = n + 1 /\ nin' = nin
  /\ hist' = IF EmitBeh THEN Append(hist, H("get", Unknown, 0, 0, GetRes(pipe.A))) ELSE hist

MIn ==
  /\ n < MaxLen /\ nin < MaxIn
  /\ pipe' = [r \in Runs |-> [pipe[r] EXCEPT !.aux = @ + 1]]
  /\ AIn("in", nin + 1, [r \in Runs |-> Emits(pipe[r], nin + 1)])
  /\ n' = n + 1 /\ nin' = nin + 1
  /\ hist' = IF EmitBeh THEN Append(hist, H("in", Unknown, nin + 1, 0, Unknown)) ELSE hist

Init == AInit /\ pipe = [r \in Runs |-> P0] /\ n = 0 /\ nin = 0 /\ hist = <<>>
Next == (\E v \in Values : MSet(v)) \/ MGet \/ MIn
Spec == Init /\ [][Next]_vars

TypeOK ==
  /\ last \in Values \cup {Default, Garbage, Unknown}
  /\ \A r \in Runs : /\ pipe[r].shown \in Values \cup {Default, Garbage}
                     /\ pipe[r].used \in Values \cup {Default, Garbage}
                     /\ pipe[r].aux \in 0..MaxIn
  /\ n \in 0..MaxLen /\ nin \in 0..MaxIn
  /\ cmd.op \in {"new", "set", "get", "in"}

\* model-level forms of the three sentences (they look inside the pipe)
GetStutters  == [][cmd'.op = "get" => pipe' = pipe /\ out' = out]_vars
RejectKeeps  == [][cmd'.op = "set" /\ cmd'.ret # 0 => pipe' = pipe /\ out' = out /\ last' = last]_vars
AcceptStores == [][cmd'.op = "set" /\ cmd'.ret = 0 =>
                     \A r \in Runs : pipe'[r].shown = cmd'.v /\ pipe'[r].used = cmd'.v]_vars

\* exhaustive runs: the logs are only ever compared with each other
View == <<last, cmd, pipe, n, nin, out.A = out.B, out.B = out.C>>

\* spec -> code: one line per complete script
Emit == (EmitBeh /\ n = MaxLen) => PrintT(<<"BEH", ToJson(hist)>>)
=============================================================================
