\* trace validation of executions of the real ubuf_pic_mem / ubuf_sound_mem / block views (harness/replay_pic.c)
CONSTANTS
  Geos = {}
  GeoSet <- NoGeoSet
  Handles = {0, 1, 2, 3, 4, 5, 6, 7}
  MaxOps = 0
  MaxResize = 0
  Variant = "none"
  Record = FALSE
SPECIFICATION TSpec
INVARIANT WindowsInCanvas
POSTCONDITION Accepted
CHECK_DEADLOCK FALSE
