\* merger, exhaustive with coverage guard (quick tier): <= 2 sections of 3..7 octets (+ 0xff body, corrupt headers), every cut position, <= 2 pieces per payload, stuffing, mid-stream start, one damage
SPECIFICATION Spec
CONSTANTS
  Variant = "ok"
  Palette <- PalSmallD
  MaxSecs = 2
  MaxRuns = 2
  MaxPay = 24
  AllCuts = TRUE
  Stuffs = {0, 1}
  Damage = {"disc", "drop", "bad"}
  MidStart = TRUE
  Record = FALSE
  Small = TRUE
INVARIANT WellFormed NoGarbage NoLoss Exact SyncAgree NextShape
CHECK_DEADLOCK FALSE
