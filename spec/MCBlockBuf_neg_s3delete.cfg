\* NEGATIVE: out-of-range delete reports an error after shrinking -> ErrLeavesUnchanged / ByteString must fail
SPECIFICATION MCSpec
CONSTANTS
  Handles = {0, 1, 2}
  Fill = 14
  Strict = TRUE
  KeepHist = FALSE
  Bug = "s3delete"
  Pre = 1
  MaxLen = 5
  MaxWins = 5
  Depth = 2
  PatSet = "c02"
  InitSet = "one"
  ObsLast = FALSE
  Rand = FALSE
  Letters = {0, 1}
  LastOps = {}
  LastSz = {}
  Dom = "all"
  Ops = {"alloc", "dup", "splice", "split", "copy", "merge", "append", "insert", "delete", "truncate", "resize", "prepend", "wmap", "poke", "free"}
INVARIANT TypeOK ByteString FreshSingle
PROPERTY Isolation WriteOnlySingle StructuralOpsDontWrite SharedNeverWritten ErrLeavesUnchanged
CONSTRAINT Bounded
VIEW view
CHECK_DEADLOCK FALSE
