--------------------------- MODULE PsiSectionsRoute ---------------------------
(***************************************************************************)
(* C16 - PSI sections are routed and joined without loss                   *)
(* (upipe_ts_psi_split, upipe_ts_psi_join).                                *)
(*                                                                         *)
(* Mode "S", splitter.  Outputs are added (with a filter: n octets of      *)
(* filter and of mask) and released between sections.                      *)
(*   abstract: present = the outputs that exist now (port -> filter)       *)
(*   detailed: subs = the list of sub-pipes in creation order; an input    *)
(*     section walks the list and is delivered to each output whose filter *)
(*     matches (transcription of upipe_ts_psi_split_input +                *)
(*     ubuf_block_match: size test, then (octet & mask) = filter)          *)
(*   DeliverIff: for every port, after every section:                      *)
(*     not present            -> nothing delivered                         *)
(*     MatchClass = "yes"     -> delivered exactly once                    *)
(*     MatchClass = "no"      -> not delivered                             *)
(*     MatchClass = "any"     -> at most once (statement silent)           *)
(*                                                                         *)
(* Mode "J", joiner.  Inputs are added and released; every section given   *)
(* to an input is forwarded once, at once, in the order of arrival:        *)
(*   JoinForward: out = sent.                                              *)
(* An input may also be given a new flow definition (JFd); the joiner may  *)
(* refuse it (an allocation failed while it rebuilt its own flow           *)
(* definition): either way the input is still there and the sections keep  *)
(* flowing - a refused update leaves the previous state in force.          *)
(*                                                                         *)
(* "Unmodified" is about octets: it is judged on the real code by          *)
(* PsiSections_Trace (the harness compares the octets delivered with the   *)
(* octets it sent).                                                        *)
(***************************************************************************)
EXTENDS PsiSectionsBase, TLC, Json

CONSTANTS
    Mode,       \* "S" | "J"
    Variant,    \* "ok" or a deliberately broken variant
    SecPal,     \* set of section descriptions (k = index in the palette)
    FilPal,     \* set of filters [id, n, fb, mb]
    Ports,      \* port numbers (outputs of the splitter / inputs of the joiner)
    MaxOps,     \* additions + releases
    MaxIn,      \* sections input
    Record

VARIABLES subs, present, last, out, sent, nops, nin, hist
vars == <<subs, present, last, out, sent, nops, nin, hist>>

None == [d |-> NoSec, present |-> <<>>, dels |-> <<>>]
PortsOf(s) == {s[i].o : i \in 1..Len(s)}
Count(seq, x) == Cardinality({i \in 1..Len(seq) : seq[i] = x})

Init == /\ subs = <<>> /\ present = <<>> /\ last = None /\ out = <<>> /\ sent = <<>>
        /\ nops = 0 /\ nin = 0 /\ hist = <<>>

Log(e) == hist' = IF Record THEN Append(hist, e) ELSE hist

(***************************************************************************)
(* Splitter                                                                *)
(***************************************************************************)
\* present (abstract): the outputs that exist now, as a sequence of [o, f] (order irrelevant)
FilterOf(pr, o) == (CHOOSE x \in {pr[i] : i \in 1..Len(pr)} : x.o = o).f

AddOut(o, f) ==
    /\ Mode = "S" /\ nops < MaxOps
    /\ o \notin PortsOf(present) /\ o \notin PortsOf(subs)
    /\ subs' = Append(subs, [o |-> o, f |-> f])            \* ulist_add: at the end
    /\ present' = Append(present, [o |-> o, f |-> f])
    /\ nops' = nops + 1
    /\ Log([op |-> "add", o |-> o, f |-> f.id, d |-> 0, dels |-> <<>>])
    /\ UNCHANGED <<last, out, sent, nin>>

DelOut(o) ==
    /\ Mode = "S" /\ nops < MaxOps
    /\ o \in PortsOf(present)
    /\ subs' = IF Variant = "neg_stale" THEN subs ELSE SelectSeq(subs, LAMBDA s : s.o # o)
    /\ present' = SelectSeq(present, LAMBDA s : s.o # o)
    /\ nops' = nops + 1
    /\ Log([op |-> "del", o |-> o, f |-> 0, d |-> 0, dels |-> <<>>])
    /\ UNCHANGED <<last, out, sent, nin>>

\* ubuf_block_match
ImplMatch(d, f) ==
    IF d.len < f.n THEN FALSE
    ELSE IF Variant = "neg_nomask"
         THEN \A i \in 1..f.n : (f.mb[i] = 0 \/ ByteAt(d, i - 1) = f.fb[i])
    ELSE IF Variant = "neg_anybyte"
         THEN \E i \in 1..f.n : BitAnd(ByteAt(d, i - 1), f.mb[i]) = f.fb[i]
    ELSE \A i \in 1..f.n : BitAnd(ByteAt(d, i - 1), f.mb[i]) = f.fb[i]

RECURSIVE Walk(_, _)          \* the ports that receive d, in list order
Walk(s, d) ==
    IF s = <<>> THEN <<>>
    ELSE IF ImplMatch(d, Head(s).f)
         THEN IF Variant = "neg_first" THEN <<Head(s).o>> ELSE <<Head(s).o>> \o Walk(Tail(s), d)
         ELSE Walk(Tail(s), d)

SInput(d) ==
    /\ Mode = "S" /\ nin < MaxIn
    /\ LET dels == Walk(subs, d) IN
       /\ last' = [d |-> d, present |-> present, dels |-> dels]
       /\ Log([op |-> "sec", o |-> 0, f |-> 0, d |-> d.k, dels |-> dels])
    /\ nin' = nin + 1
    /\ UNCHANGED <<subs, present, out, sent, nops>>

DeliverIff ==
    last # None =>
      \A o \in Ports :
         LET cnt == Count(last.dels, o) IN
         IF o \notin PortsOf(last.present) THEN cnt = 0
         ELSE LET c == MatchClass(last.d, FilterOf(last.present, o)) IN
              /\ c = "yes" => cnt = 1
              /\ c = "no" => cnt = 0
              /\ cnt <= 1

(***************************************************************************)
(* Joiner                                                                  *)
(***************************************************************************)
JAdd(i) ==
    /\ Mode = "J" /\ nops < MaxOps /\ i \notin PortsOf(present)
    /\ subs' = Append(subs, [o |-> i, f |-> 0])
    /\ present' = Append(present, [o |-> i, f |-> 0])
    /\ nops' = nops + 1
    /\ Log([op |-> "jadd", o |-> i, f |-> 0, d |-> 0, dels |-> <<>>])
    /\ UNCHANGED <<last, out, sent, nin>>

JDel(i) ==
    /\ Mode = "J" /\ nops < MaxOps /\ i \in PortsOf(present)
    /\ subs' = SelectSeq(subs, LAMBDA s : s.o # i)
    /\ present' = SelectSeq(present, LAMBDA s : s.o # i)
    /\ nops' = nops + 1
    /\ Log([op |-> "jdel", o |-> i, f |-> 0, d |-> 0, dels |-> <<>>])
    /\ UNCHANGED <<last, out, sent, nin>>

\* set_flow_def on input i; refused = 1: the joiner could not apply it.
\* (neg_fdfail: a joiner that loses its own flow definition on that path and
\* drops everything from then on - recorded in the f field of the inputs)
JFd(i, refused) ==
    /\ Mode = "J" /\ nops < MaxOps /\ i \in PortsOf(present)
    /\ subs' = IF Variant = "neg_fdfail" /\ refused = 1
               THEN [j \in 1..Len(subs) |-> [subs[j] EXCEPT !.f = 1]] ELSE subs
    /\ nops' = nops + 1
    /\ Log([op |-> "jfd", o |-> i, f |-> refused, d |-> 0, dels |-> <<>>])
    /\ UNCHANGED <<present, last, out, sent, nin>>

JInput(i, d) ==
    /\ Mode = "J" /\ nin < MaxIn /\ i \in PortsOf(present)
    /\ LET fw == IF Variant = "neg_joinfirst" /\ subs[1].o # i THEN <<>>
                 ELSE IF Variant = "neg_fdfail" /\ \E j \in 1..Len(subs) : subs[j].f = 1 THEN <<>>
                 ELSE <<d.k>> IN
       /\ out' = out \o [j \in 1..Len(fw) |-> <<i, fw[j]>>]
       /\ Log([op |-> "jsec", o |-> i, f |-> 0, d |-> d.k, dels |-> fw])
    /\ sent' = Append(sent, <<i, d.k>>)
    /\ nin' = nin + 1
    /\ UNCHANGED <<subs, present, last, nops>>

JoinForward == out = sent

Next == \/ \E o \in Ports, f \in FilPal : AddOut(o, f)
        \/ \E o \in Ports : DelOut(o)
        \/ \E d \in SecPal : SInput(d)
        \/ \E i \in Ports : JAdd(i) \/ JDel(i)
        \/ \E i \in Ports, r \in {0, 1} : JFd(i, r)
        \/ \E i \in Ports, d \in SecPal : JInput(i, d)
Spec == Init /\ [][Next]_vars

Done == nin = MaxIn
SecsJ == LET n == Cardinality(SecPal) IN
         [i \in 1..n |-> LET d == CHOOSE x \in SecPal : x.k = i IN <<d.len, d.tid, d.syn, d.ff, d.bad>>]
FilsJ == [i \in {f.id : f \in FilPal} |-> LET f == CHOOSE x \in FilPal : x.id = i IN [n |-> f.n, fb |-> f.fb, mb |-> f.mb]]
Beh == [mode |-> Mode, secs |-> SecsJ, fils |-> IF Mode = "S" THEN FilsJ ELSE <<>>, ops |-> hist]
Emit == (Record /\ Done) => PrintT(<<"BEH", ToJson(Beh)>>)
EmitBad == (Record /\ (~DeliverIff \/ ~JoinForward)) => PrintT(<<"BAD", ToJson(Beh)>>)
=============================================================================
