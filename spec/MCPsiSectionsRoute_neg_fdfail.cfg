\* NEGATIVE: after a refused flow definition update the joiner forwards nothing: TLC must reject
SPECIFICATION Spec
CONSTANTS
  Mode = "J"
  Variant = "neg_fdfail"
  SecPal <- SecsTiny
  FilPal <- FilsTiny
  Ports = {1, 2, 3}
  MaxOps = 3
  MaxIn = 1
  Record = TRUE
INVARIANT EmitBad JoinForward
CHECK_DEADLOCK FALSE
