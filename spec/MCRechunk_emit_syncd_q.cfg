SPECIFICATION Spec
CONSTANTS
  ModeSet = {"sync"}
  AggMtuSet = {3, 4}
  InSizeSet = {0, 2}
  ChunkMtuSet = {3, 5}
  AlignSet = {1, 2, 3}
  PSizeSet = {3}
  NSyncSet = {2}
  CheckPSizeSet = {2, 3}
  LenAgg = 1
  LenChunk = 1
  LenSync = 5
  LenCheck = 1
  BufAgg = 5
  BufOther = 99
  MaxEmpty = 0
  MaxDisc = 1
  Twin = "canon"
  EarlyB = FALSE
  Variant = "ok"
INVARIANT Subsequence WholePackets Conservation UnitSize CutInvariance ReleaseTerminates AggSane NoOverrun UnitsAreSlices FlushHeadSync EmitBeh
CHECK_DEADLOCK FALSE
