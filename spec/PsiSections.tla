------------------------------ MODULE PsiSections ------------------------------
(***************************************************************************)
(* C16 - PSI sections are reassembled without loss (upipe_ts_psi_merge).   *)
(*                                                                         *)
(* Three layers in one module, run in lock step:                           *)
(*  1. GENERATOR.  Chooses sections (shapes from Palette) and cuts their    *)
(*     concatenation into TS payloads at arbitrary points: unit start +    *)
(*     pointer field, several sections per payload, 0xff stuffing after    *)
(*     the last section of a payload, a stream joined in the middle of a   *)
(*     section, and at most ONE damage: a payload flagged discontinuity, a *)
(*     missing payload (the next one is flagged), a section whose header   *)
(*     is corrupt.  The rules of a well-formed cutting are stated          *)
(*     separately (PsiSectionsBase!WellFormedPay) and checked on what the  *)
(*     generator produces (invariant WellFormed).                          *)
(*  2. DETAILED MERGER.  Transcription of upipe_ts_psim_input /            *)
(*     upipe_ts_psim_merge: next_uref, acquired, pointer field handling,   *)
(*     the `while (merge())` loop with its trimming of the input buffer.   *)
(*     One action per branch (coverage guard).                             *)
(*  3. ABSTRACT PROPERTY (PsiSectionsBase!AbsPay), judged after every      *)
(*     payload:                                                            *)
(*       NoGarbage  everything output is an intact valid section, in the   *)
(*                  order of the stream, each at most once                 *)
(*       NoLoss     every section received in a row since a               *)
(*                  (re)synchronisation point is output; after corrupt or  *)
(*                  missing data the next unit start is such a point       *)
(*       Exact      without damage: OutSections = InSections               *)
(*                                                                         *)
(* With Record = TRUE the behaviour is kept and printed at the end (BEH):  *)
(* the payloads (runs, and the octets when Small) and what the detailed    *)
(* merger outputs after each of them - replayed on the real code.          *)
(***************************************************************************)
EXTENDS PsiSectionsBase, TLC, Json

CONSTANTS
    Variant,    \* "ok", or the name of a deliberately broken merger
    Palette,    \* shapes [len, syn, ff, bad] the sections are drawn from
    MaxSecs,    \* sections per behaviour
    MaxRuns,    \* pieces of sections per payload (2: tail+head, 3: tail+whole+head)
    MaxPay,     \* capacity of a payload (184 for a TS packet)
    AllCuts,    \* TRUE: every cut position, FALSE: the interesting ones
    Stuffs,     \* numbers of stuffing octets that may end a payload
    Damage,     \* subset of {"disc", "drop", "bad"}
    MidStart,   \* the stream may be joined inside its first section
    Record,     \* keep and emit the behaviour
    Small       \* emit the octets too

VARIABLES
    phase,                    \* "gen" "head" "merge" "end" "done"
    gd, goff, gn, gdone,      \* generator: section being sent (NoSec: none), octets of it sent, sections started / entirely sent
    dmg, pdisc, mid,          \* a damage was used; the next delivered payload follows a gap; initial offset
    pay, pdone, poff,         \* last payload generated and the position before it
    u, next, acq, outs, evs,  \* merger: input buffer, next_uref (<<>> = NULL), acquired; outputs / sync events of this input
    async, acur,              \* abstract reference
    lastout, garbage, missing, nout,
    secs, hist

vars == <<phase, gd, goff, gn, gdone, dmg, pdisc, mid, pay, pdone, poff, u, next, acq, outs, evs,
          async, acur, lastout, garbage, missing, nout, secs, hist>>

NoPay == [start |-> FALSE, disc |-> FALSE, drop |-> FALSE, ptr |-> 0, runs |-> <<>>, stuff |-> 0]
TidOf(k) == 64 + k

(***************************************************************************)
(* 1. Generator                                                            *)
(***************************************************************************)
NewSecs(k, allowbad) ==
    {d \in {Desc(k, TidOf(k), sh) : sh \in Palette} : allowbad \/ ~Corrupt(d)}

Ends(len, off, room) ==
    LET hi == Min(len, off + room) IN
    IF AllCuts THEN (off + 1)..hi
    ELSE {e \in {off + 1, off + 2, off + 3, 1, 2, 3, 4, len - 2, len - 1, len, hi, hi - 1} :
             e > off /\ e <= hi}

\* the pieces a payload may carry from section d at offset off on
RECURSIVE Build(_, _, _, _, _, _)
Build(d, off, n, r, room, ab) ==
    LET es   == Ends(d.len, off, room)
        part == {[runs |-> <<R(d, off, e)>>, d |-> d, off |-> e, n |-> n, ub |-> FALSE] : e \in es \ {d.len}}
        left == room - (d.len - off)
        fin  == IF d.len \in es
                THEN {[runs |-> <<R(d, off, d.len)>>, d |-> NoSec, off |-> 0, n |-> n, ub |-> FALSE]}
                     \cup (IF r > 1 /\ n < MaxSecs /\ left > 0
                           THEN UNION {{[x EXCEPT !.runs = <<R(d, off, d.len)>> \o x.runs,
                                                  !.ub = x.ub \/ Corrupt(nd)] :
                                           x \in Build(nd, 0, n + 1, r - 1, left, ab /\ ~Corrupt(nd))} :
                                       nd \in NewSecs(n + 1, ab)}
                           ELSE {})
                ELSE {}
    IN part \cup fin

Ends1(r) == IF r.b = r.d.len THEN 1 ELSE 0
RECURSIVE CountEnds(_)
CountEnds(rs) == IF rs = <<>> THEN 0 ELSE Ends1(Head(rs)) + CountEnds(Tail(rs))
RECURSIVE NewDescs(_, _)
NewDescs(rs, n) == IF rs = <<>> THEN <<>>
                   ELSE (IF Head(rs).d.k > n THEN <<Head(rs).d>> ELSE <<>>) \o NewDescs(Tail(rs), n)

RunsJ(rs) == [i \in 1..Len(rs) |-> <<rs[i].d.k, rs[i].a, rs[i].b>>]
Entry(p, os, a, ev) ==
    [st |-> B2I(p.start), di |-> B2I(p.disc), dr |-> B2I(p.drop), ptr |-> p.ptr,
     runs |-> RunsJ(p.runs), stuff |-> p.stuff,
     bytes |-> IF Small THEN Expand(Bytes(p)) ELSE <<>>,
     out |-> [i \in 1..Len(os) |-> Ident(os[i])],
     outb |-> IF Small THEN [i \in 1..Len(os) |-> Expand(os[i])] ELSE <<>>,
     acq |-> B2I(a), ev |-> ev]

Init ==
    /\ phase = "gen"
    /\ \E sh \in Palette :
         LET d == Desc(1, TidOf(1), sh) IN
         /\ Corrupt(d) => "bad" \in Damage
         /\ gd = d
         /\ dmg = Corrupt(d)
         /\ goff \in {0} \cup (IF MidStart THEN {o \in {1, 2, 3, d.len - 1} : o < d.len} ELSE {})
         /\ secs = IF Record THEN <<d>> ELSE <<>>
    /\ mid = goff
    /\ gn = 1 /\ gdone = 0 /\ pdisc = FALSE
    /\ pay = NoPay /\ pdone = 0 /\ poff = 0
    /\ u = <<>> /\ next = <<>> /\ acq = FALSE /\ outs = <<>> /\ evs = <<>>
    /\ async = FALSE /\ acur = 0
    /\ lastout = 0 /\ garbage = FALSE /\ missing = FALSE /\ nout = 0
    /\ hist = <<>>

Gen ==
    /\ phase = "gen"
    /\ LET allowbad == "bad" \in Damage /\ ~dmg
           firsts   == IF gd = NoSec
                       THEN (IF gn < MaxSecs THEN NewSecs(gn + 1, allowbad) ELSE {})
                       ELSE {gd}
       IN \E d0 \in firsts :
          LET n0  == IF gd = NoSec THEN gn + 1 ELSE gn
              nb0 == gd = NoSec /\ Corrupt(d0)
          IN \E x \in Build(d0, goff, n0, MaxRuns, MaxPay, allowbad /\ ~nb0) :
             \E f \in (IF x.d = NoSec THEN Stuffs ELSE {0}) :
             LET dmg1 == dmg \/ nb0 \/ x.ub IN
             \E how \in {"ok"} \cup (IF dmg1 THEN {} ELSE Damage \cap {"disc", "drop"}) :
             LET st == IsStart(x.runs)
                 p  == [start |-> st, disc |-> pdisc \/ how = "disc", drop |-> how = "drop",
                        ptr |-> IF st THEN PtrOf(x.runs) ELSE 0, runs |-> x.runs, stuff |-> f]
             IN /\ PSize(p) <= MaxPay
                /\ pay' = p /\ pdone' = gdone /\ poff' = goff
                /\ gd' = x.d /\ goff' = x.off /\ gn' = x.n
                /\ gdone' = gdone + CountEnds(x.runs)
                /\ dmg' = (dmg1 \/ how # "ok")
                /\ secs' = IF Record THEN secs \o NewDescs(x.runs, gn) ELSE secs
                /\ IF how = "drop"
                   THEN /\ pdisc' = TRUE /\ phase' = "gen"
                        /\ hist' = IF Record THEN Append(hist, Entry(p, <<>>, acq, <<>>)) ELSE hist
                        /\ UNCHANGED <<u, outs, evs>>
                   ELSE /\ pdisc' = FALSE /\ phase' = "head"
                        /\ u' = Bytes(p) /\ outs' = <<>> /\ evs' = <<>>
                        /\ hist' = hist
    /\ UNCHANGED <<mid, next, acq, async, acur, lastout, garbage, missing, nout>>

Finish ==
    /\ phase = "gen" /\ gd = NoSec /\ pay # NoPay
    /\ phase' = "done"
    /\ UNCHANGED <<gd, goff, gn, gdone, dmg, pdisc, mid, pay, pdone, poff, u, next, acq, outs, evs,
                   async, acur, lastout, garbage, missing, nout, secs, hist>>

(***************************************************************************)
(* 2. Detailed merger (lib/upipe-ts/upipe_ts_psi_merge.c)                  *)
(***************************************************************************)
\* upipe_ts_psim_flush as seen from a state (nx, a): next freed, sync lost
Lost(a)  == IF a THEN <<"lost">> ELSE <<>>
\* state after the discontinuity test at the top of upipe_ts_psim_input
DiscHit == pay.disc /\ Variant # "neg_nodisc"
N1 == IF DiscHit THEN <<>> ELSE next
A1 == IF DiscHit THEN FALSE ELSE acq
E1 == IF DiscHit THEN Lost(acq) ELSE <<>>

GenKeep == UNCHANGED <<gd, goff, gn, gdone, dmg, pdisc, mid, pay, pdone, poff, secs, hist,
                       async, acur, lastout, garbage, missing, nout>>

\* unit start while acquired: just remove the pointer field
HeadStartAcq ==
    /\ phase = "head" /\ pay.start /\ A1
    /\ IF Variant = "neg_ptralways"
       THEN u' = RDrop(u, 1 + RByte(u, 0))
       ELSE u' = RDrop(u, 1)
    /\ next' = N1 /\ acq' = A1 /\ evs' = E1 /\ phase' = "merge"
    /\ UNCHANGED outs /\ GenKeep

\* unit start while not acquired: jump to the section the pointer field designates
HeadStartSync ==
    /\ phase = "head" /\ pay.start /\ ~A1
    /\ LET pf == RByte(u, 0) IN
       IF 1 + pf > RLen(u)
       THEN /\ u' = <<>> /\ acq' = A1 /\ evs' = E1 /\ phase' = "end"
       ELSE /\ u' = RDrop(u, IF Variant = "neg_noptr" THEN 1 ELSE 1 + pf)
            /\ acq' = TRUE /\ evs' = E1 \o <<"acq">> /\ phase' = "merge"
    /\ next' = N1
    /\ UNCHANGED outs /\ GenKeep

\* no unit start, a section is being assembled
HeadCont ==
    /\ phase = "head" /\ ~pay.start /\ N1 # <<>>
    /\ next' = N1 /\ acq' = A1 /\ evs' = E1 /\ phase' = "merge"
    /\ UNCHANGED <<u, outs>> /\ GenKeep

\* no unit start and nothing being assembled: the payload is dropped, sync lost
HeadLost ==
    /\ phase = "head" /\ ~pay.start /\ N1 = <<>>
    /\ next' = <<>> /\ acq' = FALSE /\ evs' = E1 \o Lost(A1) /\ phase' = "end"
    /\ UNCHANGED <<u, outs>> /\ GenKeep

\* one call of upipe_ts_psim_merge
IsStuffing == IF RLen(u) = 0 THEN TRUE ELSE (RByte(u, 0) = 255 /\ Variant # "neg_nostuff")
NX   == IF next = <<>> THEN u ELSE RCat(next, u)
SZ   == RLen(NX)
HLEN == LenField(RByte(NX, 1), RByte(NX, 2))
HOK  == ValidHdr(RByte(NX, 1), RByte(NX, 2))
MergeKeep == UNCHANGED <<gd, goff, gn, gdone, dmg, pdisc, mid, pay, pdone, poff, secs, hist,
                         async, acur, lastout, garbage, missing, nout>>

MergeStuffing ==              \* nothing being assembled and stuffing (or nothing) left
    /\ phase = "merge" /\ next = <<>> /\ IsStuffing
    /\ phase' = "end" /\ UNCHANGED <<u, next, acq, outs, evs>> /\ MergeKeep

MergeShort ==                 \* the header is not complete yet
    /\ phase = "merge" /\ ~(next = <<>> /\ IsStuffing) /\ SZ < HDR
    /\ next' = NX /\ phase' = "end" /\ UNCHANGED <<u, acq, outs, evs>> /\ MergeKeep

MergeBadHeader ==             \* "wrong PSI header": flush
    /\ phase = "merge" /\ ~(next = <<>> /\ IsStuffing) /\ SZ >= HDR /\ ~HOK
    /\ next' = <<>> /\ acq' = FALSE /\ evs' = evs \o Lost(acq) /\ phase' = "end"
    /\ UNCHANGED <<u, outs>> /\ MergeKeep

MergeIncomplete ==            \* the section is not complete yet
    /\ phase = "merge" /\ ~(next = <<>> /\ IsStuffing) /\ SZ >= HDR /\ HOK /\ HLEN + HDR > SZ
    /\ next' = NX /\ phase' = "end" /\ UNCHANGED <<u, acq, outs, evs>> /\ MergeKeep

MergeOutLast ==               \* the section ends with the input buffer
    /\ phase = "merge" /\ ~(next = <<>> /\ IsStuffing) /\ SZ >= HDR /\ HOK /\ HLEN + HDR = SZ
    /\ outs' = Append(outs, NX) /\ next' = <<>> /\ phase' = "end"
    /\ UNCHANGED <<u, acq, evs>> /\ MergeKeep

MergeOutMore ==               \* a section is output, the input buffer is trimmed, merge again
    /\ phase = "merge" /\ ~(next = <<>> /\ IsStuffing) /\ SZ >= HDR /\ HOK /\ HLEN + HDR < SZ
    /\ outs' = Append(outs, RTake(NX, HLEN + HDR)) /\ next' = <<>>
    /\ u' = IF Variant = "neg_trim"
            THEN RDrop(u, HLEN + HDR)
            ELSE RDrop(u, (HLEN + HDR) - (SZ - RLen(u)))
    /\ UNCHANGED <<phase, acq, evs>> /\ MergeKeep

(***************************************************************************)
(* 3. The property, judged when the input call returns                     *)
(***************************************************************************)
EndInput ==
    /\ phase = "end"
    /\ LET ab  == AbsPay(pay, async, acur)
           ids == [i \in 1..Len(outs) |-> Ident(outs[i])]
           good == \A i \in 1..Len(ids) :
                      /\ ids[i] > 0 /\ ~Corrupt(outs[i][1].d)
                      /\ ids[i] > (IF i = 1 THEN lastout ELSE ids[i - 1])
       IN /\ async' = ab.sync /\ acur' = ab.cur
          /\ garbage' = (garbage \/ ~good)
          /\ missing' = (missing \/ \E j \in 1..Len(ab.must) : \A i \in 1..Len(ids) : ids[i] # ab.must[j])
          /\ lastout' = IF ids = <<>> THEN lastout ELSE ids[Len(ids)]
          /\ nout' = nout + Len(outs)
          /\ hist' = IF Record THEN Append(hist, Entry(pay, outs, acq, evs)) ELSE hist
    /\ phase' = "gen"
    /\ UNCHANGED <<gd, goff, gn, gdone, dmg, pdisc, mid, pay, pdone, poff, u, next, acq, outs, evs, secs>>

Next == Gen \/ Finish \/ HeadStartAcq \/ HeadStartSync \/ HeadCont \/ HeadLost
        \/ MergeStuffing \/ MergeShort \/ MergeBadHeader \/ MergeIncomplete \/ MergeOutLast \/ MergeOutMore
        \/ EndInput
Spec == Init /\ [][Next]_vars

(***************************************************************************)
(* Invariants                                                              *)
(***************************************************************************)
WellFormed == pay # NoPay => WellFormedPay(pay, pdone, poff, MaxPay)
NoGarbage  == ~garbage
NoLoss     == ~missing
\* no damage, stream taken from its beginning: every section entirely sent has been output, nothing else
Exact      == (phase \in {"gen", "done"} /\ ~dmg /\ mid = 0) => (nout = gdone /\ lastout = gdone)
\* the detailed `acquired` is the abstract `sync`
SyncAgree  == phase \in {"gen", "done"} => (acq = async)
\* next_uref is NULL or holds the beginning of a section while acquired
NextShape  == (phase \in {"gen", "done"} /\ next # <<>>) => (acq /\ next[1].a = 0 /\ Len(next) = 1)

Beh == [secs |-> [i \in 1..Len(secs) |-> <<secs[i].len, secs[i].tid, secs[i].syn, secs[i].ff, secs[i].bad>>],
        mid |-> mid, maxpay |-> MaxPay, pays |-> hist]
Emit == (Record /\ phase = "done") => PrintT(<<"BEH", ToJson(Beh)>>)
\* negative configurations: the behaviour that breaks the property is printed (and replayed on the real code)
EmitBad == (Record /\ (garbage \/ missing)) => PrintT(<<"BAD", ToJson(Beh)>>)
=============================================================================
