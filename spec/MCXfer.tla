-------------------------------- MODULE MCXfer --------------------------------
EXTENDS Xfer
P_full == <<"attach", "cmd", "release", "mgrrel">>
P_two == <<"attach", "cmd", "cmd", "release", "mgrrel">>
P_nomgrrel == <<"attach", "cmd", "release">>
=============================================================================
