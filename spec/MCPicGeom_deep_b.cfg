\* exhaustive geometry evaluation (quick): packed (macropixel 2, rgb24), alloc / resize chains / every mapping request
CONSTANTS
  Geos = {"deep_b"}
  GeoSet <- PicGeoSet
  Handles = {0}
  MaxOps = 4
  MaxResize = 2
  Variant = "none"
  Record = FALSE
SPECIFICATION Spec
VIEW View
INVARIANT WindowsInCanvas Inside InjectiveMap CanvasInjective GranularityP MapIsWindowCell AllocGranular WriteOnlySingle
PROPERTY CropPreserves StructuralOpsDontWrite
CHECK_DEADLOCK FALSE
