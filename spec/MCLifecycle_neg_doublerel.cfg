SPECIFICATION Spec
CONSTANTS
  TopoName = "lls"
  Variant = "doublerel"
  QLen = 1
  MaxHeld = 2
  MaxCmds = 0
  MinCmds = 0
  EmitBeh = FALSE
INVARIANTS NoUseAfterDestroy
VIEW View
POSTCONDITION Cov
CHECK_DEADLOCK FALSE
