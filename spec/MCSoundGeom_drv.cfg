\* behaviour generator (simulation), sound
CONSTANTS
  Geos = {"drv"}
  GeoSet <- SndGeoSet
  Handles = {0, 1, 2}
  MaxOps = 14
  MaxResize = 4
  Variant = "none"
  Record = TRUE
SPECIFICATION DrvSpec
INVARIANT Emit
CHECK_DEADLOCK FALSE
