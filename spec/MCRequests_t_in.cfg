\* C12 thorough tier, in-thread scenarios A-F
SPECIFICATION Spec
CONSTANTS
  Scenarios <- ScnThorIn
  Variant = "ok"
  EmitEdges = TRUE
  Idle = FALSE
  MaxGen = 2
  MaxChan = 2
  MaxPath = 0
CONSTRAINT Bound
VIEW ViewCore
INVARIANT TypeOK PathInv OneEntry
PROPERTY StepNoCallbackAfterUnregister StepNoSinkFreedWithRegs StepReachesProvide StepReachesRunA StepReachesProbe
CHECK_DEADLOCK FALSE
