\* C20 negative configuration: deliberately broken variant get_no_write, TLC must reject it
SPECIFICATION Spec
CONSTANTS
  Acc = {1, 2, 3}
  Rej = {4, 5}
  Default = 0
  Garbage = 99
  Unknown = 98
  MaxLen = 4
  MaxIn = 2
  Variant = "get_no_write"
  EmitBeh = FALSE
INVARIANT TypeOK GetReturnsLast GetterNeutral RejectNeutral SameAnswers
VIEW View
CHECK_DEADLOCK FALSE
