\* EXPLORATORY: any string (a stream that begins with a 3-octet start code reaches the extraction at a negative offset); counterexamples are replayed on the real framer
SPECIFICATION Spec
CONSTANTS
  Variant = "ok"
  Alphabet = {0, 1, 2}
  MaxLen = 6
  NoLead3 = FALSE
INVARIANT EmitCex TypeOK ChunkInvariant Monotone NoTrap
VIEW View
CHECK_DEADLOCK FALSE
