----------------------------- MODULE MCPipeFlow -----------------------------
(* Networks, buffer palettes and environments for the exhaustive / emitting  *)
(* / simulating TLC runs of PipeFlow (cfg files cannot hold records).        *)
EXTENDS PipeFlow

T(sz, seg, hid, sys, prog, tag) ==
    [sz |-> sz, seg |-> seg, hid |-> hid, sys |-> sys, prog |-> prog, orig |-> NoDate,
     dpd |-> -1, cdd |-> -1, tag |-> tag, disc |-> 0]
TX(sz, seg, hid, sys, prog, orig, dpd, cdd, tag, disc) ==
    [sz |-> sz, seg |-> seg, hid |-> hid, sys |-> sys, prog |-> prog, orig |-> orig,
     dpd |-> dpd, cdd |-> cdd, tag |-> tag, disc |-> disc]

New(p, k) == [op |-> "new", p |-> p, k |-> k]
Sink(s) == [op |-> "sink", s |-> s]
Sub(p, par) == [op |-> "sub", p |-> p, par |-> par]
SetFd(p, f) == [op |-> "setfd", p |-> p, f |-> f]
OutTo(p, t) == [op |-> "out", p |-> p, t |-> t]
In(p) == [op |-> "in", p |-> p]
Opt(p, name, v) == [op |-> "opt", p |-> p, name |-> name, v |-> v]
OptM(p, lo, hi) == [op |-> "opt", p |-> p, name |-> "match", v |-> lo, w |-> hi]
Block(s) == [op |-> "block", s |-> s]
Unblock(s) == [op |-> "unblock", s |-> s]
Policy(s, v) == [op |-> "policy", s |-> s, v |-> v]
Disp(p) == [op |-> "disp", p |-> p]
Adv(t) == [op |-> "adv", t |-> t]
ProvAllC(s) == [op |-> "provall", s |-> s]
Flush(p) == [op |-> "flush", p |-> p]
Rel(n) == [op |-> "rel", n |-> n]
Renew(p, s) == [op |-> "renew", p |-> p, s |-> s]

\* ---- buffer palettes ------------------------------------------------------------
B_two == {T(4, "2+2", TRUE, NoDate, NoDate, "-"), T(3, "1+2", FALSE, <<"pts", 50>>, <<"dts", 40>>, "x")}
B_one == {T(3, "1+1+1", TRUE, <<"pts", 70>>, <<"pts", 60>>, "-")}
B_clk == {TX(2, "2", TRUE, <<"cr", 90>>, <<"cr", 30>>, <<"dts", 20>>, -1, -1, "-", 1),
          TX(5, "3+2", TRUE, NoDate, <<"pts", 45>>, NoDate, 5, 3, "y", 0)}
B_time == {T(2, "2", TRUE, <<"pts", 1500>>, NoDate, "-"), T(3, "1+2", TRUE, <<"pts", 1050>>, NoDate, "-"),
           T(2, "1+1", TRUE, <<"dts", 1900>>, NoDate, "-"),
           T(1, "1", TRUE, NoDate, NoDate, "-")}
B_size == {T(2, "1+1", TRUE, NoDate, NoDate, "-"), T(4, "4", TRUE, <<"pts", 1500>>, NoDate, "-")}

\* ---- one-to-one pipes: p0 -> s0 ------------------------------------------------------
One(k, opts) == <<New("p0", k), Sink("s0"), SetFd("p0", "A"), OutTo("p0", "s0")>> \o opts
S_sync == {One("idem", <<>>), One("setflowdef", <<>>), One("setattr", <<Opt("p0", "dict", "t1")>>),
           One("puref", <<Opt("p0", "drop", 2)>>), One("skip", <<Opt("p0", "offset", 2)>>),
           One("htons", <<>>), One("delay", <<Opt("p0", "delay", 7)>>),
           One("match_attr", <<OptM("p0", 2, 3)>>), One("null", <<>>)}
S_clock == {One("setrap", <<Opt("p0", "rap", 10)>>), One("noclock", <<>>), One("delay", <<Opt("p0", "delay", 5)>>)}
S_nodemux == {One("nodemux", <<>>)}
A_sync == {In("p0"), OutTo("p0", "null"), OutTo("p0", "s0"), Policy("s0", "reject"), Policy("s0", "accept"),
           SetFd("p0", "B"), Rel("p0"), Rel("s0"), Renew("p0", "s1")}
A_cfg == {In("p0"), Opt("p0", "offset", 0), Opt("p0", "offset", 1), Opt("p0", "delay", 0), Opt("p0", "dict", "none"),
          Opt("p0", "dict", "t2"), OptM("p0", 1, 1), Opt("p0", "drop", 1), Opt("p0", "rap", 95)}
S_cfg == {One("skip", <<>>), One("delay", <<>>), One("setattr", <<>>), One("match_attr", <<>>), One("puref", <<>>),
          One("setrap", <<>>)}

\* ---- the duplicating split -------------------------------------------------------------
S_dup == {<<New("p0", "dup"), Sink("s0"), Sink("s1"), Sink("s2"), SetFd("p0", "A")>>,
          <<New("p0", "dup"), Sink("s0"), Sink("s1"), Sink("s2"), Sub("p1", "p0"), OutTo("p1", "s0")>>}
A_dup == {In("p0"), Sub("p1", "p0"), Sub("p2", "p0"), OutTo("p1", "s0"), OutTo("p2", "s1"), OutTo("p0", "s2"),
          Rel("p1"), Rel("p2"), SetFd("p0", "A"), SetFd("p0", "B"), Rel("p0")}

\* ---- holders: p0 -> s0 (blocking sink) -----------------------------------------------------
Hold(k, opts) == <<New("p0", k), Sink("s0"), OutTo("p0", "s0"), SetFd("p0", "A")>> \o opts
S_buffer == {Hold("buffer", <<Opt("p0", "max_size", 4)>>), Hold("buffer", <<Opt("p0", "max_size", 6)>>)}
A_buffer == {In("p0"), Disp("p0"), Block("s0"), Unblock("s0"), Rel("p0")}
S_disblo == {Hold("disblo", <<>>), Hold("disblo", <<Opt("p0", "max_length", 2)>>)}
A_disblo == A_buffer
S_tblk == {Hold("tblk", <<>>)}
A_tblk == {In("p0"), ProvAllC("s0"), SetFd("p0", "B"), Rel("p0"), Block("s0"), Unblock("s0")}
S_time == {<<New("p0", "time_limit"), Sink("s0"), Opt("p0", "limit", 100), OutTo("p0", "s0"), SetFd("p0", "A")>>,
           Hold("time_limit", <<Opt("p0", "limit", 100)>>)}
A_time == {In("p0"), Adv(100), Adv(400), Flush("p0"), Rel("p0"), ProvAllC("s0")}

\* ---- chains of two pipes ------------------------------------------------------------------
Chain(k0, o0, k1, o1) == <<New("p0", k0), New("p1", k1), Sink("s0"), OutTo("p1", "s0"), OutTo("p0", "p1"),
                          SetFd("p0", "A")>> \o o0 \o o1
S_chain == {Chain("skip", <<Opt("p0", "offset", 1)>>, "htons", <<>>),
            Chain("htons", <<>>, "skip", <<Opt("p1", "offset", 1)>>),
            Chain("setattr", <<Opt("p0", "dict", "t1")>>, "match_attr", <<OptM("p1", 2, 9)>>),
            Chain("idem", <<>>, "buffer", <<Opt("p1", "max_size", 4)>>),
            Chain("buffer", <<Opt("p0", "max_size", 4)>>, "skip", <<Opt("p1", "offset", 1)>>),
            Chain("disblo", <<Opt("p0", "max_length", 3)>>, "time_limit", <<Opt("p1", "limit", 100)>>),
            Chain("tblk", <<>>, "htons", <<>>),
            Chain("buffer", <<Opt("p0", "max_size", 9)>>, "disblo", <<Opt("p1", "max_length", 2)>>),
            Chain("buffer", <<Opt("p0", "max_size", 9)>>, "buffer", <<Opt("p1", "max_size", 3)>>),
            Chain("disblo", <<Opt("p0", "max_length", 3)>>, "tblk", <<>>),
            Chain("buffer", <<Opt("p0", "max_size", 9)>>, "time_limit", <<Opt("p1", "limit", 100)>>)}
\* chains of two holders (the second one blocks the pump of the first while it holds)
S_chain2 == {Chain("buffer", <<Opt("p0", "max_size", 9)>>, "disblo", <<Opt("p1", "max_length", 2)>>),
             Chain("buffer", <<Opt("p0", "max_size", 9)>>, "buffer", <<Opt("p1", "max_size", 3)>>),
             Chain("disblo", <<Opt("p0", "max_length", 3)>>, "tblk", <<>>),
             Chain("disblo", <<Opt("p0", "max_length", 3)>>, "time_limit", <<Opt("p1", "limit", 100)>>),
             Chain("buffer", <<Opt("p0", "max_size", 9)>>, "time_limit", <<Opt("p1", "limit", 100)>>)}
A_chain2 == {In("p0"), Disp("p0"), Disp("p1"), Block("s0"), Unblock("s0"), ProvAllC("s0"), Adv(500)}
A_chain == {In("p0"), Disp("p0"), Disp("p1"), Block("s0"), Unblock("s0"), ProvAllC("s0"), Adv(500),
            Rel("p0"), Rel("p1")}
\* a split feeding a transformer and a holder
S_dupchain == {<<New("p0", "dup"), New("p3", "htons"), New("p4", "buffer"), Sink("s0"), Sink("s1"), Sink("s2"),
                 OutTo("p3", "s0"), OutTo("p4", "s1"), Opt("p4", "max_size", 4), SetFd("p0", "A"),
                 Sub("p1", "p0"), OutTo("p1", "p3"), Sub("p2", "p0"), OutTo("p2", "p4"), Rel("p3"), Rel("p4")>>}
A_dupchain == {In("p0"), Disp("p4"), Block("s1"), Unblock("s1"), Rel("p1"), Rel("p2"), OutTo("p0", "s2"), Rel("p0")}
\* ---- everything together (simulation) ------------------------------------------------------
S_all == S_sync \cup S_cfg \cup S_clock \cup S_nodemux \cup S_dup \cup S_buffer \cup S_disblo \cup S_tblk \cup S_time
         \cup S_chain \cup S_chain2 \cup S_dupchain
A_all == A_sync \cup A_cfg \cup A_dup \cup A_buffer \cup A_tblk \cup A_time \cup A_chain \cup A_dupchain
B_all == B_two \cup B_one \cup B_size \cup B_time
=============================================================================
