\* negative configuration: the variant "resize_no_vpre" of the model must be rejected by TLC
CONSTANTS
  Geos = {"neg"}
  GeoSet <- PicGeoSet
  Handles = {0}
  MaxOps = 4
  MaxResize = 2
  Variant = "resize_no_vpre"
  Record = FALSE
SPECIFICATION Spec
VIEW View
INVARIANT WindowsInCanvas Inside InjectiveMap CanvasInjective GranularityP MapIsWindowCell AllocGranular WriteOnlySingle
PROPERTY CropPreserves StructuralOpsDontWrite
CHECK_DEADLOCK FALSE
