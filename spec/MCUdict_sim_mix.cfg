SPECIFICATION Spec
CONSTANTS
  Dicts = {1, 2, 3}
  Bug = "none"
  PrefixOf <- MCPrefixOf
  MaxDepth = 40
  Keys <- K_mix
  Ops <- O_all
INVARIANT EmitDone
PROPERTY DupIndependent GetReturnsLastSet CmpIffEqual IterateExactlyOnce
CHECK_DEADLOCK FALSE
