\* NEGATIVE: octet before the start code never fetched from the block
SPECIFICATION Spec
CONSTANTS
  Variant = "neg_prev"
  Alphabet = {0, 1, 2}
  MaxLen = 6
  NoLead3 = TRUE
INVARIANT EmitCex TypeOK ChunkInvariant Monotone NoTrap
VIEW View
CHECK_DEADLOCK FALSE
