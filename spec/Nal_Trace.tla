------------------------------ MODULE Nal_Trace ------------------------------
(***************************************************************************)
(* C17 - validation of recorded executions of the REAL code                *)
(* (upipe_h26xf_convert_frame, uref_h26x_iterate_nal, the stored           *)
(* attributes h26x.n[k], upipe_h26xf_stream_get / _ue / _se; the H.264     *)
(* framer), produced by harness/replay_nal.c and replay_nal_h264f.c,       *)
(* against the ABSTRACT operators of NalOps.tla (Ser / Parse / Convert,    *)
(* the reference exp-Golomb and emulation prevention encoders and their    *)
(* decoders) and the access units of an Annex B stream.                    *)
(*                                                                         *)
(* One TLC state per trace line; executions are separated by Reset (which  *)
(* carries the number `hid` of the execution).  Single pass: an event the  *)
(* specification does not accept puts <<hid, line>> into `bad` and the     *)
(* rest of that execution is skipped.                                      *)
(*  Reset k="frame" {enc, nals, buf, offs}  a frame the generator claims   *)
(*        to be Ser(nals, enc); buf / offs are what the harness read back  *)
(*        from the uref it built: CHECKED here (buf = Ser, offs = offsets) *)
(*  Reset k="raw"   {enc, buf, offs}        arbitrary octets / offsets     *)
(*  Conv  {from, to, r}     upipe_h26xf_convert_frame, r = error code      *)
(*  Bytes {r, buf}          the octets of the block (runs <<b, n>>)        *)
(*  Iter  {l}               <<offset, size>> of every NAL unit returned by *)
(*                          uref_h26x_iterate_nal                          *)
(*  Offs  {l}               the stored attributes h26x.n[0..]              *)
(*  Claim {unit, nal}       the generator claims that the octets `unit`    *)
(*                          are NAL <<id, size, sc>> in the current        *)
(*                          encapsulation: CHECKED here                    *)
(*  Prep  {r}               uref_h26x_prepend_nal of that unit             *)
(*  Reset k="rbsp" {bytes, hasf, fields}   octets for the bit reader; with *)
(*        hasf = 1 the generator claims bytes = what the reference encoder *)
(*        writes for `fields`: CHECKED here                                *)
(*  SInit {seg, nseg, ok}   a reader over a segmentation of the octets     *)
(*  U {w,hi,lo,ov}  Ue {hi,lo,ov}  Se {neg,hi,lo,ov}   values read         *)
(*  SDone                                                                  *)
(*  Reset k="h264" {stream, aus, dims, out}  an Annex B elementary stream   *)
(*        written by the reference bit-writer of the generator, with the   *)
(*        octet range <<start, end, params>> of each access unit (params = *)
(*        it holds the SPS and PPS); CHECKED here: the ranges tile the     *)
(*        stream and begin with a start code (that they are the access     *)
(*        units of ITU-T H.264 7.4.1.2.3 is the generator's claim)         *)
(*  Reset k="h264raw" {stream}   arbitrary octets for the framer           *)
(*  Feed {n}                a piece of the stream given to the framer      *)
(*  Out  {b, l}             a buffer output by the framer: octets, stored  *)
(*                          NAL offsets                                    *)
(*  Fd   {hsize, vsize}     flow definition output by the framer           *)
(*  Ev   {name}             probe event (error / fatal: only on raw input) *)
(*  End                     the framer was released                        *)
(*  Abort a failed assert of the code under test: accepted only where the  *)
(*        statement is silent (arbitrary octets, a frame left half         *)
(*        converted by a refused conversion)                               *)
(*  San   a sanitizer report / crash: never accepted                       *)
(*                                                                         *)
(* Where the statement is silent the module is permissive: after a refused *)
(* conversion, on frames that were not produced by Ser, on frames holding  *)
(* an empty NAL unit (the code may refuse them; under "nalu" nothing is    *)
(* required of them), on bit strings that are not decodable or end too     *)
(* early (value and overflow flag free), overflow flag once it was raised. *)
(***************************************************************************)
EXTENDS NalOps, Json, IOUtils

Tr == ndJsonDeserialize(IOEnv.TRACE)

VARIABLES l,        \* next line of Tr
          kind,     \* "frame" | "rbsp" | "none"
          f,        \* the abstract frame
          mode,     \* "ok" | "unspec" | "dead"
          degen,    \* the frame holds an empty NAL unit
          pend,     \* NAL <<id, size, sc>> claimed for the next prepend, or <<>>
          bytes,    \* rbsp octets
          stream,   \* BytesBits(Unescape(bytes))
          rst,      \* "idle" | "reading" | "closed"
          pos, lost, ovs,
          h,        \* H.264 framer executions: [stream, aus, out, dims, next, fed]
          skip, cur, bad
st0  == <<kind, f, mode, degen, pend, bytes, stream, rst, pos, lost, ovs>>
st   == <<st0, h>>
vars == <<l, st, skip, cur, bad>>
fvars == <<f, mode, degen, pend>>
bvars == <<bytes, stream, rst, pos, lost, ovs>>

---------------------------------------------------------------------------
FramePayloads(e) == [i \in 1..Len(e.nals) |-> PayloadOf(e.nals[i][1], e.nals[i][2])]
FrameScs(e)      == [i \in 1..Len(e.nals) |-> e.nals[i][3]]
FrameOf(e)       == MkFrame(FramePayloads(e), e.enc, FrameScs(e))

FieldOf(t) == CASE t[1] = "u"  -> [t |-> "u", w |-> t[2], v |-> Word(t[4], t[5])]
                [] t[1] = "ue" -> [t |-> "ue", v |-> Word(t[4], t[5])]
                [] OTHER       -> [t |-> "se", neg |-> t[3], m |-> Word(t[4], t[5])]
FieldOK(x) == CASE x.t = "u"  -> x.w \in 1..24 /\ ZeroExt(SubSeq(x.v, 33 - x.w, 32)) = x.v
                [] x.t = "ue" -> UeDomain(x.v)
                [] OTHER      -> x.neg \in {0, 1} /\ SeDomain(x.neg, x.m)
FieldsOf(e) == [i \in 1..Len(e.fields) |-> FieldOf(e.fields[i])]

\* a conversion the statement speaks about: a frame made by Ser, converted
\* from the encapsulation it is in
Judged(e) == mode = "ok" /\ e.from = f.enc /\ e.to \in EncsAll
             /\ ~(degen /\ (e.to = "nalu" \/ f.enc = "nalu"))
CanRead(w) == pos + w <= Len(stream)

---------------------------------------------------------------------------
(* H.264 framer (stage 2): the access units of an Annex B stream *)
H0 == [stream |-> <<>>, aus |-> <<>>, out |-> "annexb", dims |-> <<0, 0>>, next |-> 1, fed |-> 0]
\* offsets (0-based) of the NAL units of an Annex B octet string: every start
\* code 00 00 01, with the zero octet before it if there is one
RECURSIVE ScanStarts(_, _)
ScanStarts(bs, p) ==
  IF p + 2 > Len(bs) THEN <<>>
  ELSE IF bs[p] = 0 /\ bs[p + 1] = 0 /\ bs[p + 2] = 1
       THEN <<(IF p > 1 /\ bs[p - 1] = 0 THEN p - 2 ELSE p - 1)>> \o ScanStarts(bs, p + 3)
       ELSE ScanStarts(bs, p + 1)
NalStarts(bs) == ScanStarts(bs, 1)
AnnexbFrame(bs) == [S |-> RNorm(Lit(bs)), offs |-> Tail(NalStarts(bs)), enc |-> "annexb"]
AuBytes(j) == SubSeq(h.stream, h.aus[j][1] + 1, h.aus[j][2])
HResetOK(e) ==
  /\ Len(e.aus) >= 1 /\ e.aus[1][1] = 0 /\ e.aus[Len(e.aus)][2] = Len(e.stream)
  /\ \A j \in 1..Len(e.aus) :
        /\ e.aus[j][1] < e.aus[j][2] /\ e.aus[j][3] \in {0, 1}
        /\ j > 1 => e.aus[j][1] = e.aus[j - 1][2]
        \* an access unit begins with a start code (here: with its zero octet)
        /\ NalStarts(SubSeq(e.stream, e.aus[j][1] + 1, e.aus[j][2])) # <<>>
        /\ NalStarts(SubSeq(e.stream, e.aus[j][1] + 1, e.aus[j][2]))[1] = 0
  /\ e.out \in EncsAll
\* first access unit holding the parameter sets (0: none)
FirstParam == IF \E j \in 1..Len(h.aus) : h.aus[j][3] = 1
              THEN CHOOSE j \in 1..Len(h.aus) : h.aus[j][3] = 1 /\ \A i \in 1..(j - 1) : h.aus[i][3] = 0
              ELSE 0
\* what the framer must output for access unit j: its octets (converted to
\* the encapsulation asked for) with stored offsets delimiting its NAL units
Expected(j) == IF h.out = "annexb" THEN AnnexbFrame(AuBytes(j)) ELSE Convert(AnnexbFrame(AuBytes(j)), h.out)
Matches(e, j) == LET x == Expected(j) IN
                 /\ x # Err
                 /\ RNorm(Lit(e.b)) = x.S
                 /\ Units([S |-> x.S, offs |-> e.l, enc |-> x.enc]) = Units(x)
\* access units before the first parameter sets cannot be decoded: the framer
\* may skip them; from then on every access unit is output, in order.
\* A range flagged [4] = 1 is not an access unit: it holds parameter sets (or other non-picture NAL units)
\* travelling alone in a buffer of a flow flagged complete - the framer learns them and outputs nothing.
NoAu(j) == Len(h.aus[j]) >= 4 /\ h.aus[j][4] = 1
NextAu(n) == IF \E j \in n..Len(h.aus) : ~NoAu(j)
             THEN CHOOSE j \in n..Len(h.aus) : ~NoAu(j) /\ \A i \in n..(j - 1) : NoAu(i)
             ELSE Len(h.aus) + 1
Candidates == IF FirstParam = 0 THEN {}
              ELSE IF h.next < FirstParam
                   THEN {j \in h.next..FirstParam : ~NoAu(j)} \cup ({NextAu(FirstParam)} \cap (1..Len(h.aus)))
                   ELSE {NextAu(h.next)} \cap (1..Len(h.aus))
HGuard(e) ==
  CASE e.e = "Feed" -> /\ kind \in {"h264", "h264raw"} /\ e.n >= 0
                       /\ kind = "h264" => h.fed + e.n <= Len(h.stream)
    [] e.e = "Out"  -> /\ kind \in {"h264", "h264raw"}
                       /\ kind = "h264" => \E j \in Candidates :
                                               /\ h.aus[j][2] <= h.fed        \* nothing that was not input yet
                                               /\ Matches(e, j)
    [] e.e = "Fd"   -> /\ kind \in {"h264", "h264raw"}
                       /\ kind = "h264" => <<e.hsize, e.vsize>> = h.dims
    [] e.e = "Ev"   -> /\ kind \in {"h264", "h264raw"}
                       /\ kind = "h264" => e.name \notin {"error", "fatal"}
    [] e.e = "End"  -> /\ kind \in {"h264", "h264raw"}
                       \* every access unit that follows the parameter sets was output
                       /\ kind = "h264" => /\ h.fed = Len(h.stream)
                                           /\ IF FirstParam = 0 THEN h.next = 1 ELSE NextAu(h.next) = Len(h.aus) + 1
    [] OTHER        -> FALSE
HEffect(e) ==
  CASE e.e = "Feed" -> h' = [h EXCEPT !.fed = @ + e.n]
    [] e.e = "Out" /\ kind = "h264" ->
          h' = [h EXCEPT !.next = 1 + CHOOSE j \in Candidates :
                                        Matches(e, j) /\ \A i \in Candidates : (i < j => ~Matches(e, i))]
    [] OTHER        -> h' = h

ResetGuard(e) ==
  CASE e.k = "frame" -> /\ e.enc \in EncsAll
                        /\ \A i \in 1..Len(e.nals) : e.nals[i][3] \in {3, 4}
                        /\ Representable(FramePayloads(e), e.enc)
                        /\ RNorm(OfPairs(e.buf)) = FrameOf(e).S     \* the generator serialised as Ser does
                        /\ e.offs = FrameOf(e).offs
    [] e.k = "raw"   -> TRUE
    [] e.k = "h264"  -> HResetOK(e)
    [] e.k = "h264raw" -> TRUE
    [] e.k = "rbsp"  -> e.hasf = 1 => /\ \A i \in 1..Len(e.fields) : FieldOK(FieldOf(e.fields[i]))
                                      \* the generator encoded as the reference encoder does
                                      /\ e.bytes = EncodeRbsp(FieldsOf(e))
    [] OTHER         -> FALSE

\* uref_h26x_prepend_nal: the generator claims that `unit` is NAL <<id, size, sc>>
\* written in the encapsulation the frame is in (event Claim, checked here);
\* the statement speaks about it when the frame is one Ser made and is not empty
ScsOf(fr) == [k \in 1..Len(Units(fr)) |-> FoundPrefix(UnitStr(fr, k), fr.enc)]
ClaimOK(e) == /\ e.nal[3] \in {3, 4} /\ e.nal[2] >= 1 /\ e.nal[2] <= MaxPay(f.enc)
              /\ RNorm(OfPairs(e.unit)) =
                    RNorm(Prefix(f.enc, e.nal[2], e.nal[3]) \o PayloadOf(e.nal[1], e.nal[2]))
PrepJudged == mode = "ok" /\ ~degen /\ pend # <<>> /\ Len(Units(f)) >= 1
Prepended == MkFrame(<<PayloadOf(pend[1], pend[2])>> \o Parse(f), f.enc, <<pend[3]>> \o ScsOf(f))

HEvents == {"Feed", "Out", "Fd", "Ev", "End"}
Guard(e) ==
  CASE e.e \in HEvents -> HGuard(e)
    [] e.e = "Claim" -> kind = "frame" /\ mode \in {"ok", "unspec"} /\ (mode = "ok" => ClaimOK(e))
    [] e.e = "Prep"  -> /\ kind = "frame" /\ mode \in {"ok", "unspec"}
                        /\ PrepJudged => e.r = 0
    [] e.e = "Conv"  -> /\ kind = "frame" /\ mode \in {"ok", "unspec"}
                        /\ Judged(e) =>
                             LET c == Convert(f, e.to) IN
                             IF c = Err THEN e.r # 0                 \* must be refused
                             ELSE e.r = 0 \/ degen
    [] e.e = "Bytes" -> /\ kind = "frame" /\ mode \in {"ok", "unspec"}
                        /\ mode = "ok" => (e.r = 0 /\ RNorm(OfPairs(e.buf)) = f.S)
    [] e.e = "Iter"  -> /\ kind = "frame" /\ mode \in {"ok", "unspec"}
                        /\ mode = "ok" => e.l = Units(f)
    [] e.e = "Offs"  -> /\ kind = "frame" /\ mode \in {"ok", "unspec"}
                        /\ mode = "ok" => e.l = f.offs
    [] e.e = "Abort" -> (kind = "frame" /\ mode = "unspec") \/ kind = "h264raw"
    [] e.e = "SInit" -> /\ kind = "rbsp" /\ rst \in {"idle", "closed"}
                        /\ e.ok \in {0, 1}
                        /\ e.ok = 0 => Len(bytes) = 0                 \* refusing to start: nothing to map
    [] e.e = "U"     -> /\ kind = "rbsp" /\ rst = "reading"
                        /\ e.w \in 1..24 /\ e.ov \in {0, 1}
                        /\ (~lost /\ CanRead(e.w)) =>
                              /\ Word(e.hi, e.lo) = ZeroExt(SubSeq(stream, pos + 1, pos + e.w))
                              /\ ~ovs => e.ov = 0                     \* no spurious overflow
    [] e.e = "Ue"    -> /\ kind = "rbsp" /\ rst = "reading" /\ e.ov \in {0, 1}
                        /\ LET d == UeDecode(stream, pos) IN
                           (~lost /\ d.ok) =>
                              /\ Word(e.hi, e.lo) = d.v
                              /\ (~ovs /\ pos + d.len + 7 <= Len(stream)) => e.ov = 0
    [] e.e = "Se"    -> /\ kind = "rbsp" /\ rst = "reading" /\ e.ov \in {0, 1} /\ e.neg \in {0, 1}
                        /\ LET d == UeDecode(stream, pos) IN
                           (~lost /\ d.ok) =>
                              /\ [neg |-> e.neg, m |-> Word(e.hi, e.lo)] = UeToSe(d.v)
                              /\ (~ovs /\ pos + d.len + 7 <= Len(stream)) => e.ov = 0
    [] e.e = "SDone" -> kind = "rbsp" /\ rst \in {"reading", "closed"}
    [] OTHER         -> FALSE                                         \* San: never accepted

ResetEffect(e) ==
  /\ h' = IF e.k \in {"h264", "h264raw"}
          THEN [stream |-> e.stream, aus |-> IF e.k = "h264" THEN e.aus ELSE <<>>,
                out |-> IF e.k = "h264" THEN e.out ELSE "annexb",
                dims |-> IF e.k = "h264" THEN e.dims ELSE <<0, 0>>, next |-> 1, fed |-> 0]
          ELSE H0
  /\ kind' = IF e.k \in {"rbsp", "h264", "h264raw"} THEN e.k ELSE "frame"
  /\ f' = CASE e.k = "frame" -> FrameOf(e)
            [] e.k = "raw"   -> [S |-> RNorm(OfPairs(e.buf)), offs |-> e.offs, enc |-> e.enc]
            [] OTHER         -> Err
  /\ mode' = IF e.k = "raw" THEN "unspec" ELSE "ok"
  /\ degen' = (e.k = "frame" /\ \E i \in 1..Len(e.nals) : e.nals[i][2] = 0)
  /\ pend' = <<>>
  /\ bytes' = IF e.k = "rbsp" THEN e.bytes ELSE <<>>
  /\ stream' = IF e.k = "rbsp" THEN BytesBits(Unescape(e.bytes)) ELSE <<>>
  /\ rst' = "idle" /\ pos' = 0 /\ lost' = FALSE /\ ovs' = FALSE

Effect(e) ==
  CASE e.e = "Claim" -> pend' = e.nal /\ UNCHANGED <<kind, f, mode, degen, bvars>>
    [] e.e = "Prep"  -> /\ IF PrepJudged /\ e.r = 0
                           THEN f' = Prepended /\ mode' = "ok"
                           ELSE f' = f /\ mode' = "unspec"
                        /\ pend' = <<>> /\ UNCHANGED <<kind, degen, bvars>>
    [] e.e = "Conv"  -> /\ IF Judged(e) /\ e.r = 0 /\ Convert(f, e.to) # Err
                           THEN f' = Convert(f, e.to) /\ mode' = "ok"
                           ELSE f' = f /\ mode' = "unspec"
                        /\ UNCHANGED <<kind, degen, pend, bvars>>
    [] e.e = "Abort" -> mode' = "dead" /\ UNCHANGED <<kind, f, degen, pend, bvars>>
    [] e.e = "SInit" -> /\ rst' = IF e.ok = 1 THEN "reading" ELSE "closed"
                        /\ pos' = 0 /\ lost' = FALSE /\ ovs' = FALSE
                        /\ UNCHANGED <<kind, fvars, bytes, stream>>
    [] e.e = "U"     -> /\ pos' = pos + e.w /\ lost' = (lost \/ ~CanRead(e.w)) /\ ovs' = (ovs \/ e.ov = 1)
                        /\ UNCHANGED <<kind, fvars, bytes, stream, rst>>
    [] e.e \in {"Ue", "Se"} ->
                        LET d == UeDecode(stream, pos) IN
                        /\ pos' = pos + d.len /\ lost' = (lost \/ ~d.ok) /\ ovs' = (ovs \/ e.ov = 1)
                        /\ UNCHANGED <<kind, fvars, bytes, stream, rst>>
    [] e.e = "SDone" -> rst' = "idle" /\ UNCHANGED <<kind, fvars, bytes, stream, pos, lost, ovs>>
    [] OTHER         -> UNCHANGED st

TStep ==
  /\ l <= Len(Tr) /\ l' = l + 1
  /\ LET ev == Tr[l] IN
     IF ev.e = "Reset"
     THEN /\ cur' = ev.hid
          /\ IF ResetGuard(ev)
             THEN ResetEffect(ev) /\ skip' = FALSE /\ bad' = bad
             ELSE UNCHANGED st /\ skip' = TRUE /\ bad' = bad \cup {<<ev.hid, l>>}
     ELSE IF skip THEN UNCHANGED <<st, skip, cur, bad>>
     ELSE IF Guard(ev) THEN /\ IF ev.e \in HEvents THEN HEffect(ev) /\ UNCHANGED st0
                                                    ELSE Effect(ev) /\ h' = h
                            /\ UNCHANGED <<skip, cur, bad>>
     ELSE skip' = TRUE /\ bad' = bad \cup {<<cur, l>>} /\ UNCHANGED <<st, cur>>

TInit == /\ l = 1 /\ kind = "none" /\ f = Err /\ mode = "ok" /\ degen = FALSE /\ pend = <<>>
         /\ bytes = <<>> /\ stream = <<>> /\ rst = "idle" /\ pos = 0 /\ lost = FALSE /\ ovs = FALSE
         /\ h = H0 /\ skip = FALSE /\ cur = 0 /\ bad = {}
TSpec == TInit /\ [][TStep]_vars

\* property invariants evaluated in every state of every execution: a frame
\* the specification vouches for is well formed, its stored offsets delimit
\* its NAL units, and its payloads are those of the initial frame
FrameSound == (kind = "frame" /\ mode = "ok" /\ ~skip /\ ~degen) =>
                 /\ WellFormed(f)
                 /\ f.offs = OffsP(Parse(f), f.enc,
                                   [k \in 1..Len(Units(f)) |-> FoundPrefix(UnitStr(f, k), f.enc)])
StreamSound == kind = "rbsp" => Len(stream) % 8 = 0

Report == (l = Len(Tr) + 1) => PrintT(<<"TRACE_BAD", bad>>)
Accepted == LET d == TLCGet("stats").diameter IN
            IF d - 1 = Len(Tr) THEN PrintT(<<"TRACE_ACCEPTED", Len(Tr)>>)
                               ELSE PrintT(<<"TRACE_REJECTED_AT", d>>)
=============================================================================
