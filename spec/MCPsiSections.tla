---------------------------- MODULE MCPsiSections ----------------------------
(* Model-checking wrapper of PsiSections: the palettes of section shapes   *)
(* (cfg files cannot hold records).                                        *)
EXTENDS PsiSections

Sh(len, syn, ff, bad) == [len |-> len, syn |-> syn, ff |-> ff, bad |-> bad]

\* total sizes 3..7 (cuts fall inside the 3-octet header), a body of 0xff,
\* and two corrupt headers: length field 4094, long syntax with length 1
PalSmall  == {Sh(n, 0, 0, 0) : n \in 3..7} \cup {Sh(6, 0, 1, 0)}
PalSmallD == PalSmall \cup {Sh(5, 0, 0, 4094), Sh(4, 1, 0, 0)}
\* a smaller one for the configurations that keep the history
PalTiny   == {Sh(3, 0, 0, 0), Sh(4, 0, 0, 0), Sh(6, 0, 0, 0), Sh(5, 0, 1, 0)}
PalTinyD  == PalTiny \cup {Sh(5, 0, 0, 4094), Sh(4, 1, 0, 0)}
PalMicroD == {Sh(3, 0, 0, 0), Sh(4, 0, 0, 0), Sh(5, 0, 0, 4094), Sh(4, 1, 0, 0)}
PalMini   == {Sh(3, 0, 0, 0), Sh(4, 0, 0, 0), Sh(5, 0, 0, 0), Sh(5, 0, 1, 0)}

\* real sizes: empty body, one octet, long syntax at its minimum (length 9),
\* around one TS payload (183/184), the 1021+3 limit of the non-private
\* tables and around it, the private-section maximum 4093+3, bodies of 0xff,
\* corrupt headers (length field 4094 / 4095, long syntax too short)
PalReal   == {Sh(3, 0, 0, 0), Sh(4, 0, 0, 0), Sh(12, 1, 0, 0), Sh(183, 0, 0, 0), Sh(184, 1, 0, 0),
              Sh(259, 0, 0, 0), Sh(1024, 1, 0, 0), Sh(1027, 0, 0, 0), Sh(4095, 0, 0, 0), Sh(4096, 1, 0, 0),
              Sh(200, 0, 1, 0), Sh(4096, 0, 1, 0)}
PalRealD  == PalReal \cup {Sh(300, 0, 0, 4094), Sh(4096, 0, 0, 4095), Sh(11, 1, 0, 0), Sh(5, 1, 1, 0)}
=============================================================================
