----------------------------- MODULE Ubits_Trace -----------------------------
(***************************************************************************)
(* C18 - validation of recorded executions of the REAL bit writer          *)
(* (ubits_put / ubits_clean), the REAL bit reader (ubits_get) and the REAL *)
(* block bit-stream reader (ubuf_block_stream.h), produced by              *)
(* harness/replay_bits.c, against the ABSTRACT part of Ubits.tla (the      *)
(* operators are taken from that module by INSTANCE, so the executions are *)
(* judged by the very definitions the detailed model was checked against). *)
(*                                                                         *)
(* One TLC state per trace line; executions are separated by Reset.        *)
(*   Reset {cap}                                                           *)
(*   Put   {w, hi, lo, n, b, ov, g}   n new octets b produced by this put  *)
(*   Clean {r, end, all, g}           r: 0 ok, 1 NOSPC                     *)
(*   RInit {rd, size, off, ok}        a reader is given the first `size`   *)
(*                                    octets, starts at bit offset `off`   *)
(*   Get   {w, hi, lo, ov}            value as two 16-bit limbs            *)
(*   RDone {g}                                                             *)
(*   San   {...}                      sanitizer report: no action accepts  *)
(* g = guard octets on both sides of the buffer intact.                    *)
(*                                                                         *)
(* Where the statement is silent the module is permissive: value of the    *)
(* padding bits, octets produced before they are complete, anything after  *)
(* an overflow indication (except the bounds).                             *)
(***************************************************************************)
EXTENDS Naturals, Integers, Sequences, TLC, Json, IOUtils

Tr == ndJsonDeserialize(IOEnv.TRACE)

VARIABLES l,        \* next line of Tr
          cap,      \* capacity of the buffer given to the writer
          abits,    \* abstract: bits written so far
          pos,      \* octets produced so far
          ovs,      \* the writer has raised its overflow flag
          wst,      \* "w" writing, "ok" cleaned, "nospc"
          all,      \* the octets produced (logged by Clean)
          rst,      \* "idle" | "reading" | "closed"
          rstream,  \* the bits of the octets the current reader was given
          rsize, rpos, rov
vars == <<l, cap, abits, pos, ovs, wst, all, rst, rstream, rsize, rpos, rov>>

U == INSTANCE Ubits WITH
       Mode <- "T", Variant <- "ok", Widths <- {}, Kinds <- {}, MaxFields <- 0,
       MaxCap <- 0, MaxSize <- 0, MaxSeg <- 0, Pats <- {}, NearCap <- FALSE,
       phase <- "t", fields <- <<>>, np <- 0, cap <- cap, abits <- abits,
       wbits <- <<>>, wavail <- 0, wpos <- pos, wov <- ovs, mem <- all, cres <- wst, wend <- 0,
       rd <- "t", rsize <- rsize, rpos <- rpos, ri <- 0, lastw <- 0, lastv <- <<>>, lastov <- FALSE,
       cb <- <<>>, ca <- 0, cp <- 0, rov <- rov,
       sleft <- 0, sdead <- FALSE, spc <- "t", sparts <- <<>>, sacc <- <<>>, curw <- 0,
       ub <- FALSE, oob <- FALSE

Word(hi, lo) == U!NBits(16, hi) \o U!NBits(16, lo)
IsEv(e) == l <= Len(Tr) /\ Tr[l].e = e /\ l' = l + 1

TReset == /\ IsEv("Reset")
          /\ cap' = Tr[l].cap /\ abits' = <<>> /\ pos' = 0 /\ ovs' = FALSE /\ wst' = "w"
          /\ all' = <<>> /\ rst' = "idle" /\ rstream' = <<>> /\ rsize' = 0 /\ rpos' = 0 /\ rov' = FALSE

TPut == /\ IsEv("Put") /\ wst = "w"
        /\ LET e  == Tr[l]
               x  == Word(e.hi, e.lo)
               nb == U!APut(abits, e.w, x)                \* abstract Put
               ov == ovs \/ e.ov = 1
           IN /\ e.w \in 1..32
              /\ U!ZeroExt(U!Low(e.w, x)) = x             \* caller contract: value < 2^w
              /\ e.g = 1                                  \* guards intact
              /\ e.n >= 0 /\ e.n = Len(e.b)
              /\ pos + e.n <= cap                         \* never beyond the capacity
              /\ e.ov = 1 => Len(nb) > 8 * cap            \* no spurious overflow
              \* complete octets produced are the packing of the abstract bits
              /\ ~ov => \A j \in 1..e.n :
                           8 * (pos + j) <= Len(nb) =>
                              e.b[j] = U!BitsVal(SubSeq(nb, 8 * (pos + j) - 7, 8 * (pos + j)))
              /\ abits' = nb /\ pos' = pos + e.n /\ ovs' = ov
        /\ UNCHANGED <<cap, wst, all, rst, rstream, rsize, rpos, rov>>

TClean == /\ IsEv("Clean") /\ wst = "w"
          /\ LET e == Tr[l] IN
             /\ e.g = 1
             /\ e.r \in {0, 1}
             /\ (e.r = 1) <=> U!ANospc                    \* NOSPC iff ceil(bits/8) > cap
             /\ ovs => e.r = 1
             /\ e.r = 0 => /\ e.end = U!Need(abits)       \* octets produced
                           /\ U!ABytesOK(e.all)
             /\ wst' = IF e.r = 0 THEN "ok" ELSE "nospc"
             /\ all' = IF e.r = 0 THEN e.all ELSE <<>>
          /\ UNCHANGED <<cap, abits, pos, ovs, rst, rstream, rsize, rpos, rov>>

\* a reader is started over the first `size` octets produced
TRInit == /\ IsEv("RInit") /\ wst = "ok" /\ rst \in {"idle", "closed"}
          /\ LET e == Tr[l] IN
             /\ e.size \in 0..Len(all) /\ e.off >= 0
             /\ e.ok \in {0, 1}
             \* refusing to start is allowed only when there is nothing to map
             /\ e.ok = 0 => (e.off \div 8) >= e.size
             /\ e.ok = 1 => (e.off \div 8) <= e.size
             /\ (e.rd = "stream" /\ e.ok = 1) => (e.off \div 8) < e.size
             /\ rst' = IF e.ok = 1 THEN "reading" ELSE "closed"
             /\ rsize' = e.size /\ rpos' = e.off /\ rov' = FALSE
             /\ rstream' = U!BytesBits(SubSeq(all, 1, e.size))   \* = U!RStream for the new rsize
          /\ UNCHANGED <<cap, abits, pos, ovs, wst, all>>

TGet == /\ IsEv("Get") /\ rst = "reading"
        /\ LET e == Tr[l]
               x == Word(e.hi, e.lo)
           IN /\ e.w \in 1..32
              /\ e.ov \in {0, 1}
              /\ ~rov =>                                   \* after an overflow: unconstrained
                   IF U!ACanRead(rstream, rpos, e.w)
                   THEN /\ e.ov = 0                        \* no spurious overflow
                        /\ x = U!ZeroExt(U!ASlice(rstream, rpos, e.w))
                   ELSE e.ov = 1                           \* out of data: overflow indication
              /\ rpos' = rpos + e.w /\ rov' = (rov \/ e.ov = 1)
        /\ UNCHANGED <<cap, abits, pos, ovs, wst, all, rst, rstream, rsize>>

TRDone == /\ IsEv("RDone") /\ rst \in {"reading", "closed"}
          /\ Tr[l].g = 1
          /\ rst' = "idle"
          /\ UNCHANGED <<cap, abits, pos, ovs, wst, all, rstream, rsize, rpos, rov>>

TInit == /\ l = 1 /\ cap = 0 /\ abits = <<>> /\ pos = 0 /\ ovs = FALSE /\ wst = "w"
         /\ all = <<>> /\ rst = "idle" /\ rstream = <<>> /\ rsize = 0 /\ rpos = 0 /\ rov = FALSE
TNext == TReset \/ TPut \/ TClean \/ TRInit \/ TGet \/ TRDone
TSpec == TInit /\ [][TNext]_vars

\* property invariants evaluated in every state of every execution
WithinCap == pos <= cap
\* the octets the readers see hold the bits written (checked where `all` changes)
ReadBack  == (wst = "ok" /\ rst = "idle" /\ rstream = <<>>) => U!ABytesOK(all)
OvfSound  == ovs => Len(abits) > 8 * cap

Accepted == LET d == TLCGet("stats").diameter IN
            IF d - 1 = Len(Tr) THEN PrintT(<<"TRACE_ACCEPTED", Len(Tr)>>)
                               ELSE PrintT(<<"TRACE_REJECTED_AT", d>>)
=============================================================================
