\* NEGATIVE: the block stream drops the first octet of every new segment: TLC must reject (ReadOK)
SPECIFICATION Spec
CONSTANTS
  Mode = "R"
  Variant = "neg_seg"
  Widths = {1, 7, 8, 9, 24, 31, 32}
  Kinds = {"ones", "alt", "zero"}
  MaxFields = 3
  MaxCap = 0
  MaxSize = 6
  MaxSeg = 2
  Pats = {"tex", "xet", "ones", "zero"}
  NearCap = FALSE
INVARIANT TypeOK NoUB InBounds ReadOK ReaderRefInv
CHECK_DEADLOCK FALSE
