\* quick: <= 2 NALs, every chain of 3 conversions; emits BEH lines
SPECIFICATION Spec
CONSTANTS
  Variant = "ok"
  Sizes = {1, 256}
  MaxNals = 2
  MaxConv = 3
  Encs = {"annexb", "len1", "len2", "len4", "nalu"}
  Sc3 = FALSE
  BigOnce = FALSE
INVARIANT Emit TypeOK PayloadsKept OverflowErr RoundTrip Stable Refines ErrAgree NoTrap
VIEW View
CHECK_DEADLOCK FALSE
