\* C12 NEGATIVE: set_output re-issues the list as it was in one pass although an answer may have re-registered entries meanwhile (scenario H)
SPECIFICATION Spec
CONSTANTS
  Scenarios <- ScnOnlyH
  Variant = "setout_one_pass"
  EmitEdges = FALSE
  Idle = FALSE
  MaxGen = 2
  MaxChan = 2
  MaxPath = 0
CONSTRAINT Bound
VIEW ViewCore
INVARIANT TypeOK PathInv OneEntry
PROPERTY StepNoCallbackAfterUnregister StepNoSinkFreedWithRegs StepReachesProvide StepReachesRunA StepReachesProbe
CHECK_DEADLOCK FALSE
