SPECIFICATION Spec
CONSTANTS
 Setups <- S_buffer
 Acts <- A_buffer
 Bufs <- B_size
 MaxSteps = 4
 MaxIn = 3
 Variant = "dropheld"
 CheckEpi = TRUE
INVARIANT ExactlyOnce
INVARIANT InOrder
INVARIANT ContentOK
INVARIANT DupAll
INVARIANT NoLeak
INVARIANT EpilogueClean
INVARIANT DrainedOK
PROPERTY FlushFrees
VIEW view
CHECK_DEADLOCK FALSE
