----------------------------- MODULE MCLifecycle -----------------------------
(***************************************************************************)
(* C01 - detailed layer and driver.  The reference handling of the pipes   *)
(* is transcribed from the C code, one abstract event of Lifecycle.tla per *)
(* urefcount operation, in the order of the code:                          *)
(*   "lin"   a filter built on upipe_helper_output (upipe_idem.c ...):     *)
(*           set_output releases the old output, uses the new one;         *)
(*           set_flow_def stores a copy; input forwards or drops; free     *)
(*           releases the output and the flow definition                   *)
(*   "sink"  consumes its input, holds nothing                             *)
(*   "qsink" upipe_queue_sink.c: reference on its queue source, hand-made  *)
(*           set_output, spool + self-reference while the queue is full,   *)
(*           watcher, flush, free                                          *)
(*   "qsrc"  upipe_queue_source.c: public refcount -> REF_END message ->   *)
(*           real refcount; worker / out-of-band pumps of the mock loop    *)
(* The driver part generates every API program (alloc, set_output,         *)
(* set_flow_def, input, flush, release, run the event loop) over the       *)
(* pipeline Topo that respects the ownership rules (a handle is used only  *)
(* while held and released once), ends it with the epilogue (release every *)
(* handle, run the loop until idle) and records in hist what the           *)
(* specification predicts after every call: which pipes died, the counter  *)
(* of every pipe the application still holds, the number of live urefs.    *)
(*                                                                         *)
(* Variant selects deliberately broken transcriptions (negative cfgs):     *)
(*   "s1"        qsink set_output(NULL) keeps the stale pointer            *)
(*   "noselfref" a stalled qsink does not take the reference on itself     *)
(*   "norelout"  the destructor of a filter forgets to release its output  *)
(*   "leakfd"    the destructor of a filter forgets its flow definition    *)
(*   "doublerel" set_output releases the old output twice                  *)
(*   "earlykill" the destructor runs when the counter drops to 1           *)
(***************************************************************************)
EXTENDS Naturals, Integers, Sequences, FiniteSets, TLC, Json

CONSTANTS TopoName,     \* which pipeline (see Topo)
          Variant,      \* "ok" or a broken transcription
          QLen,         \* length of the queue of the queue source
          MaxHeld,      \* bound on the spool of a stalled queue sink
          MaxCmds,      \* bound on the program length (0 = unbounded)
          MinCmds,      \* the epilogue may start after that many calls (simulation: longer programs)
          EmitBeh       \* TRUE: hist is kept and printed

VARIABLES S, hist, ncmd, done
vars == <<S, hist, ncmd, done>>

INSTANCE Lifecycle

Topo == CASE TopoName = "lls"  -> <<"lin", "lin", "sink">>
          [] TopoName = "ls"   -> <<"lin", "sink">>
          [] TopoName = "lss"  -> <<"lin", "sink", "sink">>
          [] TopoName = "qs"   -> <<"qsink", "qsrc", "sink">>
          [] TopoName = "lqs"  -> <<"lin", "qsink", "qsrc", "sink">>
          [] TopoName = "qqs"  -> <<"qsink", "qsink", "qsrc", "sink">>
N == Len(Topo)
P == 1..N
PubId == <<"p1", "p2", "p3", "p4">>
RealId == <<"r1", "r2", "r3", "r4">>
HasQ == \E p \in P : Topo[p] = "qsrc"
Src == CHOOSE s \in P : Topo[s] = "qsrc"
PipeOf(id) == CHOOSE p \in P : PubId[p] = id \/ RealId[p] = id

(* vacuity guard: TLC's -coverage runs out of memory on the recursive operators
   of this module, so the actions and branches taken are counted in TLC
   registers and printed by the POSTCONDITION Cov (run with -workers 1) *)
CovNames == <<"new", "out", "setfd", "in", "flush", "rel", "loop", "finish",
              "stall", "watcher", "flushheld", "cascade", "refend", "realfree",
              "drop", "qdeliver", "srcend", "forward">>
Mark(name) == LET i == CHOOSE j \in 1..Len(CovNames) : CovNames[j] = name
              IN TLCSet(i, TLCGet(i) + 1)
Cov == PrintT(<<"COV", [i \in 1..Len(CovNames) |-> <<CovNames[i], TLCGet(i)>>]>>)

Born(s, id) == Has(s.T, id)
Live(s, id) == Has(s.T, id) /\ s.T[id].st = "live"

(* one abstract event: accepted -> the table moves, refused -> the sentence is recorded *)
Ev(s, ev) == LET w == Why(s.T, ev) IN
             IF w = "ok" THEN [s EXCEPT !.T = Step(s.T, ev)]
                         ELSE [s EXCEPT !.viol = @ \cup {w}]
UseObj(s, id, h) == Ev(s, [e |-> "Use", o |-> id, h |-> h, v |-> IF Live(s, id) THEN 1 ELSE 0])

RECURSIVE RelObj(_, _, _), Kill(_, _), Output(_, _), Input(_, _), SetFdInner(_, _),
          QPush(_, _, _), DrainQ(_, _)

(* urefcount_release: the destructor runs when the counter reaches zero *)
RelObj(s, id, h) ==
  LET ev == [e |-> "Rel", o |-> id, h |-> h, v |-> IF Live(s, id) THEN 1 ELSE 0]
      s1 == Ev(s, ev)
  IN IF Why(s.T, ev) = "ok" /\ Live(s, id)
        /\ s1.T[id].rc = (IF Variant = "earlykill" /\ h = "int" /\ s.T[id].app = 0 THEN 1 ELSE 0)
     THEN IF h = "int" /\ Mark("cascade") THEN Kill(Ev(s1, [e |-> "Destroy", o |-> id]), id)
          ELSE Kill(Ev(s1, [e |-> "Destroy", o |-> id]), id)
     ELSE s1

(* a uref leaves pipe p towards its output (upipe_helper_output) *)
Output(s, p) ==
  IF s.fd[p] = 0 \/ s.out[p] = 0
  THEN IF Mark("drop") THEN [s EXCEPT !.nuref = @ - 1] ELSE s    \* no flow def / no output: dropped
  ELSE LET s1 == IF ~s.os[p] THEN SetFdInner([s EXCEPT !.os[p] = TRUE], s.out[p]) ELSE s
       IN IF Mark("forward") THEN Input(s1, s.out[p]) ELSE s

(* upipe_set_flow_def on pipe x (control bracket) *)
SetFdInner(s, x) ==
  LET s0 == UseObj(s, PubId[x], "int")
      s1 == CASE Topo[x] = "lin" ->
                   IF s0.fd[x] = 1 THEN s0                      \* copy stored, old freed, equal: state kept
                   ELSE [s0 EXCEPT !.fd[x] = 1, !.nuref = @ + 1, !.os[x] = FALSE]
              [] Topo[x] = "qsink" ->
                   [s0 EXCEPT !.nuref = @ + 1 - s0.fd[x], !.fd[x] = 1, !.sent[x] = FALSE]
              [] OTHER -> s0
  IN RelObj(s1, PubId[x], "int")

(* the queue sink pushes one item or spools it *)
QPush(s, k, item) ==
  IF Len(s.held[k]) > 0 THEN [s EXCEPT !.held[k] = Append(@, item)]
  ELSE IF Len(s.q[Src]) < QLen THEN [s EXCEPT !.q[Src] = Append(@, item)]
  ELSE LET s1 == [s EXCEPT !.held[k] = Append(@, item), !.self[k] = TRUE]
       IN IF Variant = "noselfref" \/ ~Mark("stall") THEN s1 ELSE UseObj(s1, PubId[k], "int")

(* upipe_input(x, uref) (input bracket) *)
Input(s, x) ==
  LET s0 == UseObj(s, PubId[x], "int")
      s1 == CASE Topo[x] = "lin" -> Output(s0, x)
              [] Topo[x] = "sink" -> [s0 EXCEPT !.nuref = @ - 1]
              [] Topo[x] = "qsink" ->
                   LET a == IF ~s0.sent[x] /\ s0.fd[x] = 1
                            THEN QPush([s0 EXCEPT !.sent[x] = TRUE, !.nuref = @ + 1], x, "f")
                            ELSE s0
                   IN QPush(a, x, "b")
              [] OTHER -> s0
  IN RelObj(s1, PubId[x], "int")

(* the queue source handles one item popped from its queue *)
Deliver(s, q, item) ==
  IF item = "f"
  THEN IF s.fd[q] = 1 THEN [s EXCEPT !.nuref = @ - 1]
                      ELSE [s EXCEPT !.fd[q] = 1, !.os[q] = FALSE]
  ELSE Output(s, q)
DrainQ(s, q) ==
  IF Len(s.q[q]) = 0 THEN s
  ELSE DrainQ(Deliver([s EXCEPT !.q[q] = Tail(@)], q, Head(s.q[q])), q)

(* destructors *)
Kill(s, id) ==
  LET p == PipeOf(id)
      c == Topo[p]
      fin(z) == Ev(z, [e |-> "End", o |-> id])
  IN
  IF id = RealId[p] /\ Mark("realfree") THEN                   \* upipe_qsrc_free
       LET s1 == DrainQ(s, p)
           s2 == [s1 EXCEPT !.dead = Append(@, p)]
           s3 == IF s2.out[p] # 0 THEN RelObj(s2, PubId[s2.out[p]], "int") ELSE s2
       IN fin([s3 EXCEPT !.out[p] = 0, !.nuref = @ - s3.fd[p], !.fd[p] = 0, !.oob[p] = <<>>])
  ELSE IF c = "lin" THEN                                        \* upipe_idem_free
       LET s1 == [s EXCEPT !.dead = Append(@, p)]
           s2 == IF s1.out[p] # 0 /\ Variant # "norelout" THEN RelObj(s1, PubId[s1.out[p]], "int") ELSE s1
       IN fin([s2 EXCEPT !.out[p] = 0,
                         !.nuref = IF Variant = "leakfd" THEN @ ELSE @ - s2.fd[p],
                         !.fd[p] = 0])
  ELSE IF c = "sink" THEN fin([s EXCEPT !.dead = Append(@, p)])
  ELSE IF c = "qsink" THEN                                      \* upipe_qsink_free
       LET s1 == [s EXCEPT !.oob[Src] = Append(@, "end")]
           s2 == RelObj(s1, PubId[Src], "int")
           s3 == [s2 EXCEPT !.dead = Append(@, p)]
           s4 == IF s3.out[p] # 0 THEN RelObj(s3, PubId[s3.out[p]], "int") ELSE s3
       IN fin([s4 EXCEPT !.out[p] = 0, !.nuref = @ - s4.fd[p] - Len(s4.held[p]),
                         !.fd[p] = 0, !.held[p] = <<>>])
  ELSE                                                          \* upipe_qsrc_no_ref: REF_END message
       IF Mark("refend") THEN fin([s EXCEPT !.oob[p] = Append(@, "refend")]) ELSE s

(* one pass of the mock event loop; LoopRun iterates until idle *)
Watcher(s, k) ==                                                \* upipe_qsink_watcher (pump holds the pipe during the call)
  IF Topo[k] = "qsink" /\ Live(s, PubId[k]) /\ Len(s.held[k]) > 0 /\ Len(s.q[Src]) < QLen /\ Mark("watcher")
  THEN LET s0 == UseObj(s, PubId[k], "int")
           room == QLen - Len(s0.q[Src])
           nmv == IF Len(s0.held[k]) < room THEN Len(s0.held[k]) ELSE room
           s1 == [s0 EXCEPT !.q[Src] = @ \o SubSeq(s0.held[k], 1, nmv),
                            !.held[k] = SubSeq(@, nmv + 1, Len(@))]
           s2 == IF Len(s1.held[k]) = 0
                 THEN RelObj([s1 EXCEPT !.self[k] = FALSE], PubId[k], "int")
                 ELSE s1
       IN RelObj(s2, PubId[k], "int")
  ELSE s
Worker(s, q) ==                                                 \* upipe_qsrc_worker: one item per dispatch
  IF Live(s, RealId[q]) /\ Len(s.q[q]) > 0 /\ Mark("qdeliver")
  THEN LET s0 == UseObj(s, RealId[q], "int")
           s1 == Deliver([s0 EXCEPT !.q[q] = Tail(@)], q, Head(s0.q[q]))
       IN RelObj(s1, RealId[q], "int")
  ELSE s
Oob(s, q) ==                                                    \* upipe_qsrc_oob
  IF Live(s, RealId[q]) /\ Len(s.oob[q]) > 0
  THEN LET s0 == UseObj(s, RealId[q], "int")
           m == Head(s0.oob[q])
           s1 == [s0 EXCEPT !.oob[q] = Tail(@)]
           s2 == IF m = "end" /\ Mark("srcend") THEN DrainQ(s1, q) ELSE RelObj(s1, RealId[q], "int")
       IN RelObj(s2, RealId[q], "int")
  ELSE s
RECURSIVE Watchers(_, _), LoopRun(_, _)
Watchers(s, k) == IF k > N THEN s ELSE Watchers(Watcher(s, k), k + 1)
LoopRun(s, fuel) ==
  LET s1 == Watchers(s, 1)
      s2 == IF HasQ THEN Oob(Worker(s1, Src), Src) ELSE s1
  IN IF s2 = s \/ fuel = 0 THEN s2 ELSE LoopRun(s2, fuel - 1)

(* --------------------------------------------------------------- commands *)
Hnd(s, p) == Live(s, PubId[p]) /\ s.T[PubId[p]].app = 1
Fresh(s) == [s EXCEPT !.dead = <<>>]

CNew(s, p) ==
  LET s1 == Ev(Fresh(s), [e |-> "Init", o |-> PubId[p], v |-> 1])
      s2 == IF Topo[p] = "qsrc" THEN Ev(s1, [e |-> "Init", o |-> RealId[p], v |-> 1])
            ELSE IF Topo[p] = "qsink" THEN UseObj(s1, PubId[Src], "int")
            ELSE s1
  IN Ev(s2, [e |-> "Adopt", o |-> PubId[p]])

(* upipe_set_output(p, x), x = 0 for NULL *)
CSetOut(s, p, x) ==
  LET s0 == UseObj(Fresh(s), PubId[p], "int")
      old == s0.out[p]
      s1 == IF old # 0 THEN RelObj(s0, PubId[old], "int") ELSE s0
      s1b == IF old # 0 /\ Variant = "doublerel" THEN RelObj(s1, PubId[old], "int") ELSE s1
      s2 == IF Topo[p] = "qsink"
            THEN IF x = 0
                 THEN (IF Variant = "s1" THEN s1b ELSE [s1b EXCEPT !.out[p] = 0])
                 ELSE UseObj([s1b EXCEPT !.out[p] = x], PubId[x], "int")
            ELSE LET a == [s1b EXCEPT !.out[p] = x, !.os[p] = FALSE]
                 IN IF x # 0 THEN UseObj(a, PubId[x], "int") ELSE a
  IN RelObj(s2, PubId[p], "int")

CSetFd(s, p) == SetFdInner(Fresh(s), p)
CIn(s, p) == Input([Fresh(s) EXCEPT !.nuref = @ + 1], p)
CFlush(s, k) ==
  LET s0 == UseObj(Fresh(s), PubId[k], "int")
      s1 == IF Len(s0.held[k]) > 0 /\ Mark("flushheld")
            THEN RelObj([s0 EXCEPT !.nuref = @ - Len(s0.held[k]), !.held[k] = <<>>,
                                   !.sent[k] = FALSE, !.self[k] = FALSE], PubId[k], "int")
            ELSE s0
  IN RelObj(s1, PubId[k], "int")
CRel(s, p) == RelObj(Fresh(s), PubId[p], "app")
CLoop(s) == LoopRun(Fresh(s), 40)

RECURSIVE RelAll(_, _)
RelAll(s, p) == IF p > N THEN s
                ELSE RelAll(IF Hnd(s, p) THEN RelObj(s, PubId[p], "app") ELSE s, p + 1)
CFinish(s) == LoopRun(RelAll(Fresh(s), 1), 40)

(* what the specification predicts after a call *)
RcVec(s) == [p \in P |-> IF Hnd(s, p) THEN s.T[PubId[p]].rc ELSE -1]
Rec(c, a, b, s) == [c |-> c, a |-> a, b |-> b, dead |-> s.dead, rc |-> RcVec(s), u |-> s.nuref,
                    viol |-> s.viol]
Do(c, a, b, s2) ==
  /\ Mark(c)
  /\ S' = s2
  /\ hist' = IF EmitBeh THEN Append(hist, Rec(c, a, b, s2)) ELSE hist
  /\ ncmd' = ncmd + 1
  /\ done' = (c = "finish")

Budget == ~done /\ (MaxCmds = 0 \/ ncmd < MaxCmds)

New(p) == /\ Budget /\ ~Born(S, PubId[p])
          /\ (Topo[p] = "qsink" => Hnd(S, Src))
          /\ Do("new", p, 0, CNew(S, p))
SetOut(p, x) == /\ Budget /\ Hnd(S, p) /\ Topo[p] \in {"lin", "qsink", "qsrc"}
                /\ (x # 0 => (x > p /\ Hnd(S, x) /\ Topo[x] # "qsrc"))
                /\ Do("out", p, x, CSetOut(S, p, x))
SetFd(p) == /\ Budget /\ Hnd(S, p) /\ Topo[p] \in {"lin", "qsink"}
            /\ Do("setfd", p, 0, CSetFd(S, p))
In(p) == /\ Budget /\ Hnd(S, p) /\ Topo[p] \in {"lin", "qsink", "sink"}
         /\ \A k \in P : Len(S.held[k]) < MaxHeld
         /\ Do("in", p, 0, CIn(S, p))
Flush(p) == /\ Budget /\ Hnd(S, p) /\ Topo[p] = "qsink"
            /\ Do("flush", p, 0, CFlush(S, p))
Release(p) == /\ Budget /\ Hnd(S, p)
              /\ Do("rel", p, 0, CRel(S, p))
Loop == /\ Budget /\ HasQ /\ Born(S, PubId[Src])
        /\ Do("loop", 0, 0, CLoop(S))
Finish == /\ ~done /\ (ncmd >= MinCmds \/ ~Budget)
          /\ Do("finish", 0, 0, CFinish(S))

Init0 == [T |-> <<>>, out |-> [p \in P |-> 0], fd |-> [p \in P |-> 0], os |-> [p \in P |-> FALSE],
          q |-> [p \in P |-> <<>>], oob |-> [p \in P |-> <<>>], held |-> [p \in P |-> <<>>],
          self |-> [p \in P |-> FALSE], sent |-> [p \in P |-> FALSE], nuref |-> 0,
          viol |-> {}, dead |-> <<>>]
Init == /\ S = Init0 /\ hist = <<>> /\ ncmd = 0 /\ done = FALSE
        /\ \A i \in 1..Len(CovNames) : TLCSet(i, 0)
Next == \/ \E p \in P : New(p) \/ SetFd(p) \/ In(p) \/ Flush(p) \/ Release(p)
        \/ \E p \in P, x \in 0..N : SetOut(p, x)
        \/ Loop \/ Finish
Spec == Init /\ [][Next]_vars

(* ------------------------------------------------------------- properties *)
\* holders of the public reference of pipe p, derived from the pointers of the detailed state
\* (a queue source keeps its fields until its REAL refcount dies)
Alive(x) == LET id == IF Topo[x] = "qsrc" THEN RealId[x] ELSE PubId[x]
            IN Born(S, id) /\ S.T[id].st # "dead"
Holders(p) ==
    (IF S.T[PubId[p]].app = 1 THEN 1 ELSE 0)
  + Cardinality({x \in P : Alive(x) /\ S.out[x] = p})
  + (IF S.self[p] THEN 1 ELSE 0)
  + (IF Topo[p] = "qsrc"
     THEN Cardinality({k \in P : Topo[k] = "qsink" /\ Born(S, PubId[k]) /\ S.T[PubId[k]].st # "dead"})
     ELSE 0)
RcIsHolders ==
  /\ "RcIsHolders" \notin S.viol
  /\ \A p \in P : Live(S, PubId[p]) => S.T[PubId[p]].rc = Holders(p)
  /\ \A p \in P : Live(S, RealId[p]) => S.T[RealId[p]].rc = 1
  /\ HoldersWithinRc(S.T)
DestroyOnce == "DestroyOnce" \notin S.viol
NoUseAfterDestroy == "NoUseAfterDestroy" \notin S.viol /\ NoHolderOfDead(S.T)
QuiescentClean ==
  done => /\ \A o \in DOMAIN S.T : S.T[o].st = "dead"
          /\ S.nuref = 0
          /\ \A p \in P : Len(S.q[p]) = 0 /\ Len(S.held[p]) = 0
Sane == TypeOK(S.T) /\ S.nuref >= 0
\* action property: a destroyed object stays destroyed, its destructor ran because the counter was 0
DestroyOnceStep ==
  [][\A o \in DOMAIN S.T : S.T[o].st = "dead" => S'.T[o].st = "dead"]_vars

Emit == (done /\ EmitBeh) => PrintT(<<"BEH", ToJson(hist)>>)
View == <<S, done>>
=============================================================================
