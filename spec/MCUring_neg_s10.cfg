SPECIFICATION Spec
CONSTANTS
  N = 2
  Kind = "fifo"
  Prog <- P_PPp_pPp
  HeadCmp = "index"
INVARIANT NoErr StructureOK TypeOK
VIEW view
CHECK_DEADLOCK FALSE
