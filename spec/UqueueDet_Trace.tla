-------------------------- MODULE UqueueDet_Trace --------------------------
(***************************************************************************)
(* C08 - are recorded executions of the real uqueue (macro granularity of  *)
(* harness/sched_uqueue.c: one Step event per scheduling step, with the    *)
(* kind of shared access the thread performed) behaviours of the DETAILED  *)
(* model spec/Uqueue.tla, i.e. of the wake-up protocol as it was           *)
(* transcribed from include/upipe/uqueue.h?  Used to name rejected         *)
(* executions: an execution that loses a wake-up while following the       *)
(* recorded protocol step by step is the recorded finding; one that leaves *)
(* the protocol is something else.  The trace holds executions of ONE      *)
(* configuration (constants from its first Reset line), each introduced    *)
(* by a Reset line carrying its number hid; an execution that leaves the   *)
(* protocol is recorded in `off` as <<hid, step number>> and skipped.      *)
(***************************************************************************)
EXTENDS Uqueue, IOUtils

Tr == ndJsonDeserialize(IOEnv.TRACE)
TrL == Tr[1].L
TrNPush == Tr[1].npush
TrNCons == Tr[1].ncons
TrDrain == Tr[1].drain = 1

VARIABLES i,      \* next line of Tr
          n,      \* steps of the current execution consumed so far
          skip, cur, off
tvars == <<vars, i, n, skip, cur, off>>

\* the access thread t of the model performs next
KindOf(t) ==
  IF t \in Prods
  THEN CASE pc[t] = "idle" -> "start"
         [] pc[t] \in {"try1", "try2"} -> "fifo"
         [] pc[t] = "rd" -> "rdpush"
         [] pc[t] = "wr" -> "wrpush"
         [] pc[t] = "cnt" -> "fadd"
         [] pc[t] = "wrpop" -> "wrpop"
         [] pc[t] = "asleep" -> "wake"
         [] OTHER -> "none"
  ELSE CASE pc[t] = "loop" -> "wake"
         [] pc[t] \in {"try1", "try2"} -> "fifo"
         [] pc[t] = "rd" -> "rdpop"
         [] pc[t] = "wr" -> "wrpop"
         [] pc[t] = "cnt" -> "fsub"
         [] pc[t] = "wrpush" -> "wrpush"
         [] OTHER -> "none"

Restart ==
  /\ stored' = 0 /\ counter' = 0 /\ evPush' = TRUE /\ evPop' = FALSE
  /\ pc' = [t \in Prods \cup Cons |-> IF t \in Prods THEN "idle" ELSE "loop"]
  /\ left' = [p \in Prods |-> NPush[p]]
  /\ popped' = 0 /\ maxStored' = 0 /\ sched' = <<>>

Follows(ev) == LET t == ev.t + 1 IN
  /\ t \in Prods \cup Cons
  /\ KindOf(t) = ev.k
  /\ ENABLED (Next /\ sched' = Append(sched, t))

TInit == Init /\ i = 1 /\ n = 0 /\ skip = FALSE /\ cur = 0 /\ off = {}
TNext ==
  /\ i <= Len(Tr) /\ i' = i + 1
  /\ LET ev == Tr[i] IN
     IF ev.e = "Reset" THEN Restart /\ n' = 0 /\ skip' = FALSE /\ cur' = ev.hid /\ off' = off
     ELSE IF skip THEN UNCHANGED <<vars, n, skip, cur, off>>
     ELSE IF Follows(ev)
          THEN Next /\ sched' = Append(sched, ev.t + 1) /\ n' = n + 1 /\ UNCHANGED <<skip, cur, off>>
          ELSE skip' = TRUE /\ off' = off \cup {<<cur, n + 1>>} /\ UNCHANGED <<vars, n, cur>>
TSpec == TInit /\ [][TNext]_tvars

Report == (i = Len(Tr) + 1) => PrintT(<<"DET_LEFT", off>>)
Consumed == LET d == TLCGet("stats").diameter IN
            IF d - 1 = Len(Tr) THEN PrintT(<<"DET_CONSUMED", Len(Tr)>>)
                               ELSE PrintT(<<"DET_STOPPED_AT", d>>)
=============================================================================
