SPECIFICATION Spec
CONSTANTS
  Aborters = {2}
  NT = 3
  Rounds = 1
  Variant = "code"
INVARIANT Mutex NoLostHandOver

VIEW view
CHECK_DEADLOCK FALSE
