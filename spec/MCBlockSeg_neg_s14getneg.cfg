\* NEGATIVE (s14getneg re-introduced): TLC must find a behaviour whose observable result is not the byte-string one; it is printed and replayed on the real code
SPECIFICATION MCSpec
CONSTANTS
  Handles = {0, 1, 2}
  Fill = 14
  Strict = TRUE
  KeepHist = TRUE
  Bug = "s14getneg"
  Pre = 2
  MaxLen = 6
  MaxWins = 5
  Depth = 5
  Pats = "a"
  InitSet = "two"
  ObsLast = FALSE
  Rand = FALSE
  Dom = "in"
  Ops = {"append", "prepend", "rd1"}
INVARIANT NegEmit
CONSTRAINT Bounded
VIEW nview
CHECK_DEADLOCK FALSE
