SPECIFICATION Spec
CONSTANTS
  Dicts = {1, 2}
  Bug = "none"
  PrefixOf <- MCPrefixOf
  MaxDepth = 4
  Keys <- K_two
  Ops <- O_all
INVARIANT EmitDone
PROPERTY DupIndependent GetReturnsLastSet CmpIffEqual IterateExactlyOnce
CHECK_DEADLOCK FALSE
