SPECIFICATION Spec
CONSTANTS
  Mgrs = {"m0", "m1"}
  Fmts = {"f0", "f1", "f2"}
  Variant = "code"
  MaxSteps = 7
INVARIANTS TypeOK Holds
PROPERTY ActsOnNew
CHECK_DEADLOCK FALSE
