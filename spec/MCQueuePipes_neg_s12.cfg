SPECIFICATION Spec
CONSTANTS
  L = 1
  Prog <- P_AiBifir
  FreeLen = 0
  Variant = "s12"
INVARIANT InOrderOnce FlowDefFirst HoldNotDrop SourceEndLast 
VIEW view
CHECK_DEADLOCK FALSE
