------------------------- MODULE UpumpBlocker_Trace -------------------------
(***************************************************************************)
(* C13 - validation of histories recorded from the real code               *)
(* (harness/replay_pump.c on the vloop mock over the real upump_common.c   *)
(* and on the real upump_ev manager) against UpumpBlocker.                 *)
(*                                                                         *)
(* One TLC state per trace line.  A line                                   *)
(*   {"e":<op>,"arg":n,"act":<call-back action>,                           *)
(*    "a":<watcher active after the call: 0/1, -1 = not observable (ev)>,  *)
(*    "fired":<pump call-backs>,"n":[blocker call-backs],"ret":<-1/0/1>}   *)
(* is consumed iff the specification's action for <op> is enabled and      *)
(* predicts exactly the logged observations.  The back-end calls           *)
(* (variable calls) are an implementation detail and are not compared.     *)
(* Executions are separated by {"e":"Reset","kind":k} lines.               *)
(***************************************************************************)
EXTENDS UpumpBlocker, IOUtils

Tr == ndJsonDeserialize(IOEnv.TRACE)

VARIABLE l
tvars == <<vars, l>>

Ev == Tr[l]
IsEv(e) == l <= Len(Tr) /\ Tr[l].e = e /\ l' = l + 1

Match ==
  /\ Ev.a # -1 => active' = (Ev.a = 1)
  /\ cbLog'.pump = Ev.fired
  /\ \A b \in Blockers : cbLog'.blk[b] = Ev.n[b]
  /\ ret' = Ev.ret

TReset ==
  /\ IsEv("Reset")
  /\ kind' = Ev.kind
  /\ started' = FALSE /\ status' = TRUE /\ blockers' = {} /\ active' = FALSE
  /\ expired' = FALSE /\ freed' = FALSE
  /\ cmd' = C("new", 0, "none") /\ calls' = <<>> /\ cbLog' = NoCb /\ ret' = -1
  /\ pre' = [started |-> FALSE, blockers |-> {}, active |-> FALSE, freed |-> FALSE]

TStart     == IsEv("start") /\ Start /\ Match
TStop      == IsEv("stop") /\ Stop /\ Match
TRestart   == IsEv("restart") /\ Restart /\ Match
TSetStatus == IsEv("status") /\ SetStatus(Ev.arg = 1) /\ Match
TGetStatus == IsEv("getstatus") /\ GetStatus /\ Match
TBAlloc    == IsEv("balloc") /\ Ev.arg \in Blockers /\ BlockerAlloc(Ev.arg) /\ Match
TBAllocF   == IsEv("ballocfail") /\ Ev.arg \in Blockers /\ BlockerAllocRefused(Ev.arg) /\ Match
TBFree     == IsEv("bfree") /\ Ev.arg \in Blockers /\ BlockerFree(Ev.arg) /\ Match
TFree      == IsEv("free") /\ Free /\ Match
TDispatch  == IsEv("dispatch") /\ Dispatch /\ Match
TPoll      == IsEv("poll") /\ Ev.act \in Acts /\ Poll(Ev.act) /\ Match
TPoll2     == IsEv("poll2") /\ Ev.act \in Acts2 /\ Poll2(Ev.act) /\ Match

TInit == l = 1 /\ InitWith("idler")
TNext == \/ TReset \/ TStart \/ TStop \/ TRestart \/ TSetStatus \/ TGetStatus
         \/ TBAlloc \/ TBAllocF \/ TBFree \/ TFree \/ TDispatch \/ TPoll \/ TPoll2
TSpec == TInit /\ [][TNext]_tvars

Accepted == LET d == TLCGet("stats").diameter IN
            IF d - 1 = Len(Tr) THEN PrintT(<<"TRACE_ACCEPTED", Len(Tr)>>)
                               ELSE PrintT(<<"TRACE_REJECTED_AT", d>>)
=============================================================================
