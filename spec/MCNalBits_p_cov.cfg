\* coverage guard (run with -coverage 1): constants included in those of p_q/p_t; every action must be taken
SPECIFICATION Spec
CONSTANTS
  Mode = "P"
  Variant = "ok"
  Leads = {0}
  Ks = {0}
  K2s = {0}
  Reps = {"min"}
  Kinds = {"ue"}
  Alphabet = {0, 3, 255}
  MaxLen = 3
INVARIANT TypeOK NoUB CodecInverse EscInverse ReadOK OvSound
VIEW View
CHECK_DEADLOCK FALSE
