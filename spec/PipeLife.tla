------------------------------ MODULE PipeLife ------------------------------
(***************************************************************************)
(* C04 - the DETAILED layer: one pipe built on upipe_helper_output.h that  *)
(* forwards every buffer at once (upipe_idem and its many siblings), two   *)
(* recording sinks with an accept / refuse policy, the application, and a  *)
(* probe that may answer 'need_output' by connecting a sink.               *)
(*                                                                         *)
(* Transcribed from include/upipe/upipe_helper_output.h:                   *)
(*   _store_flow_def  an equal dictionary replaces the stored one without  *)
(*                    touching the state; a different one resets the state *)
(*                    to NONE and throws new_flow_def                      *)
(*   _set_output      releases the old output, state := NONE               *)
(*   _output          no flow def: warn + drop; no output: need_output,    *)
(*                    still none: drop; then the loop                      *)
(*                      NONE    set_flow_def on the output; accepted ->    *)
(*                              VALID; refused -> need_output; if the      *)
(*                              output is still the same, or this was the  *)
(*                              second refusal -> INVALID, else retry once *)
(*                      VALID   upipe_input on the output                  *)
(*                      INVALID warn + drop                                *)
(*   _get_flow_def    answers the stored flow definition (observer GetFd)   *)
(*   _clean_output    (after 'dead') unregisters requests, releases        *)
(*                                                                         *)
(* State:  alive     "no" before allocation, "yes", "dead" after release   *)
(*         fdin      name of the stored flow definition ("none","A","B")   *)
(*         dict      value of the option that is merged into the output    *)
(*                   flow definition (upipe_setflowdef); 0 = not set       *)
(*         hasopt    the pipe has such an option (constant in a behaviour) *)
(*         out       connected sink (0 = none), ost = NONE/VALID/INVALID   *)
(*         pol[s]    sink s accepts flow definitions                       *)
(*         armed     sink the probe will connect at the next need_output   *)
(*         cmd, obs  last command and the ordered observations it produced *)
(*                   (what harness/pipe_driver prints, normalised)         *)
(*         mon       the abstract monitor (PipeLifeMon) fed with cmd + obs *)
(*                                                                         *)
(* Commands: New, SetFd(A|B) (the same name again = an equal dictionary),  *)
(* OptFd(d), Opt / Flush / Loop (no effect on the negotiation), In, GetFd,  *)
(* Out(S1|S2|none), Policy(s) (flip), Arm(s), Rel, End.                    *)
(*                                                                         *)
(* TLC checks that every behaviour keeps mon.bad empty (the five property  *)
(* invariants) and prints every transition (EDGE) so that checks/c04.py    *)
(* can replay the whole state graph on the real pipes.                     *)
(* Variant # "ok" selects a deliberately broken helper (negative cfgs).    *)
(***************************************************************************)
EXTENDS PipeLifeMon, TLC, Json

CONSTANTS Variant,     \* "ok" | "no_reset_on_set_output" | "no_reset_on_flow_change" |
                       \* "ignore_reject" | "log_after_dead" | "late_ready" | "dead_twice" |
                       \* "silent_flow_change"
          EmitEdges,   \* TRUE: print every transition
          OptModes     \* subset of BOOLEAN: values of hasopt explored

VARIABLES alive, fdin, dict, hasopt, out, ost, pol, armed, cmd, obs, mon

vars == <<alive, fdin, dict, hasopt, out, ost, pol, armed, cmd, obs, mon>>
\* cmd and obs are outputs of the last step, not state: hidden from the fingerprint
View == <<alive, fdin, dict, hasopt, out, ost, pol, armed, mon>>

P == 1
FdNames == {"A", "B"}
Dicts == {0, 1, 2}

Cur == [alive |-> alive, fdin |-> fdin, dict |-> dict, out |-> out, ost |-> ost,
        pol |-> pol, armed |-> armed, obs |-> <<>>]

Say(r, ev) == [r EXCEPT !.obs = Append(@, ev)]

\* ---- upipe_helper_output.h ----------------------------------------------
SetOut(r, s) ==
  [r EXCEPT !.out = s,
            !.ost = IF Variant = "no_reset_on_set_output" THEN @ ELSE "NONE"]

StoreFlowDef(r, changed, name) ==
  IF ~changed \/ Variant = "silent_flow_change" THEN r
  ELSE Say([r EXCEPT !.ost = IF Variant = "no_reset_on_flow_change" THEN @ ELSE "NONE"],
           EvP(P, "new_flow_def", name))

\* throw need_output; the probe connects the armed sink (once)
NeedOutput(r) ==
  LET r1 == Say(r, EvP(P, "need_output", "")) IN
  IF r.armed # 0
  THEN [Say(SetOut(r1, r.armed), EvOut(P, r.armed)) EXCEPT !.armed = 0]
  ELSE r1

\* state NONE: send the flow definition
Send(r, retried) ==
  LET ok == r.pol[r.out]
      r1 == Say(r, EvSinkFd(r.out, r.fdin, ok)) IN
  IF ok \/ Variant = "ignore_reject" THEN [r1 EXCEPT !.ost = "VALID"]
  ELSE LET r2 == NeedOutput(r1) IN
       IF r2.out = r.out \/ retried THEN [r2 EXCEPT !.ost = "INVALID"] ELSE r2

\* the pipe forwards at once: the buffer belongs to the flow last set on the input
Deliver(r) == Say(r, EvSinkIn(r.out, r.fdin))
WarnDrop(r) == Say(Say(r, EvP(P, "log", "")), EvDrop)

Finish(r) == CASE r.ost = "VALID" -> Deliver(r)
               [] r.ost = "INVALID" -> WarnDrop(r)
               [] OTHER -> Say(r, E("Error", 0, 0, "", "", FALSE, <<>>))

Output(r0) ==
  IF r0.fdin = "none" THEN WarnDrop(r0)
  ELSE LET r == IF r0.out = 0 THEN NeedOutput(r0) ELSE r0 IN
       IF r.out = 0 THEN Say(r, EvDrop)
       ELSE IF r.ost # "NONE" THEN Finish(r)
       ELSE LET r1 == Send(r, FALSE) IN
            IF r1.ost # "NONE" THEN Finish(r1)
            ELSE Finish(Send(r1, TRUE))      \* the probe changed the output: one retry

\* ---- transitions ----------------------------------------------------------
Obs == [alive |-> alive, fdin |-> fdin, dict |-> dict, hasopt |-> hasopt, out |-> out,
        ost |-> ost, pol |-> pol, armed |-> armed, link |-> mon.link, seen |-> mon.seen]

Emit == EmitEdges => PrintT(<<"EDGE", ToJson([from |-> Obs, to |-> Obs', cmd |-> cmd', obs |-> obs'])>>)

\* c = the command as an event (fed to the monitor before its consequences)
Apply(r, c) ==
  /\ alive' = r.alive /\ fdin' = r.fdin /\ dict' = r.dict /\ out' = r.out /\ ost' = r.ost
  /\ pol' = r.pol /\ armed' = r.armed
  /\ hasopt' = hasopt
  /\ cmd' = c
  /\ obs' = r.obs
  /\ mon' = MonRun(MonStep(mon, c), r.obs)
  /\ Emit

New ==
  /\ alive = "no"
  /\ Apply(Say(IF Variant = "late_ready" THEN Say(Say([Cur EXCEPT !.alive = "yes"], EvP(P, "log", "")),
                                                   EvP(P, "need_output", ""))
               ELSE Say([Cur EXCEPT !.alive = "yes"], EvP(P, "log", "")),
               EvP(P, "ready", "")),
           EvNew(P))

SetFd(n) ==
  /\ alive = "yes"
  /\ Apply(StoreFlowDef([Cur EXCEPT !.fdin = n], fdin # n, n), E("SetFd", P, 0, "", n, FALSE, <<>>))

\* an option that is merged into the output flow definition (upipe_setflowdef_set_dict)
OptFd(d) ==
  /\ alive = "yes" /\ hasopt
  /\ Apply(StoreFlowDef([Cur EXCEPT !.dict = d], d # dict /\ fdin # "none", fdin),
           E("OptFd", P, d, "", "", FALSE, <<>>))

\* commands without effect on the negotiation (other options, flush, one loop iteration)
Plain(e) == alive = "yes" /\ Apply(Cur, EvCmd(e, P, 0))

In == alive = "yes" /\ Apply(Output(Cur), EvCmd("In", P, 0))

\* observer: upipe_get_flow_def answers the stored flow definition
\* (silent_flow_change: a pipe that keeps presenting the stale output definition)
GetFd == alive = "yes" /\ Apply(Say(Cur, EvGotFd(P, IF Variant = "silent_flow_change" /\ mon.cur[P] # "?"
                                                    THEN mon.cur[P] ELSE fdin)), EvCmd("GetFd", P, 0))

Out(s) == alive = "yes" /\ Apply(SetOut(Cur, s), EvOut(P, s))

Policy(s) == alive = "yes" /\ Apply([Cur EXCEPT !.pol[s] = ~@], EvCmd("Policy", 0, s))

Arm(s) == alive = "yes" /\ armed # s /\ Apply([Cur EXCEPT !.armed = s], EvCmd("Arm", P, s))

Rel ==
  /\ alive = "yes"
  /\ Apply(LET r == Say([Cur EXCEPT !.alive = "dead"], EvP(P, "dead", "")) IN
           CASE Variant = "log_after_dead" -> Say(r, EvP(P, "log", ""))
             [] Variant = "dead_twice" -> Say(r, EvP(P, "dead", ""))
             [] OTHER -> r,
           EvRel(P))

End == alive = "dead" /\ Apply([Cur EXCEPT !.alive = "end"], EvEnd(<<P>>))

Init ==
  /\ alive = "no" /\ fdin = "none" /\ dict = 0 /\ hasopt \in OptModes
  /\ out = 0 /\ ost = "NONE" /\ pol = [s \in SinkIds |-> TRUE] /\ armed = 0
  /\ cmd = EvCmd("Init", 0, 0) /\ obs = <<>> /\ mon = MonInit

Next ==
  \/ New
  \/ \E n \in FdNames : SetFd(n)
  \/ \E d \in Dicts : OptFd(d)
  \/ \E e \in {"Opt", "Flush", "Loop"} : Plain(e)
  \/ In
  \/ GetFd
  \/ \E s \in SinkIds \cup {0} : Out(s)
  \/ \E s \in SinkIds : Policy(s)
  \/ \E s \in SinkIds : Arm(s)
  \/ Rel
  \/ End

Spec == Init /\ [][Next]_vars

\* ---- the property (DESIGN.md C04) -------------------------------------------
TypeOK ==
  /\ alive \in {"no", "yes", "dead", "end"} /\ fdin \in FdNames \cup {"none"} /\ dict \in Dicts
  /\ out \in SinkIds \cup {0} /\ ost \in {"NONE", "VALID", "INVALID"}
  /\ armed \in SinkIds \cup {0} /\ mon.bad \subseteq Props

ReadyFirst          == "ReadyFirst" \notin mon.bad
DeadOnce            == "DeadOnce" \notin mon.bad
DeadLast            == "DeadLast" \notin mon.bad
FlowDefBeforeData   == "FlowDefBeforeData" \notin mon.bad
NoDataWhileRejected == "NoDataWhileRejected" \notin mon.bad

\* the detailed layer never takes the impossible branch of Finish
NoError == \A i \in DOMAIN obs : obs[i].e # "Error"

\* the helper's state and the monitor's view of the link agree
LinkAgrees ==
  (alive = "yes" /\ out # 0) =>
     /\ ost = "VALID" => mon.link[out] = "ok"
     /\ ost = "INVALID" => mon.link[out] = "rejected"
=============================================================================
