\* quick: <= 2 NALs of sizes around the 1-octet prefix boundary (and the empty NAL), 3- and 4-octet start codes, every chain of 2 conversions; emits BEH lines
SPECIFICATION Spec
CONSTANTS
  Variant = "ok"
  Sizes = {0, 1, 2, 255, 256}
  MaxNals = 2
  MaxConv = 2
  Encs = {"annexb", "len1", "len2", "len4", "nalu"}
  Sc3 = TRUE
  BigOnce = FALSE
INVARIANT Emit TypeOK PayloadsKept OverflowErr RoundTrip Stable Refines ErrAgree NoTrap
VIEW View
CHECK_DEADLOCK FALSE
