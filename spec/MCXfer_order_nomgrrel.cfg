SPECIFICATION Spec
CONSTANTS
  ProgA <- P_nomgrrel
  WRelAt = 99
  Variant = "code"
INVARIANT CmdInOrderOnce EventsInOrder AllExecuted NoStepOnDeadQueue
VIEW view
CHECK_DEADLOCK FALSE
