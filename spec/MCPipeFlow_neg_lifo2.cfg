SPECIFICATION Spec
CONSTANTS
 Setups <- S_time
 Acts <- A_time
 Bufs <- B_time
 MaxSteps = 6
 MaxIn = 4
 Variant = "lifo"
 CheckEpi = TRUE
INVARIANT ExactlyOnce
INVARIANT InOrder
INVARIANT ContentOK
INVARIANT DupAll
INVARIANT NoLeak
INVARIANT EpilogueClean
INVARIANT DrainedOK
PROPERTY FlushFrees
VIEW view
CHECK_DEADLOCK FALSE
