\* emission, sandwich: two blocks; append; one read of 1 octet (moves the offset cache); any call inside the block; one read of 1 octet at every offset
SPECIFICATION MCSpec
CONSTANTS
  Handles = {0, 1}
  Fill = 14
  Strict = TRUE
  KeepHist = TRUE
  Bug = "none"
  Pre = 2
  MaxLen = 8
  MaxWins = 6
  Depth = 4
  PatSet = "sw"
  InitSet = "two"
  ObsLast = TRUE
  Rand = FALSE
  Letters = {0, 1}
  LastOps = {"rd1"}
  LastSz = {1}
  Dom = "in"
  Ops = {"append", "rd1", "delete", "truncate", "resize", "insert", "split", "prepend", "splice", "merge"}
INVARIANT Emit
CONSTRAINT Bounded
CHECK_DEADLOCK FALSE
