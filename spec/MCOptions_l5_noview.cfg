\* C20 exhaustive without VIEW (cross-check of the VIEW abstraction): scripts of <= 5 commands
SPECIFICATION Spec
CONSTANTS
  Acc = {1, 2, 3}
  Rej = {4, 5}
  Default = 0
  Garbage = 99
  Unknown = 98
  MaxLen = 5
  MaxIn = 3
  Variant = "ok"
  EmitBeh = FALSE
INVARIANT TypeOK GetReturnsLast GetterNeutral RejectNeutral SameAnswers
PROPERTY GetStutters RejectKeeps AcceptStores
CHECK_DEADLOCK FALSE
