\* C03 exhaustive, thorough: 1 block allocated (lengths 0..3), 2 handles, 4 calls deep
SPECIFICATION MCSpec
CONSTANTS
  Handles = {0, 1}
  Fill = 14
  Strict = TRUE
  KeepHist = FALSE
  Bug = "none"
  Pre = 1
  MaxLen = 4
  MaxWins = 5
  Depth = 4
  PatSet = "small"
  InitSet = "one"
  ObsLast = FALSE
  Rand = FALSE
  Letters = {0, 1}
  LastOps = {}
  LastSz = {}
  Dom = "all"
  Ops = {"alloc", "dup", "splice", "split", "copy", "merge", "append", "insert", "delete", "truncate", "resize", "prepend", "wmap", "poke", "free"}
INVARIANT TypeOK ByteString FreshSingle
PROPERTY Isolation WriteOnlySingle StructuralOpsDontWrite SharedNeverWritten ErrLeavesUnchanged
CONSTRAINT Bounded
VIEW view
CHECK_DEADLOCK FALSE
