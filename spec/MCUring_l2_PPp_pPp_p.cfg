SPECIFICATION Spec
CONSTANTS
  N = 2
  Kind = "lifo"
  Prog <- P_PPp_pPp_p
  HeadCmp = "tagindex"
INVARIANT NoErr StructureOK TypeOK
VIEW view
CHECK_DEADLOCK FALSE
