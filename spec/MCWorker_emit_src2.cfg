SPECIFICATION Spec
CONSTANTS
  Flavour = "src"
  IL = 1
  OL = 2
  Mx = TRUE
  Prog <- P_oOr
  SrcProg <- S_AiBii
  Variant = "code"
  FreeLen = 5
  Eager = FALSE
  FreeToks <- T_src
INVARIANT InOrderOnce FlowDefFirst EndLast Confinement HoldNotDrop FreedOnce Emit

CHECK_DEADLOCK FALSE
