-------------------------------- MODULE Udeal --------------------------------
(***************************************************************************)
(* C08 - detailed model of include/upipe/udeal.h (exclusive access dealer). *)
(* One action per shared access: fetch_add/fetch_sub on `waiters` and       *)
(* `access`, read/write of the event descriptor; plus the critical section  *)
(* itself (one step) and the event loop (a waiting contender is dispatched  *)
(* iff the descriptor is readable).  Each contender does Rounds rounds of    *)
(* udeal_start ; [grab] ; critical section ; udeal_yield.                    *)
(* Variant = "code" | "nonotify" (negative: yield never writes the event)    *)
(* Aborters: contenders that give up (udeal_abort: waiters - 1, watcher      *)
(* stopped) when they find themselves waiting before their watcher has run   *)
(* ("noabortdec": negative, the abort forgets to leave the waiters count -   *)
(* harmless for the two properties, kept as documentation)                   *)
(***************************************************************************)
EXTENDS Naturals, Sequences, FiniteSets, TLC, Json

CONSTANTS NT, Rounds, Variant, Aborters
Threads == 1..NT

VARIABLES waiters, access, ev, pc, round, sched
vars == <<waiters, access, ev, pc, round, sched>>
view == <<waiters, access, ev, pc, round>>

Init == /\ waiters = 0 /\ access = 0 /\ ev = TRUE
        /\ pc = [t \in Threads |-> "start"] /\ round = [t \in Threads |-> 1] /\ sched = <<>>

Go(t, l) == pc' = [pc EXCEPT ![t] = l] /\ sched' = Append(sched, t)
NextRound(t) == IF round[t] < Rounds THEN Go(t, "s_add") /\ round' = [round EXCEPT ![t] = @ + 1]
                                     ELSE Go(t, "done") /\ round' = round

Start(t) == pc[t] = "start" /\ Go(t, "s_add") /\ UNCHANGED <<waiters, access, ev, round>>
\* udeal_start: upump_start ; fetch_add(waiters) ; first waiter calls the call-back directly
SAdd(t) == /\ pc[t] = "s_add" /\ waiters' = waiters + 1
           /\ Go(t, IF waiters = 0 THEN "g_add" ELSE "wait0")
           /\ UNCHANGED <<access, ev, round>>
\* event loop: dispatched iff the descriptor is readable (wait0: the watcher has not run yet this round)
Wake(t) == pc[t] \in {"wait", "wait0"} /\ (pc[t] = "wait0" => t \notin Aborters) /\ ev /\ Go(t, "g_add")
           /\ UNCHANGED <<waiters, access, ev, round>>
\* udeal_abort: the contender gives up before its watcher has had a chance to run
Abort(t) == /\ pc[t] = "wait0" /\ t \in Aborters
            /\ waiters' = waiters - 1 /\ NextRound(t) /\ UNCHANGED <<access, ev>>
\* udeal_grab
GAdd(t) == /\ pc[t] = "g_add" /\ access' = access + 1
           /\ Go(t, IF access > 0 THEN "g_rd" ELSE "cs")
           /\ UNCHANGED <<waiters, ev, round>>
GRd(t) == pc[t] = "g_rd" /\ ev' = FALSE /\ Go(t, "g_sub") /\ UNCHANGED <<waiters, access, round>>
GSub(t) == /\ pc[t] = "g_sub" /\ access' = access - 1
           /\ Go(t, IF access > 1 THEN "wait" ELSE "g_wr")
           /\ UNCHANGED <<waiters, ev, round>>
GWr(t) == pc[t] = "g_wr" /\ ev' = TRUE /\ Go(t, "g_add") /\ UNCHANGED <<waiters, access, round>>
\* the critical section
Cs(t) == pc[t] = "cs" /\ Go(t, "y_acc") /\ UNCHANGED <<waiters, access, ev, round>>
\* udeal_yield
YAcc(t) == pc[t] = "y_acc" /\ access' = access - 1 /\ Go(t, "y_wt") /\ UNCHANGED <<waiters, ev, round>>
YWt(t) == /\ pc[t] = "y_wt" /\ waiters' = waiters - 1
          /\ IF waiters > 1 /\ Variant # "nonotify" THEN Go(t, "y_wr") /\ round' = round ELSE NextRound(t)
          /\ UNCHANGED <<access, ev>>
YWr(t) == pc[t] = "y_wr" /\ ev' = TRUE /\ NextRound(t) /\ UNCHANGED <<waiters, access>>

Next == \E t \in Threads : Start(t) \/ SAdd(t) \/ Wake(t) \/ Abort(t) \/ GAdd(t) \/ GRd(t) \/ GSub(t) \/ GWr(t)
                           \/ Cs(t) \/ YAcc(t) \/ YWt(t) \/ YWr(t)
Spec == Init /\ [][Next]_vars
FairSpec == Spec /\ \A t \in Threads : WF_vars(Start(t) \/ SAdd(t) \/ Wake(t) \/ Abort(t) \/ GAdd(t) \/ GRd(t) \/ GSub(t) \/ GWr(t) \/ Cs(t) \/ YAcc(t) \/ YWt(t) \/ YWr(t))

Holders == {t \in Threads : pc[t] \in {"cs", "y_acc"}}
Mutex == Cardinality(Holders) <= 1
AllDone == \A t \in Threads : pc[t] = "done"
\* hand-over: nobody can move => everybody got in for every round
NoLostHandOver == (~ENABLED Next) => AllDone
EventuallyAll == <>AllDone
=============================================================================
