SPECIFICATION Spec
CONSTANTS
  Mode = "D"
  Variant = "ok"
  MaxPkts = 5
  Pays = {1, 2}
  AfKinds = {"n", "a0", "a1", "a1d", "a1r", "a2", "a7p", "a182", "o", "od", "op"}
  Deltas = {0, 1, 2, 15}
  FirstCcs = {15}
  MaxAus = 0
  AuSizes = {}
  TsKs = {}
  Stamps = {}
  Gaps = {}
  FlagKinds = {}
  Pads = {}
  Cuts = {}
  HdrPads = {}
  MayLose = FALSE
  Scale = 3
  Mod = 4
  MaxDelay = 6
INVARIANT GenWF PayloadExact CcRule Markers RefD
VIEW ViewD
CHECK_DEADLOCK FALSE
