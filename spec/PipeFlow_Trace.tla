--------------------------- MODULE PipeFlow_Trace ---------------------------
(***************************************************************************)
(* C05 - validation of recorded executions of the REAL pipes (driven by    *)
(* harness/pipe_driver.c + pd_ext_c05.c) against the ABSTRACT layer of     *)
(* PipeFlow.tla.  One TLC state per trace line; executions are separated   *)
(* by Reset.                                                               *)
(*   Reset {}                                                              *)
(*   Cmd   {c, dl, live, dead, ret, unk}   c = the command (as in the      *)
(*         model), dl = what each sink printed on reception (strings),     *)
(*         live = data buffers allocated and not yet freed, dead = nodes   *)
(*         that threw dead, unk = frees of unknown buffers (double free)   *)
(*   End   {}    after the drain-and-release epilogue (the pseudo command  *)
(*         "drained" marks the end of the drain rounds, before the release)*)
(*   Crash {}    the harness died (sanitizer): no action accepts it        *)
(* A command is accepted if the observation is a possible outcome of       *)
(* Do(S, c, m) for the detailed choice (then the code follows the detailed *)
(* model) or for SOME abstract choice m: every holder releases a prefix of *)
(* its FIFO (m.n), a discarding holder may drop the arriving buffer (m.d), *)
(* the nodes that died are those observed (none referenced from outside).  *)
(* So order, content (kindFn), routing (split: every output existing at    *)
(* that time), conservation (live) and "freed on flush / destroy" are      *)
(* constrained; WHEN a holder releases is not - except that after the      *)
(* epilogue (End) nothing may be left.                                     *)
(* An input outside the documented domain of a pipe (InDomain) voids the   *)
(* rest of the execution: the statement is silent there.                   *)
(***************************************************************************)
EXTENDS Naturals, Integers, Sequences, FiniteSets, TLC, Json, IOUtils

Tr == ndJsonDeserialize(IOEnv.TRACE)

VARIABLES l,       \* next line of Tr
          S,       \* network state (PipeFlow)
          void,    \* the execution left the documented domain
          drift    \* number of commands on which the code left the detailed model

P == INSTANCE PipeFlow WITH Setups <- {}, Acts <- {}, Bufs <- {}, MaxSteps <- 0, MaxIn <- 0,
                            Variant <- "ok", CheckEpi <- FALSE,
                            st <- S, steps <- 0, nin <- 0, hist <- <<>>

vars == <<l, S, void, drift>>
IsEv(e) == l <= Len(Tr) /\ Tr[l].e = e /\ l' = l + 1
SeqSet(s) == {s[i] : i \in 1..Len(s)}

\* the observation of line e is the result R of the command
SameDl(R, e) == \A s \in P!SinkNames : P!PerSink(R.dl)[s] = e.dl[s]
Match(R, e) == ~R.bad /\ SameDl(R, e) /\ P!Live(R) = e.live

\* abstract choices: releases per holder, drops, observed deaths
HoldersOf(T) == {p \in P!PipeNames : T.p[p].ex /\ T.p[p].k \in P!Holders}
Choices(T, e) ==
    LET H == HoldersOf(T)
        K == P!Live(T) + 1
        DH == {p \in H : T.p[p].k = "disblo"}
    IN {[det |-> FALSE, n |-> [p \in P!PipeNames |-> IF p \in H THEN f[p] ELSE 0], d |-> dk[1], k |-> dk[2],
         dead |-> SeqSet(e.dead)] :
            f \in [H -> 0..K], dk \in {x \in (SUBSET DH) \X (SUBSET DH) : x[1] \cap x[2] = {}}}

TReset == /\ IsEv("Reset")
          /\ S' = P!Empty /\ void' = FALSE /\ drift' = drift

TCmd == /\ IsEv("Cmd")
        /\ LET e == Tr[l]
               D == P!Do(S, e.c, P!DetMode)
           IN IF void THEN UNCHANGED <<S, void, drift>>
              ELSE IF D.oob THEN /\ void' = TRUE /\ UNCHANGED <<S, drift>>
              ELSE /\ e.unk = 0
                   /\ void' = FALSE
                   \* once everything is unblocked, answered, dispatched: only what can never leave is still held
                   /\ (e.c.op = "drained" => e.live <= P!Stuck(S))
                   /\ IF Match(D, e) /\ D.dead = SeqSet(e.dead)
                      THEN /\ S' = D
                           /\ drift' = IF D.ret # "-" /\ D.ret # e.ret THEN drift + 1 ELSE drift
                      ELSE /\ \E m \in Choices(S, e) :
                                 LET A == P!Do(S, e.c, m) IN Match(A, e) /\ S' = A
                           /\ drift' = drift + 1
                           /\ PrintT(<<"TRACE_DRIFT", l>>)

TEnd == /\ IsEv("End")
        \* nothing is left, except what can never leave (a holder that keeps itself alive while it waits
        \* for an answer nobody in this environment can give, and what is behind it)
        /\ (void \/ P!Live(S) <= P!Stuck(S))
        /\ UNCHANGED <<S, void, drift>>

TInit == l = 1 /\ S = P!Empty /\ void = FALSE /\ drift = 0
TNext == TReset \/ TCmd \/ TEnd
TSpec == TInit /\ [][TNext]_vars

\* the sentences of the property, in every state of every execution
TExactlyOnce == void \/ P!ExactlyOnceIn(S)
TInOrder == void \/ P!InOrderIn(S)
TContent == void \/ S.g.ok
TDupAll == void \/ P!DupAllIn(S)
TNoLeak == void \/ P!NoLeakIn(S)

Accepted == LET d == TLCGet("stats").diameter IN
            IF d - 1 = Len(Tr) THEN PrintT(<<"TRACE_ACCEPTED", Len(Tr)>>)
                               ELSE PrintT(<<"TRACE_REJECTED_AT", d>>)
=============================================================================
