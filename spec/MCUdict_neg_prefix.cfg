SPECIFICATION Spec
CONSTANTS
  Dicts = {1, 2}
  Bug = "prefix_delete"
  PrefixOf <- MCPrefixOf
  MaxDepth = 6
  Keys <- K_two
  Ops <- O_all
INVARIANT TypeOK
PROPERTY DupIndependent GetReturnsLastSet CmpIffEqual IterateExactlyOnce LastStored
CONSTRAINT DepthBound
VIEW HideHistory
CHECK_DEADLOCK FALSE
