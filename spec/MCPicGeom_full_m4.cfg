\* exhaustive geometry evaluation (thorough): every margin setting in {0,1,2}^4
CONSTANTS
  Geos = {"full_m4"}
  GeoSet <- PicGeoSet
  Handles = {0}
  MaxOps = 3
  MaxResize = 1
  Variant = "none"
  Record = FALSE
SPECIFICATION Spec
VIEW View
INVARIANT WindowsInCanvas Inside InjectiveMap CanvasInjective GranularityP MapIsWindowCell AllocGranular WriteOnlySingle
PROPERTY CropPreserves StructuralOpsDontWrite
CHECK_DEADLOCK FALSE
