\* C02 exhaustive, quick: strict grant rule (granted iff the area has exactly one window: what ubuf_block_mem does); one block of 3 octets, 3 handles, 3 calls deep
SPECIFICATION MCSpec
CONSTANTS
  Handles = {0, 1, 2}
  Fill = 14
  Strict = TRUE
  KeepHist = FALSE
  Bug = "none"
  Pre = 1
  MaxLen = 5
  MaxWins = 5
  Depth = 3
  PatSet = "q"
  InitSet = "one"
  ObsLast = FALSE
  Rand = FALSE
  Letters = {0, 1}
  LastOps = {}
  LastSz = {}
  Dom = "all"
  Ops = {"dup", "splice", "split", "merge", "append", "insert", "delete", "truncate", "resize", "prepend", "poke", "free"}
INVARIANT TypeOK ByteString FreshSingle
PROPERTY Isolation WriteOnlySingle StructuralOpsDontWrite SharedNeverWritten ErrLeavesUnchanged
CONSTRAINT Bounded
VIEW view
CHECK_DEADLOCK FALSE
