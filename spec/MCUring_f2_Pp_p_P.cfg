SPECIFICATION Spec
CONSTANTS
  N = 2
  Kind = "fifo"
  Prog <- P_Pp_p_P
  HeadCmp = "tagindex"
INVARIANT NoErr StructureOK TypeOK
VIEW view
CHECK_DEADLOCK FALSE
