import os, glob
S = "/verif/spec"
for f in glob.glob(S + "/MCPicGeom_*.cfg") + glob.glob(S + "/MCSoundGeom_*.cfg"):
    os.remove(f)
GEO_INV = "WindowsInCanvas Inside InjectiveMap CanvasInjective GranularityP MapIsWindowCell AllocGranular WriteOnlySingle"
COW_INV = GEO_INV + " DupSees"

def cfg(name, comment, geos, handles, maxops, maxres, variant="none", record=False, cow=False, drv=False):
    snd = name.startswith("MCSound")
    lines = ["\\* " + comment, "CONSTANTS", '  Geos = {"%s"}' % geos[3:], "  GeoSet <- " + ("SndGeoSet" if snd else "PicGeoSet"), "  Handles = {%s}" % ", ".join(map(str, handles)),
             "  MaxOps = %d" % maxops, "  MaxResize = %d" % maxres, '  Variant = "%s"' % variant,
             "  Record = %s" % ("TRUE" if record else "FALSE")]
    if drv:
        lines += ["SPECIFICATION DrvSpec", "INVARIANT Emit"]
    else:
        lines += ["SPECIFICATION Spec", "VIEW View", "INVARIANT " + (COW_INV if cow else GEO_INV),
                  "PROPERTY CropPreserves StructuralOpsDontWrite" + (" Isolation" if cow else "")]
    lines += ["CHECK_DEADLOCK FALSE"]
    open(os.path.join(S, name + ".cfg"), "w").write("\n".join(lines) + "\n")

G = "exhaustive geometry evaluation"
cfg("MCPicGeom_wide", G + " (quick): every geometry class, alloc / one resize / cross-section of mapping requests", "GS_wide", [0], 3, 1)
cfg("MCPicGeom_deep_a", G + " (quick): planar 4:2:0, alloc / resize chains / every mapping request", "GS_deep_a", [0], 4, 2)
cfg("MCPicGeom_deep_b", G + " (quick): packed (macropixel 2, rgb24), alloc / resize chains / every mapping request", "GS_deep_b", [0], 4, 2)
for k in ("m1", "m2", "m3", "m4"):
    cfg("MCPicGeom_full_" + k, G + " (thorough): every margin setting in {0,1,2}^4", "GS_full_" + k, [0], 3, 1)
cfg("MCPicGeom_full_al", G + " (thorough): every class x every alignment setting", "GS_full_al", [0], 3, 1)
cfg("MCPicGeom_full_420", G + " (thorough): planar 4:2:0, every window, chains of 3 resizes", "GS_full_420", [0], 5, 3)
cfg("MCPicGeom_full_422", G + " (thorough): 4:2:2 10 bit and nv12, every window, chains of 3 resizes", "GS_full_422", [0], 5, 3)
cfg("MCPicGeom_full_pk", G + " (thorough): packed formats incl. v210-like macropixels, every window, chains of 3 resizes", "GS_full_pk", [0], 5, 3)
C = "content and copy-on-write: alloc / dup / view / free / resize / fill / poke / map r,w / check / bread / bpoke"
cfg("MCPicGeom_cow_q4", C + " (quick: two handles, 4 operations)", "GS_cow_q", [0, 1], 4, 1, cow=True)
cfg("MCPicGeom_cow_t5", C + " (thorough: two handles, 5 operations)", "GS_cow_quick", [0, 1], 5, 1, cow=True)
cfg("MCPicGeom_cow_full", C + " (thorough: three handles, 5 operations)", "GS_cow_full", [0, 1, 2], 5, 1, cow=True)
for v in ("accept_offgran", "alloc_offgran", "map_no_vpre", "map_wrong_hsub", "resize_no_vpre", "size_no_vappend", "map_no_range"):
    cfg("MCPicGeom_neg_" + v, 'negative configuration: the variant "%s" of the model must be rejected by TLC' % v, "GS_neg", [0], 4, 2, variant=v)
cfg("MCPicGeom_neg_cow_off", "negative configuration: write mappings granted while shared must be rejected", "GS_cow_quick", [0, 1], 4, 1, variant="cow_off", cow=True)
cfg("MCPicGeom_neg_view_not_owner", "negative configuration: a block view that does not count as an owner must be rejected", "GS_cow_quick", [0, 1], 4, 1, variant="view_not_owner", cow=True)
cfg("MCPicGeom_drv", "behaviour generator (simulation): calls and predicted results, replayed on the real code", "GS_drv", [0, 1, 2], 14, 4, record=True, drv=True)

cfg("MCSoundGeom_quick", G + " (quick): sound, every base, alloc / resize chains / every mapping request", "GS_quick", [0], 4, 2)
cfg("MCSoundGeom_full", G + " (thorough): sound, every base, three alignments, sizes 1, 2, 3, 6, chains of 2 resizes", "GS_full", [0], 4, 2)
cfg("MCSoundGeom_cow_q4", C + " (sound; quick: two handles, 4 operations)", "GS_cow_quick", [0, 1], 4, 1, cow=True)
cfg("MCSoundGeom_cow_t5", C + " (sound; thorough: two handles, 5 operations)", "GS_cow_quick", [0, 1], 5, 1, cow=True)
cfg("MCSoundGeom_cow_full", C + " (sound; thorough: three handles, 5 operations)", "GS_cow_full", [0, 1, 2], 5, 1, cow=True)
for v in ("sresize_keep_base", "map_no_range"):
    cfg("MCSoundGeom_neg_" + v, 'negative configuration: the variant "%s" of the model must be rejected by TLC' % v, "GS_neg", [0], 4, 2, variant=v)
cfg("MCSoundGeom_drv", "behaviour generator (simulation), sound", "GS_drv", [0, 1, 2], 14, 4, record=True, drv=True)
print(len(glob.glob(S + "/MCPicGeom_*.cfg")), len(glob.glob(S + "/MCSoundGeom_*.cfg")))
