------------------------------ MODULE MCWorker ------------------------------
EXTENDS Worker
P_oAiBiir == <<"o","A","i","B","i","i","r">>
P_oAiizctir == <<"o","A","i","i","z","c","t","i","r">>
P_oAiOiBir == <<"o","A","i","O","i","B","i","r">>
P_oAiiiir == <<"o","A","i","i","i","i","r">>
P_AiizctBir == <<"A","i","i","z","c","t","B","i","r">>
P_Aiiicr == <<"A","i","i","i","c","r">>
P_ozctr == <<"o","z","c","t","r">>
P_oOr == <<"o","O","r">>
P_Aicr == <<"A","i","c","r">>
S_none == <<>>
S_AiiBi == <<"A","i","i","B","i">>
S_AiBii == <<"A","i","B","i","i">>
T_in == {"A","B","i","z","t","c","r"}
T_lin == {"o","O","A","B","i","z","t","c","r"}
T_src == {"o","O","z","t","c","r"}
=============================================================================
