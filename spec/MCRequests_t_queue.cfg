\* C12 thorough tier, queue scenarios Q R S
SPECIFICATION Spec
CONSTANTS
  Scenarios <- ScnThorQ
  Variant = "ok"
  EmitEdges = TRUE
  Idle = FALSE
  MaxGen = 2
  MaxChan = 2
  MaxPath = 0
CONSTRAINT Bound
VIEW ViewCore
INVARIANT TypeOK PathInv OneEntry
PROPERTY StepNoCallbackAfterUnregister StepNoSinkFreedWithRegs StepReachesProvide StepReachesRunA StepReachesProbe
CHECK_DEADLOCK FALSE
