\* merger, exhaustive (quick tier): <= 3 sections of 3..7 octets (+ 0xff body), every cut position, <= 2 pieces per payload, stuffing, one gap or flagged discontinuity (corrupt headers: m2q); no history
SPECIFICATION Spec
CONSTANTS
  Variant = "ok"
  Palette <- PalSmall
  MaxSecs = 3
  MaxRuns = 2
  MaxPay = 24
  AllCuts = TRUE
  Stuffs = {0, 1}
  Damage = {"disc", "drop"}
  MidStart = FALSE
  Record = FALSE
  Small = TRUE
INVARIANT WellFormed NoGarbage NoLoss Exact SyncAgree NextShape
CHECK_DEADLOCK FALSE
