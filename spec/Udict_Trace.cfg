SPECIFICATION TSpec
CONSTANTS
  Dicts = {0, 1, 2, 3, 4, 5, 6, 7}
  Bug = "none"
  PrefixOf <- NoPrefix
  Tolerant = FALSE
INVARIANT TypeOK
PROPERTY DupIndependent GetReturnsLastSet CmpIffEqual IterateExactlyOnce
POSTCONDITION Accepted
CHECK_DEADLOCK FALSE
