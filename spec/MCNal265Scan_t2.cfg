\* thorough: every string over {0,1,2} up to 7 octets, every cutting
SPECIFICATION Spec
CONSTANTS
  Variant = "ok"
  Alphabet = {0, 1, 2}
  MaxLen = 7
  NoLead3 = TRUE
  EmitMax = 2
INVARIANT Emit TypeOK ChunkInvariant Monotone NoTrap
VIEW View
CHECK_DEADLOCK FALSE
