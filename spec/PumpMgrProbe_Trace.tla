------------------------ MODULE PumpMgrProbe_Trace ------------------------
(***************************************************************************)
(* C06 - single-pass validation of recorded executions of the real          *)
(* uprobe_pthread_upump_mgr.c (harness/replay_pmprobe.c: two real threads,  *)
(* each with its own thread-local storage) against the two properties of    *)
(* PumpMgrProbe.tla.  Events: Reset(hid) / Set(t,m) / Freeze(t) / Thaw(t)   *)
(* / Need(t,m) with m = the manager the probe answered, "none" if it passed *)
(* the event on.                                                            *)
(***************************************************************************)
EXTENDS Naturals, Sequences, FiniteSets, TLC, Json, IOUtils
Tr == ndJsonDeserialize(IOEnv.TRACE)
Threads == 0..3
None == "none"
VARIABLES l, mgr, open, skip, cur, bad
st == <<mgr, open>>
vars == <<l, st, skip, cur, bad>>

Guard(ev) ==
  CASE ev.e = "Set" -> TRUE
    [] ev.e = "Freeze" -> TRUE
    [] ev.e = "Thaw" -> open[ev.t] > 0
    \* NoAnswerWhileFrozen and OwnManagerOtherwise
    [] ev.e = "Need" -> ev.m = (IF open[ev.t] > 0 THEN None ELSE mgr[ev.t])
    [] OTHER -> FALSE
Effect(ev) ==
  CASE ev.e = "Set" -> mgr' = [mgr EXCEPT ![ev.t] = ev.m] /\ open' = open
    [] ev.e = "Freeze" -> open' = [open EXCEPT ![ev.t] = @ + 1] /\ mgr' = mgr
    [] ev.e = "Thaw" -> open' = [open EXCEPT ![ev.t] = @ - 1] /\ mgr' = mgr
    [] OTHER -> UNCHANGED st

TStep ==
  /\ l <= Len(Tr) /\ l' = l + 1
  /\ LET ev == Tr[l] IN
     IF ev.e = "Reset"
     THEN /\ mgr' = [t \in Threads |-> None] /\ open' = [t \in Threads |-> 0]
          /\ skip' = FALSE /\ cur' = ev.hid /\ bad' = bad
     ELSE IF skip THEN UNCHANGED <<st, skip, cur, bad>>
     ELSE IF Guard(ev) THEN Effect(ev) /\ UNCHANGED <<skip, cur, bad>>
     ELSE skip' = TRUE /\ bad' = bad \cup {<<cur, l>>} /\ UNCHANGED <<st, cur>>
TInit == l = 1 /\ mgr = [t \in Threads |-> None] /\ open = [t \in Threads |-> 0] /\ skip = FALSE /\ cur = 0 /\ bad = {}
TSpec == TInit /\ [][TStep]_vars
Report == (l = Len(Tr) + 1) => PrintT(<<"TRACE_BAD", bad>>)
Accepted == LET d == TLCGet("stats").diameter IN
            IF d - 1 = Len(Tr) THEN PrintT(<<"TRACE_ACCEPTED", Len(Tr)>>)
                               ELSE PrintT(<<"TRACE_REJECTED_AT", d>>)
=============================================================================
