----------------------------- MODULE Xfer_Trace -----------------------------
(***************************************************************************)
(* C06 - abstract specification of a pipe transferred to a worker thread   *)
(* and single-pass validation of traces recorded from the real             *)
(* upipe_xfer manager (harness/sched_xfer.c).                              *)
(*  Reset(ta, tw)   application thread / worker thread ids                 *)
(*  Cmd(name) CmdRet(ok)   a control / release sent through the handle     *)
(*  Exec(name, th)  the remote pipe was entered (control, or "free")       *)
(*  Throw(th) Forward(th)  event thrown by the remote pipe / thrown again  *)
(*                  through the handle                                     *)
(*  Touch(th)       a hooked access fell into freed memory                 *)
(* Properties: Confinement (the remote pipe is entered on the worker       *)
(* thread only), InOrderOnce (accepted commands are executed in order,     *)
(* each once), EventsAtHome (forwarded events are delivered on the         *)
(* application thread, never invented), NoUseAfterFree, and at quiescence  *)
(* every accepted command was executed.                                    *)
(***************************************************************************)
EXTENDS Naturals, Sequences, FiniteSets, TLC, Json, IOUtils
Tr == ndJsonDeserialize(IOEnv.TRACE)
VARIABLES l, ta, tw, pendingCmd, accepted, nexec, thrown, nfwd, skip, cur, bad
st == <<ta, tw, pendingCmd, accepted, nexec, thrown, nfwd>>
vars == <<l, st, skip, cur, bad>>

Guard(ev) ==
  CASE ev.e = "Cmd" -> pendingCmd = "none"
    [] ev.e = "CmdRet" -> pendingCmd # "none"
    \* InOrderOnce + Confinement: the next execution is the next accepted
    \* command (a command may be executed before its CmdRet is logged)
    [] ev.e = "Exec" -> /\ ev.th = tw
                        /\ LET acc == IF pendingCmd = "none" THEN accepted ELSE Append(accepted, pendingCmd)
                           IN nexec < Len(acc) /\ acc[nexec + 1] = ev.name
    [] ev.e = "Throw" -> ev.th = tw
    [] ev.e = "Forward" -> ev.th = ta /\ nfwd < thrown                 \* EventsAtHome
    [] ev.e = "HandleDead" -> ev.th = ta
    [] ev.e = "MgrRelease" -> TRUE
    \* the release could not be queued (queue full): the handle reports a fatal error
    [] ev.e = "Fatal" -> ev.th = ta /\ Len(accepted) > 0 /\ accepted[Len(accepted)] = "free" /\ nexec < Len(accepted)
    \* every accepted command was executed (events may be dropped when the
    \* return queue is full: the statement only constrains those forwarded)
    [] ev.e = "Quiescent" -> nexec = Len(accepted) /\ pendingCmd = "none"
    [] OTHER -> FALSE                                                     \* Touch, Crash, Hang, Fatal

Effect(ev) ==
  CASE ev.e = "Cmd" -> /\ IF ev.name = "free"
                          THEN accepted' = Append(accepted, "free") /\ pendingCmd' = "none"   \* release has no return value
                          ELSE pendingCmd' = ev.name /\ accepted' = accepted
                       /\ UNCHANGED <<ta, tw, nexec, thrown, nfwd>>
    [] ev.e = "CmdRet" -> /\ accepted' = IF ev.ok THEN Append(accepted, pendingCmd) ELSE accepted
                          /\ pendingCmd' = "none" /\ UNCHANGED <<ta, tw, nexec, thrown, nfwd>>
    [] ev.e = "Exec" -> nexec' = nexec + 1 /\ UNCHANGED <<ta, tw, pendingCmd, accepted, thrown, nfwd>>
    [] ev.e = "Throw" -> thrown' = thrown + 1 /\ UNCHANGED <<ta, tw, pendingCmd, accepted, nexec, nfwd>>
    [] ev.e = "Forward" -> nfwd' = nfwd + 1 /\ UNCHANGED <<ta, tw, pendingCmd, accepted, nexec, thrown>>
    [] ev.e = "Fatal" -> accepted' = SubSeq(accepted, 1, Len(accepted) - 1) /\ UNCHANGED <<ta, tw, pendingCmd, nexec, thrown, nfwd>>
    [] OTHER -> UNCHANGED st

TStep ==
  /\ l <= Len(Tr) /\ l' = l + 1
  /\ LET ev == Tr[l] IN
     IF ev.e = "Reset"
     THEN /\ ta' = ev.ta /\ tw' = ev.tw /\ pendingCmd' = "none" /\ accepted' = <<>> /\ nexec' = 0
          /\ thrown' = 0 /\ nfwd' = 0 /\ skip' = FALSE /\ cur' = ev.hid /\ bad' = bad
     ELSE IF skip THEN UNCHANGED <<st, skip, cur, bad>>
     ELSE IF Guard(ev) THEN Effect(ev) /\ UNCHANGED <<skip, cur, bad>>
     ELSE skip' = TRUE /\ bad' = bad \cup {<<cur, l>>} /\ UNCHANGED <<st, cur>>
TInit == /\ l = 1 /\ ta = 0 /\ tw = 1 /\ pendingCmd = "none" /\ accepted = <<>> /\ nexec = 0 /\ thrown = 0 /\ nfwd = 0
         /\ skip = FALSE /\ cur = 0 /\ bad = {}
TSpec == TInit /\ [][TStep]_vars
Report == (l = Len(Tr) + 1) => PrintT(<<"TRACE_BAD", bad>>)
Accepted == LET d == TLCGet("stats").diameter IN
            IF d - 1 = Len(Tr) THEN PrintT(<<"TRACE_ACCEPTED", Len(Tr)>>)
                               ELSE PrintT(<<"TRACE_REJECTED_AT", d>>)
=============================================================================
