--------------------------- MODULE PumpMgrProbe ---------------------------
(***************************************************************************)
(* C06 - the probe that hands event-loop managers to pipes, per thread      *)
(* (lib/upipe-pthread/uprobe_pthread_upump_mgr.c).                          *)
(*                                                                         *)
(* "A pipe transferred to a worker thread is from then on only entered     *)
(* from that thread, or from the application thread while the worker's     *)
(* event loop is frozen": the pipes of a remote pipeline are BUILT by the   *)
(* application thread; so that they do not pick up the application's own   *)
(* event loop, the application freezes this probe around the construction   *)
(* (FREEZE_UPUMP_MGR ... THAW_UPUMP_MGR) and the worker pipes freeze it     *)
(* again, nested, around their own allocation (upipe_worker.c).  While a    *)
(* thread has a freeze outstanding the probe must not answer that thread's  *)
(* need_upump_mgr: the pump a pipe would create on the answer would fire    *)
(* on the wrong thread for ever.                                            *)
(*                                                                         *)
(* State, per thread: mgr (the manager set for the thread, or None),       *)
(* frozen (what the implementation keeps), open (ghost: freezes minus      *)
(* thaws).  Variant "code": frozen is a nesting counter; "bool": frozen is  *)
(* the boolean its comment describes (the inner thaw of a nested section    *)
(* clears it) - must be rejected.                                           *)
(***************************************************************************)
EXTENDS Naturals, Sequences, FiniteSets, TLC

CONSTANTS Threads, Mgrs, MaxDepth, MaxSteps, Variant
None == "none"

VARIABLES mgr, frozen, open, ans, steps
vars == <<mgr, frozen, open, ans, steps>>

Init == /\ mgr = [t \in Threads |-> None] /\ frozen = [t \in Threads |-> 0]
        /\ open = [t \in Threads |-> 0] /\ ans = <<>> /\ steps = 0

Tick == steps < MaxSteps /\ steps' = steps + 1

\* uprobe_pthread_upump_mgr_set, called by thread t
Set(t, m) == /\ Tick /\ mgr' = [mgr EXCEPT ![t] = m] /\ UNCHANGED <<frozen, open, ans>>

Freeze(t) == /\ Tick /\ open[t] < MaxDepth
             /\ open' = [open EXCEPT ![t] = @ + 1]
             /\ frozen' = [frozen EXCEPT ![t] = IF Variant = "bool" THEN 1 ELSE @ + 1]
             /\ UNCHANGED <<mgr, ans>>

Thaw(t) == /\ Tick /\ open[t] > 0
           /\ open' = [open EXCEPT ![t] = @ - 1]
           /\ frozen' = [frozen EXCEPT ![t] = IF Variant = "bool" THEN 0 ELSE @ - 1]
           /\ UNCHANGED <<mgr, ans>>

\* a pipe built or configured by thread t throws need_upump_mgr
Answer(t) == IF frozen[t] = 0 /\ mgr[t] # None THEN mgr[t] ELSE None
Need(t) == /\ Tick /\ ans' = Append(ans, [t |-> t, m |-> Answer(t), open |-> open[t], set |-> mgr[t]])
           /\ UNCHANGED <<mgr, frozen, open>>

Next == \E t \in Threads : Freeze(t) \/ Thaw(t) \/ Need(t) \/ \E m \in Mgrs : Set(t, m)
Spec == Init /\ [][Next]_vars

\* ---- the properties -------------------------------------------------------
\* no answer inside a frozen section, however the sections nest
NoAnswerWhileFrozen == \A i \in 1..Len(ans) : ans[i].open > 0 => ans[i].m = None
\* outside every frozen section a thread is given exactly the manager it set (never another thread's)
OwnManagerOtherwise == \A i \in 1..Len(ans) : ans[i].open = 0 => ans[i].m = ans[i].set
TypeOK == \A t \in Threads : frozen[t] \in 0..MaxDepth /\ open[t] \in 0..MaxDepth
=============================================================================
