----------------------------- MODULE Urefcount -----------------------------
(***************************************************************************)
(* C09 - detailed model of include/upipe/urefcount.h (and of the          *)
(* ubuf_mem_shared counter, which is the same protocol without the cb      *)
(* field).  One action per shared access = one yield point of hooks        *)
(* H1/H4: the plain read of refcount->cb, the atomic fetch_add/fetch_sub,  *)
(* the plain read and the plain clear of cb before the destructor.         *)
(*                                                                         *)
(* Threads start holding one reference each.  Prog[t] is a sequence over   *)
(* {"U","R"} (use / release) in which a "U" only occurs while t holds a    *)
(* reference and every reference is released at the end.                   *)
(* Variant = "code" | "nonatomic" (negative: decrement = load ; store)     *)
(***************************************************************************)
EXTENDS Naturals, Sequences, FiniteSets, TLC, Json

CONSTANTS Prog, Variant
Threads == 1..Len(Prog)

VARIABLES cnt, cb,           \* the counter and "call-back still set"
          pc, ip, tmp,       \* per thread
          held,              \* ghost: references held by t
          destroyed,         \* ghost: number of destructor runs
          badDestroy,        \* ghost: destructor ran while a reference was outstanding
          sched
vars == <<cnt, cb, pc, ip, tmp, held, destroyed, badDestroy, sched>>
view == <<cnt, cb, pc, ip, tmp, held, destroyed, badDestroy>>

Sum(f) == LET RECURSIVE S(_) S(n) == IF n = 0 THEN 0 ELSE f[n] + S(n - 1) IN S(Len(Prog))

Init == /\ cnt = Len(Prog) /\ cb = TRUE
        /\ pc = [t \in Threads |-> "start"] /\ ip = [t \in Threads |-> 1]
        /\ tmp = [t \in Threads |-> 0]
        /\ held = [t \in Threads |-> 1]
        /\ destroyed = 0 /\ badDestroy = FALSE /\ sched = <<>>

\* label of the first access of the operation at index i
First(t, i) == IF i > Len(Prog[t]) THEN "done"
               ELSE IF Prog[t][i] = "U" THEN "u_cb" ELSE "r_cb"
Go(t, l) == pc' = [pc EXCEPT ![t] = l] /\ sched' = Append(sched, t)
NextOp(t) == /\ ip' = [ip EXCEPT ![t] = @ + 1]
             /\ Go(t, First(t, ip[t] + 1))

Start(t) == /\ pc[t] = "start" /\ Go(t, First(t, 1))
            /\ UNCHANGED <<cnt, cb, ip, tmp, held, destroyed, badDestroy>>

\* urefcount_use: if (refcount->cb != NULL) fetch_add
UCb(t) == /\ pc[t] = "u_cb"
          /\ IF cb THEN Go(t, "u_fadd") /\ ip' = ip ELSE NextOp(t)
          /\ UNCHANGED <<cnt, cb, tmp, held, destroyed, badDestroy>>
UFadd(t) == /\ pc[t] = "u_fadd"
            /\ cnt' = cnt + 1
            /\ held' = [held EXCEPT ![t] = @ + 1]
            /\ NextOp(t)
            /\ UNCHANGED <<cb, tmp, destroyed, badDestroy>>

\* urefcount_release: if (cb != NULL && fetch_sub == 1) { cb = refcount->cb; refcount->cb = NULL; cb() }
RCb(t) == /\ pc[t] = "r_cb"
          /\ IF cb THEN Go(t, IF Variant = "nonatomic" THEN "r_load" ELSE "r_fsub") /\ ip' = ip
                   ELSE NextOp(t)
          /\ UNCHANGED <<cnt, cb, tmp, held, destroyed, badDestroy>>
RFsub(t) == /\ pc[t] = "r_fsub"
            /\ cnt' = cnt - 1
            /\ held' = [held EXCEPT ![t] = @ - 1]
            /\ IF cnt = 1 THEN Go(t, "r_cb2") /\ ip' = ip ELSE NextOp(t)
            /\ UNCHANGED <<cb, tmp, destroyed, badDestroy>>
\* negative variant: non-atomic decrement
RLoad(t) == /\ pc[t] = "r_load" /\ tmp' = [tmp EXCEPT ![t] = cnt] /\ Go(t, "r_store")
            /\ UNCHANGED <<cnt, cb, ip, held, destroyed, badDestroy>>
RStore(t) == /\ pc[t] = "r_store"
             /\ cnt' = tmp[t] - 1
             /\ held' = [held EXCEPT ![t] = @ - 1]
             /\ IF tmp[t] = 1 THEN Go(t, "r_cb2") /\ ip' = ip ELSE NextOp(t)
             /\ UNCHANGED <<cb, tmp, destroyed, badDestroy>>
RCb2(t) == /\ pc[t] = "r_cb2" /\ Go(t, "r_clr")
           /\ UNCHANGED <<cnt, cb, ip, tmp, held, destroyed, badDestroy>>
\* clear cb, then the destructor runs in the same step
RClr(t) == /\ pc[t] = "r_clr"
           /\ cb' = FALSE
           /\ destroyed' = destroyed + 1
           /\ badDestroy' = (badDestroy \/ Sum(held) > 0)
           /\ NextOp(t)
           /\ UNCHANGED <<cnt, tmp, held>>

Step(t) == Start(t) \/ UCb(t) \/ UFadd(t) \/ RCb(t) \/ RFsub(t) \/ RLoad(t) \/ RStore(t) \/ RCb2(t) \/ RClr(t)
Next == \E t \in Threads : Step(t)
Spec == Init /\ [][Next]_vars

Done == \A t \in Threads : pc[t] = "done"
\* the property
DestroyAtMostOnce == destroyed <= 1
NotWhileHeld == ~badDestroy
DestroyedAtEnd == Done => destroyed = 1
CounterIsHeld == cnt = Sum(held) \/ Variant # "code"
EmitDone == Done => PrintT(<<"BEH", ToJson([sched |-> sched])>>)
=============================================================================
