SPECIFICATION Spec
CONSTANTS
 Setups <- S_chain2
 Acts <- A_chain2
 Bufs <- B_size
 MaxSteps = 3
 MaxIn = 2
 Variant = "ok"
 CheckEpi = FALSE
INVARIANT Emit
CHECK_DEADLOCK FALSE
