---------------------------- MODULE UpumpBlocker ----------------------------
(***************************************************************************)
(* C13 - a pump fires only while started and not blocked.                  *)
(*                                                                         *)
(* The automaton of lib/upipe/upump_common.c for ONE pump, together with   *)
(* the state of the back-end watcher it drives through the seam            *)
(* real_start / real_stop / real_restart (libev in upump_ev.c, a table in  *)
(* harness/vloop.c):                                                       *)
(*                                                                         *)
(*   started   what the owner asked for (upump_common.started)             *)
(*   blockers  blockers currently held   (upump_common.blockers)           *)
(*   status    blocking status, handed to the back-end with every call     *)
(*   active    the back-end watcher is active in the loop                  *)
(*   expired   a one-shot timer has fired and has not been re-armed: the   *)
(*             loop stopped the watcher by itself ("The timer is           *)
(*             automatically stopped", tests/upump_common_test.c) although *)
(*             the owner's `started` is still true                         *)
(*   freed     upump_free was called                                       *)
(*                                                                         *)
(* and, as outputs of the LAST command (what a harness can observe):       *)
(*   cmd       the command                                                 *)
(*   calls     back-end calls it made, e.g. <<"stop1","start0">> (name +   *)
(*             status argument)                                            *)
(*   cbLog     call-backs it invoked: [pump |-> n, blk |-> [b |-> n]]      *)
(*   ret       value returned (get_status), -1 otherwise                   *)
(*   pre       ghost: started/blockers/active/freed before the command     *)
(*                                                                         *)
(* The semantic operators Op* transcribe upump_common_start / stop /       *)
(* restart / set_status / blocker_alloc / blocker_free / clean and the     *)
(* free sequence of the back-ends (upump_stop; upump_common_clean).  They  *)
(* are functions on a record so that what a call-back does from inside     *)
(* the dispatch (stop / free / restart / block itself) composes.           *)
(*                                                                         *)
(* upump_restart is documented for timer pumps ("asks the event loop to    *)
(* restart a timer pump"); on other pump types real_restart does nothing   *)
(* in upump_ev.c, so Restart is only modelled where it is defined: on a    *)
(* timer, or on any pump that is already started (where it is a no-op).    *)
(***************************************************************************)
EXTENDS Naturals, Integers, Sequences, FiniteSets, TLC, Json

CONSTANTS Blockers,    \* blocker ids, 1..3
          Kinds,       \* pump kinds explored, subset of {"idler","fd","timer","oneshot"}
          Variant,     \* "ok", or the name of a deliberately broken variant (negative cfgs)
          EmitEdges    \* TRUE: print every transition (edge enumeration for the replay)

VARIABLES kind, started, status, blockers, active, expired, freed,
          cmd, calls, cbLog, ret, pre

vars == <<kind, started, status, blockers, active, expired, freed,
          cmd, calls, cbLog, ret, pre>>

Timers == {"timer", "oneshot"}
Acts == {"none", "stop", "free", "restart", "block"}   \* what the pump's call-back does
NoCb == [pump |-> 0, blk |-> [b \in Blockers |-> 0]]
Min(S) == CHOOSE x \in S : \A y \in S : x <= y

\* the current state as a record, outputs cleared (start of a command)
Cur == [kind |-> kind, started |-> started, status |-> status, blockers |-> blockers,
        active |-> active, expired |-> expired, freed |-> freed,
        calls |-> <<>>, cbLog |-> NoCb, ret |-> -1]

B(x) == IF x THEN "1" ELSE "0"

\* ---- the back-end seam (upump_ev.c / vloop.c) ----------------------------
RealStart(r) == [r EXCEPT !.active = TRUE, !.expired = FALSE,
                          !.calls = Append(@, "start" \o B(r.status))]
RealStop(r)  == [r EXCEPT !.active = FALSE, !.expired = FALSE,
                          !.calls = Append(@, "stop" \o B(r.status))]
RealRestart(r) ==
  LET r1 == [r EXCEPT !.calls = Append(@, "restart" \o B(r.status))]
  IN IF r.kind \in Timers THEN [r1 EXCEPT !.active = TRUE, !.expired = FALSE] ELSE r1

\* ---- upump_common.c -------------------------------------------------------
OpStart(r) ==
  IF r.started THEN r
  ELSE LET r1 == [r EXCEPT !.started = TRUE]
       IN IF r1.blockers = {} \/ Variant = "start_ignores_blockers" THEN RealStart(r1) ELSE r1

OpStop(r) ==
  IF ~r.started THEN r
  ELSE LET r1 == [r EXCEPT !.started = FALSE]
       IN IF r1.blockers = {} THEN RealStop(r1) ELSE r1

OpRestart(r) ==
  LET r1 == [r EXCEPT !.started = TRUE]
  IN IF r1.blockers = {} THEN RealRestart(r1) ELSE r1

OpSetStatus(r, s) ==
  LET was == r.started
      r1 == IF was THEN OpStop(r) ELSE r
      r2 == [r1 EXCEPT !.status = s]
  IN IF was THEN OpStart(r2) ELSE r2

OpBlockerAlloc(r, b) ==
  LET r1 == [r EXCEPT !.blockers = @ \cup {b}]
  IN IF r.started /\ r.blockers = {} THEN RealStop(r1) ELSE r1

\* upump_blocker_alloc when the allocation of the blocker is refused: returns NULL, nothing happened
\* (variant allocfail_stops: the pump is suspended before the allocation is attempted)
OpBlockerAllocRefused(r) ==
  IF Variant = "allocfail_stops" /\ r.started /\ r.blockers = {} THEN RealStop(r) ELSE r

OpBlockerFree(r, b) ==
  LET r1 == [r EXCEPT !.blockers = @ \ {b}]
  IN IF r1.started /\ r1.blockers = {} /\ Variant # "bfree_no_restart"
     THEN RealStart(r1) ELSE r1

\* upump_ev_free / vloop_free: upump_stop, then upump_common_clean calls the
\* call-back of every outstanding blocker (which frees the blocker)
OpFree(r) ==
  LET r1 == OpStop(r)
      n  == IF Variant = "free_skips_notify" THEN 0 ELSE 1
  IN [r1 EXCEPT !.cbLog.blk = [b \in Blockers |-> IF b \in r1.blockers THEN @[b] + n ELSE @[b]],
                !.blockers = {}, !.freed = TRUE, !.active = FALSE, !.expired = FALSE]

\* the loop invokes the call-back; a one-shot timer is stopped by the loop
\* first; then the call-back acts
OpFire(r, act) ==
  LET r1 == [r EXCEPT !.cbLog.pump = @ + 1,
                      !.active = IF r.kind = "oneshot" THEN FALSE ELSE @,
                      !.expired = (r.kind = "oneshot")]
  IN CASE act = "none"    -> r1
       [] act = "stop"    -> OpStop(r1)
       [] act = "free"    -> OpFree(r1)
       [] act = "restart" -> OpRestart(r1)
       [] act = "block"   -> OpBlockerAlloc(r1, Min(Blockers))

\* when does one loop iteration invoke the call-back
Fires(r) == r.active \/ (Variant = "fire_when_blocked" /\ r.started /\ ~r.freed)

\* ---- transitions ----------------------------------------------------------
Obs == [kind |-> kind, started |-> started, status |-> status, blockers |-> blockers,
        active |-> active, expired |-> expired, freed |-> freed,
        cmd |-> cmd, calls |-> calls, cbLog |-> cbLog, ret |-> ret, pre |-> pre]

Emit == EmitEdges => PrintT(<<"EDGE", ToJson([from |-> Obs, to |-> Obs'])>>)

Apply(r, c) ==
  /\ kind' = r.kind /\ started' = r.started /\ status' = r.status
  /\ blockers' = r.blockers /\ active' = r.active /\ expired' = r.expired
  /\ freed' = r.freed /\ calls' = r.calls /\ cbLog' = r.cbLog /\ ret' = r.ret
  /\ cmd' = c
  /\ pre' = [started |-> started, blockers |-> blockers, active |-> active, freed |-> freed]
  /\ Emit

C(op, arg, act) == [op |-> op, arg |-> arg, act |-> act]

Start   == ~freed /\ Apply(OpStart(Cur), C("start", 0, "none"))
Stop    == ~freed /\ Apply(OpStop(Cur), C("stop", 0, "none"))
Restart == ~freed /\ (kind \in Timers \/ started) /\ Apply(OpRestart(Cur), C("restart", 0, "none"))
SetStatus(s) == ~freed /\ Apply(OpSetStatus(Cur, s), C("status", IF s THEN 1 ELSE 0, "none"))
GetStatus == ~freed /\ Apply([Cur EXCEPT !.ret = IF status THEN 1 ELSE 0], C("getstatus", 0, "none"))
BlockerAlloc(b) == ~freed /\ b \notin blockers /\ Apply(OpBlockerAlloc(Cur, b), C("balloc", b, "none"))
BlockerFree(b)  == ~freed /\ b \in blockers /\ Apply(OpBlockerFree(Cur, b), C("bfree", b, "none"))
BlockerAllocRefused(b) == ~freed /\ b \notin blockers /\ Apply(OpBlockerAllocRefused(Cur), C("ballocfail", b, "none"))
Free == ~freed /\ Apply(OpFree(Cur), C("free", 0, "none"))
\* the harness makes the loop deliver one event to the pump: only legal while active
Dispatch == active /\ Apply(OpFire(Cur, "none"), C("dispatch", 0, "none"))
\* one iteration of the loop (also after free): the call-back runs iff the watcher is active
Poll(act) == act \in Acts /\ Apply(IF Fires(Cur) THEN OpFire(Cur, act) ELSE Cur, C("poll", 0, act))

\* one iteration of the loop in which ANOTHER ready watcher's call-back runs first and stops / blocks /
\* frees this pump: whatever the back-end had already queued for the pump must be cancelled
Acts2 == {"stop", "block", "free"}
Poll2(act) ==
  /\ act \in Acts2 /\ ~freed /\ (act = "block" => blockers # Blockers)
  /\ LET r1 == CASE act = "stop"  -> OpStop(Cur)
                  [] act = "block" -> OpBlockerAlloc(Cur, Min(Blockers \ blockers))
                  [] act = "free"  -> OpFree(Cur)
     IN Apply(IF Fires(r1) THEN OpFire(r1, "none") ELSE r1, C("poll2", 0, act))

\* a freshly allocated pump of kind k (upump_common_init: not started, status true)
InitWith(k) ==
  /\ kind = k
  /\ started = FALSE /\ status = TRUE /\ blockers = {} /\ active = FALSE
  /\ expired = FALSE /\ freed = FALSE
  /\ cmd = C("new", 0, "none") /\ calls = <<>> /\ cbLog = NoCb /\ ret = -1
  /\ pre = [started |-> FALSE, blockers |-> {}, active |-> FALSE, freed |-> FALSE]

Init == \E k \in Kinds : InitWith(k)

Next ==
  \/ Start \/ Stop \/ Restart
  \/ \E s \in BOOLEAN : SetStatus(s)
  \/ GetStatus
  \/ \E b \in Blockers : BlockerAlloc(b)
  \/ \E b \in Blockers : BlockerFree(b)
  \/ \E b \in Blockers : BlockerAllocRefused(b)
  \/ Dispatch
  \/ \E a \in Acts : Poll(a)
  \/ \E a \in Acts2 : Poll2(a)
  \/ Free

Spec == Init /\ [][Next]_vars

\* ---- the property ---------------------------------------------------------
TypeOK ==
  /\ kind \in Kinds /\ started \in BOOLEAN /\ status \in BOOLEAN
  /\ blockers \subseteq Blockers /\ active \in BOOLEAN /\ expired \in BOOLEAN
  /\ freed \in BOOLEAN /\ ret \in {-1, 0, 1}

\* the watcher is active exactly when started, not blocked, not freed - except
\* a one-shot timer that has fired, which the loop has stopped by itself
ActiveIff == active = (started /\ blockers = {} /\ ~freed /\ ~expired)
ExpiredOnlyOneShot == expired => kind = "oneshot" /\ started /\ blockers = {} /\ ~freed
FreedIsFinal == freed => ~started /\ blockers = {} /\ ~active

\* upump_free notifies every outstanding blocker exactly once; no blocker
\* call-back is ever invoked otherwise
FreeNotifiesAll ==
  \A b \in Blockers :
    cbLog.blk[b] = IF freed /\ ~pre.freed /\ b \in pre.blockers THEN 1 ELSE 0

\* the pump's call-back runs only from the loop, at most once per iteration,
\* and only if the pump was started, not blocked and not freed (never after
\* stop or free)
NoCallbackWhenInactive ==
  cbLog.pump > 0 => /\ cbLog.pump = 1
                    /\ cmd.op \in {"dispatch", "poll"}
                    /\ pre.active /\ pre.started /\ pre.blockers = {} /\ ~pre.freed

\* an iteration of the loop does invoke the call-back of an active pump
PollFiresWhenActive == cmd.op = "poll" /\ pre.active => cbLog.pump = 1

\* the status handed to the back-end is the owner's, get_status returns it
GetStatusReturns == cmd.op = "getstatus" => ret = (IF status THEN 1 ELSE 0)
=============================================================================
