SPECIFICATION Spec
CONSTANTS
 Setups <- S_time
 Acts <- A_time
 Bufs <- B_time
 MaxSteps = 3
 MaxIn = 3
 Variant = "ok"
 CheckEpi = FALSE
INVARIANT Emit
CHECK_DEADLOCK FALSE
