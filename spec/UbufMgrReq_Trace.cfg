SPECIFICATION TSpec
INVARIANT Report
POSTCONDITION Accepted
CHECK_DEADLOCK FALSE
