---------------------------- MODULE Rechunk_Trace ----------------------------
(***************************************************************************)
(* C14 - validation of recorded executions of the REAL pipes (upipe_agg,   *)
(* upipe_chunk_stream, upipe_ts_sync, upipe_ts_check, upipe_ts_align)      *)
(* produced by harness/pipe_driver.c + harness/pd_ext_c14.c, against the   *)
(* sentences of the property as written in RechunkOps.tla (the operators   *)
(* the model Rechunk.tla was checked with).  Nothing of the detailed       *)
(* layer is used here: which octets a parser selects, when a unit comes    *)
(* out and how agg packs are NOT prescribed - only what the statement      *)
(* says.                                                                   *)
(*                                                                         *)
(* One TLC state per trace line; an execution holds up to two runs (two    *)
(* pipes of the same type with the same settings) and starts with Reset.   *)
(*   Reset    {mode, mtu, align, psize}   settings of both runs            *)
(*            (mode "chain": upipe_chunk_stream -> upipe_ts_check ->       *)
(*            upipe_agg fed with a well-formed stream of whole packets of  *)
(*            align = psize octets: the chain conserves like its members - *)
(*            units of whole packets, at most mtu octets, every accepted   *)
(*            octet exactly once, all of it once the head is released)     *)
(*   In       {r, b, d}    run r is given the buffer b (octets); d = 1:    *)
(*                         flagged as a discontinuity                      *)
(*   Unit     {r, b}       run r output the unit b                         *)
(*   BadUnit  {r, n, got}  run r output a buffer that announces n octets   *)
(*                         of which only got can be read                   *)
(*   Flush    {r}          upipe_flush returned                            *)
(*   Rel      {r}          upipe_release of run r begins                   *)
(*   Released {r}          ... and has returned                            *)
(*   Timeout  {r}          the call in progress did not return within the  *)
(*                         step budget / the alarm                         *)
(* The state keeps, per run, the abstract variables of Rechunk.tla (in,    *)
(* acc, marks, units, dom) and cursors that make the sentences cheap to    *)
(* evaluate incrementally: sub (greedy cursor of the subsequence           *)
(* embedding), sel (greedy cursor of the slice embedding, TS modes), cons  *)
(* (accepted octets output so far, -1 once a unit was not the next         *)
(* accepted octets), uok (every unit so far had a permitted size).         *)
(***************************************************************************)
EXTENDS RechunkOps, TLC, Json, IOUtils

Tr == ndJsonDeserialize(IOEnv.TRACE)

VARIABLES l,                 \* next line of Tr
          cfg,               \* settings (Reset)
          in, acc, marks, units, dom,      \* abstract state of each run
          sub, sel, cons, uok,             \* incremental evaluation of the sentences
          st                 \* "run" | "rel" | "done" | "timeout"
vars == <<l, cfg, in, acc, marks, units, dom, sub, sel, cons, uok, st>>

Runs == {1, 2}
TS == cfg.mode \in {"sync", "check"}
IsEv(e) == l <= Len(Tr) /\ Tr[l].e = e /\ l' = l + 1
Cfg0 == [mode |-> "none", mtu |-> 1, align |-> 1, psize |-> 1]

TInit == /\ l = 1 /\ cfg = Cfg0
         /\ in = [r \in Runs |-> <<>>] /\ acc = [r \in Runs |-> <<>>]
         /\ marks = [r \in Runs |-> <<>>] /\ units = [r \in Runs |-> <<>>]
         /\ dom = [r \in Runs |-> TRUE]
         /\ sub = [r \in Runs |-> 0] /\ sel = [r \in Runs |-> 0] /\ cons = [r \in Runs |-> 0]
         /\ uok = [r \in Runs |-> TRUE]
         /\ st = [r \in Runs |-> "run"]

TReset == /\ IsEv("Reset")
          /\ LET e == Tr[l] IN
             /\ e.mode \in {"agg", "chunk", "sync", "check", "chain"}
             /\ e.mtu >= 1 /\ e.align >= 1 /\ e.psize >= 1
             /\ cfg' = [mode |-> e.mode, mtu |-> e.mtu, align |-> e.align, psize |-> e.psize]
          /\ in' = [r \in Runs |-> <<>>] /\ acc' = [r \in Runs |-> <<>>]
          /\ marks' = [r \in Runs |-> <<>>] /\ units' = [r \in Runs |-> <<>>]
          /\ dom' = [r \in Runs |-> TRUE]
          /\ sub' = [r \in Runs |-> 0] /\ sel' = [r \in Runs |-> 0] /\ cons' = [r \in Runs |-> 0]
          /\ uok' = [r \in Runs |-> TRUE]
          /\ st' = [r \in Runs |-> "run"]

\* the application gives a buffer to run r
TIn == /\ IsEv("In")
       /\ LET e == Tr[l]
              r == e.r
          IN /\ r \in Runs /\ st[r] = "run"
             /\ in' = [in EXCEPT ![r] = @ \o e.b]
             /\ acc' = [acc EXCEPT ![r] = IF cfg.mode = "agg" /\ ~AggAccepts(e.b, cfg.mtu)
                                          THEN @ ELSE @ \o e.b]
             /\ marks' = [marks EXCEPT ![r] = IF e.d = 1 THEN Append(@, Len(in[r])) ELSE @]
             /\ dom' = [dom EXCEPT ![r] = @ /\ (cfg.mode = "check" => AlignedBuf(e.b, cfg.psize))]
       /\ UNCHANGED <<cfg, units, sub, sel, cons, uok, st>>

\* the pipe outputs a unit (during an input call or during release)
TUnit == /\ IsEv("Unit")
         /\ LET e == Tr[l]
                r == e.r
                b == e.b
            IN /\ r \in Runs /\ st[r] \in {"run", "rel"}
               /\ units' = [units EXCEPT ![r] = Append(@, b)]
               /\ sub' = [sub EXCEPT ![r] = SubseqStep(in[r], @, b)]
               /\ sel' = [sel EXCEPT ![r] = IF TS THEN EmbedStep(in[r], @, b) ELSE @]
               /\ cons' = [cons EXCEPT ![r] =
                             IF @ >= 0 /\ OccursAt(acc[r], b, @ + 1) THEN @ + Len(b) ELSE -1]
               /\ uok' = [uok EXCEPT ![r] = @ /\ UnitOK(cfg.mode, cfg.mtu, cfg.align, cfg.psize, b)]
         /\ UNCHANGED <<cfg, in, acc, marks, dom, st>>

\* a unit that announces more octets than can be read from it is no unit at all
TBadUnit == /\ IsEv("BadUnit") /\ Tr[l].r \in Runs /\ st[Tr[l].r] \in {"run", "rel"}
            /\ uok' = [uok EXCEPT ![Tr[l].r] = FALSE]
            /\ UNCHANGED <<cfg, in, acc, marks, units, dom, sub, sel, cons, st>>

\* the chunk size option of upipe_chunk_stream changes in the middle of the stream (octets may be held):
\* every unit is judged by the setting in force when it comes out
TSet == /\ IsEv("Set") /\ cfg.mode = "chunk" /\ Tr[l].r \in Runs /\ st[Tr[l].r] = "run"
        /\ Tr[l].mtu >= 1 /\ Tr[l].align >= 1
        /\ cfg' = [cfg EXCEPT !.mtu = Tr[l].mtu, !.align = Tr[l].align]
        /\ UNCHANGED <<in, acc, marks, units, dom, sub, sel, cons, uok, st>>

\* a setting the pipe refuses (alignment >= MTU, a zero): nothing changes - the units that follow are still
\* judged by the setting that was in force
TSetRefused == /\ IsEv("SetRefused") /\ cfg.mode = "chunk" /\ Tr[l].r \in Runs /\ st[Tr[l].r] = "run"
               /\ UNCHANGED <<cfg, in, acc, marks, units, dom, sub, sel, cons, uok, st>>

TFlush == /\ IsEv("Flush") /\ Tr[l].r \in Runs /\ st[Tr[l].r] = "run"
          /\ UNCHANGED <<cfg, in, acc, marks, units, dom, sub, sel, cons, uok, st>>

TRel == /\ IsEv("Rel") /\ Tr[l].r \in Runs /\ st[Tr[l].r] = "run"
        /\ st' = [st EXCEPT ![Tr[l].r] = "rel"]
        /\ UNCHANGED <<cfg, in, acc, marks, units, dom, sub, sel, cons, uok>>

TReleased == /\ IsEv("Released") /\ Tr[l].r \in Runs /\ st[Tr[l].r] = "rel"
             /\ st' = [st EXCEPT ![Tr[l].r] = "done"]
             /\ UNCHANGED <<cfg, in, acc, marks, units, dom, sub, sel, cons, uok>>

\* the call in progress overran its budget: recorded, and condemned by ReleaseTerminates
TTimeout == /\ IsEv("Timeout") /\ Tr[l].r \in Runs /\ st[Tr[l].r] \in {"run", "rel"}
            /\ st' = [st EXCEPT ![Tr[l].r] = "timeout"]
            /\ UNCHANGED <<cfg, in, acc, marks, units, dom, sub, sel, cons, uok>>

----------------------------------------------------------------------------
(* the sentences of the property, evaluated in every state of every        *)
(* execution                                                               *)
Subsequence == \A r \in Runs : sub[r] >= 0
WholePackets == TS => \A r \in Runs : sel[r] >= 0
Conservation ==
    cfg.mode \in {"agg", "chunk", "chain"} =>
      \A r \in Runs : /\ cons[r] >= 0
                      /\ st[r] = "done" =>
                           Len(acc[r]) - cons[r] < (IF cfg.mode = "agg" THEN 1 ELSE cfg.align)
UnitSize == \A r \in Runs : uok[r]
CutInvariance ==
    TS => CutInvariant(cfg.mode, in[1], marks[1], units[1], st[1] = "done", dom[1],
                                 in[2], marks[2], units[2], st[2] = "done", dom[2])
ReleaseTerminates == \A r \in Runs : st[r] # "timeout"

(***************************************************************************)
(* The sentences are invariants of the trace; declaring them as INVARIANT  *)
(* would make TLC print the whole behaviour (thousands of states holding   *)
(* kilo-octet sequences) on a violation.  Instead the trace stops in the   *)
(* first state in which a sentence is false and names the sentences:       *)
(* TRACE_VIOLATES <line of the event that led there> <sentences>.          *)
(***************************************************************************)
Violated == (IF Subsequence THEN {} ELSE {"Subsequence"})
       \cup (IF WholePackets THEN {} ELSE {"WholePackets"})
       \cup (IF Conservation THEN {} ELSE {"Conservation"})
       \cup (IF UnitSize THEN {} ELSE {"UnitSize"})
       \cup (IF CutInvariance THEN {} ELSE {"CutInvariance"})
       \cup (IF ReleaseTerminates THEN {} ELSE {"ReleaseTerminates"})

TStop == /\ Violated # {}
         /\ PrintT(<<"TRACE_VIOLATES", l - 1, Violated>>)
         /\ UNCHANGED vars

TNext == \/ Violated = {} /\ (TReset \/ TIn \/ TUnit \/ TBadUnit \/ TSet \/ TSetRefused \/ TFlush \/ TRel \/ TReleased \/ TTimeout)
         \/ TStop
TSpec == TInit /\ [][TNext]_vars

Accepted == LET d == TLCGet("stats").diameter IN
            IF d - 1 = Len(Tr) THEN PrintT(<<"TRACE_ACCEPTED", Len(Tr)>>)
                               ELSE PrintT(<<"TRACE_REJECTED_AT", d>>)
=============================================================================
