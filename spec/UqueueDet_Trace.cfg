SPECIFICATION TSpec
CONSTANTS
  L <- TrL
  NPush <- TrNPush
  NCons <- TrNCons
  Drain <- TrDrain
  M = 8
  Variant = "code"
INVARIANT Report
POSTCONDITION Consumed
CHECK_DEADLOCK FALSE
