\* mode R, exhaustive: <= 5 reads of widths {1,7,8,9,24,31,32}, memories 0..21 octets of 4 textures, lazy segmentation with segments of 1..4 octets
SPECIFICATION Spec
CONSTANTS
  Mode = "R"
  Variant = "ok"
  Widths = {1, 7, 8, 9, 24, 31, 32}
  Kinds = {"ones", "alt", "zero"}
  MaxFields = 5
  MaxCap = 0
  MaxSize = 21
  MaxSeg = 4
  Pats = {"tex", "xet", "ones", "zero"}
  NearCap = FALSE
INVARIANT TypeOK NoUB InBounds ReadOK ReaderRefInv
CHECK_DEADLOCK FALSE
