SPECIFICATION Spec
CONSTANTS
  ModeSet = {"agg", "chunk", "sync", "check"}
  AggMtuSet = {3, 4, 7}
  InSizeSet = {0, 2, 3}
  ChunkMtuSet = {3, 5, 7}
  AlignSet = {1, 2, 3, 4}
  PSizeSet = {3, 4}
  NSyncSet = {2, 3}
  CheckPSizeSet = {2, 3}
  LenAgg = 8
  LenChunk = 8
  LenSync = 7
  LenCheck = 6
  BufAgg = 8
  BufOther = 99
  MaxEmpty = 1
  MaxDisc = 0
  Twin = "canon"
  EarlyB = FALSE
  Variant = "ok"
INVARIANT Subsequence WholePackets Conservation UnitSize CutInvariance ReleaseTerminates AggSane NoOverrun UnitsAreSlices FlushHeadSync EmitBeh
CHECK_DEADLOCK FALSE
