\* splitter, exhaustive (thorough): <= 4 additions/releases, 2 sections
SPECIFICATION Spec
CONSTANTS
  Mode = "S"
  Variant = "ok"
  SecPal <- SecsS
  FilPal <- FilsS
  Ports = {1, 2, 3}
  MaxOps = 4
  MaxIn = 2
  Record = FALSE
INVARIANT DeliverIff
CHECK_DEADLOCK FALSE
