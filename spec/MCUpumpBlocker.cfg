\* C13 exhaustive: the automaton is finite (outputs are per-command), no CONSTRAINT needed
SPECIFICATION Spec
CONSTANTS
  Blockers = {1, 2, 3}
  Kinds = {"idler", "fd", "timer", "oneshot"}
  Variant = "ok"
  EmitEdges = TRUE
INVARIANT TypeOK ActiveIff ExpiredOnlyOneShot FreedIsFinal FreeNotifiesAll
INVARIANT NoCallbackWhenInactive PollFiresWhenActive GetStatusReturns
CHECK_DEADLOCK FALSE
