\* quick: every behaviour of the four pipes within the bounds, with the units each call produces
SPECIFICATION Spec
CONSTANTS
  ModeSet = {"agg", "chunk", "sync", "check"}
  AggMtuSet = {3, 4}
  InSizeSet = {0, 2}
  ChunkMtuSet = {3, 5}
  AlignSet = {1, 2, 3}
  PSizeSet = {3}
  NSyncSet = {2}
  CheckPSizeSet = {2, 3}
  LenAgg = 6
  LenChunk = 6
  LenSync = 6
  LenCheck = 5
  BufAgg = 5
  BufOther = 99
  MaxEmpty = 0
  MaxDisc = 0
  Twin = "canon"
  EarlyB = FALSE
  Variant = "ok"
INVARIANT Subsequence WholePackets Conservation UnitSize CutInvariance ReleaseTerminates AggSane NoOverrun UnitsAreSlices FlushHeadSync EmitBeh
CHECK_DEADLOCK FALSE
