SPECIFICATION Spec
CONSTANTS
  Flavour = "sink"
  IL = 2
  OL = 1
  Mx = TRUE
  Prog <- P_Aicr
  SrcProg <- S_none
  Variant = "code"
  FreeLen = 8
  Eager = FALSE
  FreeToks <- T_in
INVARIANT InOrderOnce FlowDefFirst EndLast Confinement HoldNotDrop FreedOnce
VIEW view
CHECK_DEADLOCK FALSE
