--------------------------- MODULE UrefClock_Trace ---------------------------
(***************************************************************************)
(* C11 - validation of traces recorded from the real uref_clock API        *)
(* (harness/replay_clock.c) against UrefClock instantiated for W = 64      *)
(* (words = four 16-bit limbs, least significant first).                   *)
(*                                                                         *)
(* One trace line per call: {"e": <operation>, arguments, results}.  Each  *)
(* line must be explained by the corresponding action of UrefClock with    *)
(* the logged arguments, and what the code returned (error code, value of  *)
(* a getter, and - when the harness audited - all 15 observable values "g" *)
(* after the call) must be what the specification says.  Absent results    *)
(* are logged as [].  Reset lines separate executions (fresh uref).        *)
(* add_date on a typed date whose stored word is all-ones is Unspecified:  *)
(* both successors are kept and later observations discriminate.           *)
(* The property invariants / action properties of UrefClock are evaluated  *)
(* on every state / step of the trace.                                     *)
(***************************************************************************)
EXTENDS UrefClock, IOUtils

Tr == ndJsonDeserialize(IOEnv.TRACE)

VARIABLE l      \* next line of Tr
tvars == <<date, type, dtsPts, crDts, rapCr, steps, last, hist, l>>

Ev == Tr[l]
IsEv(e) == l <= Len(Tr) /\ Tr[l].e = e /\ l' = l + 1
B(x) == IF x THEN 1 ELSE 0
\* the audit, when logged, must equal the specification's getters in the new state
ChkG == ("g" \in DOMAIN Tr[l]) => AllGetters' = Tr[l].g

TReset == /\ IsEv("Reset")
          /\ date' = [d \in Doms |-> Unset]
          /\ type' = [d \in Doms |-> TNone]
          /\ dtsPts' = Unset /\ crDts' = Unset /\ rapCr' = Unset
          /\ steps' = 0
          /\ last' = Op("Init", "sys", TNone, Zero, TRUE, Absent)
          /\ hist' = <<>>
          /\ ChkG
TSetDate  == IsEv("SetDate") /\ SetDate(Ev.dom, Ev.ty, Ev.v) /\ ChkG
TRebase   == IsEv("Rebase") /\ Rebase(Ev.dom, Ev.ty) /\ B(last'.ok) = Ev.ok /\ ChkG
TDelete   == IsEv("DeleteDate") /\ DeleteDate(Ev.dom) /\ ChkG
TAdd      == IsEv("AddDate") /\ AddDate(Ev.dom, Ev.v) /\ ChkG
TSetDelay == IsEv("SetDelay") /\ SetDelay(Ev.w, Ev.v) /\ ChkG
TDelDelay == IsEv("DeleteDelay") /\ DeleteDelay(Ev.w) /\ ChkG
TSetRap   == IsEv("SetRap") /\ SetRap(Ev.dom, Ev.v) /\ B(last'.ok) = Ev.ok /\ ChkG
TDup      == IsEv("Dup") /\ Dup(Ev.which) /\ ChkG
TFlag     == IsEv("Flag") /\ Flag(Ev.which) /\ ChkG
TGet      == IsEv("Get") /\ Get(Ev.dom, Ev.ty) /\ last'.res = Ev.r /\ ChkG
TGetDelay == IsEv("GetDelay") /\ GetDelayOp(Ev.w) /\ last'.res = Ev.r /\ ChkG

TInit == Init /\ l = 1
TNext == \/ TReset \/ TSetDate \/ TRebase \/ TDelete \/ TAdd \/ TSetDelay \/ TDelDelay
         \/ TSetRap \/ TDup \/ TFlag \/ TGet \/ TGetDelay
TSpec == TInit /\ [][TNext]_tvars

Accepted == LET d == TLCGet("stats").diameter IN
            IF d - 1 = Len(Tr) THEN PrintT(<<"TRACE_ACCEPTED", Len(Tr)>>)
                               ELSE PrintT(<<"TRACE_REJECTED_AT", d>>)
=============================================================================
