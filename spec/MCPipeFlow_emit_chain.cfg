SPECIFICATION Spec
CONSTANTS
 Setups <- S_chain
 Acts <- A_chain
 Bufs <- B_size
 MaxSteps = 3
 MaxIn = 2
 Variant = "ok"
 CheckEpi = FALSE
INVARIANT Emit
CHECK_DEADLOCK FALSE
