\* thorough, exp-Golomb: every alignment 0..7, every class, second code of class 0/3/12/31; emits BEH lines
SPECIFICATION Spec
CONSTANTS
  Mode = "G"
  Variant = "ok"
  Leads = {0, 1, 2, 3, 4, 5, 6, 7}
  Ks = {0, 1, 2, 3, 4, 5, 6, 7, 8, 9, 10, 11, 12, 13, 14, 15, 16, 17, 18, 19, 20, 21, 22, 23, 24, 25, 26, 27, 28, 29, 30, 31}
  K2s = {0, 3, 12, 31}
  Reps = {"min", "max", "alt"}
  Kinds = {"ue", "se"}
  Alphabet = {0}
  MaxLen = 0
INVARIANT Emit TypeOK NoUB CodecInverse EscInverse ReadOK OvSound
VIEW View
CHECK_DEADLOCK FALSE
