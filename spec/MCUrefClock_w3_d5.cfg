SPECIFICATION Spec
CONSTANTS
  W = 3
  PaletteName = "all"
  MaxSteps = 5
  Variant = "ok"
  Record = FALSE
  AddAtUnset = "either"
VIEW View
CONSTRAINT StepBound
INVARIANT TypeOK Algebra
PROPERTY RebasePreserves SetReadsBack RapNotAfterCr
CHECK_DEADLOCK FALSE
