SPECIFICATION Spec
CONSTANTS
  Aborters = {}
  NT = 3
  Rounds = 1
  Variant = "code"
INVARIANT Mutex NoLostHandOver

VIEW view
CHECK_DEADLOCK FALSE
