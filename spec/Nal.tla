--------------------------------- MODULE Nal ---------------------------------
(***************************************************************************)
(* C17 - converting a frame between NAL encapsulations is lossless.        *)
(*                                                                         *)
(* ABSTRACT (operators of NalOps.tla).  A frame is a sequence of NAL       *)
(* payloads; Ser(nals, enc) writes them with start codes / length          *)
(* prefixes and gives the offsets of the NAL units;                        *)
(*     Convert(x, out) = Ser(Parse(x), out)   or Err when a payload does   *)
(*                                            not fit the length prefix    *)
(* Sentences of the property (invariants below):                           *)
(*   PayloadsKept   Parse(Convert(x, e)) = Parse(x): payloads and order    *)
(*   RoundTrip      a frame with 4-octet start codes or 4-octet prefixes   *)
(*                  comes back identical (octets AND stored offsets) from  *)
(*                  any chain of successful conversions that ends in its   *)
(*                  own encapsulation                                      *)
(*   OverflowErr    Err exactly when a payload exceeds 255 / 65535         *)
(*                                                                         *)
(* DETAILED.  Transcription of upipe_h26xf_convert_frame                   *)
(* (lib/upipe-framers/upipe_h26x_common.c), one action per turn of its     *)
(* loop: uref_h26x_iterate_nal with the running correction of the stored   *)
(* offsets, upipe_h26xf_decaps_nal (uref_block_extract / delete),          *)
(* upipe_h26xf_encaps_nal (length check, uref_block_insert).  The buffer   *)
(* operations fail as ubuf_block.h makes them fail: extract / delete       *)
(* beyond the end, insert AT the end of the block.                         *)
(*   Refines   after every completed conversion the octets and the stored  *)
(*             NAL offsets are those of the abstract frame (so that a      *)
(*             later iteration or conversion works)                        *)
(*   ErrAgree  the code refuses exactly when the abstract conversion is    *)
(*             Err (a frame holding an empty NAL unit may also be refused) *)
(*   NoTrap    no failed assert, no negative size                          *)
(*                                                                         *)
(* Variant "ok"       offset of the NAL just processed stored after its    *)
(*                    re-encapsulation (what the property needs)           *)
(*         "s11"      the loop as found in the tree: the stored offset of  *)
(*                    NAL k receives the corrections of NALs before k only *)
(*         "neg_len2" 2-octet prefix accepts 65536                         *)
(*         "neg_sc3"  3-octet start codes removed as if they had 4 octets  *)
(*         "neg_corr" the running correction is not applied                *)
(***************************************************************************)
EXTENDS NalOps, Json

CONSTANTS Variant,
          Sizes,       \* payload sizes TLC may choose
          MaxNals,     \* NAL units per frame (1..MaxNals)
          MaxConv,     \* conversions per behaviour
          Encs,        \* encapsulations (initial and target)
          Sc3,         \* TRUE: initial Annex B frames may use 3-octet start codes
          BigOnce      \* TRUE: at most one payload larger than 256 per frame

VARIABLES x0,          \* the initial frame (abstract)
          nals0,       \* its description: <<size, start-code size>> per NAL
          x,           \* abstract: current frame, or Err
          chain,       \* encapsulations asked for so far
          hist,        \* predictions for the replayer, one record per conversion
          dS, doffs, denc,                      \* detailed: octets, stored offsets, encapsulation
          pc, tgt, cnt, off, size, corr,        \* detailed: state of the loop
          acts         \* ghost: names of the actions taken (vacuity guard: TLC's
                       \* -coverage does not terminate on these recursive operators)
vars == <<x0, nals0, x, chain, hist, dS, doffs, denc, pc, tgt, cnt, off, size, corr, acts>>

---------------------------------------------------------------------------
(* buffer operations as ubuf_block.h performs them *)
\* ubuf_block_extract(off, 3) / ubuf_block_delete(off, n): the range must be inside
RangeOK(S, o, n) == o >= 0 /\ o < RLen(S) /\ o + n <= RLen(S)
\* ubuf_block_insert(off): ubuf_block_get finds no segment AT the end of the block
InsertOK(S, o) == o >= 0 /\ o < RLen(S)

\* upipe_h26xf_decaps_nal
Decaps(S, o, enc) ==
  IF enc = "nalu" THEN [r |-> "ok", S |-> S, es |-> 0]
  ELSE IF enc = "annexb" /\ ~RangeOK(S, o, 3) THEN [r |-> "invalid", S |-> S, es |-> 0]
  ELSE IF enc = "annexb" /\ (RByte(S, o) # 0 \/ RByte(S, o + 1) # 0)
       THEN [r |-> "assert", S |-> S, es |-> 0]
  ELSE LET es == IF enc = "annexb"
                 THEN (IF RByte(S, o + 2) = 1 /\ Variant # "neg_sc3" THEN 3 ELSE 4)
                 ELSE LenW(enc)
       IN IF ~RangeOK(S, o, es) THEN [r |-> "invalid", S |-> S, es |-> 0]
          ELSE [r |-> "ok", S |-> RNorm(RTake(S, o) \o RDrop(S, o + es)), es |-> es]

Limit(enc) == IF enc = "len2" /\ Variant = "neg_len2" THEN 65536 ELSE MaxPay(enc)
\* upipe_h26xf_encaps_nal
Encaps(S, o, n, out) ==
  IF out = "nalu" THEN [r |-> "ok", S |-> S, ins |-> 0]
  ELSE IF IsLen(out) /\ n > Limit(out) THEN [r |-> "invalid", S |-> S, ins |-> 0]
  ELSE IF ~InsertOK(S, o) THEN [r |-> "invalid", S |-> S, ins |-> 0]
  ELSE LET p == IF out = "annexb" THEN Lit(<<0, 0, 0, 1>>)      \* the caller's annexb_header
                ELSE Lit(BE(LenW(out), n))                       \* length_buf[]
       IN [r |-> "ok", S |-> RNorm(RTake(S, o) \o p \o RDrop(S, o)), ins |-> Len(p)]

\* uref_h26x_iterate_nal(uref, &cnt, &off, &size, corr)
Iter ==
  LET o == IF cnt = 0 THEN 0 ELSE off + size
      c == IF Variant = "neg_corr" THEN 0 ELSE corr
  IN IF cnt < Len(doffs)
     THEN LET nx == doffs[cnt + 1] + c
          IN [ok |-> TRUE, off |-> o, size |-> nx - o,
              offs |-> IF c # 0 THEN [doffs EXCEPT ![cnt + 1] = nx] ELSE doffs]
     ELSE IF RLen(dS) > o
     THEN [ok |-> TRUE, off |-> o, size |-> RLen(dS) - o, offs |-> doffs]
     ELSE [ok |-> FALSE, off |-> o, size |-> 0, offs |-> doffs]

\* one turn of the loop of upipe_h26xf_convert_frame
Turn ==
  LET it == Iter IN
  IF ~it.ok THEN [k |-> "end"]
  ELSE IF it.size < 0 THEN [k |-> "trap", offs |-> it.offs]
  ELSE LET d == Decaps(dS, it.off, denc) IN
       IF d.r = "assert" THEN [k |-> "trap", offs |-> it.offs]
       ELSE IF d.r # "ok" THEN [k |-> "fail", offs |-> it.offs]
       ELSE IF it.size - d.es < 0 THEN [k |-> "trap", offs |-> it.offs]
       ELSE LET e == Encaps(d.S, it.off, it.size - d.es, tgt) IN
            IF e.r # "ok" THEN [k |-> "fail", offs |-> it.offs]
            ELSE LET s3 == it.size - d.es + e.ins
                     o3 == IF Variant # "s11" /\ cnt < Len(it.offs)
                           THEN [it.offs EXCEPT ![cnt + 1] = it.off + s3]   \* the fix
                           ELSE it.offs
                 IN [k |-> "nal", S |-> e.S, offs |-> o3, off |-> it.off, size |-> s3,
                     corr |-> corr - d.es + e.ins]

---------------------------------------------------------------------------
(* initial frames *)
Payloads(ns) == [i \in 1..Len(ns) |-> PayloadOf(i, ns[i][1])]
Scs(ns)      == [i \in 1..Len(ns) |-> ns[i][2]]
NalLists == UNION {[1..n -> Sizes \X (IF Sc3 THEN {3, 4} ELSE {4})] : n \in 1..MaxNals}
ScNeutral(ns, enc) == enc # "annexb" => \A i \in 1..Len(ns) : ns[i][2] = 4
FewBig(ns) == BigOnce => Cardinality({i \in 1..Len(ns) : ns[i][1] > 256}) <= 1
HasEmpty(ns) == \E i \in 1..Len(ns) : ns[i][1] = 0

Init == /\ \E ns \in NalLists, e \in Encs :
             /\ ScNeutral(ns, e) /\ FewBig(ns)
             /\ Representable(Payloads(ns), e)
             /\ HasEmpty(ns) => e # "nalu"
             /\ nals0 = ns
             /\ x0 = MkFrame(Payloads(ns), e, Scs(ns))
        /\ x = x0 /\ chain = <<>> /\ hist = <<>>
        /\ dS = x0.S /\ doffs = x0.offs /\ denc = x0.enc
        /\ pc = "idle" /\ tgt = "none" /\ cnt = 0 /\ off = 0 /\ size = 0 /\ corr = 0
        /\ acts = {}

Degen == HasEmpty(nals0)
Prediction(c, out) == [to |-> out, r |-> IF c = Err THEN "err" ELSE "ok",
                       mayfail |-> IF Degen THEN 1 ELSE 0,
                       S |-> ToPairs(c.S), offs |-> c.offs, units |-> Units(c)]

\* upipe_h26xf_convert_frame(uref, denc, out, ...)
Start(out) ==
  /\ pc = "idle" /\ Len(chain) < MaxConv /\ x # Err
  /\ Degen => out # "nalu"
  /\ LET c == Convert(x, out) IN
     /\ x' = c /\ chain' = Append(chain, out) /\ hist' = Append(hist, Prediction(c, out))
  /\ tgt' = out
  /\ acts' = acts \cup {IF out = denc THEN "ConvIdentity" ELSE "ConvBegin"}
  /\ IF out = denc
     THEN pc' = "idle" /\ UNCHANGED <<cnt, off, size, corr>>          \* encaps_output == encaps_input
     ELSE pc' = "loop" /\ cnt' = 0 /\ off' = 0 /\ size' = 0 /\ corr' = 0
  /\ UNCHANGED <<x0, nals0, dS, doffs, denc>>
ConvIdentity(out) == Start(out) /\ out = denc
ConvBegin(out)    == Start(out) /\ out # denc

TurnNal == /\ pc = "loop" /\ Turn.k = "nal" /\ acts' = acts \cup {"TurnNal"}
           /\ dS' = Turn.S /\ doffs' = Turn.offs /\ cnt' = cnt + 1
           /\ off' = Turn.off /\ size' = Turn.size /\ corr' = Turn.corr
           /\ UNCHANGED <<x0, nals0, x, chain, hist, denc, pc, tgt>>
TurnEnd == /\ pc = "loop" /\ Turn.k = "end" /\ acts' = acts \cup {"TurnEnd"}
           /\ pc' = "idle" /\ denc' = tgt
           /\ UNCHANGED <<x0, nals0, x, chain, hist, dS, doffs, tgt, cnt, off, size, corr>>
TurnFail == /\ pc = "loop" /\ Turn.k = "fail" /\ acts' = acts \cup {"TurnFail"}
            /\ pc' = "failed" /\ doffs' = Turn.offs
            /\ UNCHANGED <<x0, nals0, x, chain, hist, dS, denc, tgt, cnt, off, size, corr>>
TurnTrap == /\ pc = "loop" /\ Turn.k = "trap" /\ acts' = acts \cup {"TurnTrap"}
            /\ pc' = "trap" /\ doffs' = Turn.offs
            /\ UNCHANGED <<x0, nals0, x, chain, hist, dS, denc, tgt, cnt, off, size, corr>>

\* VIEW: the history / ghost variables (hist, acts) are functions of the rest
\* (x0, chain and the position in the loop); hiding them loses nothing
View == <<x0, nals0, x, chain, dS, doffs, denc, pc, tgt, cnt, off, size, corr>>

Next == \/ \E out \in Encs : ConvIdentity(out) \/ ConvBegin(out)
        \/ TurnNal \/ TurnEnd \/ TurnFail \/ TurnTrap
Spec == Init /\ [][Next]_vars

---------------------------------------------------------------------------
(* the sentences of the property, on the abstract frames *)
P0 == Parse(x0)
PayloadsKept == (x # Err) => /\ WellFormed(x)
                             /\ Parse(x) = P0
                             /\ P0 = [i \in 1..Len(nals0) |-> PayloadOf(i, nals0[i][1])]
OverflowErr == /\ (x = Err) => ~Representable(P0, chain[Len(chain)])
               /\ (x # Err) => \A i \in 1..Len(chain) : Representable(P0, chain[i])
Canonical == x0.enc = "len4" \/ (x0.enc = "annexb" /\ \A i \in 1..Len(nals0) : nals0[i][2] = 4)
RoundTrip == (x # Err /\ x.enc = x0.enc /\ Canonical) => x = x0
\* whatever the start codes were, a second visit of an encapsulation gives the same frame
Stable == (x # Err /\ pc = "idle" /\ Len(chain) <= 1) =>
            \A e \in Encs : (Representable(P0, e) /\ (Degen => e # "nalu")) => Convert(Convert(x, e), x.enc) =
                          (IF x.enc = "annexb" /\ e # "annexb" THEN MkFrame(P0, "annexb", All4(P0)) ELSE x)

(* the detailed loop against the abstract conversion *)
Completed == pc = "idle" /\ Len(chain) > 0
Refines == Completed => /\ x # Err
                        /\ dS = x.S /\ doffs = x.offs /\ denc = x.enc
ErrAgree == /\ (pc = "failed") => (x = Err \/ Degen)
            /\ (pc = "idle") => x # Err
NoTrap == pc # "trap"
TypeOK == /\ pc \in {"idle", "loop", "failed", "trap"}
          /\ denc \in EncsAll /\ Len(chain) <= MaxConv

---------------------------------------------------------------------------
(* behaviours for the replayer: one line per maximal behaviour *)
Terminal == \/ pc \in {"failed", "trap"}
            \/ (pc = "idle" /\ (Len(chain) = MaxConv \/ x = Err))
Beh == [enc |-> x0.enc,
        nals |-> [i \in 1..Len(nals0) |-> <<i, nals0[i][1], nals0[i][2]>>],
        S |-> ToPairs(x0.S), offs |-> x0.offs, units |-> Units(x0),
        steps |-> hist, acts |-> acts]
Emit == Terminal => PrintT(<<"BEH", ToJson(Beh)>>)
\* a state the negative variants are expected to reach: printed before the
\* violated invariant is reported
Bad == ~Refines \/ ~ErrAgree \/ ~NoTrap
EmitCex == Bad => PrintT(<<"CEX", ToJson(Beh)>>)
=============================================================================
