\* NEGATIVE: scan context not carried from buffer to buffer
SPECIFICATION Spec
CONSTANTS
  Variant = "neg_ctx"
  Alphabet = {0, 1}
  MaxLen = 7
  NoLead3 = TRUE
  EmitMax = 7
INVARIANT EmitCex TypeOK ChunkInvariant Monotone NoTrap
VIEW View
CHECK_DEADLOCK FALSE
