\* negative configuration: the variant "alloc_offgran" of the model must be rejected by TLC
CONSTANTS
  Geos = {"neg"}
  GeoSet <- PicGeoSet
  Handles = {0}
  MaxOps = 4
  MaxResize = 2
  Variant = "alloc_offgran"
  Record = FALSE
SPECIFICATION Spec
VIEW View
INVARIANT WindowsInCanvas Inside InjectiveMap CanvasInjective GranularityP MapIsWindowCell AllocGranular WriteOnlySingle
PROPERTY CropPreserves StructuralOpsDontWrite
CHECK_DEADLOCK FALSE
