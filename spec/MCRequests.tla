----------------------------- MODULE MCRequests -----------------------------
(***************************************************************************)
(* Scenarios for the exhaustive runs of Requests (C12).  impl = the pipe   *)
(* type the harness allocates for the node (harness/pipe_driver.c +        *)
(* harness/pd_ext_c12.c); it plays no part in the specification.           *)
(***************************************************************************)
EXTENDS Requests

Fn(S, f, d) == [x \in S |-> IF x \in DOMAIN f THEN f[x] ELSE d]
NoF == <<>>

Scn(id, nodes, kind, impl, mode, icpt, prov, fprov, entry, reqs, rtype, owner, norel) ==
  LET N == Range(nodes) IN
  [id |-> id, nodes |-> nodes, kind |-> kind, impl |-> impl,
   mode |-> Fn(N, mode, NONE), icpt |-> Fn(N, icpt, {}), prov |-> Fn(N, prov, {}),
   fprov |-> Fn(N, fprov, {}),
   nothrow |-> [n \in N |-> FALSE], outvia |-> [n \in N |-> n],
   pname |-> [n \in N |-> n], pnode |-> [n \in N |-> n],
   out0 |-> [n \in N |-> NONE], hnd0 |-> [n \in N |-> TRUE],
   canout |-> [n \in N |-> kind[n] \in {"fwd", "qsrc"}],
   canin |-> [n \in N |-> kind[n] # "qsrc"],
   canrel |-> [n \in N |-> kind[n] \in {"fwd", "sink"} /\ n \notin norel],
   rereq |-> [n \in N |-> FALSE],
   side |-> [n \in N |-> "A"], entry |-> entry,
   reqs |-> reqs, rtype |-> rtype, owner |-> Fn(Range(reqs), owner, NONE)]


\* two forwarders, two holding sinks, two requests of the SAME type: re-plumbing, answers from either sink
ScnA == Scn("A", <<"p0", "p1", "s0", "s1">>,
            "p0" :> "fwd" @@ "p1" :> "fwd" @@ "s0" :> "sink" @@ "s1" :> "sink",
            "p0" :> "idem" @@ "p1" :> "setattr" @@ "s0" :> "sink" @@ "s1" :> "sink",
            "s0" :> "hold" @@ "s1" :> "hold", NoF, NoF, NoF,
            {"p0", "p1"}, <<"r0", "r1">>, "r0" :> "uref_mgr" @@ "r1" :> "uref_mgr", NoF, {})

\* probes as providers at both positions, a throwing and a refusing sink
ScnB == Scn("B", <<"p0", "p1", "s0", "s1">>,
            "p0" :> "fwd" @@ "p1" :> "fwd" @@ "s0" :> "sink" @@ "s1" :> "sink",
            "p0" :> "probe_uref" @@ "p1" :> "delay" @@ "s0" :> "sink" @@ "s1" :> "sink",
            "s0" :> "throw" @@ "s1" :> "refuse", NoF,
            "p0" :> {"uclock"} @@ "p1" :> {"flow_format"}, NoF,
            {"p0"}, <<"r0", "r1">>, "r0" :> "uclock" @@ "r1" :> "flow_format", NoF, {"p0"})

\* a pipe that intercepts ubuf_mgr / flow_format (genaux) in the middle of three
ScnC == Scn("C", <<"p0", "p1", "p2", "s0">>,
            "p0" :> "fwd" @@ "p1" :> "fwd" @@ "p2" :> "fwd" @@ "s0" :> "sink",
            "p0" :> "skip" @@ "p1" :> "genaux" @@ "p2" :> "tblk" @@ "s0" :> "sink",
            "s0" :> "hold",
            "p1" :> {"ubuf_mgr", "flow_format"} @@ "p2" :> {"ubuf_mgr", "flow_format"},
            "p1" :> {"ubuf_mgr"}, NoF,
            {"p0", "p2"}, <<"r0", "r1">>, "r0" :> "ubuf_mgr" @@ "r1" :> "uref_mgr", NoF, {"p0", "p2"})

\* a pipe with requests of its own (helpers uref_mgr, ubuf_mgr), real provider probes downstream
ScnD == Scn("D", <<"v0", "p1", "p2", "s0">>,
            "v0" :> "fwd" @@ "p1" :> "fwd" @@ "p2" :> "fwd" @@ "s0" :> "sink",
            "v0" :> "vreq" @@ "p1" :> "idem_um" @@ "p2" :> "idem_ub" @@ "s0" :> "sink",
            "s0" :> "hold", NoF, NoF,
            "p1" :> {"uref_mgr"} @@ "p2" :> {"ubuf_mgr", "flow_format", "sink_latency"},
            {"v0"}, <<"r0", "r1", "r2">>,
            "r0" :> "uref_mgr" @@ "r1" :> "ubuf_mgr" @@ "r2" :> "sink_latency",
            "r0" :> "v0" @@ "r1" :> "v0", {"p1", "p2"})

\* own requests uclock / flow_format on an intercepting pipe, uprobe_uclock, a throwing sink
ScnE == Scn("E", <<"p0", "v1", "p2", "s0">>,
            "p0" :> "fwd" @@ "v1" :> "fwd" @@ "p2" :> "fwd" @@ "s0" :> "sink",
            "p0" :> "noclock" @@ "v1" :> "vreqi" @@ "p2" :> "idem_uc" @@ "s0" :> "sink",
            "s0" :> "throw", "v1" :> {"ubuf_mgr", "flow_format"},
            "v1" :> {"flow_format"} @@ "p0" :> {"flow_format"}, "p2" :> {"uclock"},
            {"p0"}, <<"r0", "r1", "r2">>,
            "r0" :> "uclock" @@ "r1" :> "flow_format" @@ "r2" :> "flow_format",
            "r0" :> "v1" @@ "r1" :> "v1", {"p0", "p2"})

\* fan-in: two entry pipes sharing outputs; upipe_dup's main output; upipe_null as a throwing sink
ScnF == [Scn("F", <<"p0", "d1", "p2", "n0", "s0">>,
            "p0" :> "fwd" @@ "d1" :> "fwd" @@ "p2" :> "fwd" @@ "n0" :> "fwd" @@ "s0" :> "sink",
            "p0" :> "nodemux" @@ "d1" :> "dup" @@ "p2" :> "htons" @@ "n0" :> "null" @@ "s0" :> "sink",
            "s0" :> "hold", "n0" :> Types, "n0" :> {"uclock"}, NoF,
            {"p0", "d1"}, <<"r0", "r1">>, "r0" :> "uclock" @@ "r1" :> "uref_mgr", NoF, {"p0", "d1"})
         EXCEPT !.canout["n0"] = FALSE]

\* the repository's bin pipe upipe_ts_align (inner pipe: an idem) behind a forwarder
ScnG == [Scn("G", <<"p0", "b0", "b0i", "s0", "s1">>,
            "p0" :> "fwd" @@ "b0" :> "fwd" @@ "b0i" :> "fwd" @@ "s0" :> "sink" @@ "s1" :> "sink",
            "p0" :> "match_attr" @@ "b0" :> "ts_align" @@ "b0i" :> "inner" @@ "s0" :> "sink" @@ "s1" :> "sink",
            "s0" :> "hold" @@ "s1" :> "refuse", NoF, "b0" :> {"uclock"}, NoF,
            {"p0", "b0"}, <<"r0", "r1">>, "r0" :> "uref_mgr" @@ "r1" :> "uclock", NoF, {"p0"})
         EXCEPT !.nothrow["b0"] = TRUE, !.outvia["b0"] = "b0i", !.pname["b0i"] = "b0",
                !.pnode["b0i"] = "b0", !.out0["b0"] = "b0i", !.hnd0["b0i"] = FALSE,
                !.canout["b0i"] = FALSE, !.canin["b0i"] = FALSE, !.canrel["b0i"] = FALSE]

\* across a thread queue: p0 -> queue sink ~~> queue source -> p1 -> sinks
ScnQ == [Scn("Q", <<"p0", "qk", "qs", "p1", "s0", "s1">>,
            "p0" :> "fwd" @@ "qk" :> "qsink" @@ "qs" :> "qsrc" @@ "p1" :> "fwd" @@ "s0" :> "sink" @@ "s1" :> "sink",
            "p0" :> "idem" @@ "qk" :> "qsink" @@ "qs" :> "qsrc" @@ "p1" :> "setflowdef" @@ "s0" :> "rsink" @@ "s1" :> "rsink",
            "s0" :> "hold" @@ "s1" :> "throw", NoF, "p1" :> {"uref_mgr"}, NoF,
            {"p0"}, <<"r0", "r1">>, "r0" :> "uref_mgr" @@ "r1" :> "sink_latency", NoF, {"p0", "p1", "s1"})
         EXCEPT !.side = [n \in {"p0", "qk", "qs", "p1", "s0", "s1"} |->
                            IF n \in {"qs", "p1", "s0", "s1"} THEN "B" ELSE "A"],
                !.canin["p1"] = TRUE]

\* the queue with a pipe that has a request of its own upstream, probe provider on the queue source itself
ScnR == [Scn("R", <<"v0", "qk", "qs", "s0">>,
            "v0" :> "fwd" @@ "qk" :> "qsink" @@ "qs" :> "qsrc" @@ "s0" :> "sink",
            "v0" :> "vreq" @@ "qk" :> "qsink" @@ "qs" :> "qsrc" @@ "s0" :> "rsink",
            "s0" :> "hold", NoF, "qs" :> {"flow_format"}, NoF,
            {"v0"}, <<"r0", "r1">>,
            "r0" :> "ubuf_mgr" @@ "r1" :> "flow_format",
            "r0" :> "v0", {"v0"})
         EXCEPT !.side = [n \in {"v0", "qk", "qs", "s0"} |-> IF n \in {"qs", "s0"} THEN "B" ELSE "A"]]

\* the queue, remaining types; the queue sink is the entry point itself
ScnS == [Scn("S", <<"p0", "qk", "qs", "s0">>,
            "p0" :> "fwd" @@ "qk" :> "qsink" @@ "qs" :> "qsrc" @@ "s0" :> "sink",
            "p0" :> "skip" @@ "qk" :> "qsink" @@ "qs" :> "qsrc" @@ "s0" :> "rsink",
            "s0" :> "hold", NoF, "s0" :> {"uclock"}, NoF,
            {"p0", "qk"}, <<"r0", "r1">>,
            "r0" :> "uclock" @@ "r1" :> "sink_latency", NoF, {"p0"})
         EXCEPT !.side = [n \in {"p0", "qk", "qs", "s0"} |-> IF n \in {"qs", "s0"} THEN "B" ELSE "A"]]

\* a pipe whose check call-back requires its other own requests again (as the check functions of pipes with
\* flow format + buffer manager helpers do), a provider that answers at once, a forwarded application request
\* behind them in the list: set_output must re-issue ALL of them although the list changes under its loop
ScnH == [Scn("H", <<"v0", "p1", "p2", "s0">>,
            "v0" :> "fwd" @@ "p1" :> "fwd" @@ "p2" :> "fwd" @@ "s0" :> "sink",
            "v0" :> "vreqr" @@ "p1" :> "idem_ub" @@ "p2" :> "idem" @@ "s0" :> "sink",
            "s0" :> "hold", NoF, NoF,
            "p1" :> {"ubuf_mgr", "flow_format"},
            {"v0"}, <<"r0", "r1", "r2">>,
            "r0" :> "flow_format" @@ "r1" :> "ubuf_mgr" @@ "r2" :> "uclock",
            "r0" :> "v0" @@ "r1" :> "v0", {"p1", "p2"})
         EXCEPT !.rereq["v0"] = TRUE]

\* scenario S with out-of-band queues of ONE message: every way a register / unregister message can be refused
ScnT == [qcap |-> 1] @@ [ScnS EXCEPT !.id = "T"]

\* one-shot requests: the call-back unregisters its request (scenarios A, B and S again)
ScnA1 == [oneshot |-> {"r0"}] @@ [ScnA EXCEPT !.id = "A1"]
ScnB1 == [oneshot |-> {"r0", "r1"}] @@ [ScnB EXCEPT !.id = "B1"]
ScnS1 == [oneshot |-> {"r0"}] @@ [ScnS EXCEPT !.id = "S1"]

ScnInThread == {ScnA, ScnB, ScnC, ScnD, ScnE, ScnF, ScnH, ScnA1, ScnB1}
ScnBin == {ScnG}
ScnQueue == {ScnQ, ScnR, ScnS, ScnS1}
ScnAll == ScnInThread \cup ScnBin \cup ScnQueue

ScnQuick == {ScnA, ScnB, ScnR, ScnH, ScnA1, ScnB1}
ScnQuickQ == {ScnR}
ScnThorIn == ScnInThread
ScnThorQ == {ScnQ, ScnR, ScnS, ScnS1}
ScnFull == {ScnT}
ScnOnlyA == {ScnA}
ScnOnlyD == {ScnD}
ScnOnlyH == {ScnH}
TraceBoot == {ScnA}
NoExplore == ngen < 0
ViewCore == core
=============================================================================
