SPECIFICATION Spec
CONSTANTS
  TopoName = "lqs"
  Variant = "ok"
  QLen = 1
  MaxHeld = 2
  MaxCmds = 0
  MinCmds = 0
  EmitBeh = FALSE
INVARIANTS RcIsHolders DestroyOnce NoUseAfterDestroy QuiescentClean Sane
PROPERTY DestroyOnceStep
VIEW View
POSTCONDITION Cov
CHECK_DEADLOCK FALSE
