\* thorough: <= 3 NALs over the whole size palette, 3- and 4-octet start codes, every encapsulation pair and chain of 2 conversions; emits BEH lines
SPECIFICATION Spec
CONSTANTS
  Variant = "ok"
  Sizes = {0, 1, 2, 255, 256, 65535, 65536}
  MaxNals = 3
  MaxConv = 2
  Encs = {"annexb", "len1", "len2", "len4", "nalu"}
  Sc3 = TRUE
  BigOnce = TRUE
INVARIANT Emit TypeOK PayloadsKept OverflowErr RoundTrip Stable Refines ErrAgree NoTrap
VIEW View
CHECK_DEADLOCK FALSE
