\* NEGATIVE: upipe_h265f_find as found in the tree (octet before a start code at offset 0 fetched at offset -1 = from the end of the block), on strings that may begin with 00 00 01
SPECIFICATION Spec
CONSTANTS
  Variant = "lead"
  Alphabet = {0, 1}
  MaxLen = 7
  NoLead3 = FALSE
  EmitMax = 7
INVARIANT EmitCex TypeOK ChunkInvariant Monotone NoTrap
VIEW View
CHECK_DEADLOCK FALSE
