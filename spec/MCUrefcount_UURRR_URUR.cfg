SPECIFICATION Spec
CONSTANTS
  Prog <- P_UURRR_URUR
  Variant = "code"
INVARIANT DestroyAtMostOnce NotWhileHeld DestroyedAtEnd CounterIsHeld
VIEW view
CHECK_DEADLOCK FALSE
