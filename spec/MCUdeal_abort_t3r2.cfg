SPECIFICATION Spec
CONSTANTS
  Aborters = {1, 3}
  NT = 3
  Rounds = 2
  Variant = "code"
INVARIANT Mutex NoLostHandOver

VIEW view
CHECK_DEADLOCK FALSE
