------------------------------- MODULE Uqueue -------------------------------
(***************************************************************************)
(* C08 - detailed model of the wake-up protocol of include/upipe/uqueue.h. *)
(*                                                                         *)
(* The FIFO is the atomic bounded queue established by C07 (an attempt to  *)
(* push / pop is one action; only the number of stored elements matters    *)
(* here).  Every other shared access of uqueue_push / uqueue_pop is one    *)
(* action: the reads and writes of the two event descriptors and the       *)
(* fetch_add / fetch_sub on the advisory counter (modulo M, standing in    *)
(* for 2^32).  Threads live in event loops: a thread that returned to its  *)
(* loop is dispatched again iff its descriptor is readable (level          *)
(* triggered, as libev does): producers sleep on event_push after a        *)
(* refused push, consumers sleep on event_pop.                             *)
(*                                                                         *)
(* Producer p has NPush[p] elements to send; a consumer pops one element   *)
(* per dispatch (Drain = FALSE) or pops until the queue is empty (TRUE).   *)
(***************************************************************************)
EXTENDS Naturals, Sequences, FiniteSets, TLC, Json

CONSTANTS L,        \* queue length
          NPush,    \* NPush[p] : elements producer p sends (sequence indexed 1..NP)
          NCons,    \* number of consumers
          Drain,    \* consumer pops until empty at each dispatch
          M,        \* modulus of the advisory counter
          Variant   \* "code" | "nodoublecheck" (negative: no second attempt after clearing the event)

Prods == 1..Len(NPush)
Cons == (Len(NPush) + 1)..(Len(NPush) + NCons)

VARIABLES stored, counter, evPush, evPop,
          pc,         \* per thread (producers and consumers)
          left,       \* per producer: elements not yet accepted by the queue
          popped,     \* number of elements delivered
          maxStored,  \* ghost: high-water mark
          sched
vars == <<stored, counter, evPush, evPop, pc, left, popped, maxStored, sched>>
view == <<stored, counter, evPush, evPop, pc, left, popped, maxStored>>

Total == LET RECURSIVE S(_) S(n) == IF n = 0 THEN 0 ELSE NPush[n] + S(n - 1) IN S(Len(NPush))

Init == /\ stored = 0 /\ counter = 0 /\ evPush = TRUE /\ evPop = FALSE
        /\ pc = [t \in Prods \cup Cons |-> IF t \in Prods THEN "idle" ELSE "loop"]
        /\ left = [p \in Prods |-> NPush[p]]
        /\ popped = 0 /\ maxStored = 0 /\ sched = <<>>

Go(t, l) == pc' = [pc EXCEPT ![t] = l] /\ sched' = Append(sched, t)
TryPush == stored' = stored + 1 /\ maxStored' = IF stored + 1 > maxStored THEN stored + 1 ELSE maxStored

\* ---- producer: uqueue_push -------------------------------------------------
\* idle: start a push (first fifo attempt is the next access)
PStart(p) == /\ pc[p] = "idle" /\ left[p] > 0 /\ Go(p, "try1")
             /\ UNCHANGED <<stored, counter, evPush, evPop, left, popped, maxStored>>
PTry1(p) == /\ pc[p] = "try1"
            /\ IF stored < L THEN TryPush /\ Go(p, "cnt")
                             ELSE Go(p, "rd") /\ UNCHANGED <<stored, maxStored>>
            /\ UNCHANGED <<counter, evPush, evPop, left, popped>>
PRd(p) == /\ pc[p] = "rd" /\ evPush' = FALSE
          /\ Go(p, IF Variant = "nodoublecheck" THEN "asleep" ELSE "try2")
          /\ UNCHANGED <<stored, counter, evPop, left, popped, maxStored>>
PTry2(p) == /\ pc[p] = "try2"
            /\ IF stored < L THEN TryPush /\ Go(p, "wr")
                             ELSE Go(p, "asleep") /\ UNCHANGED <<stored, maxStored>>
            /\ UNCHANGED <<counter, evPush, evPop, left, popped>>
PWr(p) == /\ pc[p] = "wr" /\ evPush' = TRUE /\ Go(p, "cnt")
          /\ UNCHANGED <<stored, counter, evPop, left, popped, maxStored>>
PCnt(p) == /\ pc[p] = "cnt" /\ counter' = (counter + 1) % M
           /\ left' = [left EXCEPT ![p] = @ - 1]
           /\ Go(p, IF counter = 0 THEN "wrpop" ELSE IF left[p] > 1 THEN "try1" ELSE "done")
           /\ UNCHANGED <<stored, evPush, evPop, popped, maxStored>>
PWrPop(p) == /\ pc[p] = "wrpop" /\ evPop' = TRUE
             /\ Go(p, IF left[p] > 0 THEN "try1" ELSE "done")
             /\ UNCHANGED <<stored, counter, evPush, left, popped, maxStored>>
\* the event loop dispatches the sleeping producer iff event_push is readable
PWake(p) == /\ pc[p] = "asleep" /\ evPush /\ Go(p, "try1")
            /\ UNCHANGED <<stored, counter, evPush, evPop, left, popped, maxStored>>

\* ---- consumer: uqueue_pop --------------------------------------------------
CWake(c) == /\ pc[c] = "loop" /\ evPop /\ Go(c, "try1")
            /\ UNCHANGED <<stored, counter, evPush, evPop, left, popped, maxStored>>
CTry1(c) == /\ pc[c] = "try1"
            /\ IF stored > 0 THEN stored' = stored - 1 /\ Go(c, "cnt")
                             ELSE stored' = stored /\ Go(c, "rd")
            /\ UNCHANGED <<counter, evPush, evPop, left, popped, maxStored>>
CRd(c) == /\ pc[c] = "rd" /\ evPop' = FALSE /\ Go(c, "try2")
          /\ UNCHANGED <<stored, counter, evPush, left, popped, maxStored>>
CTry2(c) == /\ pc[c] = "try2"
            /\ IF stored > 0 THEN stored' = stored - 1 /\ Go(c, "wr")
                             ELSE stored' = stored /\ Go(c, "loop")
            /\ UNCHANGED <<counter, evPush, evPop, left, popped, maxStored>>
CWr(c) == /\ pc[c] = "wr" /\ evPop' = TRUE /\ Go(c, "cnt")
          /\ UNCHANGED <<stored, counter, evPush, left, popped, maxStored>>
AfterPop(c) == IF Drain THEN "try1" ELSE "loop"
CCnt(c) == /\ pc[c] = "cnt" /\ counter' = (counter + M - 1) % M /\ popped' = popped + 1
           /\ Go(c, IF counter = L THEN "wrpush" ELSE AfterPop(c))
           /\ UNCHANGED <<stored, evPush, evPop, left, maxStored>>
CWrPush(c) == /\ pc[c] = "wrpush" /\ evPush' = TRUE /\ Go(c, AfterPop(c))
              /\ UNCHANGED <<stored, counter, evPop, left, popped, maxStored>>

Next == \/ \E p \in Prods : PStart(p) \/ PTry1(p) \/ PRd(p) \/ PTry2(p) \/ PWr(p) \/ PCnt(p) \/ PWrPop(p) \/ PWake(p)
        \/ \E c \in Cons : CWake(c) \/ CTry1(c) \/ CRd(c) \/ CTry2(c) \/ CWr(c) \/ CCnt(c) \/ CWrPush(c)
Spec == Init /\ [][Next]_vars
FairSpec == Spec /\ WF_vars(Next)

\* ---- properties -------------------------------------------------------------
Occupancy == stored <= L /\ maxStored <= L
WorkRemains == (\E p \in Prods : left[p] > 0) \/ stored > 0
\* nobody can take a step (everyone is asleep on a non-readable descriptor or
\* finished) although the queue could make progress: a lost wake-up
NoLostWakeup == (~ENABLED Next) => ~WorkRemains
AllDelivered == <>(popped = Total)
EmitStuck == (~ENABLED Next) => PrintT(<<"BEH", ToJson([sched |-> sched, popped |-> popped])>>)
=============================================================================
