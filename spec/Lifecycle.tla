------------------------------ MODULE Lifecycle ------------------------------
(***************************************************************************)
(* C01 - every refcounted object is freed exactly once and never used      *)
(* afterwards.  ABSTRACT specification: a table of objects and the events  *)
(* that may happen to them.  It is used twice:                             *)
(*   - MCLifecycle.tla (detailed layer: the reference handling of the      *)
(*     pipes transcribed from the C code) produces these events and TLC    *)
(*     checks the sentences below for every API program;                   *)
(*   - Lifecycle_Trace.tla replays the events recorded from the real code  *)
(*     (hook H4 of urefcount.h, interposed managers, sanitizer reports).   *)
(*                                                                         *)
(* Object table  T : id |-> [k, st, rc, app]                               *)
(*   k    "rc"     reference counted through urefcount (pipe, probe,        *)
(*                 manager, clock, event loop)                             *)
(*        "static" urefcount without destructor (use/release are no-ops)   *)
(*        "uref" "ubuf" "udict" "mem"   single-owner structures            *)
(*        "pump" "blocker"   watchers and blockers handed out by the event loop *)
(*   st   "live" | "dying" (its destructor is running) | "dead"            *)
(*   rc   value of the reference counter                                   *)
(*   app  references (k = "rc") or ownership (other kinds, 0/1) held by    *)
(*        the application, i.e. by a holder the driver knows by name;      *)
(*        rc - app is the number of references of the anonymous internal   *)
(*        holders (pipe.output, sub-pipe -> super-pipe, probe chains, the  *)
(*        self-reference of a stalled queue sink, upipe_input/control      *)
(*        brackets, pool accounting of the managers ...)                   *)
(*                                                                         *)
(* Events (records; field o = object id, h = "app" | "int" = who acts)     *)
(*   Init    urefcount_init                  (v = 1: has a destructor)     *)
(*   Use     urefcount_use                   (v = 0: no effect; n = the    *)
(*   Rel     urefcount_release                real counter before, or -1)  *)
(*   Destroy the counter reached 0, the destructor is about to run         *)
(*   End     the destructor returned                                       *)
(*   Adopt   the application takes over the reference alloc returned       *)
(*   Alloc / Free     single-owner structure created / destroyed           *)
(*   Take / Give      the application becomes / stops being its owner      *)
(*   Audit   observed counters of named live objects                       *)
(*   Quiescent   epilogue done, every handle and manager released          *)
(*   anything else (sanitizer report, lost buffer) has no action           *)
(*                                                                         *)
(* The four sentences of the property are the reasons for which Why()      *)
(* refuses an event:                                                       *)
(*   RcIsHolders       the counter is the number of holders: nobody        *)
(*                     releases a reference he does not hold, the real     *)
(*                     counter equals the number of uses minus releases    *)
(*   DestroyOnce       destroyed once, exactly when the last reference     *)
(*                     goes away; a single-owner structure is freed once   *)
(*   NoUseAfterDestroy no event names an object after its destruction      *)
(*                     (inside its own destructor only without effect)     *)
(*   QuiescentClean    after the epilogue nothing remains                  *)
(***************************************************************************)
EXTENDS Naturals, Integers, Sequences, FiniteSets, TLC

Sentences == {"RcIsHolders", "DestroyOnce", "NoUseAfterDestroy", "QuiescentClean"}
Unknown == "o-1"          \* a urefcount the hook never saw initialised: not judged

Has(T, o) == o \in DOMAIN T
Put(T, o, r) == (o :> r) @@ T
Prune(T, o) == [x \in (DOMAIN T) \ {o} |-> T[x]]     \* forget a dead object (trace validation: ids are never reused)
Counted(r) == r.k = "rc"
Single(r) == r.k \in {"uref", "ubuf", "udict", "mem", "pump", "blocker"}
Fld(ev, f, d) == IF f \in DOMAIN ev THEN ev[f] ELSE d

(* the sentence event ev violates in table T, or "ok" *)
Why(T, ev) ==
  LET o == Fld(ev, "o", Unknown)
      known == Has(T, o)
      x == T[o]
      h == Fld(ev, "h", "int")
      v == Fld(ev, "v", 1)
      n == Fld(ev, "n", -1)
  IN
  CASE ev.e = "Init" -> IF known THEN "DestroyOnce" ELSE "ok"
    [] ev.e \in {"Use", "Rel"} ->
         IF o = Unknown THEN "ok"
         ELSE IF ~known THEN "NoUseAfterDestroy"
         ELSE IF x.k = "static" THEN "ok"
         ELSE IF ~Counted(x) THEN "NoUseAfterDestroy"
         ELSE IF x.st = "dead" THEN "NoUseAfterDestroy"
         ELSE IF x.st = "dying" THEN (IF v = 0 THEN "ok" ELSE "NoUseAfterDestroy")
         \* live
         ELSE IF x.rc = 0 THEN "NoUseAfterDestroy"          \* between the last release and the destructor
         ELSE IF v = 0 THEN "RcIsHolders"
         ELSE IF n # -1 /\ n # x.rc THEN "RcIsHolders"
         ELSE IF ev.e = "Use" THEN "ok"
         ELSE IF h = "app" THEN (IF x.app > 0 THEN "ok" ELSE "RcIsHolders")
         ELSE (IF x.rc - x.app > 0 THEN "ok" ELSE "RcIsHolders")
    [] ev.e = "Destroy" ->
         IF o = Unknown THEN "ok"
         ELSE IF ~known THEN "DestroyOnce"                  \* not in the table: destroyed before
         ELSE IF ~Counted(x) \/ x.st # "live" THEN "DestroyOnce"
         ELSE IF x.rc # 0 THEN "DestroyOnce"
         ELSE IF x.app # 0 THEN "RcIsHolders"
         ELSE "ok"
    [] ev.e = "End" ->
         IF o = Unknown THEN "ok"
         ELSE IF ~known THEN "DestroyOnce"
         ELSE IF x.st # "dying" THEN "DestroyOnce"
         ELSE "ok"
    [] ev.e = "Adopt" ->
         IF ~known THEN "NoUseAfterDestroy"
         ELSE IF x.k = "static" THEN "ok"
         ELSE IF ~Counted(x) \/ x.st # "live" THEN "NoUseAfterDestroy"
         ELSE IF x.rc - x.app < 1 THEN "RcIsHolders"
         ELSE "ok"
    [] ev.e = "Alloc" -> IF known THEN "DestroyOnce" ELSE "ok"
    [] ev.e = "Free" ->
         IF ~known THEN "DestroyOnce"                       \* unknown or double free
         ELSE IF ~Single(x) \/ x.st # "live" THEN "DestroyOnce"
         ELSE IF x.app # 0 THEN "NoUseAfterDestroy"        \* freed under its owner's feet
         ELSE "ok"
    [] ev.e = "Take" ->
         IF ~known THEN "NoUseAfterDestroy"
         ELSE IF ~Single(x) \/ x.st # "live" THEN "NoUseAfterDestroy"
         ELSE IF x.app # 0 THEN "RcIsHolders"
         ELSE "ok"
    [] ev.e = "Give" ->
         IF ~known THEN "NoUseAfterDestroy"
         ELSE IF ~Single(x) \/ x.st # "live" THEN "NoUseAfterDestroy"
         ELSE IF x.app # 1 THEN "RcIsHolders"
         ELSE "ok"
    [] ev.e = "Audit" ->
         IF \A i \in 1..Len(ev.objs) :
              /\ Has(T, ev.objs[i])
              /\ T[ev.objs[i]].st = "live"
              /\ T[ev.objs[i]].rc = ev.vals[i]
         THEN "ok" ELSE "RcIsHolders"
    [] ev.e = "Quiescent" ->
         IF \A y \in DOMAIN T : T[y].st = "dead" \/ T[y].k = "static" THEN "ok" ELSE "QuiescentClean"
    [] ev.e = "San" ->
         LET kd == Fld(ev, "kind", "other") IN
         IF kd = "leak" THEN "QuiescentClean"
         ELSE IF kd = "double-free" THEN "DestroyOnce"
         ELSE "NoUseAfterDestroy"
    [] OTHER -> "NoUseAfterDestroy"

(* the table after an accepted event *)
Step(T, ev) ==
  LET o == Fld(ev, "o", Unknown)
      x == T[o]
      eff == Has(T, o) /\ Counted(x) /\ x.st = "live"
  IN
  CASE ev.e = "Init" -> Put(T, o, [k |-> IF Fld(ev, "v", 1) = 1 THEN "rc" ELSE "static",
                                   st |-> "live", rc |-> 1, app |-> 0])
    [] ev.e = "Use" -> IF eff THEN [T EXCEPT ![o].rc = @ + 1,
                                             ![o].app = IF Fld(ev, "h", "int") = "app" THEN @ + 1 ELSE @]
                              ELSE T
    [] ev.e = "Rel" -> IF eff THEN [T EXCEPT ![o].rc = @ - 1,
                                             ![o].app = IF Fld(ev, "h", "int") = "app" THEN @ - 1 ELSE @]
                              ELSE T
    [] ev.e = "Destroy" -> IF Has(T, o) THEN [T EXCEPT ![o].st = "dying"] ELSE T
    [] ev.e = "End" -> IF Has(T, o) THEN [T EXCEPT ![o].st = "dead"] ELSE T
    [] ev.e = "Adopt" -> IF eff THEN [T EXCEPT ![o].app = @ + 1] ELSE T
    [] ev.e = "Alloc" -> Put(T, o, [k |-> ev.k, st |-> "live", rc |-> 0, app |-> 0])
    [] ev.e = "Free" -> [T EXCEPT ![o].st = "dead"]
    [] ev.e = "Take" -> [T EXCEPT ![o].app = 1]
    [] ev.e = "Give" -> [T EXCEPT ![o].app = 0]
    [] OTHER -> T

(* state predicates over a table: what the sentences say about every state *)
TypeOK(T) == \A o \in DOMAIN T :
               /\ T[o].st \in {"live", "dying", "dead"}
               /\ T[o].k \in {"rc", "static", "uref", "ubuf", "udict", "mem"}
\* the application's references are among the counted ones; a counter at zero means destruction
HoldersWithinRc(T) == \A o \in DOMAIN T : (Counted(T[o]) /\ T[o].st = "live") => T[o].app <= T[o].rc
NoHolderOfDead(T) == \A o \in DOMAIN T : T[o].st # "live" => T[o].app = 0
=============================================================================
