\* C20 behaviours for the replay (thorough tier): every script of exactly 5 commands
SPECIFICATION Spec
CONSTANTS
  Acc = {1, 2, 3}
  Rej = {4, 5}
  Default = 0
  Garbage = 99
  Unknown = 98
  MaxLen = 5
  MaxIn = 3
  Variant = "ok"
  EmitBeh = TRUE
INVARIANT TypeOK GetReturnsLast GetterNeutral RejectNeutral SameAnswers Emit
CHECK_DEADLOCK FALSE
