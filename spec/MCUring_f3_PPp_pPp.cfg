SPECIFICATION Spec
CONSTANTS
  N = 3
  Kind = "fifo"
  Prog <- P_PPp_pPp
  HeadCmp = "tagindex"
INVARIANT NoErr StructureOK TypeOK
VIEW view
CHECK_DEADLOCK FALSE
