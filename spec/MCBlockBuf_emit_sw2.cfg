\* emission (C02): two blocks; dup; append; any cutting / growing call inside the block; final content of every handle
SPECIFICATION MCSpec
CONSTANTS
  Handles = {0, 1, 2, 3}
  Fill = 14
  Strict = TRUE
  KeepHist = TRUE
  Bug = "none"
  Pre = 2
  MaxLen = 8
  MaxWins = 6
  Depth = 3
  PatSet = "sw2"
  InitSet = "two"
  ObsLast = TRUE
  Rand = FALSE
  Letters = {0, 1}
  LastOps = {}
  LastSz = {1, 2}
  Dom = "in"
  Ops = {"dup", "append", "delete", "truncate", "resize", "insert", "split", "splice", "merge", "prepend"}
INVARIANT Emit
CONSTRAINT Bounded
CHECK_DEADLOCK FALSE
