SPECIFICATION Spec
CONSTANTS
 Setups <- S_time
 Acts <- A_time
 Bufs <- B_time
 MaxSteps = 4
 MaxIn = 3
 Variant = "noflush"
 CheckEpi = TRUE
INVARIANT ExactlyOnce
INVARIANT InOrder
INVARIANT ContentOK
INVARIANT DupAll
INVARIANT NoLeak
INVARIANT EpilogueClean
INVARIANT DrainedOK
PROPERTY FlushFrees
VIEW view
CHECK_DEADLOCK FALSE
