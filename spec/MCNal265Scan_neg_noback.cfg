\* NEGATIVE: the first header octet is not given back to the scanner when the second one has not arrived
SPECIFICATION Spec
CONSTANTS
  Variant = "neg_noback"
  Alphabet = {0, 1}
  MaxLen = 7
  NoLead3 = TRUE
  EmitMax = 7
INVARIANT EmitCex TypeOK ChunkInvariant Monotone NoTrap
VIEW View
CHECK_DEADLOCK FALSE
