------------------------------- MODULE Uring -------------------------------
(***************************************************************************)
(* C07 - detailed model of include/upipe/uring.h + ufifo.h + ulifo.h.      *)
(*                                                                         *)
(* One action per shared-memory access (every uatomic operation and every  *)
(* plain access to uring_elem.tag/next/opaque), i.e. exactly the yield     *)
(* points of hooks H1+H2: a step of thread t performs the access t is      *)
(* parked before and runs t up to its next access.  A TLC behaviour is     *)
(* therefore a schedule that harness/sched_ring.c can replay 1:1 on the    *)
(* real code.                                                              *)
(*                                                                         *)
(* Ring elements are 1..N (0 = URING_INDEX_NULL).  A LIFO word is          *)
(* <<tag, index>> (<<0,0>> = URING_LIFO_NULL), the FIFO word is            *)
(* <<tail tag, tail, head tag, head>> (<<0,0,0,0>> = URING_FIFO_NULL).     *)
(* Tags are naturals (8-bit truncation in the FIFO word is modelled with   *)
(* % 256; no wrap occurs within the bounds explored - see DESIGN.md C07).  *)
(*                                                                         *)
(* Ghost state: absq is the abstract queue/stack, updated at the           *)
(* linearization points (successful CAS on the carrier; the load/failed    *)
(* CAS that observed "empty"/"no free slot").  err collects broken         *)
(* obligations; the property is  err = {}  plus the structural invariants. *)
(***************************************************************************)
EXTENDS Naturals, Sequences, FiniteSets, TLC, Json

CONSTANTS N,        \* ring length (capacity)
          Kind,     \* "fifo" | "lifo"
          Prog,     \* Prog[t] : sequence over {"P","p"} (push / pop)
          HeadCmp   \* "tagindex" (the code) | "index" (the S10 defect, negative cfg)
                    \* | "notag" (elem_set without tag++, negative cfg)

Threads == 1..Len(Prog)
LNULL == <<0, 0>>
FNULL == <<0, 0, 0, 0>>

VARIABLES tag, next, opq,   \* ring elements
          lifoE,            \* lifo_empty word
          car,              \* carrier word (FIFO word or LIFO word)
          pc, ip, r,        \* per thread: label of the pending access, program index, registers
          absq, err,        \* ghosts
          lastT, res, sched \* ghosts for behaviour extraction (not in VIEW)

vars == <<tag, next, opq, lifoE, car, pc, ip, r, absq, err, lastT, res, sched>>
view == <<tag, next, opq, lifoE, car, pc, ip, r, absq, err>>

Reg0 == [old |-> LNULL, new |-> LNULL, idx |-> 0, nxt |-> 0, prev |-> 0, fi |-> 0,
         tries |-> 0, head |-> 0, tail |-> 0, val |-> 0, exp |-> 0, w |-> "E", np |-> 0]

Init ==
  /\ tag = [i \in 1..N |-> 0]
  /\ next = [i \in 1..N |-> IF i < N THEN i + 1 ELSE 0]
  /\ opq = [i \in 1..N |-> 0]
  /\ lifoE = <<0, 1>>
  /\ car = IF Kind = "fifo" THEN FNULL ELSE LNULL
  /\ pc = [t \in Threads |-> "start"]
  /\ ip = [t \in Threads |-> 1]
  /\ r = [t \in Threads |-> Reg0]
  /\ absq = <<>>
  /\ err = {}
  /\ lastT = 0
  /\ res = [t \in Threads |-> <<>>]
  /\ sched = <<>>

InProgressOthers(t) == Cardinality({u \in Threads \ {t} : pc[u] \notin {"start", "done"}})

\* --------------------------------------------------------------------------
\* Control flow helpers.  Each returns the record of updates
\* [pc, ip, r, res] for thread t given the updated registers rr.
\* --------------------------------------------------------------------------
Upd(p, i, rr, rs) == [pc |-> p, ip |-> i, r |-> rr, res |-> rs]

\* begin the operation at program index i (or finish)
Begin(t, i, rr, rs) ==
  IF i > Len(Prog[t]) THEN Upd("done", i, rr, rs)
  ELSE IF Prog[t][i] = "P"
       THEN Upd("lp_load", i, [rr EXCEPT !.w = "E", !.val = t * 16 + rr.np, !.np = rr.np + 1], rs)
       ELSE IF Kind = "fifo" THEN Upd("fp_load", i, rr, rs)
                             ELSE Upd("lp_load", i, [rr EXCEPT !.w = "C"], rs)

\* the current operation of t returns v: record it and go on with the next one
Return(t, rr, v) == Begin(t, ip[t] + 1, rr, Append(res[t], v))

\* after a lifo_pop on word rr.w observed old = LNULL
LpNull(t, rr) == Return(t, rr, 0)      \* push: full ; pop: empty

\* after lifo_pop loaded a non-null old word
LpGo(t, rr) == Upd("lp_next", ip[t], [rr EXCEPT !.idx = rr.old[2]], res[t])

\* top of the for(;;) loop of uring_fifo_pop with rr.old loaded
FpTop(t, rr) ==
  IF rr.old = FNULL THEN Return(t, rr, 0)
  ELSE LET tl == rr.old[2]
           hd == rr.old[4]
           r2 == [rr EXCEPT !.tail = tl, !.head = hd]
       IN IF hd = tl THEN Upd("fp_cas1", ip[t], r2, res[t])
          ELSE Upd("ff_next", ip[t], [r2 EXCEPT !.new = rr.old, !.fi = tl, !.tries = N], res[t])

Apply(t, u) ==
  /\ pc' = [pc EXCEPT ![t] = u.pc]
  /\ ip' = [ip EXCEPT ![t] = u.ip]
  /\ r' = [r EXCEPT ![t] = u.r]
  /\ res' = [res EXCEPT ![t] = u.res]
  /\ lastT' = t
  /\ sched' = Append(sched, t)

Word(w) == IF w = "E" THEN lifoE ELSE car
SetWord(w, v) == IF w = "E" THEN lifoE' = v /\ car' = car ELSE car' = v /\ lifoE' = lifoE

\* ghost obligations -----------------------------------------------------------
\* thread t observed "nothing there" on word w
ObserveNull(t, w) ==
  IF w = "E"
  THEN IF Len(absq) + InProgressOthers(t) >= N THEN err' = err ELSE err' = err \cup {"push-full-but-free-slot"}
  ELSE IF absq = <<>> THEN err' = err ELSE err' = err \cup {"pop-empty-but-nonempty"}

LinPush(t) == absq' = Append(absq, r[t].val)
PopFront == IF Kind = "fifo" THEN Head(absq) ELSE absq[Len(absq)]
PopRest == IF Kind = "fifo" THEN Tail(absq) ELSE SubSeq(absq, 1, Len(absq) - 1)

\* --------------------------------------------------------------------------
\* Actions
\* --------------------------------------------------------------------------
Start(t) ==
  /\ pc[t] = "start"
  /\ Apply(t, Begin(t, 1, r[t], res[t]))
  /\ UNCHANGED <<tag, next, opq, lifoE, car, absq, err>>

\* ---- uring_lifo_pop(word w) ----
LpLoad(t) ==
  /\ pc[t] = "lp_load"
  /\ LET w == r[t].w
         rr == [r[t] EXCEPT !.old = Word(w)]
     IN IF rr.old = LNULL
        THEN ObserveNull(t, w) /\ Apply(t, LpNull(t, rr))
        ELSE err' = err /\ Apply(t, LpGo(t, rr))
  /\ UNCHANGED <<tag, next, opq, lifoE, car, absq>>

LpNext(t) ==
  /\ pc[t] = "lp_next"
  /\ LET nx == next[r[t].idx]
         rr == [r[t] EXCEPT !.nxt = nx]
     IN IF nx = 0 THEN Apply(t, Upd("lp_cas", ip[t], [rr EXCEPT !.new = LNULL], res[t]))
                  ELSE Apply(t, Upd("lp_tag", ip[t], rr, res[t]))
  /\ UNCHANGED <<tag, next, opq, lifoE, car, absq, err>>

LpTag(t) ==
  /\ pc[t] = "lp_tag"
  /\ Apply(t, Upd("lp_cas", ip[t], [r[t] EXCEPT !.new = <<tag[r[t].nxt], r[t].nxt>>], res[t]))
  /\ UNCHANGED <<tag, next, opq, lifoE, car, absq, err>>

LpCas(t) ==
  /\ pc[t] = "lp_cas"
  /\ LET w == r[t].w IN
     IF Word(w) = r[t].old
     THEN \* success: element r[t].idx popped from word w
          /\ SetWord(w, r[t].new)
          /\ IF w = "E"
             THEN \* a push got its slot: next access is elem_set
                  /\ Apply(t, Upd("es_tag", ip[t], r[t], res[t]))
                  /\ UNCHANGED <<absq, err>>
             ELSE \* a LIFO pop linearizes here
                  /\ IF absq = <<>>
                     THEN err' = err \cup {"pop-linearized-on-empty"} /\ absq' = absq
                          /\ Apply(t, Upd("eg_opq", ip[t], [r[t] EXCEPT !.exp = 0], res[t]))
                     ELSE err' = err /\ absq' = PopRest
                          /\ Apply(t, Upd("eg_opq", ip[t], [r[t] EXCEPT !.exp = PopFront], res[t]))
     ELSE \* failure: old <- current value, retry
          /\ LET rr == [r[t] EXCEPT !.old = Word(w)] IN
             IF rr.old = LNULL
             THEN ObserveNull(t, w) /\ Apply(t, LpNull(t, rr))
             ELSE err' = err /\ Apply(t, LpGo(t, rr))
          /\ UNCHANGED <<lifoE, car, absq>>
  /\ UNCHANGED <<tag, next, opq>>

\* ---- uring_elem_set(idx, value) : tag++ then opaque = value ----
\* used with value = r.val in a push, 0 (NULL) in a pop
EsTag(t) ==
  /\ pc[t] = "es_tag"
  /\ tag' = IF HeadCmp = "notag" THEN tag ELSE [tag EXCEPT ![r[t].idx] = @ + 1]
  /\ Apply(t, Upd("es_opq", ip[t], r[t], res[t]))
  /\ UNCHANGED <<next, opq, lifoE, car, absq, err>>

InPush(t) == Prog[t][ip[t]] = "P"

EsOpq(t) ==
  /\ pc[t] = "es_opq"
  /\ opq' = [opq EXCEPT ![r[t].idx] = IF InPush(t) THEN r[t].val ELSE 0]
  /\ IF InPush(t)
     THEN IF Kind = "fifo" THEN Apply(t, Upd("fq_load", ip[t], r[t], res[t]))
                           ELSE Apply(t, Upd("lq_tag", ip[t], [r[t] EXCEPT !.w = "C"], res[t]))
     ELSE Apply(t, Upd("lq_tag", ip[t], [r[t] EXCEPT !.w = "E"], res[t]))
  /\ UNCHANGED <<tag, next, lifoE, car, absq, err>>

\* ---- uring_elem_get ----
EgOpq(t) ==
  /\ pc[t] = "eg_opq"
  /\ LET v == opq[r[t].idx] IN
     /\ err' = IF v = r[t].exp THEN err ELSE err \cup {"pop-wrong-value"}
     /\ Apply(t, Upd("es_tag", ip[t], [r[t] EXCEPT !.val = v], res[t]))
  /\ UNCHANGED <<tag, next, opq, lifoE, car, absq>>

\* ---- uring_lifo_push(word w, idx) ----
LqTag(t) ==
  /\ pc[t] = "lq_tag"
  /\ Apply(t, Upd("lq_load", ip[t], [r[t] EXCEPT !.new = <<tag[r[t].idx], r[t].idx>>], res[t]))
  /\ UNCHANGED <<tag, next, opq, lifoE, car, absq, err>>

LqLoad(t) ==
  /\ pc[t] = "lq_load"
  /\ Apply(t, Upd("lq_next", ip[t], [r[t] EXCEPT !.old = Word(r[t].w)], res[t]))
  /\ UNCHANGED <<tag, next, opq, lifoE, car, absq, err>>

LqNext(t) ==
  /\ pc[t] = "lq_next"
  /\ next' = [next EXCEPT ![r[t].idx] = r[t].old[2]]
  /\ Apply(t, Upd("lq_cas", ip[t], r[t], res[t]))
  /\ UNCHANGED <<tag, opq, lifoE, car, absq, err>>

LqCas(t) ==
  /\ pc[t] = "lq_cas"
  /\ LET w == r[t].w IN
     IF Word(w) = r[t].old
     THEN /\ SetWord(w, r[t].new)
          /\ IF w = "C"
             THEN \* LIFO push linearizes
                  /\ LinPush(t) /\ Apply(t, Return(t, r[t], 1))
             ELSE \* slot given back after a pop: the pop returns its value
                  /\ absq' = absq /\ Apply(t, Return(t, r[t], r[t].val))
     ELSE /\ Apply(t, Upd("lq_next", ip[t], [r[t] EXCEPT !.old = Word(w)], res[t]))
          /\ UNCHANGED <<lifoE, car, absq>>
  /\ UNCHANGED <<tag, next, opq, err>>

\* ---- uring_fifo_push(idx) ----
FqLoad(t) ==
  /\ pc[t] = "fq_load"
  /\ Apply(t, Upd("fq_next", ip[t], [r[t] EXCEPT !.old = car], res[t]))
  /\ UNCHANGED <<tag, next, opq, lifoE, car, absq, err>>

FqNext(t) ==
  /\ pc[t] = "fq_next"
  /\ LET tl == r[t].old[2] IN
     /\ next' = [next EXCEPT ![r[t].idx] = tl]
     /\ Apply(t, Upd(IF tl = 0 THEN "fq_htag" ELSE "fq_ttag", ip[t],
                     [r[t] EXCEPT !.new = r[t].old], res[t]))
  /\ UNCHANGED <<tag, opq, lifoE, car, absq, err>>

FqHtag(t) ==
  /\ pc[t] = "fq_htag"
  /\ LET i == r[t].idx IN
     Apply(t, Upd("fq_ttag", ip[t],
                  [r[t] EXCEPT !.new = <<r[t].new[1], r[t].new[2], tag[i] % 256, i>>], res[t]))
  /\ UNCHANGED <<tag, next, opq, lifoE, car, absq, err>>

FqTtag(t) ==
  /\ pc[t] = "fq_ttag"
  /\ LET i == r[t].idx IN
     Apply(t, Upd("fq_cas", ip[t],
                  [r[t] EXCEPT !.new = <<tag[i] % 256, i, r[t].new[3], r[t].new[4]>>], res[t]))
  /\ UNCHANGED <<tag, next, opq, lifoE, car, absq, err>>

FqCas(t) ==
  /\ pc[t] = "fq_cas"
  /\ IF car = r[t].old
     THEN /\ car' = r[t].new /\ LinPush(t) /\ Apply(t, Return(t, r[t], 1))
     ELSE /\ Apply(t, Upd("fq_next", ip[t], [r[t] EXCEPT !.old = car], res[t]))
          /\ UNCHANGED <<car, absq>>
  /\ UNCHANGED <<tag, next, opq, lifoE, err>>

\* ---- uring_fifo_pop ----
FpObserve(t, rr) == IF rr.old = FNULL /\ absq # <<>> THEN err' = err \cup {"pop-empty-but-nonempty"}
                                                     ELSE err' = err

FpLoad(t) ==
  /\ pc[t] \in {"fp_load", "fp_reload"}
  /\ LET rr == [r[t] EXCEPT !.old = car] IN
     FpObserve(t, rr) /\ Apply(t, FpTop(t, rr))
  /\ UNCHANGED <<tag, next, opq, lifoE, car, absq>>

LinPop(t, rr) ==
  IF absq = <<>>
  THEN err' = err \cup {"pop-linearized-on-empty"} /\ absq' = absq
       /\ Apply(t, Upd("eg_opq", ip[t], [rr EXCEPT !.exp = 0], res[t]))
  ELSE err' = err /\ absq' = PopRest
       /\ Apply(t, Upd("eg_opq", ip[t], [rr EXCEPT !.exp = PopFront], res[t]))

FpCas1(t) ==
  /\ pc[t] = "fp_cas1"
  /\ IF car = r[t].old
     THEN car' = FNULL /\ LinPop(t, [r[t] EXCEPT !.idx = r[t].head])
     ELSE LET rr == [r[t] EXCEPT !.old = car] IN
          FpObserve(t, rr) /\ Apply(t, FpTop(t, rr)) /\ UNCHANGED <<car, absq>>
  /\ UNCHANGED <<tag, next, opq, lifoE>>

FfNext(t) ==
  /\ pc[t] = "ff_next"
  /\ LET nx == next[r[t].fi] IN
     IF nx = r[t].head
     THEN Apply(t, Upd("fp_htag", ip[t], [r[t] EXCEPT !.prev = r[t].fi], res[t]))
     ELSE IF nx # 0 /\ r[t].tries # 0
          THEN Apply(t, Upd("ff_next", ip[t], [r[t] EXCEPT !.fi = nx, !.tries = r[t].tries - 1], res[t]))
          ELSE Apply(t, Upd("fp_reload", ip[t], [r[t] EXCEPT !.prev = 0], res[t]))
  /\ UNCHANGED <<tag, next, opq, lifoE, car, absq, err>>

FpHtag(t) ==
  /\ pc[t] = "fp_htag"
  /\ LET p == r[t].prev IN
     Apply(t, Upd("fp_cas2", ip[t],
                  [r[t] EXCEPT !.new = <<r[t].new[1], r[t].new[2], tag[p] % 256, p>>], res[t]))
  /\ UNCHANGED <<tag, next, opq, lifoE, car, absq, err>>

SameHead(o1, o2) == IF HeadCmp = "index" THEN o1[4] = o2[4]
                                         ELSE o1[4] = o2[4] /\ o1[3] = o2[3]

FpCas2(t) ==
  /\ pc[t] = "fp_cas2"
  /\ IF car = r[t].old
     THEN car' = r[t].new /\ LinPop(t, [r[t] EXCEPT !.idx = r[t].head])
     ELSE LET rr == [r[t] EXCEPT !.old = car, !.new = car] IN
          /\ IF SameHead(r[t].old, car) /\ car # FNULL
             THEN err' = err /\ Apply(t, Upd("fp_htag", ip[t], rr, res[t]))
             ELSE FpObserve(t, rr) /\ Apply(t, FpTop(t, rr))
          /\ UNCHANGED <<car, absq>>
  /\ UNCHANGED <<tag, next, opq, lifoE>>

Step(t) == \/ Start(t) \/ LpLoad(t) \/ LpNext(t) \/ LpTag(t) \/ LpCas(t)
           \/ EsTag(t) \/ EsOpq(t) \/ EgOpq(t)
           \/ LqTag(t) \/ LqLoad(t) \/ LqNext(t) \/ LqCas(t)
           \/ FqLoad(t) \/ FqNext(t) \/ FqHtag(t) \/ FqTtag(t) \/ FqCas(t)
           \/ FpLoad(t) \/ FpCas1(t) \/ FfNext(t) \/ FpHtag(t) \/ FpCas2(t)

Next == \E t \in Threads : Step(t)
Spec == Init /\ [][Next]_vars

\* --------------------------------------------------------------------------
\* Properties
\* --------------------------------------------------------------------------
Done == \A t \in Threads : pc[t] = "done"
Quiet == \A t \in Threads : pc[t] \in {"start", "done"}

NoErr == err = {}

RECURSIVE Chain(_, _)
\* indices reachable from i through next (at most k of them)
Chain(i, k) == IF i = 0 \/ k = 0 THEN <<>> ELSE <<i>> \o Chain(next[i], k - 1)

RECURSIVE ChainTo(_, _, _)
\* FIFO: from the tail through next up to and including the head (the head's
\* own next pointer is stale by design)
ChainTo(i, h, k) == IF i = 0 \/ k = 0 THEN <<>>
                    ELSE IF i = h THEN <<i>> ELSE <<i>> \o ChainTo(next[i], h, k - 1)

EmptyChain == Chain(lifoE[2], N + 1)
CarChain == IF Kind = "fifo" THEN ChainTo(car[2], car[4], N + 1) ELSE Chain(car[2], N + 1)
Rev(s) == [i \in 1..Len(s) |-> s[Len(s) + 1 - i]]
\* stored values oldest first (FIFO: walk from tail = newest; LIFO: walk from top = newest)
Stored == Rev([i \in 1..Len(CarChain) |-> opq[CarChain[i]]])

\* when nothing is in progress: every slot is in exactly one list, the
\* carrier holds exactly the abstract content, in order, and a FIFO word is
\* NULL iff the queue is empty, head = last element of the chain from tail
StructureOK == Quiet =>
  /\ Len(EmptyChain) + Len(CarChain) = N
  /\ {EmptyChain[i] : i \in 1..Len(EmptyChain)} \cup {CarChain[i] : i \in 1..Len(CarChain)} = 1..N
  /\ Stored = absq
  /\ (Kind = "fifo" => /\ (car = FNULL <=> absq = <<>>)
                      /\ (car # FNULL => car[4] = CarChain[Len(CarChain)]))

\* results (res) as the sequential spec predicts them are checked through err
TypeOK == /\ \A i \in 1..N : next[i] \in 0..N
          /\ Len(absq) <= N

\* behaviour extraction (simulation): prints schedule-independent results
EmitDone == Done => PrintT(<<"BEH", ToJson([sched |-> sched, res |-> res])>>)
=============================================================================
