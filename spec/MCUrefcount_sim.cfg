SPECIFICATION Spec
CONSTANTS
  Prog <- P_URR_URR
  Variant = "code"
INVARIANT DestroyAtMostOnce NotWhileHeld DestroyedAtEnd EmitDone
CHECK_DEADLOCK FALSE
