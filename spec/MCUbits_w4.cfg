\* mode W (ubits_put/ubits_clean vs the abstract bit sequence), exhaustive: <= 4 fields, widths {1,7,8,9,24,31,32} x {ones, alternating, zero}, every capacity 0..17 (= ceil(bits/8)+1 for the longest sequence); VIEW hides the history
SPECIFICATION Spec
CONSTANTS
  Mode = "W"
  Variant = "ok"
  Widths = {1, 7, 8, 9, 24, 31, 32}
  Kinds = {"ones", "alt", "zero"}
  MaxFields = 4
  MaxCap = 17
  MaxSize = 0
  MaxSeg = 1
  Pats = {"tex"}
  NearCap = FALSE
VIEW ViewW
INVARIANT TypeOK NoUB InBounds RefInv OvSound CleanOK Untouched
CHECK_DEADLOCK FALSE
