SPECIFICATION Spec
CONSTANTS
  L = 1
  NPush <- N_3
  NCons = 2
  Drain = FALSE
  M = 8
  Variant = "code"
INVARIANT Occupancy NoLostWakeup

VIEW view
CHECK_DEADLOCK FALSE
