\* exhaustive geometry evaluation (thorough): 4:2:2 10 bit and nv12, every window, chains of 3 resizes
CONSTANTS
  Geos = {"full_422"}
  GeoSet <- PicGeoSet
  Handles = {0}
  MaxOps = 5
  MaxResize = 3
  Variant = "none"
  Record = FALSE
SPECIFICATION Spec
VIEW View
INVARIANT WindowsInCanvas Inside InjectiveMap CanvasInjective GranularityP MapIsWindowCell AllocGranular WriteOnlySingle
PROPERTY CropPreserves StructuralOpsDontWrite
CHECK_DEADLOCK FALSE
