\* NEGATIVE: prologue of the scan of 2 octets: a start code cut after its first octet is missed
SPECIFICATION Spec
CONSTANTS
  Variant = "neg_prologue"
  Alphabet = {0, 1, 2}
  MaxLen = 6
  NoLead3 = TRUE
INVARIANT EmitCex TypeOK ChunkInvariant Monotone NoTrap
VIEW View
CHECK_DEADLOCK FALSE
