/* Clean-room shim of the part of <bitstream/mpeg/ts.h> that lib/upipe-ts needs,
 * written from ISO/IEC 13818-1 (2.4.3.2 transport packet, 2.4.3.4 adaptation
 * field).  Used only because the biTStream headers are not installed in this
 * sandbox; part of the trusted base of the checks that depend on it. */
#ifndef VERIF_SHIM_BITSTREAM_MPEG_TS_H
#define VERIF_SHIM_BITSTREAM_MPEG_TS_H
#include <stdint.h>
#include <stdbool.h>
#include <string.h>

#define TS_SIZE             188
#define TS_HEADER_SIZE      4
#define TS_HEADER_SIZE_AF   6
#define TS_HEADER_SIZE_PCR  12
#define TS_SYNC             0x47

static inline void ts_init(uint8_t *p) { p[0] = TS_SYNC; p[1] = 0; p[2] = 0; p[3] = 0; }
static inline bool ts_validate(const uint8_t *p) { return p[0] == TS_SYNC; }
static inline void ts_set_transporterror(uint8_t *p) { p[1] |= 0x80; }
static inline bool ts_get_transporterror(const uint8_t *p) { return !!(p[1] & 0x80); }
static inline void ts_set_unitstart(uint8_t *p) { p[1] |= 0x40; }
static inline bool ts_get_unitstart(const uint8_t *p) { return !!(p[1] & 0x40); }
static inline void ts_set_transportpriority(uint8_t *p) { p[1] |= 0x20; }
static inline bool ts_get_transportpriority(const uint8_t *p) { return !!(p[1] & 0x20); }
static inline void ts_set_pid(uint8_t *p, uint16_t pid)
{
    p[1] &= ~0x1f;
    p[1] |= (pid >> 8) & 0x1f;
    p[2] = pid & 0xff;
}
static inline uint16_t ts_get_pid(const uint8_t *p) { return ((p[1] & 0x1f) << 8) | p[2]; }
static inline void ts_set_cc(uint8_t *p, uint8_t cc) { p[3] &= ~0xf; p[3] |= cc & 0xf; }
static inline uint8_t ts_get_cc(const uint8_t *p) { return p[3] & 0xf; }
static inline void ts_set_payload(uint8_t *p) { p[3] |= 0x10; }
static inline bool ts_has_payload(const uint8_t *p) { return !!(p[3] & 0x10); }
/* length = value of adaptation_field_length */
static inline void ts_set_adaptation(uint8_t *p, uint8_t length)
{
    p[3] |= 0x20;
    p[4] = length;
    if (length)
        p[5] = 0x0;
    if (length > 1)
        memset(&p[6], 0xff, length - 1); /* stuffing */
}
static inline bool ts_has_adaptation(const uint8_t *p) { return !!(p[3] & 0x20); }
static inline uint8_t ts_get_adaptation(const uint8_t *p) { return p[4]; }
static inline void ts_set_scrambling(uint8_t *p, uint8_t s) { p[3] &= ~0xc0; p[3] |= s << 6; }
static inline uint8_t ts_get_scrambling(const uint8_t *p) { return (p[3] & 0xc0) >> 6; }

/* adaptation field flags (p points to the start of the TS packet) */
static inline void tsaf_set_discontinuity(uint8_t *p) { p[5] |= 0x80; }
static inline bool tsaf_has_discontinuity(const uint8_t *p) { return !!(p[5] & 0x80); }
static inline void tsaf_set_randomaccess(uint8_t *p) { p[5] |= 0x40; }
static inline bool tsaf_has_randomaccess(const uint8_t *p) { return !!(p[5] & 0x40); }
static inline void tsaf_set_streampriority(uint8_t *p) { p[5] |= 0x20; }
static inline bool tsaf_has_pcr(const uint8_t *p) { return !!(p[5] & 0x10); }
/* pcr = 33-bit program_clock_reference_base */
static inline void tsaf_set_pcr(uint8_t *p, uint64_t pcr)
{
    p[5] |= 0x10;
    p[6] = (pcr >> 25) & 0xff;
    p[7] = (pcr >> 17) & 0xff;
    p[8] = (pcr >> 9) & 0xff;
    p[9] = (pcr >> 1) & 0xff;
    p[10] = 0x7e | ((pcr << 7) & 0x80);
    p[11] = 0;
}
static inline uint64_t tsaf_get_pcr(const uint8_t *p)
{
    return ((uint64_t)p[6] << 25) | (p[7] << 17) | (p[8] << 9) | (p[9] << 1) | (p[10] >> 7);
}
static inline void tsaf_set_pcrext(uint8_t *p, uint16_t ext)
{
    p[10] |= (ext >> 8) & 0x1;
    p[11] = ext & 0xff;
}
static inline uint16_t tsaf_get_pcrext(const uint8_t *p) { return ((p[10] & 1) << 8) | p[11]; }

/* continuity counter arithmetic */
static inline bool ts_check_duplicate(uint8_t cc, uint8_t last_cc) { return last_cc == cc; }
/* non-zero iff cc is not the successor of last_cc */
static inline bool ts_check_discontinuity(uint8_t cc, uint8_t last_cc)
{
    return (last_cc + 17 - cc) % 16;
}
#endif
