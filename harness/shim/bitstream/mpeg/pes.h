/* Clean-room shim of the part of <bitstream/mpeg/pes.h> that lib/upipe-ts needs,
 * written from ISO/IEC 13818-1 (2.4.3.6/2.4.3.7 PES packet).  Trusted base of
 * the checks that depend on it. */
#ifndef VERIF_SHIM_BITSTREAM_MPEG_PES_H
#define VERIF_SHIM_BITSTREAM_MPEG_PES_H
#include <stdint.h>
#include <stdbool.h>
#include <string.h>

#define PES_HEADER_SIZE             6
#define PES_HEADER_SIZE_NOPTS       9
#define PES_HEADER_SIZE_PTS         14
#define PES_HEADER_SIZE_PTSDTS      19
#define PES_HEADER_OPTIONAL_SIZE    3
#define PES_HEADER_TS_SIZE          5

#define PES_STREAM_ID_MIN           0xbc
#define PES_STREAM_ID_PSM           0xbc
#define PES_STREAM_ID_PRIVATE_1     0xbd
#define PES_STREAM_ID_PADDING       0xbe
#define PES_STREAM_ID_PRIVATE_2     0xbf
#define PES_STREAM_ID_AUDIO_MPEG    0xc0
#define PES_STREAM_ID_VIDEO_MPEG    0xe0
#define PES_STREAM_ID_ECM           0xf0
#define PES_STREAM_ID_EMM           0xf1
#define PES_STREAM_ID_DSMCC         0xf2
#define PES_STREAM_ID_MHEG          0xf3
#define PES_STREAM_ID_H222_1_A      0xf4
#define PES_STREAM_ID_H222_1_B      0xf5
#define PES_STREAM_ID_H222_1_C      0xf6
#define PES_STREAM_ID_H222_1_D      0xf7
#define PES_STREAM_ID_H222_1_E      0xf8
#define PES_STREAM_ID_ANCILLARY     0xf9
#define PES_STREAM_ID_PSD           0xff

static inline void pes_init(uint8_t *p) { p[0] = 0x0; p[1] = 0x0; p[2] = 0x1; }
static inline bool pes_validate(const uint8_t *p) { return p[0] == 0x0 && p[1] == 0x0 && p[2] == 0x1; }
static inline void pes_set_streamid(uint8_t *p, uint8_t id) { p[3] = id; }
static inline uint8_t pes_get_streamid(const uint8_t *p) { return p[3]; }
static inline void pes_set_length(uint8_t *p, uint16_t l) { p[4] = l >> 8; p[5] = l & 0xff; }
static inline uint16_t pes_get_length(const uint8_t *p) { return (p[4] << 8) | p[5]; }
/* optional header: '10' marker, flags, PES_header_data_length, stuffing */
static inline void pes_set_headerlength(uint8_t *p, uint8_t l)
{
    p[6] = 0x80;
    p[7] = 0x0;
    p[8] = l;
    if (l > 0)
        memset(&p[9], 0xff, l); /* stuffing */
}
static inline uint8_t pes_get_headerlength(const uint8_t *p) { return p[8]; }
static inline bool pes_validate_header(const uint8_t *p) { return (p[6] & 0xc0) == 0x80; }
static inline void pes_set_dataalignment(uint8_t *p) { p[6] |= 0x4; }
static inline bool pes_get_dataalignment(const uint8_t *p) { return !!(p[6] & 0x4); }
static inline bool pes_has_pts(const uint8_t *p) { return !!(p[7] & 0x80); }
static inline bool pes_has_dts(const uint8_t *p) { return (p[7] & 0xc0) == 0xc0; }
static inline bool pes_validate_pts(const uint8_t *p)
{
    return ((p[9] & 0xe1) == 0x21) && (p[11] & 0x1) && (p[13] & 0x1);
}
static inline bool pes_validate_dts(const uint8_t *p)
{
    return (p[9] & 0xf1) == 0x31 && (p[14] & 0xf1) == 0x11 && (p[16] & 0x1) && (p[18] & 0x1);
}
static inline void pes_set_pts(uint8_t *p, uint64_t pts)
{
    p[7] |= 0x80;
    if (p[8] < 5)
        p[8] = 5;
    p[9] &= 0x10;
    p[9] |= 0x21 | ((pts >> 29) & 0xe);
    p[10] = (pts >> 22) & 0xff;
    p[11] = 0x1 | ((pts >> 14) & 0xfe);
    p[12] = (pts >> 7) & 0xff;
    p[13] = 0x1 | ((pts << 1) & 0xfe);
}
static inline uint64_t pes_get_pts(const uint8_t *p)
{
    return (((uint64_t)p[9] & 0xe) << 29) | (p[10] << 22) | ((p[11] & 0xfe) << 14) |
           (p[12] << 7) | ((p[13] & 0xfe) >> 1);
}
static inline void pes_set_dts(uint8_t *p, uint64_t dts)
{
    p[7] |= 0x40;
    if (p[8] < 10)
        p[8] = 10;
    p[9] |= 0x10;
    p[14] = 0x11 | ((dts >> 29) & 0xe);
    p[15] = (dts >> 22) & 0xff;
    p[16] = 0x1 | ((dts >> 14) & 0xfe);
    p[17] = (dts >> 7) & 0xff;
    p[18] = 0x1 | ((dts << 1) & 0xfe);
}
static inline uint64_t pes_get_dts(const uint8_t *p)
{
    return (((uint64_t)p[14] & 0xe) << 29) | (p[15] << 22) | ((p[16] & 0xfe) << 14) |
           (p[17] << 7) | ((p[18] & 0xfe) >> 1);
}
#endif
