/* Clean-room shim of the part of <bitstream/mpeg/h264.h> that
 * lib/upipe-framers/upipe_h264_framer.c needs, written from
 *   ITU-T H.264 (7.3.1 NAL unit syntax, Table 7-1 nal_unit_type, 7.3.2.1.1
 *   sequence parameter set, Table 6-1 chroma_format_idc, Table 7-6 slice_type,
 *   Table D-1 pic_struct, D.1 SEI payload types, Table E-1 aspect_ratio_idc,
 *   7.4.2.1.1 / 7.4.2.2 identifier ranges)
 *   ISO/IEC 14496-15 5.2.4.1 (AVCDecoderConfigurationRecord, "avcC").
 * Trusted base of the checks that depend on it (C17 stage 2). */
#ifndef VERIF_SHIM_BITSTREAM_MPEG_H264_H
#define VERIF_SHIM_BITSTREAM_MPEG_H264_H
#include <stdint.h>
#include <stdbool.h>
#include <stddef.h>

/* --- nal_unit header: forbidden_zero_bit(1) nal_ref_idc(2) nal_unit_type(5) */
#define H264NAL_TYPE_NONIDR     1
#define H264NAL_TYPE_PARTA      2
#define H264NAL_TYPE_PARTB      3
#define H264NAL_TYPE_PARTC      4
#define H264NAL_TYPE_IDR        5
#define H264NAL_TYPE_SEI        6
#define H264NAL_TYPE_SPS        7
#define H264NAL_TYPE_PPS        8
#define H264NAL_TYPE_AUD        9
#define H264NAL_TYPE_ENDSEQ     10
#define H264NAL_TYPE_ENDSTR     11
#define H264NAL_TYPE_FILLER     12
#define H264NAL_TYPE_SPSX       13
#define H264NAL_TYPE_PFX        14
#define H264NAL_TYPE_SSPS       15

static inline uint8_t h264nalst_get_ref(uint8_t start) { return (start >> 5) & 0x3; }
static inline uint8_t h264nalst_get_type(uint8_t start) { return start & 0x1f; }
/* Table 7-1: the VCL NAL units are types 1..5 */
static inline bool h264naltype_is_vcl(uint8_t type) { return type >= 1 && type <= 5; }

/* --- parameter sets */
/* seq_parameter_set_id 0..31, pic_parameter_set_id 0..255 */
#define H264SPS_ID_MAX          32
#define H264PPS_ID_MAX          256
/* 3-octet start code, NAL header, profile_idc, constraint flags, level_idc:
 * offset of seq_parameter_set_id in an Annex B SPS */
#define H264SPS_HEADER_SIZE     7
/* chroma_format_idc */
#define H264SPS_CHROMA_MONO     0
#define H264SPS_CHROMA_420      1
#define H264SPS_CHROMA_422      2
#define H264SPS_CHROMA_444      3
/* aspect_ratio_idc Extended_SAR */
#define H264VUI_AR_EXTENDED     255

/* --- SEI payload types and pic_struct (Table D-1) */
#define H264SEI_BUFFERING_PERIOD    0
#define H264SEI_PIC_TIMING          1
#define H264SEI_STRUCT_FRAME        0
#define H264SEI_STRUCT_TOP          1
#define H264SEI_STRUCT_BOT          2
#define H264SEI_STRUCT_TOP_BOT      3
#define H264SEI_STRUCT_BOT_TOP      4
#define H264SEI_STRUCT_TOP_BOT_TOP  5
#define H264SEI_STRUCT_BOT_TOP_BOT  6
#define H264SEI_STRUCT_DOUBLE       7
#define H264SEI_STRUCT_TRIPLE       8

/* --- slice_type % 5 (Table 7-6) */
#define H264SLI_TYPE_P          0
#define H264SLI_TYPE_B          1
#define H264SLI_TYPE_I          2
#define H264SLI_TYPE_SP         3
#define H264SLI_TYPE_SI         4

/* --- AVCDecoderConfigurationRecord (ISO/IEC 14496-15 5.2.4.1.1)
 *   configurationVersion(8) = 1, AVCProfileIndication(8),
 *   profile_compatibility(8), AVCLevelIndication(8),
 *   reserved '111111' lengthSizeMinusOne(2),
 *   reserved '111' numOfSequenceParameterSets(5),
 *     { sequenceParameterSetLength(16) NAL unit } *
 *   numOfPictureParameterSets(8),
 *     { pictureParameterSetLength(16) NAL unit } *                          */
#define H264AVCC_HEADER         6   /* up to and including the SPS count */
#define H264AVCC_HEADER2        1   /* the PPS count */
#define H264AVCC_SPS_HEADER     2   /* length field of one SPS */
#define H264AVCC_PPS_HEADER     2   /* length field of one PPS */

static inline void h264avcc_init(uint8_t *p)
{
    p[0] = 1;       /* configurationVersion */
    p[4] = 0xfc;    /* reserved bits set */
    p[5] = 0xe0;
}
static inline void h264avcc_set_profile(uint8_t *p, uint8_t v) { p[1] = v; }
static inline uint8_t h264avcc_get_profile(const uint8_t *p) { return p[1]; }
static inline void h264avcc_set_profile_compatibility(uint8_t *p, uint8_t v) { p[2] = v; }
static inline uint8_t h264avcc_get_profile_compatibility(const uint8_t *p) { return p[2]; }
static inline void h264avcc_set_level(uint8_t *p, uint8_t v) { p[3] = v; }
static inline uint8_t h264avcc_get_level(const uint8_t *p) { return p[3]; }
static inline void h264avcc_set_length_size_1(uint8_t *p, uint8_t v)
{
    p[4] = 0xfc | (v & 0x3);
}
static inline uint8_t h264avcc_get_length_size_1(const uint8_t *p) { return p[4] & 0x3; }
static inline void h264avcc_set_nb_sps(uint8_t *p, uint8_t n) { p[5] = 0xe0 | (n & 0x1f); }
static inline uint8_t h264avcc_get_nb_sps(const uint8_t *p) { return p[5] & 0x1f; }

static inline void h264avcc_spsh_set_length(uint8_t *p, uint16_t l)
{
    p[0] = l >> 8;
    p[1] = l & 0xff;
}
static inline uint16_t h264avcc_spsh_get_length(const uint8_t *p) { return (p[0] << 8) | p[1]; }
static inline uint8_t *h264avcc_spsh_get_sps(const uint8_t *p) { return (uint8_t *)p + H264AVCC_SPS_HEADER; }
/* header of the n-th SPS (n = count: the octet holding the PPS count) */
static inline uint8_t *h264avcc_get_spsh(const uint8_t *p, uint8_t n)
{
    const uint8_t *q = p + H264AVCC_HEADER;
    while (n--)
        q += H264AVCC_SPS_HEADER + h264avcc_spsh_get_length(q);
    return (uint8_t *)q;
}

static inline void h264avcc_set_nb_pps(uint8_t *p, uint8_t n)
{
    *h264avcc_get_spsh(p, h264avcc_get_nb_sps(p)) = n;
}
static inline uint8_t h264avcc_get_nb_pps(const uint8_t *p)
{
    return *h264avcc_get_spsh(p, h264avcc_get_nb_sps(p));
}
static inline void h264avcc_ppsh_set_length(uint8_t *p, uint16_t l)
{
    p[0] = l >> 8;
    p[1] = l & 0xff;
}
static inline uint16_t h264avcc_ppsh_get_length(const uint8_t *p) { return (p[0] << 8) | p[1]; }
static inline uint8_t *h264avcc_ppsh_get_pps(const uint8_t *p) { return (uint8_t *)p + H264AVCC_PPS_HEADER; }
/* header of the n-th PPS (n = count: the end of the record) */
static inline uint8_t *h264avcc_get_ppsh(const uint8_t *p, uint8_t n)
{
    const uint8_t *q = h264avcc_get_spsh(p, h264avcc_get_nb_sps(p)) + H264AVCC_HEADER2;
    while (n--)
        q += H264AVCC_PPS_HEADER + h264avcc_ppsh_get_length(q);
    return (uint8_t *)q;
}

/* every length stays inside the `size` octets given */
static inline bool h264avcc_validate(const uint8_t *p, size_t size)
{
    if (size < H264AVCC_HEADER + H264AVCC_HEADER2 || p[0] != 1)
        return false;
    size_t o = H264AVCC_HEADER;
    for (uint8_t n = h264avcc_get_nb_sps(p); n; n--) {
        if (o + H264AVCC_SPS_HEADER > size)
            return false;
        o += H264AVCC_SPS_HEADER + h264avcc_spsh_get_length(p + o);
        if (o > size)
            return false;
    }
    if (o + H264AVCC_HEADER2 > size)
        return false;
    uint8_t nb_pps = p[o];
    o += H264AVCC_HEADER2;
    for (; nb_pps; nb_pps--) {
        if (o + H264AVCC_PPS_HEADER > size)
            return false;
        o += H264AVCC_PPS_HEADER + h264avcc_ppsh_get_length(p + o);
        if (o > size)
            return false;
    }
    return true;
}
#endif
