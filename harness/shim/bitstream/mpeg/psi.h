/* Clean-room shim of the part of <bitstream/mpeg/psi.h> that lib/upipe-ts needs,
 * written from ISO/IEC 13818-1 (2.4.4 program specific information: section
 * header, private_section_length <= 4093).  Trusted base of the checks that
 * depend on it. */
#ifndef VERIF_SHIM_BITSTREAM_MPEG_PSI_H
#define VERIF_SHIM_BITSTREAM_MPEG_PSI_H
#include <stdint.h>
#include <stdbool.h>

#define PSI_HEADER_SIZE         3
#define PSI_HEADER_SIZE_SYNTAX1 8
#define PSI_CRC_SIZE            4
#define PSI_MAX_SIZE            1021
#define PSI_PRIVATE_MAX_SIZE    4093

static inline uint8_t psi_get_tableid(const uint8_t *p) { return p[0]; }
static inline bool psi_get_syntax(const uint8_t *p) { return !!(p[1] & 0x80); }
/* section_length: number of bytes following the 3-byte header */
static inline uint16_t psi_get_length(const uint8_t *p) { return ((p[1] & 0xf) << 8) | p[2]; }
static inline void psi_set_length(uint8_t *p, uint16_t l)
{
    p[1] &= ~0xf;
    p[1] |= (l >> 8) & 0xf;
    p[2] = l & 0xff;
}
/* a section with the long syntax must at least hold its extended header and CRC */
static inline bool psi_validate(const uint8_t *p)
{
    if (psi_get_syntax(p) &&
        psi_get_length(p) < PSI_HEADER_SIZE_SYNTAX1 - PSI_HEADER_SIZE + PSI_CRC_SIZE)
        return false;
    return true;
}
#endif
