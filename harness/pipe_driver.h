/* internals of harness/pipe_driver.c shared with extension files (pd_ext_*.c) */
#ifndef PIPE_DRIVER_H
#define PIPE_DRIVER_H
#include "pipe_registry.h"
#include "upipe/urequest.h"
#include "upipe/uprobe.h"
#define MAXOBJ 64
/* ------------------------------------------------------------ objects */
struct obj {
    char name[8];
    struct upipe *upipe;      /* NULL when the application handle was released */
    struct upipe *ptr;        /* identity for event attribution until dead */
    bool alive;               /* between ready and dead */
    struct upipe *last;       /* pointer the pipe had before it threw dead */
    const struct pipe_type *type;
    struct uprobe probe;      /* recording probe (embedded, static refcount-less) */
    bool prov[8];             /* probe provides requests of type i */
};
extern struct obj pipes[MAXOBJ];

struct vsink {
    struct upipe upipe;
    struct urefcount urefcount;
    char name[8];
    bool accept;
    unsigned nrejects;
    int reqmode;              /* 0 hold, 1 throw, 2 refuse, 3 answer at once */
    char fd[32];              /* last accepted flow def */
    struct urequest *regs[16];
    unsigned long regserial[16];  /* which registration this is (a freed proxy's address may be used again) */
    int nregs;
    bool used;
    struct upipe *handle;
    struct uprobe probe;
    bool dead;
};
extern struct vsink sinks[MAXOBJ];

struct vreq {
    struct urequest req;
    char name[8];
    bool used;
    int type;
};
extern struct vreq reqs[MAXOBJ];


const char *pipe_name(struct upipe *u);
struct obj *find_pipe(const char *n);
struct vsink *find_sink(const char *n);
struct vreq *find_req(const char *n);
struct upipe *find_any(const char *n);
const char *req_name(struct urequest *r);
const char *fd_name(struct uref *fd);
struct uref *make_fd(const char *fdname);
struct uref *make_block(const uint8_t *data, size_t size, int nseg);
long uref_uid(struct uref *u);
void ret(int err);
int provide(struct urequest *r, const char *who);
/* flow tags (see pipe_driver.c) */
extern bool pd_fltag;
const char *pd_fl_of(struct uref *fd);
void pd_fl_note(const char *name, struct uref *fd);
void pd_fl_tag(const char *name, struct uref *u);
bool pd_fl_size(const char *name, unsigned *h, unsigned *v);
unsigned pd_fl_sample_size(const char *name);
void pd_fl_reset(void);
#endif
