/* replay_pmprobe: the REAL uprobe_pthread_upump_mgr.c driven from two real threads, each with its own
 * thread-local storage (C06: the probe that hands event-loop managers to pipes, per thread, and its
 * freeze / thaw sections).  Commands on stdin, one per line; events for PumpMgrProbe_Trace.tla on stdout.
 *   exec <id>        a new probe (the previous one is released)
 *   set <t> <m>      thread t: uprobe_pthread_upump_mgr_set(probe, manager m)          (m = 0..3)
 *   freeze <t>       thread t throws UPROBE_FREEZE_UPUMP_MGR
 *   thaw <t>         thread t throws UPROBE_THAW_UPUMP_MGR
 *   need <t>         thread t throws UPROBE_NEED_UPUMP_MGR -> need t=<t> m=<m|none>
 * Thread 0 is the main thread; thread 1 is a helper that executes what it is handed, one command at a time.
 */
#include <stdio.h>
#include <stdlib.h>
#include <string.h>
#include <stdbool.h>
#include <pthread.h>
#include <assert.h>

#include "upipe/ubase.h"
#include "upipe/urefcount.h"
#include "upipe/uprobe.h"
#include "upipe/upump.h"
#include "upipe-pthread/uprobe_pthread_upump_mgr.h"

static struct uprobe *probe;
static struct upump_mgr mgrs[4];

static void run_cmd(const char *c, int t, int m)
{
    if (!strcmp(c, "set")) {
        int err = uprobe_pthread_upump_mgr_set(probe, &mgrs[m]);
        printf("{\"e\":\"Set\",\"t\":%d,\"m\":\"m%d\",\"r\":%d}\n", t, m, err);
    } else if (!strcmp(c, "freeze") || !strcmp(c, "thaw")) {
        int err = uprobe_throw(probe, NULL, !strcmp(c, "freeze") ? UPROBE_FREEZE_UPUMP_MGR : UPROBE_THAW_UPUMP_MGR);
        printf("{\"e\":\"%s\",\"t\":%d,\"r\":%d}\n", !strcmp(c, "freeze") ? "Freeze" : "Thaw", t, err);
    } else if (!strcmp(c, "need")) {
        struct upump_mgr *got = NULL;
        int err = uprobe_throw(probe, NULL, UPROBE_NEED_UPUMP_MGR, &got);
        if (ubase_check(err) && got != NULL)
            printf("{\"e\":\"Need\",\"t\":%d,\"m\":\"m%d\"}\n", t, (int)(got - mgrs));
        else
            printf("{\"e\":\"Need\",\"t\":%d,\"m\":\"none\"}\n", t);
    }
}

/* ---- the helper thread ---- */
static pthread_mutex_t mu = PTHREAD_MUTEX_INITIALIZER;
static pthread_cond_t cv = PTHREAD_COND_INITIALIZER;
static char job[16];
static int job_m;
static bool job_ready, job_done, job_quit;

static void *helper(void *arg)
{
    pthread_mutex_lock(&mu);
    for (;;) {
        while (!job_ready && !job_quit) pthread_cond_wait(&cv, &mu);
        if (job_quit) break;
        job_ready = false;
        run_cmd(job, 1, job_m);
        job_done = true;
        pthread_cond_broadcast(&cv);
    }
    pthread_mutex_unlock(&mu);
    return NULL;
}

static pthread_t th;
static bool th_on;
static void on_helper(const char *c, int m)
{
    if (!th_on) { pthread_create(&th, NULL, helper, NULL); th_on = true; }
    pthread_mutex_lock(&mu);
    snprintf(job, sizeof(job), "%s", c);
    job_m = m;
    job_ready = true;
    job_done = false;
    pthread_cond_broadcast(&cv);
    while (!job_done) pthread_cond_wait(&cv, &mu);
    pthread_mutex_unlock(&mu);
}
static void stop_helper(void)
{
    if (!th_on) return;
    pthread_mutex_lock(&mu);
    job_quit = true;
    pthread_cond_broadcast(&cv);
    pthread_mutex_unlock(&mu);
    pthread_join(th, NULL);        /* its thread-local storage goes with it */
    th_on = false;
    job_quit = false;
}

int main(void)
{
    char line[256];
    for (int i = 0; i < 4; i++) mgrs[i].refcount = NULL;
    while (fgets(line, sizeof(line), stdin)) {
        char c[32] = "";
        int a = 0, b = 0;
        int n = sscanf(line, "%31s %d %d", c, &a, &b);
        if (n < 1) continue;
        if (!strcmp(c, "exec")) {
            stop_helper();
            if (probe) uprobe_release(probe);
            probe = uprobe_pthread_upump_mgr_alloc(NULL);
            assert(probe);
            printf("{\"e\":\"Reset\",\"id\":%d}\n", a);
        } else if (a == 0) run_cmd(c, 0, b);
        else on_helper(c, b);
    }
    stop_helper();
    if (probe) uprobe_release(probe);
    return 0;
}
